"""C01 - UDS request codec: real request classes (`.pdu`, `Class.from_pdu`, `UDSRequest.parse_dynamic`) against Model/UdsReq.lean (the
ISO 14229-1 layout oracle: `mk` = construction with range checks, `encode`, `decode`), and the bytes `UDSClient.<service method>()` /
`ECU.<helper>()` hand to the transport against Model/UdsClientApi.lean (`denote`: which request a method call stands for)."""
import asyncio
import importlib.util
import inspect
import json
from pathlib import Path

from common import VERIF, hx, setup_repo_import

ID = "C01"
GENS = ["c01_registry", "c01_api"]
PROOF = "Gallia.Proofs.C01"
DRIVER = "c01"
ORACLE = True
ASSUMPTIONS = [
    "struct.pack / int.to_bytes / int.from_bytes behave as documented (big-endian, OverflowError / struct.error when a value does not fit)",
    "a refusal is any exception raised by the constructor or by the first read of `.pdu` (the property only asks for 'an error rather than a wrong PDU'); the exception class is not compared",
    "base classes (SubFunctionRequest, SpecializedSubFunctionRequest, RoutineControlRequest, _ReadDTCType0/6Request, _RequestUpOrDownloadRequest, ...) are not requests a user is meant to construct",
    "arguments are of the annotated Python types (int / bytes / bool / None / sequences of int); duck-typed misuse is outside the model",
    "controlOptionRecord and controlEnableMaskRecord of InputOutputControlByIdentifier come back as their concatenation (no length field exists; documented in the code)",
    "Python's binding of positional / keyword arguments to parameter names is the documented one (the model binds by name; the harness passes the same values positionally, by keyword and with optional ones left out)",
    "the `config` parameter (timeout / retries / tags) does not influence which request is built: the AST translator drops it from signatures and call sites and the model has no counterpart",
    "ECU helpers are modelled up to the requests they build when every reply is positive: ping, read_session, set_session (hooks do nothing, no database transitions), read_dtc, clear_dtc, read_vin, refresh_state, transmit_data, leave_session; check_and_set_session, the tester-present worker and wait_for_ecu only through their regenerated call sites (callSites), not through a run",
]

_spec = importlib.util.spec_from_file_location("c01_registry", VERIF / "gen" / "c01_registry.py")
_reg = importlib.util.module_from_spec(_spec)
_spec.loader.exec_module(_reg)
KIND = _reg.KIND
CONV3 = ["ReturnControlToECURequest", "ResetToDefaultRequest", "FreezeCurrentStateRequest"]


# ------------------------------------------------------------------------------------------------------------------
# text forms shared with Driver/C01.lean
# ------------------------------------------------------------------------------------------------------------------
def b01(x):
    return "1" if x else "0"


def lst(xs):
    return ",".join(str(x) for x in xs) if xs else "-"


def optint(x):
    return "none" if x is None else str(x)


def mk_line(akind, p):
    """one `mk` line for the model driver"""
    t = {
        "dsc": lambda: [p[0], b01(p[1])],
        "ecuReset": lambda: [p[0], b01(p[1])],
        "requestSeed": lambda: [p[0], hx(p[1]), b01(p[2])],
        "sendKey": lambda: [p[0], hx(p[1]), b01(p[2])],
        "commCtrl": lambda: [p[0], p[1], b01(p[2])],
        "testerPresent": lambda: [b01(p[0])],
        "controlDTC": lambda: [p[0], hx(p[1]), b01(p[2])],
        "rdbi": lambda: [lst(p[0])],
        "rmba": lambda: [p[0], p[1], optint(p[2])],
        "defineById": lambda: [p[0], lst(p[1]), lst(p[2]), lst(p[3]), b01(p[4])],
        "defineByMem": lambda: [p[0], lst(p[1]), lst(p[2]), optint(p[3]), b01(p[4])],
        "clearDDDI": lambda: [optint(p[0]), b01(p[1])],
        "wdbi": lambda: [p[0], hx(p[1])],
        "wmba": lambda: [p[0], hx(p[1]), optint(p[2]), optint(p[3])],
        "clearDTC": lambda: [p[0]],
        "dtcByMask": lambda: [p[0], p[1], b01(p[2])],
        "dtcPlain": lambda: [p[0], b01(p[1])],
        "dtcExtByNumber": lambda: [p[0], p[1], b01(p[2])],
        "dtcExtByNumberB": lambda: [hx(p[0]), p[1], b01(p[2])],
        "iocbi": lambda: [p[0], hx(p[1]), hx(p[2])],
        "iocbiConv": lambda: [p[0], p[1], hx(p[2])],
        "iocbiShortTerm": lambda: [p[0], hx(p[1]), hx(p[2])],
        "routine": lambda: [p[0], p[1], hx(p[2]), b01(p[3])],
        "reqDownload": lambda: [p[0], p[1], p[2], p[3], optint(p[4])],
        "reqUpload": lambda: [p[0], p[1], p[2], p[3], optint(p[4])],
        "transferData": lambda: [p[0], hx(p[1])],
        "transferExit": lambda: [hx(p[0])],
        "raw": lambda: [hx(p[0])],
    }[akind]()
    return "mk " + akind + " " + " ".join(str(x) for x in t)


def canon(o):
    """canonical text of a real request object, same form as `showReq` in the driver"""
    name = type(o).__name__
    k = KIND.get(name)
    if k is None and name in CONV3 + ["ShortTermAdjustmentRequest"]:
        k = "iocbi"
    if k is None:
        return f"unknown-class {name}"
    sup = lambda: b01(o.suppress_response)  # noqa: E731
    if k == "dsc":
        return f"dsc {o.diagnostic_session_type} {sup()}"
    if k == "ecuReset":
        return f"ecuReset {o.reset_type} {sup()}"
    if k == "requestSeed":
        return f"requestSeed {o.security_access_type} {hx(o.security_access_data_record)} {sup()}"
    if k == "sendKey":
        return f"sendKey {o.security_access_type} {hx(o.security_key)} {sup()}"
    if k == "commCtrl":
        return f"commCtrl {o.control_type} {o.communication_type} {sup()}"
    if k == "testerPresent":
        return f"testerPresent {sup()}"
    if k == "controlDTC":
        return f"controlDTC {o.dtc_setting_type} {hx(o.dtc_setting_control_option_record)} {sup()}"
    if k == "rdbi":
        return f"rdbi {lst(o.data_identifiers)}"
    if k == "rmba":
        return f"rmba {o.memory_address} {o.memory_size} {o.address_and_length_format_identifier}"
    if k == "defineById":
        gs = [f"{a}:{b}:{c}" for a, b, c in zip(o.source_data_identifiers, o.positions_in_source_data_record, o.memory_sizes)]
        return f"defineById {o.dynamically_defined_data_identifier} {lst(gs)} {sup()}"
    if k == "defineByMem":
        gs = [f"{a}:{b}" for a, b in zip(o.memory_addresses, o.memory_sizes)]
        return f"defineByMem {o.dynamically_defined_data_identifier} {o.address_and_length_format_identifier} {lst(gs)} {sup()}"
    if k == "clearDDDI":
        return f"clearDDDI {optint(o.dynamically_defined_data_identifier)} {sup()}"
    if k == "wdbi":
        return f"wdbi {o.data_identifier} {hx(o.data_record)}"
    if k == "wmba":
        return f"wmba {o.memory_address} {o.memory_size} {o.address_and_length_format_identifier} {hx(o.data_record)}"
    if k == "clearDTC":
        return f"clearDTC {o.group_of_dtc}"
    if k == "dtcByMask":
        return f"dtcByMask {int(o.sub_function)} {o.dtc_status_mask} {sup()}"
    if k == "dtcPlain":
        return f"dtcPlain {int(o.sub_function)} {sup()}"
    if k == "dtcExtByNumber":
        return f"dtcExtByNumber {o.dtc_mask_record} {o.dtc_ext_data_record_number} {sup()}"
    if k == "iocbi":
        return f"iocbi {o.data_identifier} {hx(o.control_option_record)} {hx(o.control_enable_mask_record)}"
    if k == "routine":
        return f"routine {int(o.sub_function)} {o.routine_identifier} {hx(o.routine_control_option_record)} {sup()}"
    if k in ("reqDownload", "reqUpload"):
        return (f"{k} {o.memory_address} {o.memory_size} {o.compression_method} {o.encryption_method} "
                f"{o.address_and_length_format_identifier}")
    if k == "transferData":
        return f"transferData {o.block_sequence_counter} {hx(o.transfer_request_parameter_record)}"
    if k == "transferExit":
        return f"transferExit {hx(o.transfer_request_parameter_record)}"
    if k == "raw":
        return f"raw {hx(o.pdu)}"
    return f"unknown-kind {k}"


# ------------------------------------------------------------------------------------------------------------------
# the implementation side
# ------------------------------------------------------------------------------------------------------------------
class Impl:
    def __init__(self):
        from gallia.services.uds.core import service as S

        self.S = S
        self.by_sf = {}
        for cls in _reg.reachable(S):
            k = KIND.get(cls.__name__)
            sf = getattr(cls, "SUB_FUNCTION_ID", None)
            if k in ("dtcByMask", "dtcPlain", "routine") and sf is not None:
                self.by_sf[(k, int(sf))] = cls
        self.conv = {}
        for name in CONV3:
            c = getattr(S, name)
            self.conv[int(c(0).control_option_record[0])] = c

    def cls_for(self, akind, p):
        S = self.S
        if akind in ("dtcByMask", "dtcPlain", "routine"):
            return self.by_sf[(akind, p[0])]
        if akind == "iocbiConv":
            return self.conv[p[0]]
        return {
            "dsc": S.DiagnosticSessionControlRequest, "ecuReset": S.ECUResetRequest, "requestSeed": S.RequestSeedRequest,
            "sendKey": S.SendKeyRequest, "commCtrl": S.CommunicationControlRequest, "testerPresent": S.TesterPresentRequest,
            "controlDTC": S.ControlDTCSettingRequest, "rdbi": S.ReadDataByIdentifierRequest,
            "rmba": S.ReadMemoryByAddressRequest, "defineById": S.DefineByIdentifierRequest,
            "defineByMem": S.DefineByMemoryAddressRequest, "clearDDDI": S.ClearDynamicallyDefinedDataIdentifierRequest,
            "wdbi": S.WriteDataByIdentifierRequest, "wmba": S.WriteMemoryByAddressRequest,
            "clearDTC": S.ClearDiagnosticInformationRequest, "dtcExtByNumber": S.ReportDTCExtDataRecordByDTCNumberRequest,
            "dtcExtByNumberB": S.ReportDTCExtDataRecordByDTCNumberRequest, "iocbi": S.InputOutputControlByIdentifierRequest,
            "iocbiShortTerm": S.ShortTermAdjustmentRequest, "reqDownload": S.RequestDownloadRequest,
            "reqUpload": S.RequestUploadRequest, "transferData": S.TransferDataRequest,
            "transferExit": S.RequestTransferExitRequest, "raw": S.RawRequest,
        }[akind]

    def construct(self, akind, p, scalar=False):
        cls = self.cls_for(akind, p)
        if akind == "dtcByMask":
            return cls(p[1], p[2])
        if akind == "dtcPlain":
            # some trees carry an unused leading `dtc_status_mask` parameter on these classes
            if "dtc_status_mask" in inspect.signature(cls.__init__).parameters:
                return cls(0, suppress_response=p[1])
            return cls(suppress_response=p[1])
        if akind in ("routine", "iocbiConv"):
            return cls(*p[1:])
        if scalar and akind == "rdbi" and len(p[0]) == 1:
            return cls(p[0][0])
        if scalar and akind == "defineById" and len(p[1]) == len(p[2]) == len(p[3]) == 1:
            return cls(p[0], p[1][0], p[2][0], p[3][0], p[4])
        if scalar and akind == "defineByMem" and len(p[1]) == len(p[2]) == 1:
            return cls(p[0], p[1][0], p[2][0], p[3], p[4])
        return cls(*p)

    def run(self, akind, p, scalar=False):
        """-> dict(status, exc, cls, pdu, fields, rt_cls, rt_cls_pdu, dyn, dyn_pdu)"""
        S = self.S
        r = {"status": "err", "exc": None, "cls": None}
        try:
            try:
                cls = self.cls_for(akind, p)
            except KeyError:
                r["exc"] = "no-class-registered-for-sub-function"
                return r
            r["cls"] = cls.__name__
            o = self.construct(akind, p, scalar)
            pdu = o.pdu
            if not isinstance(pdu, (bytes, bytearray)):
                raise TypeError("pdu is not bytes")
        except Exception as e:  # noqa: BLE001
            r["exc"] = type(e).__name__
            return r
        r["status"] = "ok"
        r["pdu"] = bytes(pdu)
        r["fields"] = canon(o)
        try:
            o2 = type(o).from_pdu(bytes(pdu))
            r["rt_cls"] = canon(o2)
            r["rt_cls_pdu"] = bytes(o2.pdu)
        except Exception as e:  # noqa: BLE001
            r["rt_cls"] = "exc:" + type(e).__name__
            r["rt_cls_pdu"] = None
        r.update(self.dyn(bytes(pdu)))
        return r

    def dyn(self, b):
        try:
            d = self.S.UDSRequest.parse_dynamic(b)
            return {"dyn": canon(d), "dyn_pdu": bytes(d.pdu)}
        except Exception as e:  # noqa: BLE001
            return {"dyn": "exc:" + type(e).__name__, "dyn_pdu": None}


def definer(cls, attr):
    for c in cls.__mro__:
        if attr in c.__dict__:
            return c.__name__
    return cls.__name__


# ------------------------------------------------------------------------------------------------------------------
# generators
# ------------------------------------------------------------------------------------------------------------------
def ints(mx):
    return [("0", 0), ("1", 1), ("max-1", mx - 1), ("max", mx), ("max+1", mx + 1), ("-1", -1), ("2max+1", 2 * mx + 1)]


def rbytes(rng, n):
    return bytes(rng.randrange(256) for _ in range(n))


class Gen:
    def __init__(self, ctx):
        self.ctx = ctx
        self.rng = ctx.rng
        self.long = 4095
        self.ngroups = ctx.pick(40, 300)

    # field descriptors: (name, good(rng) -> value, edges [(label, value)])
    def f_int(self, name, mx, good=None):
        g = good or (lambda r: r.choice([0, 1, mx // 2, mx - 1, mx, r.randint(0, mx)]))
        return (name, g, ints(mx))

    def f_sup(self):
        return ("suppress", lambda r: r.random() < 0.5, [("0", False), ("1", True)])

    def f_bytes(self, name, may_empty=True):
        def g(r):
            return rbytes(r, r.choice([1, 1, 2, 3, 8, r.randint(1, 40)]))
        return (name, g, [("empty", b""), ("1", b"\x00"), ("1b", b"\xff"), ("2", b"\x80\x7f"), ("long", rbytes(self.rng, self.long))])

    def f_list(self, name, mx):
        def g(r):
            return [r.choice([0, 1, mx - 1, mx, r.randint(0, mx)]) for _ in range(r.choice([1, 1, 2, 3, 5]))]
        big = [self.rng.randint(0, mx) for _ in range(self.ngroups)]
        return (name, g, [("empty", []), ("one", [mx]), ("two", [0, mx]), ("elem-max+1", [1, mx + 1]), ("elem--1", [-1]), ("many", big)])

    def spec(self):
        I, SUP, B, L = self.f_int, self.f_sup, self.f_bytes, self.f_list
        odd = lambda r: r.choice([1, 3, 0x11, 0x7D, 0x7F])  # noqa: E731
        even = lambda r: r.choice([0, 2, 4, 0x12, 0x7C, 0x7E])  # noqa: E731
        return {
            "dsc": [I("diagnosticSessionType", 0x7F), SUP()],
            "ecuReset": [I("resetType", 0x7F), SUP()],
            "requestSeed": [("securityAccessType", odd, ints(0x7F) + [("even", 2), ("0x7d", 0x7D), ("0x81", 0x81)]),
                            B("securityAccessDataRecord"), SUP()],
            "sendKey": [("securityAccessType", even, ints(0x7F) + [("odd", 3), ("0x7e", 0x7E), ("0x80", 0x80)]), B("securityKey"), SUP()],
            "commCtrl": [I("controlType", 0x7F), I("communicationType", 0xFF), SUP()],
            "testerPresent": [SUP()],
            "controlDTC": [I("DTCSettingType", 0x7F), B("DTCSettingControlOptionRecord"), SUP()],
            "wdbi": [I("dataIdentifier", 0xFFFF), B("dataRecord")],
            "clearDTC": [I("groupOfDTC", 0xFFFFFF)],
            "dtcExtByNumber": [I("DTCMaskRecord", 0xFFFFFF), I("DTCExtDataRecordNumber", 0xFF), SUP()],
            "dtcExtByNumberB": [("DTCMaskRecord", lambda r: rbytes(r, 3), [("empty", b""), ("2", b"\x00\x01"), ("3", b"\xff\xff\xff"), ("4", b"\x00\x00\x00\x01")]),
                                I("DTCExtDataRecordNumber", 0xFF), SUP()],
            "iocbi": [I("dataIdentifier", 0xFFFF), B("controlOptionRecord"), B("controlEnableMaskRecord")],
            "iocbiShortTerm": [I("dataIdentifier", 0xFFFF), B("controlState"), B("controlEnableMaskRecord")],
            "transferData": [I("blockSequenceCounter", 0xFF), B("transferRequestParameterRecord")],
            "transferExit": [B("transferRequestParameterRecord")],
            "rdbi": [L("dataIdentifier", 0xFFFF)],
            "clearDDDI": [("dynamicallyDefinedDataIdentifier", lambda r: r.choice([None, 0xF300, r.randint(0, 0xFFFF)]),
                           [("none", None)] + ints(0xFFFF)), SUP()],
        }

    def star(self, akind, fields, prefix=()):
        """base case + every edge of every field (one field moved at a time), then random mixes"""
        rng = self.rng
        out = []
        for rep in range(self.ctx.pick(3, 12)):
            base = [g(rng) for _, g, _ in fields]
            out.append((akind, list(prefix) + base, "base"))
            for i, (name, _, edges) in enumerate(fields):
                for label, v in edges:
                    p = list(base)
                    p[i] = v
                    out.append((akind, list(prefix) + p, f"{name}={label}"))
        for _ in range(self.ctx.pick(150, 2500)):
            p = []
            for name, g, edges in fields:
                p.append(g(rng) if rng.random() < 0.8 else rng.choice(edges)[1])
            out.append((akind, list(prefix) + p, "mixed"))
        return out

    def mem_triples(self):
        """(addr, size, alfid|None, label): widths 1..15 explicit and computed, overflow and malformed formats"""
        rng = self.rng
        out = []
        for al in range(1, 16):
            for sl in range(1, 16):
                f = (sl << 4) | al
                out.append((256 ** al - 1, 256 ** sl - 1, f, "explicit-max"))
                out.append((256 ** (al - 1) if al > 1 else rng.choice([0, 1, 255]), 256 ** (sl - 1) if sl > 1 else rng.choice([0, 1, 255]), None, "computed"))
                if (al + sl) % 3 == 0:
                    out.append((256 ** al, 1, f, "addr-overflow"))
                    out.append((1, 256 ** sl, f, "size-overflow"))
                    out.append((rng.randrange(256 ** al), rng.randrange(256 ** sl), f, "explicit-random"))
                    out.append((rng.randrange(256 ** al), rng.randrange(256 ** sl), None, "computed-random"))
        for f, lab in [(0x00, "alfid=00"), (0x01, "alfid=01"), (0x10, "alfid=10"), (0x100, "alfid=100"), (-1, "alfid=-1"), (0x111, "alfid=111"), (0xFF, "alfid=ff")]:
            out.append((1, 1, f, lab))
        out += [(-1, 1, None, "addr=-1"), (1, -1, None, "size=-1"), (-1, 1, 0x11, "addr=-1"), (1, -1, 0x11, "size=-1"),
                (256 ** 15, 1, None, "addr=256^15"), (1, 256 ** 15, None, "size=256^15"), (256 ** 15 - 1, 256 ** 15 - 1, None, "both=256^15-1"),
                (0, 0, None, "zero"), (0, 0, 0x11, "zero"), (0, 0, 0xFF, "zero-wide")]
        return out

    def cases(self):
        rng = self.rng
        sp = self.spec()
        out = []
        for akind, fields in sp.items():
            out += self.star(akind, fields)
        for sf in (1, 2, 0x0F, 0x11, 0x12, 0x13):
            out += self.star("dtcByMask", [self.f_int("DTCStatusMask", 0xFF), self.f_sup()], prefix=(sf,))
        for sf in (0x0A, 0x0B, 0x0C, 0x0D, 0x0E, 0x15):
            out += [("dtcPlain", [sf, s], "base") for s in (False, True)]
        for sf in (1, 2, 3):
            out += self.star("routine", [self.f_int("routineIdentifier", 0xFFFF), self.f_bytes("routineControlOptionRecord"), self.f_sup()], prefix=(sf,))
        for param in (0, 1, 2):
            out += self.star("iocbiConv", [self.f_int("dataIdentifier", 0xFFFF), self.f_bytes("controlEnableMaskRecord")], prefix=(param,))
        # memory-style requests
        for a, s, f, lab in self.mem_triples():
            out.append(("rmba", [a, s, f], lab))
            rec = rbytes(rng, rng.choice([1, 2, 5]))
            out.append(("wmba", [a, rec, s, f], lab))
            out.append(("reqDownload", [a, s, rng.randrange(16), rng.randrange(16), f], lab))
            out.append(("reqUpload", [a, s, rng.randrange(16), rng.randrange(16), f], lab))
            out.append(("defineByMem", [rng.randint(0, 0xFFFF), [a], [s], f, rng.random() < 0.5], lab))
        for lab, rec in [("empty", b""), ("1", b"\x01"), ("long", rbytes(rng, self.long))]:
            out.append(("wmba", [0x1000, rec, None, None], "dataRecord=" + lab))
            out.append(("wmba", [0x1000, rec, None, 0x24], "dataRecord=" + lab))
            out.append(("wmba", [0x1000, rec, 7, None], "dataRecord=" + lab))
        for lab, v in ints(0xF):
            out.append(("reqDownload", [0x1000, 0x10, v, 1, None], "compressionMethod=" + lab))
            out.append(("reqUpload", [0x1000, 0x10, 1, v, 0x22], "encryptionMethod=" + lab))
        # DynamicallyDefineDataIdentifier groups
        ns = [0, 1, 2, 3, self.ngroups]
        for n in ns:
            for sup in (False, True):
                srcs = [rng.choice([0, 0xFFFF, rng.randint(0, 0xFFFF)]) for _ in range(n)]
                poss = [rng.choice([0, 1, 0xFF, rng.randint(0, 0xFF)]) for _ in range(n)]
                sizes = [rng.choice([0, 1, 0xFF, rng.randint(0, 0xFF)]) for _ in range(n)]
                out.append(("defineById", [rng.choice([0, 0xF300, 0xFFFF]), srcs, poss, sizes, sup], f"groups={n}"))
                al, sl = rng.randint(1, 15), rng.randint(1, 15)
                addrs = [rng.randrange(256 ** al) for _ in range(n)]
                szs = [rng.randrange(256 ** sl) for _ in range(n)]
                out.append(("defineByMem", [0xF301, addrs, szs, (sl << 4) | al, sup], f"groups={n}"))
                out.append(("defineByMem", [0xF301, addrs, szs, None, sup], f"groups={n}-computed"))
        for lab, v in ints(0xFFFF):
            out.append(("defineById", [v, [1], [2], [3], False], "dynamicallyDefinedDataIdentifier=" + lab))
            out.append(("defineById", [0xF300, [v], [2], [3], False], "sourceDataIdentifier=" + lab))
            out.append(("defineByMem", [v, [1], [2], None, False], "dynamicallyDefinedDataIdentifier=" + lab))
        for lab, v in ints(0xFF):
            out.append(("defineById", [0xF300, [1], [v], [3], False], "positionInSourceDataRecord=" + lab))
            out.append(("defineById", [0xF300, [1], [2], [v], True], "memorySize=" + lab))
        out.append(("defineById", [0xF300, [1, 2], [1], [1, 2], False], "length-mismatch"))
        out.append(("defineById", [0xF300, [1, 2], [1, 2], [1], False], "length-mismatch"))
        out.append(("defineByMem", [0xF300, [1, 2], [1], None, False], "length-mismatch"))
        out.append(("defineByMem", [0xF300, [1, 0x10000], [0x100, 1], None, False], "computed-mixed-widths"))
        out.append(("defineByMem", [0xF300, [0x10000, 1], [1, 0x100], None, False], "computed-mixed-widths"))
        out.append(("defineByMem", [0xF300, [1, 0x1000000, 0x100], [0x100, 0x10000, 1], None, True], "computed-mixed-widths"))
        for _ in range(self.ctx.pick(40, 400)):
            n = rng.randint(2, 5)
            aw = [rng.randint(1, 15) for _ in range(n)]
            sw = [rng.randint(1, 15) for _ in range(n)]
            addrs = [rng.randrange(256 ** (w - 1), 256 ** w) for w in aw]
            szs = [rng.randrange(256 ** (w - 1), 256 ** w) for w in sw]
            out.append(("defineByMem", [rng.randint(0, 0xFFFF), addrs, szs, None, rng.random() < 0.5], "computed-mixed-widths"))
            f = (rng.randint(1, 15) << 4) | rng.randint(1, 15)
            out.append(("defineByMem", [rng.randint(0, 0xFFFF), addrs, szs, f, rng.random() < 0.5], "explicit-mixed-widths"))
        out.append(("defineByMem", [0xF300, [1, 0x10000], [0x100, 1], 0x11, False], "explicit-too-narrow"))
        for _ in range(self.ctx.pick(20, 200)):
            out.append(("raw", [rbytes(rng, rng.choice([0, 1, 2, 3, 8, 64]))], "raw"))
        return out


# ------------------------------------------------------------------------------------------------------------------
# client glue: UDSClient.<method>(...) / ECU.<helper>(...) -> bytes handed to the transport.
# WHICH request a call denotes (argument order, defaults of left-out arguments, the sub-function a convenience method fixes, the
# identifiers the ECU helpers name) is the Lean `denote` of Model/UdsClientApi.lean (driver command `call`); the harness only knows
# how to spell a value.  Parameter names / defaults / generator type hints come from the model (`sig`).
# ------------------------------------------------------------------------------------------------------------------
INFRA = {"connect", "reconnect", "reconnect_unsafe", "request", "request_unsafe"}
OMIT = "<omitted>"  # marker inside argument lists: the optional argument is left out


class _Captured(Exception):
    pass


class _Transport:
    def __init__(self):
        self.sent = []

    async def request_unsafe(self, data, timeout=None, tags=None):
        self.sent.append(bytes(data))
        raise _Captured()

    async def write(self, data, timeout=None, tags=None):
        self.sent.append(bytes(data))
        return len(data)

    async def read(self, timeout=None, tags=None):
        raise TimeoutError()


class _Responder(_Transport):
    """answers every request with the shortest positive response that matches it (ECU helpers look at the reply)"""

    async def request_unsafe(self, data, timeout=None, tags=None):
        d = bytes(data)
        self.sent.append(d)
        sid = d[0] if d else 0
        if sid == 0x10:
            return bytes([0x50, d[1] & 0x7F, 0x00, 0x32, 0x01, 0xF4])
        if sid in (0x11, 0x3E):
            return bytes([sid + 0x40, d[1] & 0x7F])
        if sid == 0x22:
            return bytes([0x62]) + d[1:3] + b"\x01"
        if sid == 0x19:
            return bytes([0x59, d[1] & 0x7F, 0xFF])
        if sid == 0x36:
            return bytes([0x76, d[1]])
        return bytes([(sid + 0x40) & 0xFF])

    async def reconnect(self, timeout=None):
        return self


class Api:
    """the model's view of the API (driver commands `methods` / `sig`)"""

    def __init__(self, ctx):
        line = ctx.lean(["methods"])[0]
        if " | " not in line:
            raise RuntimeError("driver: methods -> " + line[:100])
        c, e = line.split(" | ")
        self.client, self.ecu = c.split(), e.split()
        names = self.client + self.ecu + ["transmit_data", "leave_session", "_tester_present"]
        self.sig = {}
        self._lim = {}
        for n, out in zip(names, ctx.lean(["sig " + n for n in names])):
            ps = []
            if out != "-":
                for item in out.split(" "):
                    name, dflt, ty = item.split("|")
                    ps.append((name, dflt, ty))
            self.sig[n] = ps

    def load_ctors(self, ctx):
        """method -> (request class name, [(constructor parameter, method parameter)]) of its construction site"""
        self.ctor = {}
        for n, out in zip(self.client, ctx.lean(["ctor " + n for n in self.client])):
            if out == "-" or out == "unknown-method":
                continue
            cls, *items = out.split(" ")
            pairs = [tuple(x.split("=", 1)) for x in items]
            if all(not b.startswith(("const:", "expr")) for _, b in pairs):
                self.ctor[n] = (cls, pairs)

    def pos_limit(self, meth):
        """number of parameters that can be passed positionally: those in front of `config` in the live signature"""
        if meth not in self._lim:
            import inspect as I

            from gallia.services.uds.ecu import ECU

            names = [n for n in I.signature(getattr(ECU, meth)).parameters if n != "self"] if hasattr(ECU, meth) else []
            self._lim[meth] = names.index("config") if "config" in names else len(names)
        return self._lim[meth]

    def optional(self, meth):
        return [i for i, (_, d, _) in enumerate(self.sig[meth]) if d != "req"]


def default_value(tokn):
    """the value a default token of a `sig` line stands for"""
    if tokn == "none":
        return None
    kind, _, v = tokn.partition(":")
    return {"bool": lambda: v == "1", "int": lambda: int(v), "bytes": lambda: bytes.fromhex(v) if v != "-" else b""}[kind]()


_API = None  # the Api of the current run (shrinking un-omits arguments with the model's defaults)


def tok(v, ty):
    """one argument of a `call` line"""
    if is_omit(v):
        return "_"
    if v is None:
        return "none"
    if isinstance(v, bool):
        return b01(v)
    if isinstance(v, (bytes, bytearray)):
        return ("h:" if ty == "boi24" else "") + hx(v)
    if isinstance(v, list):
        return lst(v)
    if ty.startswith("il"):
        return f"s:{v}"
    return str(v)


def call_line(api, meth, args):
    tys = [t for _, _, t in api.sig[meth]]
    return " ".join(["call", meth] + [tok(v, t) for v, t in zip(args, tys)])


def py_call(api, meth, args, spelling):
    """(positional, keyword) arguments of the real call: an omitted argument is absent, everything behind it goes by keyword;
    spelling `keyword` passes every argument by the name the model gives the parameter"""
    names = [n for n, _, _ in api.sig[meth]]
    pos, kw = [], {}
    by_kw = spelling == "keyword"
    lim = api.pos_limit(meth)
    for i, (n, v) in enumerate(zip(names, args)):
        if is_omit(v):
            by_kw = True
        elif by_kw or i >= lim:
            kw[n] = v
        else:
            pos.append(v)
    return pos, kw


def client_call(loop, meth, pos, kw, cls=None, transport=None):
    from gallia.services.uds.core.client import UDSClient

    t = (transport or _Transport)()
    c = (cls or UDSClient)(t, timeout=1.0, max_retry=0)
    try:
        loop.run_until_complete(getattr(c, meth)(*pos, **kw))
    except _Captured:
        pass
    except Exception as e:  # noqa: BLE001
        if not t.sent:
            return "err", type(e).__name__
    if len(t.sent) != 1:
        return "sent", ",".join(hx(x) for x in t.sent) or "nothing"
    return "sent", hx(t.sent[0])


def ecu_call(meth, pos, kw):
    """run an ECU helper against the positive responder under virtual time -> ("err", exception) | ("sent", pdus comma separated)"""
    from vloop import vrun

    from gallia.services.uds.ecu import ECU

    t = _Responder()
    e = ECU(t, timeout=1.0, max_retry=0)
    try:
        vrun(getattr(e, meth)(*pos, **kw), horizon=600.0)
    except Exception as ex:  # noqa: BLE001
        if not t.sent:
            return "err", type(ex).__name__
        # what happens after the request is on the wire (reply parsing, state tracking) is not this property's business
    return "sent", ",".join(hx(x) for x in t.sent) or "nothing"


# ---- argument generators, driven by the type hints of the model's signatures
class ArgGen:
    def __init__(self, ctx, gen):
        self.ctx, self.rng, self.g = ctx, ctx.rng, gen

    def field(self, name, ty):
        """(name, good(rng) -> value, edges [(label, value)])"""
        g, r = self.g, self.rng
        if ty == "bool":
            return (name, lambda q: q.random() < 0.5, [("0", False), ("1", True)])
        if ty in ("i7", "i8", "i16", "i24", "i4"):
            return g.f_int(name, {"i7": 0x7F, "i8": 0xFF, "i16": 0xFFFF, "i24": 0xFFFFFF, "i4": 0xF}[ty])
        if ty == "i7odd":
            return (name, lambda q: q.choice([1, 3, 0x11, 0x7D, 0x7F]), ints(0x7F) + [("even", 2), ("0x7d", 0x7D), ("0x81", 0x81)])
        if ty == "i7even":
            return (name, lambda q: q.choice([0, 2, 4, 0x12, 0x7C, 0x7E]), ints(0x7F) + [("odd", 3), ("0x7e", 0x7E), ("0x80", 0x80)])
        if ty in ("b", "b1"):
            return g.f_bytes(name)
        if ty == "oi16":
            return (name, lambda q: q.choice([None, 0xF300, q.randint(0, 0xFFFF)]), [("none", None)] + ints(0xFFFF))
        if ty == "boi24":
            return (name, lambda q: q.choice([q.randint(0, 0xFFFFFF), rbytes(q, 3)]),
                    ints(0xFFFFFF) + [("bytes-empty", b""), ("bytes-2", b"\x00\x01"), ("bytes-3", b"\xff\xff\xff"), ("bytes-4", b"\x00\x00\x00\x01")])
        if ty in ("il16", "il8"):
            mx = 0xFFFF if ty == "il16" else 0xFF
            n, gd, edges = g.f_list(name, mx)
            return (n, lambda q: gd(q) if q.random() < 0.7 else q.choice([0, 1, mx]),
                    edges + [("scalar-0", 0), ("scalar-max", mx), ("scalar-max+1", mx + 1), ("scalar--1", -1)])
        if ty == "addr":
            return (name, lambda q: q.choice([0, 0x10, 0x1000, 0xFFFFFFFF, q.randrange(256 ** q.randint(1, 8))]),
                    [("0", 0), ("-1", -1), ("255", 255), ("256", 256), ("256^15-1", 256 ** 15 - 1), ("256^15", 256 ** 15)])
        if ty == "size":
            return (name, lambda q: q.choice([0, 1, 0x20, 0xFFFF, q.randrange(256 ** q.randint(1, 4))]),
                    [("0", 0), ("-1", -1), ("255", 255), ("256", 256), ("256^15-1", 256 ** 15 - 1), ("256^15", 256 ** 15)])
        if ty == "osize":
            return (name, lambda q: q.choice([None, None, 0, 1, 2, 0x100]), [("none", None), ("0", 0), ("1", 1), ("-1", -1), ("256^15", 256 ** 15)])
        if ty == "alfid":
            return (name, lambda q: q.choice([None, None, 0x44, 0x88, 0xFF]),
                    [("none", None), ("00", 0), ("01", 1), ("10", 0x10), ("11", 0x11), ("ff", 0xFF), ("100", 0x100), ("-1", -1)])
        if ty in ("iladdr", "ilsize"):
            def gd(q):
                k = q.choice([1, 1, 2, 3])
                return [q.randrange(256 ** q.randint(1, 4)) for _ in range(k)] if q.random() < 0.7 else q.randrange(256 ** 2)
            return (name, gd, [("empty", []), ("one", [1]), ("scalar", 0x1234), ("scalar--1", -1), ("elem--1", [-1]), ("wide", [256 ** 15 - 1]), ("too-wide", [256 ** 15])])
        raise RuntimeError(f"no generator for parameter type {ty}")

    def cases(self, api, meth):
        """[(args, label)]: base + every edge of every parameter (one moved at a time) + random mixes + the address/size/format sweep"""
        fields = [self.field(n, ty) for n, _, ty in api.sig[meth]]
        rng = self.rng
        out = []
        if not fields:
            return [([], "base")]
        for _ in range(self.ctx.pick(2, 8)):
            base = [g(rng) for _, g, _ in fields]
            out.append((base, "base"))
            for i, (name, _, edges) in enumerate(fields):
                for label, v in edges:
                    p = list(base)
                    p[i] = v
                    out.append((p, f"{name}={label}"))
        for _ in range(self.ctx.pick(12, 300)):
            out.append(([g(rng) if rng.random() < 0.8 else rng.choice(edges)[1] for _, g, edges in fields], "mixed"))
        tys = [ty for _, _, ty in api.sig[meth]]
        # small integer domains exhaustively (every sub-function / mask / counter / method nibble), for each setting of the flags
        small = {"i7": 128, "i7odd": 128, "i7even": 128, "i8": 256, "i4": 16}
        bools = [i for i, ty in enumerate(tys) if ty == "bool"]
        for i, ty in enumerate(tys):
            if ty in small:
                base = [g(rng) for _, g, _ in fields]
                for flags in range(1 << len(bools)):
                    for j, bi in enumerate(bools):
                        base[bi] = bool(flags >> j & 1)
                    for v in range(small[ty]):
                        p = list(base)
                        p[i] = v
                        out.append((p, f"{fields[i][0]}=all"))
        if "alfid" in tys:
            trip = self.g.mem_triples()
            if self.ctx.quick and not self.ctx.widened:
                trip = [t for i, t in enumerate(trip) if i % 4 == (len(meth) % 4) or not t[3].startswith(("explicit", "computed"))]
            for a, s, f, lab in trip:
                p = [g(rng) for _, g, _ in fields]
                for i, ty in enumerate(tys):
                    if ty == "addr":
                        p[i] = a
                    elif ty in ("size", "osize"):
                        p[i] = s
                    elif ty == "iladdr":
                        p[i] = [a]
                    elif ty == "ilsize":
                        p[i] = [s]
                    elif ty == "alfid":
                        p[i] = f
                out.append((p, "mem:" + lab))
        return out


def spellings(api, meth, args, idx, rng, exhaustive):
    """the ways one tuple of argument values is passed: all positional; optional ones left out (each subset when `exhaustive`, else
    one random non-empty subset); all by keyword (every third case)"""
    out = [(list(args), "positional")]
    opt = api.optional(meth)
    if opt:
        if exhaustive:
            subsets = [[i for j, i in enumerate(opt) if m >> j & 1] for m in range(1, 1 << len(opt))]
        else:
            subsets = [[i for i in opt if rng.random() < 0.6] or [rng.choice(opt)]]
        for sub in subsets:
            a = list(args)
            for i in sub:
                a[i] = OMIT
            out.append((a, "positional"))
    if args and (exhaustive or idx % 3 == 0):
        out.append((list(args), "keyword"))
        if opt:
            a = list(args)
            a[rng.choice(opt)] = OMIT
            out.append((a, "keyword"))
    return out


# ------------------------------------------------------------------------------------------------------------------
def size_of(p):
    n = 0
    for x in p:
        if isinstance(x, bool) or x is None:
            n += 1
        elif isinstance(x, int):
            n += 1 + abs(x).bit_length()
        elif isinstance(x, (bytes, bytearray)):
            n += 2 + 8 * len(x)
        elif isinstance(x, list):
            n += 4 + size_of(x)
    return n


def jparams_kw(d):
    return {k: ({"hex": x.hex()} if isinstance(x, (bytes, bytearray)) else x) for k, x in d.items()}


def jparams(p):
    return [({"hex": x.hex()} if isinstance(x, (bytes, bytearray)) else x) for x in p]


def unj(p):
    return [(bytes.fromhex(x["hex"]) if isinstance(x, dict) else (OMIT if is_omit(x) else x)) for x in p]


def is_omit(v):
    return isinstance(v, str) and v == OMIT


class Findings:
    """collects failing cases per provisional key (category:site[:detail]) and varied-field label, keeps the smallest of
    each, minimises it (fixed shrink order) against model + implementation and keys the result on the minimised case"""

    def __init__(self):
        self.best = {}

    def add(self, key, what, case, impl, model, site, spec=True):
        sz = (case.get("_size", 0), json.dumps(case, sort_keys=True, default=str))
        slot = (key, case.get("varied", ""))
        cur = self.best.get(slot)
        if cur is None or sz < cur[0]:
            self.best[slot] = (sz, what, case, impl, model, site, spec)

    def keys(self):
        return {k for k, _ in self.best}

    def flush(self, ctx, evaluate=None):
        """evaluate(cases) -> list[Findings-like dict pkey -> entry] re-runs cases; used for shrinking"""
        done = {}
        slots = sorted(self.best, key=lambda s: (s[0], self.best[s][0]))
        per_key = {}
        for slot in slots:
            per_key.setdefault(slot[0], []).append(slot)
        budget = 40
        for pkey in sorted(per_key):
            for slot in per_key[pkey][: (3 if budget > 0 else 1)]:
                entry = self.best[slot]
                if evaluate is not None and budget > 0 and entry[2].get("direction") in ("object->bytes", "bytes->object", "client", "ctor"):
                    budget -= 1
                    entry = shrink(entry, pkey, evaluate)
                _, what, case, impl, model, site, spec = entry
                case = {k: v for k, v in case.items() if k not in ("_size", "varied")}
                fkey = pkey + ":" + case_text(case)
                if fkey not in done:
                    done[fkey] = True
                    ctx.disagree(fkey, what, case, impl=impl, model=model, spec_violated=spec, site=site)


def case_text(case):
    d = case.get("direction")
    if d == "bytes->object":
        return case["pdu"]
    if d == "client":
        return case.get("spelling", "positional") + " " + " ".join(
            "_" if is_omit(a) else (a.hex() or "-") if isinstance(a, bytes) else str(a).replace(" ", "") for a in unj(case["args"]))
    if d == "ctor":
        return " ".join("_" if is_omit(a) else (a.hex() or "-") if isinstance(a, bytes) else str(a).replace(" ", "") for a in unj(case["args"]))
    if d == "transmit":
        return f"{case['data_len']}:{case['block_length']}:{case['max_block_length']}:{case.get('spelling', 'positional')}"
    if d == "object->bytes":
        return mk_line(case["kind"], unj(case["params"]))[3:]
    return case.get("method", "")


def simpler(v):
    """strictly simpler candidate values, fixed order"""
    if isinstance(v, bool):
        return [False] if v else []
    if v is None:
        return []
    if isinstance(v, int):
        if v > 0:
            c = [0, 1] + [1 << i for i in range(v.bit_length() - 1, 0, -1)] + [v // 2]
            c += [v & ~(1 << i) for i in range(v.bit_length() - 1, -1, -1)] + [v - 1]
        else:
            c = [-1] if v < -1 else []
        return [x for i, x in enumerate(c) if abs(x) < abs(v) and x not in c[:i]]
    if isinstance(v, (bytes, bytearray)):
        v = bytes(v)
        c = [b"", v[:1], v[: len(v) // 2], v[:-1], bytes(len(v))]
        if len(v) <= 4:
            for i in range(len(v)):
                for e in (0, 1):
                    if v[i] > e:
                        c.append(v[:i] + bytes([e]) + v[i + 1:])
        return [x for i, x in enumerate(c) if x != v and len(x) <= len(v) and x not in c[:i]]
    if isinstance(v, list):
        c = [[], v[:1], v[: len(v) // 2], v[:-1]]
        if len(v) <= 4:
            for i, e in enumerate(v):
                for e2 in simpler(e):
                    c.append(v[:i] + [e2] + v[i + 1:])
        return [x for i, x in enumerate(c) if x != v and x not in c[:i]]
    return []


def shrink(entry, pkey, evaluate, rounds=120):
    """greedy minimisation: move one parameter at a time to a simpler value while the same provisional key fails"""
    for _ in range(rounds):
        case = entry[2]
        d = case["direction"]
        cands = []
        if d == "bytes->object":
            b = bytes.fromhex(case["pdu"]) if case["pdu"] != "-" else b""
            seen = set()
            for i in range(len(b) - 1, 0, -1):
                alts = [b[:i] + b[i + 1:], b[:i] + b"\x00" + b[i + 1:]]
                if len(b) <= 12:
                    alts += [b[:i] + bytes([x]) + b[i + 1:] for x in simpler(b[i])]
                for q in alts:
                    if q != b and q not in seen and (len(q), q) < (len(b), b):
                        seen.add(q)
                        cands.append({"direction": d, "pdu": hx(q), "_size": 8 * len(q)})
        else:
            field = "params" if d == "object->bytes" else "args"
            p = unj(case[field])
            if d in ("client", "ctor") and _API is not None:
                # first spell out left-out arguments (fewest omissions that still fail), then pass positionally
                for i, a in enumerate(p):
                    if is_omit(a):
                        q = list(p)
                        q[i] = default_value(_API.sig[case["method"]][i][1])
                        c2 = dict(case)
                        c2[field] = jparams(q)
                        c2["_size"] = size_of(q)
                        cands.append(c2)
                if case.get("spelling") == "keyword":
                    c2 = dict(case)
                    c2["spelling"] = "positional"
                    cands.append(c2)
            skip = 0
            if d == "object->bytes" and case["kind"] in ("dtcByMask", "dtcPlain", "routine", "iocbiConv"):
                skip = 1
            for i in range(skip, len(p)):
                for v in simpler(p[i]):
                    q = list(p)
                    q[i] = v
                    c2 = dict(case)
                    c2[field] = jparams(q)
                    c2["_size"] = size_of(q)
                    cands.append(c2)
            # parallel lists shrink together
            if d == "object->bytes" and case["kind"] in ("defineById", "defineByMem") or d == "client" and case["method"] in ("define_by_identifier", "define_by_memory_address"):
                idx = [i for i in range(len(p)) if isinstance(p[i], list)]
                n = min((len(p[i]) for i in idx), default=0)
                for m in sorted({0, 1, n // 2, n - 1}):
                    if 0 <= m < n:
                        q = list(p)
                        for i in idx:
                            q[i] = p[i][:m]
                        c2 = dict(case)
                        c2[field] = jparams(q)
                        c2["_size"] = size_of(q)
                        cands.insert(0, c2)
        if not cands:
            return entry
        res = evaluate(cands)
        nxt = None
        for c2, f in zip(cands, res):
            hit = [e for (k, _), e in f.best.items() if k == pkey]
            if hit:
                nxt = hit[0]
                break
        if nxt is None:
            return entry
        entry = nxt
    return entry


def first_diff(a: bytes, b: bytes):
    for i in range(min(len(a), len(b))):
        if a[i] != b[i]:
            return f"byte{i}"
    return "shorter" if len(a) < len(b) else "longer"


def compare_object_case(impl, F, akind, p, label, r, m_mk, m_dec):
    """r: implementation result; m_mk: model `mk` line; m_dec: {hex: model `dec` line}"""
    cls = r["cls"]
    S = impl.S
    case = {"direction": "object->bytes", "kind": akind, "class": cls, "params": jparams(p), "varied": label, "_size": size_of(p)}
    real = getattr(S, cls) if cls else None
    if m_mk == "err":
        if r["status"] == "ok":
            F.add(f"accepted-out-of-range:{definer(real, '__init__')}",
                  f"{cls}({p!r:.120}) is outside the documented range (oracle refuses) but is encoded to {r['pdu'].hex()[:60]}",
                  case, impl={"pdu": hx(r["pdu"]), "fields": r["fields"], "parse_dynamic": r["dyn"]}, model="refused", site=f"{cls}.__init__")
        return
    _, m_hex, m_repr = m_mk.split(" ", 2)
    if r["status"] != "ok":
        F.add(f"refused-valid:{definer(real, 'pdu') if real else akind}:{r['exc']}",
              f"{cls or akind}({p!r:.120}) is in range (oracle: {m_hex[:60]}) but construction / .pdu raises {r['exc']}",
              case, impl="exc:" + str(r["exc"]), model={"pdu": m_hex, "request": m_repr}, site=f"{cls}.pdu")
        return
    if hx(r["pdu"]) != m_hex:
        F.add(f"layout:{definer(real, 'pdu')}:{first_diff(r['pdu'], bytes.fromhex(m_hex) if m_hex != '-' else b'')}",
              f"{cls}({p!r:.120}).pdu = {hx(r['pdu'])[:60]} but the ISO layout is {m_hex[:60]}",
              case, impl={"pdu": hx(r["pdu"])}, model={"pdu": m_hex, "request": m_repr}, site=f"{cls}.pdu")
        return
    if r["fields"] != m_repr:
        F.add(f"fields:{definer(real, '__init__')}", f"{cls}({p!r:.120}) exposes {r['fields'][:80]} but the oracle builds {m_repr[:80]}",
              case, impl=r["fields"], model=m_repr, site=f"{cls}.__init__")
        return
    if akind == "raw":
        return
    # parse back: dynamic parser
    dec_repr, dec_hex = m_dec[m_hex].rsplit(" | ", 1)
    if r["dyn"] != dec_repr or hx(r["dyn_pdu"] or b"") != dec_hex:
        cat = "degraded-to-raw" if r["dyn"].startswith("raw ") else "parse-dynamic"
        F.add(f"{cat}:{definer(real, '_from_pdu')}",
              f"parse_dynamic({m_hex[:60]}) = {r['dyn'][:80]}, expected {dec_repr[:80]}",
              case, impl={"request": r["dyn"], "pdu": hx(r["dyn_pdu"] or b"")}, model={"request": dec_repr, "pdu": dec_hex},
              site="UDSRequest.parse_dynamic / " + cls + "._from_pdu")
        return
    # parse back: the class's own from_pdu
    want = r["fields"] if cls in CONV3 else dec_repr
    if r["rt_cls"] != want or r["rt_cls_pdu"] != r["pdu"]:
        F.add(f"from-pdu:{cls}",
              f"{cls}.from_pdu({m_hex[:60]}) = {r['rt_cls'][:80]}, expected {want[:80]}",
              case, impl={"request": r["rt_cls"], "pdu": hx(r["rt_cls_pdu"] or b"")}, model={"request": want, "pdu": m_hex},
              site=cls + ".from_pdu")


def eval_objects(ctx, impl, cases, count=False):
    """cases: [(akind, params, label)] -> ([Findings per case], [model mk line per case])"""
    results = [impl.run(akind, p, scalar=(i % 3 == 0)) for i, (akind, p, _) in enumerate(cases)]
    out = ctx.lean([mk_line(a, p) for a, p, _ in cases])
    hexes = sorted({m.split(" ", 2)[1] for m in out if m.startswith("ok ")})
    dec_out = dict(zip(hexes, ctx.lean(["dec " + h for h in hexes])))
    fs = []
    for (akind, p, label), r, m in zip(cases, results, out):
        if m == "bad-op":
            raise RuntimeError(f"driver rejected: {mk_line(akind, p)[:200]}")
        F = Findings()
        compare_object_case(impl, F, akind, p, label, r, m, dec_out)
        fs.append(F)
        if count:
            ctx.ev()
            ok = m.startswith("ok ")
            ctx.kind(f"obj:{akind}:" + ("accepted" if ok else "refused"))
            if ok or label != "mixed":
                ctx.nontrivial((akind, repr(p)))
    # reassigned fields: an object built from case i whose public attributes are then set to those of case j (same class) must
    # encode like case j (oracle: the model's `mk` of case j) - `.pdu` reads the fields, it is not a snapshot of construction time
    prev = {}
    for j, ((akind, p, label), r, m) in enumerate(zip(cases, results, out)):
        if r["status"] != "ok" or not m.startswith("ok "):
            continue
        i = prev.get(r["cls"])
        prev[r["cls"]] = j
        if i is None or results[i]["pdu"] == r["pdu"]:
            continue
        try:
            a = impl.construct(cases[i][0], cases[i][1], False)
            b = impl.construct(akind, p, False)
            pub = [k for k in vars(b) if not k.startswith("_")]
            if type(a) is not type(b) or set(vars(a)) != set(vars(b)) or not pub:
                continue
            for k in pub:  # the documented fields only; private attributes are the object's own business
                setattr(a, k, getattr(b, k))
            got = bytes(a.pdu)
        except Exception:  # noqa: BLE001 - only plain attribute objects are probed
            continue
        m_hex = m.split(" ", 2)[1]
        if got.hex() != m_hex:
            case = {"direction": "object->bytes", "kind": akind, "class": r["cls"], "params": jparams(p), "varied": label,
                    "_size": size_of(p), "built_from": jparams(cases[i][1])}
            fs[j].add(f"stale-pdu:{r['cls']}", f"{r['cls']} built from {cases[i][1]!r:.80}, public fields then set to those of "
                      f"{r['cls']}({p!r:.80}): .pdu is {got.hex()[:60]} but the oracle encodes {m_hex[:60]}",
                      case, impl={"pdu": got.hex()}, model={"pdu": m_hex}, site=f"{r['cls']}.pdu")
        if count:
            ctx.kind("obj:reassigned-fields")
    return fs, out, results


def eval_bytes(ctx, impl, bs, count=False):
    dec = ctx.lean(["dec " + hx(b) for b in bs])
    fs = []
    typed = 0
    for b, m in zip(bs, dec):
        F = Findings()
        fs.append(F)
        d = impl.dyn(b)
        dec_repr, dec_hex = m.rsplit(" | ", 1)
        is_typed = not dec_repr.startswith("raw ")
        typed += is_typed
        if count:
            ctx.ev()
            ctx.kind("bytes:" + (dec_repr.split(" ", 1)[0]))
            if is_typed:
                ctx.nontrivial(b)
        if d["dyn"] != dec_repr or hx(d["dyn_pdu"] or b"") != dec_hex:
            if d["dyn"].startswith("raw "):
                cat, what = "degraded-to-raw", "a well-formed request is degraded to an opaque raw request"
            elif not is_typed:
                cat, what = "accepts-malformed", "bytes that are not a well-formed request of the service are parsed as a typed request"
            else:
                cat, what = "parse-dynamic", "parsed field values differ"
            sid = f"{b[0]:02x}" if b else "empty"
            k = dec_repr.split(" ", 1)[0] if is_typed else d["dyn"].split(" ", 1)[0]
            F.add(f"{cat}:bytes:{sid}:{k}", f"parse_dynamic({hx(b)[:60]}) = {d['dyn'][:80]}, oracle {dec_repr[:80]}: {what}",
                  {"direction": "bytes->object", "pdu": hx(b), "_size": 8 * len(b)}, impl={"request": d["dyn"], "pdu": hx(d["dyn_pdu"] or b"")},
                  model={"request": dec_repr, "pdu": dec_hex}, site="UDSRequest.parse_dynamic")
    return fs, typed


def eval_client(ctx, loop, api, calls, count=False):
    """calls: [(method, args (values, OMIT for a left-out optional one), spelling, label, group)]; the spellings of one tuple of
    values share a group and only the first failing spelling of a group is recorded"""
    m_out = ctx.lean([call_line(api, meth, args) for meth, args, _, _, _ in calls])
    fs = []
    failed_groups = set()
    for (meth, args, spelling, label, gid), m in zip(calls, m_out):
        if m == "bad-op":
            raise RuntimeError(f"driver rejected: {call_line(api, meth, args)[:200]}")
        F = Findings()
        fs.append(F)
        pos, kw = py_call(api, meth, args, spelling)
        owner = "ECU" if meth in api.ecu else "UDSClient"
        st, val = ecu_call(meth, pos, kw) if meth in api.ecu else client_call(loop, meth, pos, kw)
        omitted = [n for (n, _, _), a in zip(api.sig[meth], args) if is_omit(a)]
        if count:
            ctx.ev()
            ctx.kind("client:" + meth)
            ctx.kind("client-spelling:" + spelling + ("+omitted" if omitted else ""))
            ctx.nontrivial(("client", meth, repr(args), spelling))
        want = ("err", None) if m == "err" else ("sent", m.split(" ", 2)[1])
        if st == want[0] and (st == "err" or val == want[1]) or gid in failed_groups:
            continue
        failed_groups.add(gid)
        case = {"direction": "client", "method": meth, "args": jparams(args), "spelling": spelling, "varied": label, "_size": size_of(args)}
        shown = f"{owner}.{meth}({', '.join([repr(x)[:40] for x in pos] + [f'{k}={v!r:.40}' for k, v in kw.items()])})"
        if omitted:
            cat = "client-default"
        elif spelling == "keyword":
            cat = "client-keyword"
        else:
            cat = "client"
        if want[0] == "err":
            key = f"{cat}-sent-out-of-range:{meth}"
        elif st == "err":
            key = f"{cat}-refused-valid:{meth}:{val}"
        else:
            got = bytes.fromhex(val) if val not in ("-", "nothing") and "," not in val else b""
            key = f"{cat}-bytes:{meth}:{first_diff(got, bytes.fromhex(want[1]) if want[1] != '-' else b'')}"
        F.add(key, f"{shown[:200]} hands {val[:60]} to the transport; the request the call denotes encodes to {want[1] and want[1][:60]}"
              + (f" (left out: {', '.join(omitted)})" if omitted else ""),
              case, impl={"status": st, "value": val}, model=m[:300], site=f"{owner}.{meth}")
    return fs


def eval_ctor_defaults(ctx, impl, api, calls, count=False):
    """the request classes themselves, constructed with keyword arguments and optional ones left out, against the `denote` of the same
    method call (the constructor defaults are the documented defaults too).  calls: [(method, args, label)]"""
    calls = [c for c in calls if c[0] in api.ctor]
    m_out = ctx.lean([call_line(api, meth, args) for meth, args, _ in calls])
    fs = []
    for (meth, args, label), m in zip(calls, m_out):
        F = Findings()
        fs.append(F)
        cname, pairs = api.ctor[meth]
        by_name = {n: a for (n, _, _), a in zip(api.sig[meth], args)}
        kw = {cp: by_name[mp] for cp, mp in pairs if not is_omit(by_name[mp])}
        omitted = [cp for cp, mp in pairs if is_omit(by_name[mp])]
        try:
            pdu = getattr(impl.S, cname)(**kw).pdu
            st, val = "ok", hx(bytes(pdu))
        except Exception as e:  # noqa: BLE001
            st, val = "err", type(e).__name__
        if count:
            ctx.ev()
            ctx.kind("ctor-default:" + cname)
            ctx.nontrivial(("ctor", cname, repr(args)))
        want = ("err", None) if m == "err" else ("ok", m.split(" ", 2)[1])
        if st == want[0] and (st == "err" or val == want[1]):
            continue
        what = "accepted-out-of-range" if want[0] == "err" else f"refused-valid:{val}" if st == "err" else \
            "layout:" + first_diff(bytes.fromhex(val) if val != "-" else b"", bytes.fromhex(want[1]) if want[1] != "-" else b"")
        case = {"direction": "ctor", "method": meth, "class": cname, "args": jparams(args), "varied": label, "_size": size_of(args)}
        F.add(f"ctor-default:{cname}:{what}", f"{cname}({', '.join(f'{k}={v!r:.40}' for k, v in kw.items())}) - left out: {', '.join(omitted) or 'nothing'} - "
              f"gives {val[:60]}; the request these arguments denote encodes to {want[1] and want[1][:60]}",
              case, impl={"status": st, "value": val}, model=m[:300], site=f"{cname}.__init__")
    return fs


def transmit_cases(ctx):
    """(data length, block_length, max_block_length | OMIT, spelling): sizes around the block length, block lengths around the
    minimum and around the maximum, more than 255 blocks"""
    out = []
    for bl in (-1, 0, 1, 2, 3, 4, 5, 9):
        p = max(bl - 2, 1)
        for n in (0, 1, p - 1, p, p + 1, 2 * p - 1, 2 * p, 2 * p + 1, 254 * p, 255 * p, 255 * p + 1, 256 * p, 256 * p + 1, 257 * p + 2, 513 * p):
            if n >= 0:
                out.append((n, bl, OMIT, "positional"))
    for bl, mbl in ((4, 3), (4, 4), (4, 5), (9, 3), (9, 2), (9, 1), (9, 0), (9, -1), (2, 9), (1, 9), (3, 3), (0x2000, 10), (10, 0x2000), (5, None)):
        for n in (0, 1, 7, 8, 9, 30):
            if mbl is not None:
                out.append((n, bl, mbl, "positional"))
                out.append((n, bl, mbl, "keyword"))
    for bl in (0xFFE, 0xFFF, 0x1000, 0x1001, 0x2000):
        for n in (0, 1, 0xFFC, 0xFFD, 0xFFE, 2 * 0xFFD, 2 * 0xFFD + 1):
            out.append((n, bl, OMIT, "positional"))
            out.append((n, bl, 0x1000, "positional"))
            out.append((n, bl, OMIT, "keyword"))
    rng = ctx.rng
    for _ in range(ctx.pick(40, 600)):
        bl = rng.choice([3, 4, 5, 6, 7, 16, 64, rng.randint(-2, 40)])
        out.append((rng.randint(0, 40 * max(bl, 1)), bl, rng.choice([OMIT, OMIT, rng.randint(0, 20), 0xFFF]), rng.choice(["positional", "keyword"])))
    return out


def xmit_data(n):
    return bytes((i * 7 + i // 251) % 256 for i in range(n))


def eval_transmit(ctx, cases, count=False):
    m_out = ctx.lean([f"xmit {hx(xmit_data(n))} {bl} {'_' if is_omit(mbl) else mbl}" for n, bl, mbl, _ in cases])
    fs = []
    for (n, bl, mbl, spelling), m in zip(cases, m_out):
        if m == "bad-op":
            raise RuntimeError("driver rejected an xmit line")
        F = Findings()
        fs.append(F)
        data = xmit_data(n)
        if spelling == "keyword":
            pos, kw = [], {"data": data, "block_length": bl}
        else:
            pos, kw = [data, bl], {}
        if not is_omit(mbl):
            kw["max_block_length"] = mbl
        st, val = ecu_call("transmit_data", pos, kw)
        if count:
            ctx.ev()
            nblocks = m.count(",") if m != "err" else -1
            ctx.kind("transmit_data:" + ("refused" if m == "err" else "0-blocks" if nblocks == 0 else "1..255-blocks" if nblocks <= 255 else ">255-blocks"))
            ctx.nontrivial(("transmit", n, bl, repr(mbl), spelling))
        if (st == "err" and m == "err") or (st == "sent" and val == m):
            continue
        case = {"direction": "transmit", "data_len": n, "block_length": bl, "max_block_length": None if is_omit(mbl) else mbl, "spelling": spelling,
                "varied": "", "_size": (16 * n if n else 1 << 30) + abs(bl) + (0 if is_omit(mbl) else 1 + abs(mbl))}  # smallest non-empty data first
        if m == "err":
            key, what = "transmit-data:sent-out-of-range", f"sends {val[:60]} although the block length leaves no room for payload (must be refused)"
        elif st == "err":
            key, what = f"transmit-data:refused-valid:{val}", f"raises {val}; expected the PDUs {m[:60]}"
        else:
            got, want = val.split(","), m.split(",")
            i = next((j for j, (x, y) in enumerate(zip(got, want)) if x != y), min(len(got), len(want)))
            which = "count" if i >= min(len(got), len(want)) else "block-counter" if got[i][:2] == want[i][:2] == "36" and got[i][2:4] != want[i][2:4] else "block"
            key = f"transmit-data:{which}"
            what = (f"sends {len(got)} PDUs, PDU {i} = {got[i][:40] if i < len(got) else 'missing'}; expected {len(want)} PDUs, PDU {i} = "
                    f"{want[i][:40] if i < len(want) else 'none'}")
        F.add(key, f"ECU.transmit_data(<{n} bytes>, {bl}{'' if is_omit(mbl) else ', max_block_length=' + str(mbl)}) {what}", case,
              impl={"status": st, "pdus": val[:400]}, model=m[:400], site="ECU.transmit_data")
    return fs


def eval_ecu_seq(ctx, count=False):
    """ECU.leave_session with every reply positive: ECUReset(hardReset), the ping of wait_for_ecu, DiagnosticSessionControl(default)"""
    F = Findings()
    m = ctx.lean(["seq leave_session"])[0]
    st, val = ecu_call("leave_session", [3], {})
    if count:
        ctx.ev()
        ctx.kind("ecu-seq:leave_session")
    if st != "sent" or val != m:
        F.add("ecu-seq:leave_session", f"ECU.leave_session(3) sends {val[:80]}; expected {m}", {"direction": "ecu-seq", "method": "leave_session", "_size": 0},
              impl={"status": st, "pdus": val}, model=m, site="ECU.leave_session")
    return [F]


def check_signatures(api, ALL):
    """the parameter names / order / defaults the model has for every method are those of the live signatures (second reading of what
    gen/c01_api.py translates)"""
    import inspect as I

    from gallia.services.uds.core.client import UDSClient
    from gallia.services.uds.ecu import ECU

    def live(owner, name):
        f = getattr(owner, name, None)
        if f is None:
            return None
        out = []
        for n, p in I.signature(f).parameters.items():
            if n in ("self", "config"):
                continue
            d = p.default
            out.append((n, "req" if d is I._empty else "none" if d is None else f"bool:{b01(d)}" if isinstance(d, bool)
                        else f"int:{d}" if isinstance(d, int) else f"bytes:{hx(d)}" if isinstance(d, bytes) else repr(d)))
        return out

    for meth, ps in api.sig.items():
        owner = UDSClient if meth in api.client or meth == "_tester_present" else ECU
        lv = live(owner, meth)
        mv = [(n, d) for n, d, _ in ps]
        if lv != mv:
            ALL.add(f"client-signature:{meth}", f"{owner.__name__}.{meth}: parameters / defaults {lv} differ from the modelled {mv}",
                    {"method": meth}, impl=lv, model=mv, site=f"{owner.__name__}.{meth}", spec=False)


def byte_inputs(ctx, valid_pdus, sids):
    """byte strings for the bytes->object direction"""
    rng = ctx.rng
    out = []
    # every first byte alone, every 2-byte string
    out += [bytes([a]) for a in range(256)]
    out.append(b"")
    for a in range(256):
        for b in range(256):
            out.append(bytes([a, b]))
    ctx.exhaustive_parts.append("bytes->object: every byte string of length <= 2 (65 793)")
    if ctx.quick and not ctx.widened:
        for sid in sids:
            for _ in range(3000):
                out.append(bytes([sid, rng.randrange(256), rng.randrange(256)]))
    else:
        for sid in sids:
            for b in range(256):
                for c in range(256):
                    out.append(bytes([sid, b, c]))
        ctx.exhaustive_parts.append(f"bytes->object: every 3-byte string starting with a registered service id ({len(sids)} x 65 536)")
    # neighbours of valid PDUs
    pool = sorted(set(valid_pdus), key=lambda x: (len(x), x))
    rng.shuffle(pool)
    for pdu in pool[: ctx.pick(4000, 40000)]:
        if len(pdu) > 600:
            pdu = pdu[:40]
        out.append(pdu[:-1])
        out.append(pdu + b"\x00")
        out.append(pdu + bytes([rng.randrange(256), rng.randrange(256)]))
        if len(pdu) > 1:
            out.append(pdu[: rng.randrange(1, len(pdu))])
        for _ in range(2):
            i = rng.randrange(len(pdu))
            q = bytearray(pdu)
            q[i] ^= 1 << rng.randrange(8)
            out.append(bytes(q))
        if len(pdu) >= 2:
            q = bytearray(pdu)
            q[1] ^= 0x80
            out.append(bytes(q))
    # random tails on registered service ids
    for _ in range(ctx.pick(20000, 300000)):
        out.append(bytes([rng.choice(sids)]) + rbytes(rng, rng.choice([3, 4, 5, 6, 7, 8, 9, 12, 33])))
    return out


CORPUS = [
    ("controlDTC", [2, b"", True], "suppress=1"), ("controlDTC", [1, b"\xaa", True], "suppress=1"),
    ("clearDDDI", [None, False], "dynamicallyDefinedDataIdentifier=none"), ("clearDDDI", [0xF300, True], "suppress=1"),
    ("dtcPlain", [0x0A, False], "base"), ("dtcPlain", [0x15, True], "base"),
    ("iocbiShortTerm", [0x1234, b"\xaa\xbb", b"\xff"], "base"), ("iocbiShortTerm", [0x1234, b"\xaa", b""], "base"),
    ("sendKey", [2, b"", False], "securityKey=empty"), ("rdbi", [[]], "dataIdentifier=empty"),
    ("wmba", [0x10, b"", None, None], "dataRecord=empty"),
]


def run(ctx):
    setup_repo_import()
    impl = Impl()
    S = impl.S
    ALL = Findings()

    def merge(fs):
        for f in fs:
            for (key, _), e in f.best.items():
                ALL.add(key, *e[1:])

    ctx.rule = ("distinct = distinct (request class, constructor arguments) or distinct byte string; non-trivial = the oracle "
                "accepts the arguments and the PDU is >= 2 bytes, or the byte string parses to a typed request, or a refusal "
                "at a boundary value")
    gen = Gen(ctx)
    cases = CORPUS + gen.cases()  # corpus of past disagreements first
    fs, out, results = eval_objects(ctx, impl, cases, count=True)
    merge(fs)
    valid_pdus = [bytes.fromhex(m.split(" ", 2)[1]) for (akind, _, _), m in zip(cases, out) if m.startswith("ok ") and akind != "raw"]
    ctx.traces_validated += len(cases)
    ctx.exhaustive_parts.append("object->bytes: every request class x every boundary value {0,1,max-1,max,max+1,-1,2max+1} of every "
                                "integer field x both suppress settings (one field moved at a time); address/size widths 1..15 x 1..15 "
                                "explicit and computed for all 5 memory-style requests; 0,1,2,3,n groups")
    for (akind, p, label), r, m in list(zip(cases, results, out))[11:14]:
        ctx.sample({"kind": akind, "params": jparams(p), "impl": {k: (hx(v) if isinstance(v, bytes) else v) for k, v in r.items()}, "model": m[:200]})

    # ---- bytes -> object
    sids = sorted({int(c.SERVICE_ID) for c in _reg.reachable(S) if c.SERVICE_ID is not None})
    bs = byte_inputs(ctx, valid_pdus, sids)
    fs, typed = eval_bytes(ctx, impl, bs, count=True)
    merge(fs)
    ctx.notes["bytes_to_object"] = {"inputs": len(bs), "typed_by_oracle": typed}
    ctx.traces_validated += len(bs)

    # ---- parsing is a function of the bytes: an object a caller got from the parser and then changed (a template turned into a variant)
    #      must not change what the same bytes parse to afterwards (state carried between calls, e.g. a cache of parsed objects)
    n_alias = 0
    for b in [x for x in bs if len(x) >= 2][:: max(1, len(bs) // ctx.pick(600, 6000))]:
        before = impl.dyn(b)
        if before["dyn"].startswith(("exc:", "raw ")):
            continue
        try:
            obj = S.UDSRequest.parse_dynamic(b)
        except Exception:  # noqa: BLE001
            continue
        for attr, val in list(vars(obj).items()):
            try:
                if isinstance(val, bool):
                    setattr(obj, attr, not val)
                elif isinstance(val, int):
                    setattr(obj, attr, (val + 1) % 2)
                elif isinstance(val, (bytes, bytearray)):
                    setattr(obj, attr, bytes(val) + b"\x5a")
                elif isinstance(val, list):
                    val.append(val[0] if val else 0)
            except Exception:  # noqa: BLE001
                pass
        after = impl.dyn(b)
        n_alias += 1
        ctx.ev()
        ctx.kind("bytes:parse-after-mutating-an-earlier-parse")
        if after != before:
            ALL.add("parse-dynamic:depends-on-earlier-calls", f"parse_dynamic({hx(b)}) = {after['dyn'][:80]} after an object parsed from the same bytes "
                    f"was changed by its owner; before: {before['dyn'][:80]}", {"direction": "bytes->object", "pdu": hx(b), "after_mutation_of_earlier_parse": True,
                                                                              "_size": 8 * len(b)},
                    impl={"request": after["dyn"], "pdu": hx(after["dyn_pdu"] or b"")}, model={"request": before["dyn"], "pdu": hx(before["dyn_pdu"] or b"")},
                    site="UDSRequest.parse_dynamic")
            break
    ctx.notes["parse_after_mutation_probes"] = n_alias

    # ---- client glue: every call is compared with the Lean `denote` of the call
    from gallia.services.uds.core.client import UDSClient

    global _API
    api = _API = Api(ctx)
    api.load_ctors(ctx)
    public = sorted(n for n, f in inspect.getmembers(UDSClient, inspect.iscoroutinefunction) if not n.startswith("_"))
    unknown = [n for n in public if n not in api.client and n not in INFRA]
    missing = [n for n in api.client if n not in public]
    for n in unknown + missing:
        ALL.add(f"client-method-set:{n}", f"UDSClient.{n}: public service methods differ from the set the model has a `Call` for", {"method": n},
                impl=public, model=sorted(api.client), site="UDSClient", spec=False)
    check_signatures(api, ALL)
    ag = ArgGen(ctx, gen)
    loop = asyncio.new_event_loop()
    try:
        calls = []
        gid = 0
        n_values = 0
        for meth in api.client + api.ecu:
            if meth in missing:
                continue
            for idx, (args, label) in enumerate(ag.cases(api, meth)):
                gid += 1
                n_values += 1
                for a, sp in spellings(api, meth, args, idx, ctx.rng, exhaustive=(idx == 0)):
                    calls.append((meth, a, sp, label, gid))
        merge(eval_client(ctx, loop, api, calls, count=True))
        ctor_calls = [(meth, a, label) for meth, a, sp, label, _ in calls if sp == "positional" and any(is_omit(x) for x in a)]
        merge(eval_ctor_defaults(ctx, impl, api, ctor_calls, count=True))
        tcs = transmit_cases(ctx)
        merge(eval_transmit(ctx, tcs, count=True))
        merge(eval_ecu_seq(ctx, count=True))
        # _tester_present(suppress) writes directly
        t = _Transport()
        c = UDSClient(t, timeout=1.0)
        loop.run_until_complete(c._tester_present(True))
        ctx.ev()
        if [hx(x) for x in t.sent] != ["3e80"]:
            ALL.add("client-bytes:_tester_present", "UDSClient._tester_present(True) does not write 3e80", {"method": "_tester_present"},
                    impl=[hx(x) for x in t.sent], model="3e80", site="UDSClient._tester_present")
        ctx.traces_validated += len(calls) + len(tcs) + 2
        ctx.notes["client_glue"] = {"methods": len(api.client), "ecu_helpers": len(api.ecu) + 2, "argument_tuples": n_values, "calls": len(calls),
                                    "transmit_data_cases": len(tcs)}
        ctx.exhaustive_parts.append(
            f"client glue: all {len(api.client)} public UDSClient service methods and {len(api.ecu)} single-request ECU helpers against the Lean "
            "`denote`: every boundary value of every parameter (one moved at a time) x arguments passed positionally / optional ones left "
            "out (every subset for the base case) / passed by keyword; address/size/format sweep for the 6 memory-style methods; the "
            "constructed request classes themselves with the same optional arguments left out")
        ctx.exhaustive_parts.append("ECU.transmit_data: block lengths -1..5, 9 and 0xFFE..0x1001, data sizes 0, 1, p-1, p, p+1, 2p-1, 2p, 2p+1 and "
                                    "254..257 / 513 blocks (counter wrap), max_block_length below / at / above the block length; ECU.leave_session")

        def evaluate(cands):
            d = cands[0]["direction"]
            if d == "object->bytes":
                return eval_objects(ctx, impl, [(c["kind"], unj(c["params"]), c.get("varied", "")) for c in cands])[0]
            if d == "bytes->object":
                return eval_bytes(ctx, impl, [bytes.fromhex(c["pdu"]) if c["pdu"] != "-" else b"" for c in cands])[0]
            if d == "ctor":
                return eval_ctor_defaults(ctx, impl, api, [(c["method"], unj(c["args"]), c.get("varied", "")) for c in cands])
            return eval_client(ctx, loop, api, [(c["method"], unj(c["args"]), c.get("spelling", "positional"), c.get("varied", ""), i)
                                                for i, c in enumerate(cands)])

        ALL.flush(ctx, evaluate)
    finally:
        loop.close()


def replay(ctx, case):
    """re-run one recorded case; prints both sides; returns True when they still differ"""
    setup_repo_import()
    impl = Impl()
    c = case.get("case", case)
    d = c.get("direction")
    loop = asyncio.new_event_loop()
    try:
        if d == "bytes->object":
            b = bytes.fromhex(c["pdu"]) if c["pdu"] != "-" else b""
            f = eval_bytes(ctx, impl, [b])[0][0]
            print("pdu   :", hx(b))
            print("impl  :", impl.dyn(b))
            print("oracle:", ctx.lean(["dec " + hx(b)])[0])
        elif d == "client":
            global _API
            api = _API = Api(ctx)
            args = unj(c["args"])
            sp = c.get("spelling", "positional")
            f = eval_client(ctx, loop, api, [(c["method"], args, sp, "replay", 0)])[0]
            pos, kw = py_call(api, c["method"], args, sp)
            print("call  :", c["method"], pos, kw)
            print("impl  :", ecu_call(c["method"], pos, kw) if c["method"] in api.ecu else client_call(loop, c["method"], pos, kw))
            print("oracle:", call_line(api, c["method"], args)[:200], "->", ctx.lean([call_line(api, c["method"], args)])[0][:400])
        elif d == "ctor":
            api = _API = Api(ctx)
            api.load_ctors(ctx)
            f = eval_ctor_defaults(ctx, impl, api, [(c["method"], unj(c["args"]), "replay")])[0]
            print("class :", c["class"], unj(c["args"]))
            print("oracle:", ctx.lean([call_line(api, c["method"], unj(c["args"]))])[0][:400])
        elif d == "transmit":
            mbl = OMIT if c["max_block_length"] is None else c["max_block_length"]
            tc = (c["data_len"], c["block_length"], mbl, c.get("spelling", "positional"))
            f = eval_transmit(ctx, [tc])[0]
            print("call  : ECU.transmit_data(<%d bytes>, %s, max_block_length=%s)" % (tc[0], tc[1], "<left out>" if is_omit(mbl) else mbl))
            for (k, _), v in f.best.items():
                print("impl  :", v[3])
                print("oracle:", v[4])
        elif d == "ecu-seq":
            f = eval_ecu_seq(ctx)[0]
            print("call  : ECU.leave_session(3)")
            print("oracle:", ctx.lean(["seq leave_session"])[0])
        elif d is None:
            print(json.dumps(c, indent=1, default=str)[:2000])
            return 1
        else:
            akind, p = c["kind"], unj(c["params"])
            fs, out, res = eval_objects(ctx, impl, [(akind, p, "replay")] * 2)
            f = fs[1]  # index 1: sequences passed as sequences
            print("case  :", akind, p)
            print("impl  :", {k: (hx(v) if isinstance(v, bytes) else v) for k, v in res[1].items()})
            print("oracle:", out[1][:400])
            if out[1].startswith("ok "):
                print("decode:", ctx.lean(["dec " + out[1].split(" ", 2)[1]])[0][:400])
    finally:
        loop.close()
    for (k, _), v in f.best.items():
        print("differs:", k, "-", v[1])
    if not f.best:
        print("agrees")
    return bool(f.best)


MANIFEST = {
    "level_text": ("Lean 4 theorems over the ISO 14229-1 request-layout oracle (25 request kinds covering all 37 registered request "
                   "classes and the InputOutputControlByIdentifier convenience classes): decode (encode r) = norm r for every "
                   "well-formed request (never degraded to raw), encode (decode b) = b for every byte string, decode always "
                   "well-formed, encode injective, layout lemmas (service id, sub-function + suppress bit, big-endian identifiers, "
                   "address/length format), construction refuses exactly the out-of-range arguments, minimal address/length format. "
                   "The service-method layer is inside the model (Model/UdsClientApi.lean): `Call` has one constructor per public "
                   "UDSClient service method (35) and per single-request ECU helper (7), `denote` is the documented meaning of a call "
                   "(defaults = no suppression, empty records, method 0, computed format byte), `bytesOf` interprets the code as written "
                   "(parameter names / order / defaults, the class every method body constructs and what it passes for which constructor "
                   "parameter, helper delegations - all regenerated from inspect.signature and the AST of client.py / ecu.py). Proved: "
                   "call_bytes (bytesOf c = encode of the denoted request, same refusals), denote_wf / denote_refuses / denote_accepts, "
                   "call_decode (the bytes of every call parse back to the denoted request, never raw), call_suppress_bit / "
                   "call_no_suppress_unasked, call_fixed_subfn (method name -> service id and sub-function), call_ident_be, "
                   "call_iocbi_parameter, omitted_equals_default, transmit_data_counters / _refuses / _bytes (counter starts at 1, wraps "
                   "0xFF -> 0x00, chunks concatenate to the data and fit the block length, too small block lengths refused). "
                   "Tied to the code by (T) the registry table regenerated from the live UDSService._SERVICES (registry_agrees) and the "
                   "API tables (api_signature_agrees, api_sites_agree, api_table_agrees: a changed default, parameter, argument order, "
                   "constructed class, delegation constant or an extra statement in a method body breaks the build) and (C) a "
                   "correspondence run of every real request class (.pdu, Class.from_pdu, UDSRequest.parse_dynamic), of every public "
                   "UDSClient service method and ECU helper (bytes handed to a scripted transport against the Lean `denote`: boundary "
                   "values of every parameter, sub-functions / masks / counters / method nibbles exhaustively, arguments positional / left "
                   "out / by keyword, the request classes themselves with optional arguments left out), ECU.transmit_data over block "
                   "lengths around 2 and 0xFFF, data sizes around multiples of the payload size and 254..257 / 513 blocks, "
                   "ECU.leave_session; all address/size widths 1..15 x 1..15, all byte strings of length <= 2 (<= 3 per registered "
                   "service in thorough), truncations / extensions / bit flips of valid PDUs."),
    "level_note": ("Trusted: Lean kernel (axioms propext, Quot.sound, Classical.choice), the registry and API translators (gen/c01_registry.py, "
                   "gen/c01_api.py; the signatures are read a second time by the harness), the harness, struct / int.to_bytes contracts, "
                   "Python's argument binding. The exception class of a refusal is not compared; controlOptionRecord and "
                   "controlEnableMaskRecord are compared as their concatenation after parsing; abstract base classes are out of scope; "
                   "the `config` parameter and the reply-dependent paths of the ECU helpers (negative replies, database session "
                   "transitions, power cycling) are outside the model."),
    "technique": "Lean 4 proof (structural induction, case analysis per request kind / per method, decide +kernel table agreements, an interpreter over the regenerated API tables proved equal to the documented meaning) + differential correspondence against the real request classes, UDSClient and ECU",
    "design_ref": "DESIGN.md section 7, C01",
}
