"""C08 - connection loss: the real tcp-lines / unix-lines / DoIP / HSFZ transports, `BaseTransport.reconnect` and the real
`ECU` (UDSClient retry / reconnect loop) over in-memory peers (`harness/lib/lossworld.py`: patched
`asyncio.open_connection` / `open_unix_connection`, a listener that is down for a virtual delay) under virtual time,
against Model/Loss.lean.

A case = transport x reply script (final | pending+final) x cut offset into the peer's reply byte stream (every offset,
frame boundaries included) x cut kind (eof | reset | silence) x event time (70 ms after the request | same instant | while
idle before the request) x restart delay x caller timeout x level
    T  transport level : request_unsafe(22 f1 90, timeout); close(); close(); reconnect()
    C  client level    : ECU(transport, timeout, max_retry).send_raw(22 f1 90); 15 s later the same request again
Compared with the model: result / outcome class and payload, virtual completion times, close state, reconnect result,
number of connections accepted, every request transmission (connection index, time).  Independently of the model the
property's clauses are evaluated on the implementation's observations (`spec_check`).

Whole executions (`run_sys`, lib/c08sys.py, lib/lossys.py, Model/LossSys.lean): generated event lists - client calls
(request / close / reconnect / transport read), peer events (deliver any bytes, cut, listener up / down, serve, routing
activation answered / lost), advance - for max_retry 0..3 run against the real UDSClient over the real transports with a
scripted peer and against the model; every call's outcome, end time, connection count and the wire log are compared.

Several pending readers (`run_pend`, lib/c08pend.py, Model/LossPend.lean): k = 1..5 tasks blocked in `read_diag_request()` /
`read_frame()` of one real DoIPConnection (separate_diagnostic_message_queue off / on) or HSFZConnection, each with its own
caller timeout or none, 0..4 messages delivered before, when the connection is lost (eof / reset / close() / ack timeout of a
concurrent write) or the peer stays silent: every reader's outcome and end time against the model, and the property's
clauses (every pending read ends, no fabricated / duplicated message, a read after the loss ends at once, close twice)."""
from __future__ import annotations

import asyncio
import json
import multiprocessing as mp
import os

from common import setup_repo_import
from lib import lossworld as LW
from lib import c08sys as CS
from lib import c08pend as CP
import vloop
from vloop import Spin, Stall, vrun

vloop.SPIN_LIMIT = min(vloop.SPIN_LIMIT, 5.0)  # a loop iteration of these cases takes microseconds

ID = "C08"
GENS = ["c04_limits", "c06_doip", "c07_hsfz", "c08_loss"]
PROOF = "Gallia.Proofs.C08"
DRIVER = "c08"
ORACLE = False
ASSUMPTIONS = [
    "the three cut kinds stand for all socket faults: eof = StreamReader.feed_eof(), reset = set_exception(ConnectionResetError) "
    "(drain() and wait_closed() then raise it, write() drops data, as asyncio's selector transport does), silence = nothing "
    "arrives and writes vanish; EPIPE/ECONNRESET timing and half-open kernel states are outside the model",
    "the peer's bytes arrive after the client has reached its next await (call_soon), the loss event after the client has "
    "consumed what arrived; a timer expiring at exactly the event time is not generated",
    "asyncio: StreamReader.readline tests the stored exception before the buffer and hands out buffered complete lines "
    "after EOF; Queue.get hands a queued item to a getter that was already waiting; wait_for / asyncio.timeout cancel the "
    "inner awaitable at the deadline",
    "a peer that goes silent on an open line connection cannot be told from a slow one: the client only retries on the "
    "same connection (timeouts never trigger a reconnect); 'recovers through an automatic reconnect' is therefore stated "
    "for losses that surface as ConnectionError / end-of-stream",
    "one client task uses the transport (C05 covers concurrent users) - except for the pending-reader cases: k tasks blocked "
    "in read_diag_request() / read_frame() of one DoIPConnection / HSFZConnection, started in one instant in list order; "
    "asyncio.Queue getters and asyncio.Lock waiters are served first-in first-out (Model/LossPend.lean hands message j to the "
    "j-th eligible reader still waiting); timeouts, delivery and loss times are generated pairwise distinct",
    "pending readers: the ack-timeout loss is generated where the concurrent write can start at all - a pending "
    "DoIPConnection.read_frame() holds the connection's mutex by design, the write/ack exchange waits behind it (C05's area); "
    "on the line transports a second concurrent read is refused by asyncio itself (StreamReader.readline raises RuntimeError "
    "at once while another coroutine waits), so k > 1 pending reads do not exist there and k = 1 is the `Q` event of the "
    "whole executions",
    "whole executions (Model/LossSys.lean): the event list is one time line; a peer event happens at the time of the "
    "previous event plus the advances in between; between two events of one instant the client runs until it blocks "
    "(12 loop iterations are granted); a deadline that falls exactly on the time of a peer event is not compared (the "
    "model counts such ties, the tie skips them: < 0.5 % of the generated lists)",
    "connection set-up: a refused TCP connect and an unanswered DoIP routing activation are modelled; a TCP connect that "
    "hangs (SYN dropped) is bounded by the kernel's connect timeout, not by gallia (reconnect() of the line / HSFZ "
    "transports passes timeout=None; DoIP bounds it by its 10 s window) - outside the model; TargetURI parsing is C20's",
    "replies are classified by the driver's `clsS` for requests 22 f1 90: 7f 22 78 pending, 7f 22 21 busy, 7f 22 xx negative, "
    "62 f1 90 .. positive; the generated peers send only these (plus truncated frames and empty messages)",
    "a DoIP frame that does not unpack kills the reader task, which closes the connection (modelled); malformed HSFZ "
    "length fields (a frame that never completes) behave like silence",
]

T0 = 100          # ms: the request is issued
PRE_AT = 50       # ms: loss while idle
GAP = 15000       # ms between the end of the first request and the follow-up request
DELTAS = [70, 0, None]
RESTARTS = [0, 300, 3000, 12000]  # the seeded part adds 137, 999, 4321, 6500, 8000, 9400, 13000
TMOS = [None, 500, 5000]
KINDS = ["eof", "reset", "silence"]


# ---------------------------------------------------------------------------------------------------------------
# implementation side

_CUR = {"world": None}
_PATCHED = []


def _ensure_patched():
    if _PATCHED:
        return
    import unittest.mock as um

    async def oc(host=None, port=None, **kw):
        return await _CUR["world"].open_connection(host, port, **kw)

    async def ouc(path=None, **kw):
        return await _CUR["world"].open_unix_connection(path, **kw)

    for name, fn in (("asyncio.open_connection", oc), ("asyncio.open_unix_connection", ouc)):
        p = um.patch(name, fn)
        p.start()
        _PATCHED.append(p)


def _ms(t):
    return int(round(t * 1000))


def _exc(e):
    if isinstance(e, (TimeoutError, asyncio.TimeoutError)):
        return "timeout"
    if isinstance(e, ConnectionError):
        return "conn"
    return "exc:" + type(e).__name__


def _requests_written(w):
    """(connection index, ms) of every request frame the client wrote, in order"""
    out = []
    for c in w.conns:
        for t, b in c.writer.wrote:
            if w.tr in ("tcp-lines", "unix-lines"):
                n = b.count(b"\n")
            elif w.tr == "doip":
                n = 1 if len(b) >= 4 and b[2:4] == b"\x80\x01" else 0
            else:
                n = 1 if len(b) >= 6 and b[4:6] == b"\x00\x01" else 0
            out += [(t, c.idx)] * n
    out.sort()
    return ",".join(f"{i}@{t}" for t, i in out) or "-"


async def _setup(case):
    plan = dict(script=case["script"], cut=case["cut"], kind=case["kind"], delta=case["delta"], restart=case["restart"])
    w = LW.World(case["tr"], plan)
    _CUR["world"] = w
    T = LW.transport_class(case["tr"])
    t = await T.connect(LW.URIS[case["tr"]])
    await asyncio.sleep(PRE_AT / 1000)
    if case["delta"] is None:
        w.conns[0].lose()
    await asyncio.sleep((T0 - PRE_AT) / 1000)
    return w, t


async def _impl_T(case):
    loop = asyncio.get_event_loop()
    w, t = await _setup(case)
    tmo = None if case["tmo"] is None else case["tmo"] / 1000
    try:
        r = await t.request_unsafe(LW.REQ, tmo)
        res = "eos" if r == b"" else "data:" + r.hex()
    except Exception as e:  # noqa: BLE001
        res = _exc(e)
    t_end = _ms(loop.time())
    cl = []
    for _ in range(2):
        try:
            await t.close()
        except Exception as e:  # noqa: BLE001
            cl.append("close-raised:" + type(e).__name__)
    if not cl:
        cl.append("closed" if t.is_closed else "open")
    try:
        await t.reconnect()
        rc = "ok"
    except (TimeoutError, asyncio.TimeoutError):
        rc = "timedout"
    except ConnectionError:
        rc = "refused"
    except Exception as e:  # noqa: BLE001
        rc = "exc:" + type(e).__name__
    return f"{res} {t_end} {cl[0]} {rc} {_ms(loop.time())} {len(w.conns)}"


async def _client_request(ecu):
    from gallia.services.uds.core.exception import MissingResponse
    try:
        resp = await ecu.send_raw(LW.REQ)
        return "reply:" + resp.pdu.hex()
    except MissingResponse as e:
        return "missing:" + ("1" if isinstance(e.__cause__, ConnectionError) else "0")
    except (TimeoutError, asyncio.TimeoutError):
        return "rc-timeout"
    except ConnectionRefusedError:
        return "rc-refused"
    except ConnectionError as e:
        return "escaped:" + type(e).__name__
    except Exception as e:  # noqa: BLE001
        return "other:" + type(e).__name__


async def _impl_C(case, st):
    from gallia.services.uds.ecu import ECU
    loop = asyncio.get_event_loop()
    w, t = await _setup(case)
    st["w"] = w
    ecu = ECU(t, timeout=None if case["tmo"] is None else case["tmo"] / 1000, max_retry=case["mr"])
    o1 = await _client_request(ecu)
    t1 = _ms(loop.time())
    st["first"] = f"{o1} {t1}"
    await asyncio.sleep(GAP / 1000)
    o2 = await _client_request(ecu)
    t2 = _ms(loop.time())
    return f"{o1} {t1} {o2} {t2} {len(w.conns)} {_requests_written(w)}"


def run_impl(case):
    _ensure_patched()
    st = {}
    try:
        if case["level"] == "T":
            r, _ = vrun(_impl_T(case), horizon=7200.0, livelock=5.0)
        else:
            r, _ = vrun(_impl_C(case, st), horizon=7200.0, livelock=5.0)
        return r
    except Stall:
        w = _CUR["world"]
        now = "?"
        if case["level"] == "T":
            return f"blocked {T0} - - - {len(w.conns)}"
        if "first" in st:
            return f"{st['first']} blocked - {len(w.conns)} {_requests_written(w)}"
        return f"blocked ? - - {len(w.conns)} {_requests_written(w)}"
    except Spin:
        w = _CUR["world"]
        if case["level"] == "T":
            return f"spin {T0} - - - {len(w.conns)}"
        return f"{st.get('first', 'spin')} spin - {len(w.conns)} {_requests_written(w)}"
    except Exception as e:  # noqa: BLE001
        return f"harness-exc:{type(e).__name__}:{str(e)[:80].replace(' ', '_')}"


def _worker(cases):
    setup_repo_import()
    return [run_any(c) for c in cases]


def run_any(c):
    if "rd" in c:
        return CP.run_impl(c, _ensure_patched, _CUR)
    return CS.run_impl(c, _ensure_patched, _CUR) if "ev" in c else run_impl(c)


def run_impl_many(cases, nproc):
    if nproc <= 1 or len(cases) < 300:
        return [run_any(c) for c in cases]
    size = max(40, len(cases) // (nproc * 4))
    parts = [cases[i:i + size] for i in range(0, len(cases), size)]
    with mp.get_context("fork").Pool(nproc) as pool:
        res = pool.map(_worker, parts)
    return [r for part in res for r in part]


# ---------------------------------------------------------------------------------------------------------------
# model side

def stream_of(case):
    return b"".join(f for _, f in LW.reply_stream(case["tr"], case["script"]))


def model_line(case):
    pre = stream_of(case)[: case["cut"]]
    d = "none" if case["delta"] is None else case["delta"]
    tmo = "none" if case["tmo"] is None else case["tmo"]
    head = f"{case['tr']} {pre.hex() or '-'} {case['kind']} {d} {case['restart']} {PRE_AT} {T0} {tmo}"
    if case["level"] == "T":
        return "T " + head
    return f"C {head} {case['mr']} {GAP}"


# ---------------------------------------------------------------------------------------------------------------
# the property's clauses on the implementation's observations

def where(case):
    """position class of the cut inside the reply stream"""
    off = 0
    cut = case["cut"]
    frames = LW.reply_stream(case["tr"], case["script"])
    for i, (label, f) in enumerate(frames):
        if cut == off:
            return "before-" + label + str(i)
        if cut < off + len(f):
            return "inside-" + label + str(i)
        off += len(f)
    return "after-all"


def complete_replies(case):
    """UDS payloads whose frames lie completely inside the delivered prefix (all frames before them too)"""
    off = 0
    cut = case["cut"] if case["delta"] is not None else 0
    out = []
    replies = LW.script_replies(case["script"])
    k = 0
    for label, f in LW.reply_stream(case["tr"], case["script"]):
        off += len(f)
        if off > cut:
            break
        if label == "data":
            out.append(replies[k])
            k += 1
    return out


def spec_check(case, obs, model_obs=None):
    """-> list of (clause, text); `model_obs`: what the Lean model (for which `recover` is proved) gives on the same case"""
    v = []
    f = obs.split(" ")
    ack = LW.ACK_MS[case["tr"]]
    tmo, kind = case["tmo"], case["kind"]
    if obs.startswith("harness-exc"):
        return [("not-drivable", obs)]
    legit = {LW.final(i).hex() for i in range(0, 8)}
    if "spin" in f[:3]:
        return [("busy-loop", "the pending operation never returns and never suspends: the event loop is frozen "
                              "(no callback returned to the loop / no virtual-time progress for %g s of wall-clock time)" % vloop.SPIN_LIMIT)]
    if case["level"] == "T":
        res, t_end = f[0], f[1]
        if res == "blocked":
            if tmo is not None or kind != "silence":
                v.append(("blocks-forever", f"request_unsafe(timeout={tmo}) never returns after {kind}"))
            return v
        dt = int(t_end) - T0
        if res.startswith("data:"):
            if bytes.fromhex(res[5:]) not in complete_replies(case):
                v.append(("fabricated-data", f"read returned {res[5:]} but the completely received replies are "
                                             f"{[x.hex() for x in complete_replies(case)]}"))
        elif res not in ("timeout", "conn", "eos"):
            v.append(("unexpected-exception", f"the pending operation ended with {res}"))
        if tmo is not None and dt > tmo + ack:
            v.append(("late", f"ended {dt} ms after the request; caller timeout {tmo} + ack time {ack}"))
        if tmo is None and kind != "silence" and dt > max(ack, case["delta"] or 0):
            v.append(("late", f"ended {dt} ms after the request without caller timeout; ack time {ack}, event after {case['delta']}"))
        if f[2] != "closed":
            v.append(("close-not-harmless", f"close(); close() after the loss: {f[2]}"))
        if f[3].startswith("exc:"):
            v.append(("reconnect-unexpected-exception", f[3]))
        return v
    # client level
    o1, t1, o2 = f[0], f[1], f[2]
    if o1 == "blocked" or o2 == "blocked":
        if tmo is not None or kind != "silence":
            v.append(("blocks-forever", f"request() never returns after {kind} (client timeout {tmo})"))
        return v
    for o in (o1, o2):
        if o.startswith("reply:"):
            if o[6:] not in legit:
                v.append(("fabricated-data", f"request() returned {o[6:]}"))
        elif o.split(":")[0] not in ("missing", "rc-refused", "rc-timeout"):
            v.append(("unexpected-exception", f"request() ended with {o}"))
    if o1 == "reply:" + LW.final(0).hex() and LW.final(0) not in complete_replies(case):
        v.append(("fabricated-data", "request() returned the reply of connection #0 although it was not completely received"))
    # recovery: the follow-up is issued when the peer accepts connections again
    if case["mr"] >= 1 and kind in ("eof", "reset") and not o2.startswith("reply:62f190"):
        v.append(("no-recovery", f"15 s after the loss (peer accepting again) request() with max_retry={case['mr']} gives {o2}"))
    if case["mr"] >= 1 and kind in ("eof", "reset") and o2 == "reply:" + LW.final(0).hex():
        v.append(("no-recovery", "the follow-up reply does not stem from the restarted peer"))
    # ... and the request that meets the loss in its first attempt (no retry spent on a timeout before the event) recovers itself
    first_attempt_sees_loss = tmo is None or tmo > (case["delta"] or 0)
    if case["mr"] >= 1 and kind in ("eof", "reset") and case["restart"] == 0 and first_attempt_sees_loss \
            and not o1.startswith("reply:62f190"):
        v.append(("no-recovery", f"peer accepts again at once, max_retry={case['mr']}, but the request itself gives {o1}"))
    # ... in general: whenever the recovery theorem applies (the loss surfaces as a connection error / end-of-stream - which includes a
    # peer that goes silent before the DoIP / HSFZ acknowledgement -, at least one retry, the peer accepting again inside the reconnect
    # window), the proved model returns the restarted peer's reply for the request itself; so must the implementation
    if model_obs is not None and case["mr"] >= 1 and not v:
        m1 = model_obs.split(" ")[0]
        if m1.startswith("reply:62f190") and m1 != "reply:" + LW.final(0).hex() and not o1.startswith("reply:62f190"):
            v.append(("no-recovery", f"the loss surfaces as a connection error, max_retry={case['mr']} and the peer accepts again {case['restart']} ms after "
                                     f"the loss - inside the reconnect window -, so the request is implied to return the restarted peer's reply "
                                     f"{m1[6:]} through one reconnect; it gives {o1}"))
    return v


# ---------------------------------------------------------------------------------------------------------------
# cases

def all_cuts(tr, script):
    n = sum(len(f) for _, f in LW.reply_stream(tr, script))
    return list(range(n + 1))


def boundary_cuts(tr, script):
    offs = {0}
    off = 0
    for _, f in LW.reply_stream(tr, script):
        offs |= {off + 1, off + len(f) // 2, off + len(f) - 1, off + len(f)}
        if len(f) > 8:
            offs |= {off + 6, off + 8}
        off += len(f)
    return sorted(offs)


def gen_cases(ctx):
    full = (not ctx.quick) or ctx.widened
    cases = []
    rot = 0
    for tr in LW.TRANSPORTS:
        for script in ("final", "pending"):
            bset = set(boundary_cuts(tr, script))
            for cut in all_cuts(tr, script):
                for kind in KINDS:
                    for delta in DELTAS:
                        if delta is None and (cut != 0 or kind == "silence"):
                            continue
                        grid = [(r, t) for r in RESTARTS for t in TMOS]
                        if not full and cut not in bset:
                            # every offset is visited; the restart x timeout grid rotates over the offsets
                            rot += 1
                            grid = [grid[(rot * 5 + j * 7) % 12] for j in range(2)]
                        for restart, tmo in grid:
                            base = dict(tr=tr, script=script, cut=cut, kind=kind, delta=delta, restart=restart, tmo=tmo)
                            cases.append(dict(base, level="T"))
                            mrs = [1, 2] if (full or cut in bset) else [1 + rot % 2]
                            if cut == 0 and delta == 70:
                                mrs = [0, 1, 2, 3]
                            for mr in mrs:
                                cases.append(dict(base, level="C", mr=mr))
    # seeded: longer pending sequences, other event times / restart delays / timeouts / retry budgets, every offset eligible
    rng = ctx.rng
    for _ in range(ctx.pick(4000, 40000)):
        tr = rng.choice(LW.TRANSPORTS)
        script = rng.choice(["final", "pending", "pending2", "pending2", "pending3"])
        kind = rng.choice(KINDS)
        delta = rng.choice([0, 7, 33, 70, 123, 277, 451]) if (kind == "silence" or rng.random() < 0.9) else None
        cut = 0 if delta is None else rng.choice(all_cuts(tr, script))
        base = dict(tr=tr, script=script, cut=cut, kind=kind, delta=delta,
                    restart=rng.choice([0, 137, 300, 999, 2000, 3000, 4321, 6500, 8000, 9400, 12000, 13000]),
                    tmo=rng.choice([None, 300, 500, 1200, 5000]))
        if rng.random() < 0.3:
            cases.append(dict(base, level="T"))
        else:
            cases.append(dict(base, level="C", mr=rng.choice([0, 1, 1, 2, 3])))
    return cases


def case_key(case):
    return json.dumps(case, sort_keys=True)


def class_of(case):
    return (f"{case['level']}:{case['tr']}:{case['kind']}:{where(case)}:"
            f"{'idle' if case['delta'] is None else 'd' + str(case['delta'])}:tmo={'none' if case['tmo'] is None else 'set'}")


def small(case):
    """order for choosing the representative of a class of failing cases"""
    return (case["script"] != "final", case["cut"], case.get("mr", 0), case["restart"], case["tmo"] or 0)


def compare(ctx, cases, impl, model):
    viol = {}
    ties = {}
    for c, a, b in zip(cases, impl, model):
        ctx.ev()
        ctx.kind(f"level:{c['level']}", f"tr:{c['tr']}", f"kind:{c['kind']}", f"script:{c['script']}",
                 f"delta:{c['delta']}", f"restart:{c['restart']}", f"tmo:{c['tmo']}", "pos:" + where(c).rstrip("0123456789"))
        ctx.kind("result:" + a.split(" ")[0].split(":")[0])
        if c["level"] == "C":
            ctx.kind("followup:" + (a.split(" ") + ["?", "?", "?"])[2].split(":")[0], f"max_retry:{c['mr']}")
        ctx.nontrivial(case_key(c))
        ctx.traces_validated += 1
        for clause, text in spec_check(c, a, b):
            k = f"c08:{clause}:{class_of(c)}"
            if k not in viol or small(c) < small(viol[k][0]):
                viol[k] = (c, a, b, clause, text)
        if a != b and not spec_check(c, a, b):
            fa, fb = a.split(" "), b.split(" ")
            names = (["result", "t_end", "close", "reconnect", "t_reconnect", "conns"] if c["level"] == "T"
                     else ["out1", "t1", "out2", "t2", "conns", "sent"])
            diff = [n for n, x, y in zip(names, fa + ["?"] * 6, fb + ["?"] * 6) if x != y]
            k = f"c08:model-differs:{'+'.join(diff)}:{class_of(c)}"
            if k not in ties or small(c) < small(ties[k][0]):
                ties[k] = (c, a, b, diff)
    for k, (c, a, b, clause, text) in sorted(viol.items()):
        ctx.disagree(k, f"{c['tr']} {c['level']}-level, {c['kind']} {where(c)} "
                        f"({'while idle' if c['delta'] is None else str(c['delta']) + ' ms after the request'}), "
                        f"caller timeout {c['tmo']}: {text}",
                     {"case": c, "prefix": stream_of(c)[: c['cut']].hex(), "model_line": model_line(c)},
                     impl=a, model=b, spec_violated=True, site=site_of(c, clause))
    for k, (c, a, b, diff) in sorted(ties.items()):
        ctx.disagree(k, f"{c['tr']} {c['level']}-level: implementation and model differ in {diff}",
                     {"case": c, "prefix": stream_of(c)[: c['cut']].hex(), "model_line": model_line(c)},
                     impl=a, model=b, spec_violated=False, site=site_of(c, "tie"))
    return len(viol), len(ties)


def site_of(c, clause):
    tr = c["tr"]
    if clause.startswith("close"):
        return {"tcp-lines": "TCPTransport.close", "unix-lines": "UnixTransport.close", "doip": "DoIPTransport.close",
                "hsfz": "HSFZConnection.close"}[tr]
    if c["level"] == "C":
        return "UDSClient.request_unsafe / BaseTransport.reconnect"
    return {"tcp-lines": "LinesTransportMixin.read", "unix-lines": "LinesTransportMixin.read",
            "doip": "DoIPConnection._read_worker / read_frame_unsafe", "hsfz": "HSFZConnection._read_worker / read_frame"}[tr]


def run(ctx):
    setup_repo_import()
    ctx.rule = ("a case = (transport, reply script, cut offset, cut kind, event time, restart delay, caller timeout, level, "
                "max_retry); distinct by these parameters; every case is non-trivial (a connection is lost in each); each is "
                "run on the real transports / ECU and on the model and all observables are compared")
    cases = gen_cases(ctx)
    nproc = max(1, min(16, (os.cpu_count() or 2)))
    impl = run_impl_many(cases, nproc)
    model = ctx.lean([model_line(c) for c in cases])
    nv, nt = compare(ctx, cases, impl, model)
    n_off = sum(len(all_cuts(tr, s)) for tr in LW.TRANSPORTS for s in ("final", "pending"))
    ctx.exhaustive_parts.append(
        f"every byte offset (0..len) of the reply streams [final] and [pending, final] of all four transports ({n_off} cut "
        f"points, frame boundaries included) x {{eof, reset, silence}} x event {{70 ms after, same instant, while idle}}; "
        + ("x the full grid restart {0, 0.3, 3, 12 s} x caller timeout {None, 0.5, 5 s} x {transport level, client level "
           "max_retry 1 and 2}" if (not ctx.quick or ctx.widened) else
           "the full grid restart {0, 0.3, 3, 12 s} x caller timeout {None, 0.5, 5 s} x levels at the frame boundaries, first/"
           "middle/last byte of every frame and inside the headers; two rotating grid points at the other offsets"))
    ctx.notes["cases"] = len(cases)
    ctx.notes["spec_violation_classes"] = nv
    ctx.notes["model_difference_classes"] = nt
    for i in (0, len(cases) // 3, len(cases) // 2, len(cases) - 1):
        ctx.sample({"case": cases[i], "impl": impl[i], "model": model[i]})
    run_sys(ctx, nproc)
    run_pend(ctx, nproc)
    wait_for_ecu_probe(ctx)
    ctx.notes["silence_on_line_transports"] = (
        "a silent peer on tcp-lines / unix-lines only produces timeouts: the client retries on the same connection and ends "
        "with MissingResponse in bounded time; no reconnect is attempted (model and implementation agree)")


# ---------------------------------------------------------------------------------------------------------------
# whole executions (Model/LossSys.lean)

def gen_sys_cases(ctx):
    rng = ctx.rng
    cases = []
    n_s, n_a = ctx.pick(5200, 40000), ctx.pick(2800, 20000)
    if ctx.widened:
        n_s, n_a = n_s * 3, n_a * 3
    trs = ["tcp-lines", "doip", "hsfz", "unix-lines"]
    for i in range(n_s):
        cases.append(CS.gen_sensible(rng, trs[i % 4] if i % 8 < 7 else "tcp-lines"))
    for i in range(n_a):
        cases.append(CS.gen_adversarial(rng, trs[i % 3]))
    cases += CS.gen_backlogs()
    return cases


def sys_differs(ctx, c):
    a = run_any(c)
    b, ties = CS.canon_model(ctx.lean([CS.model_line(c)])[0])
    return ties == 0 and (a != b or bool(CS.spec_check(c, a, b)))


def run_sys(ctx, nproc):
    cases = gen_sys_cases(ctx)
    impl = run_impl_many(cases, nproc)
    model = ctx.lean([CS.model_line(c) for c in cases])
    ties = 0
    viol, broken = {}, {}
    for c, a, mline in zip(cases, impl, model):
        b, t = CS.canon_model(mline)
        ctx.ev()
        ctx.kind("sys:" + c["stream"], f"sys-tr:{c['tr']}", f"sys-max_retry:{c['mr']}")
        if t:
            ties += 1      # a deadline falls exactly on a peer event: order not modelled, not compared
            continue
        ctx.nontrivial(CS.case_key(c))
        ctx.traces_validated += 1
        for tok in a.split(" "):
            if tok.startswith(("req:", "rc:")):
                ctx.kind("sys-outcome:" + ":".join(tok.split(":")[:2]))
        sv = CS.spec_check(c, a, b) if c["stream"].startswith("sensible") else [x for x in CS.spec_check(c, a, b) if x[0] != "fabricated-data"]
        for clause, text in sv:
            k = f"{clause}:{c['tr']}"
            if k not in viol or len(c["ev"]) < len(viol[k][0]["ev"]):
                viol[k] = (c, a, b, clause, text)
        if a != b and not sv:
            fa, fb = a.split(" "), b.split(" ")
            first = next((i for i, (x, y) in enumerate(zip(fa + ["?"] * 99, fb + ["?"] * 99)) if x != y), 0)
            what = (fa + ["?"] * 99)[first].split(":")[0] if first < len(fa) and ":" in (fa + ["?"] * 99)[first] else "log"
            k = f"{what}:{c['tr']}"
            if k not in broken or len(c["ev"]) < len(broken[k][0]["ev"]):
                broken[k] = (c, a, b)
    for k, (c, a, b, clause, text) in sorted(viol.items()):
        c2 = CS.shrink(c, lambda x: any(cl == clause for cl, _ in CS.spec_check(
            x, run_any(x), CS.canon_model(ctx.lean([CS.model_line(x)])[0])[0])))
        a2 = run_any(c2)
        b2 = CS.canon_model(ctx.lean([CS.model_line(c2)])[0])[0]
        ctx.disagree(f"c08sys:{clause}:{c2['tr']}:mr={c2['mr']}:{' '.join(c2['ev'])}",
                     f"{c2['tr']} whole execution, max_retry={c2['mr']}: {text}",
                     {"case": c2, "model_line": CS.model_line(c2)}, impl=a2, model=b2, spec_violated=True,
                     site="UDSClient.request_unsafe / BaseTransport.reconnect")
    for k, (c, a, b) in sorted(broken.items()):
        c2 = CS.shrink(c, lambda x: sys_differs(ctx, x))
        a2 = run_any(c2)
        b2 = CS.canon_model(ctx.lean([CS.model_line(c2)])[0])[0]
        ctx.disagree(f"c08sys:model-differs:{c2['tr']}:mr={c2['mr']}:{' '.join(c2['ev'])}",
                     f"{c2['tr']} whole execution, max_retry={c2['mr']}: implementation and model differ",
                     {"case": c2, "model_line": CS.model_line(c2)}, impl=a2, model=b2, spec_violated=False,
                     site="UDSClient.request_unsafe / BaseTransport.reconnect")
    ctx.exhaustive_parts.append(
        "whole executions: backlog of N unconsumed frames, N in {0, 1, 63, 64, 65, 128, 200}, x {hsfz, doip, tcp-lines} x "
        "{eof, reset} x read timeout {None, 0.5 s}, N + 2 transport reads each (84 lists); the other event lists are sampled")
    ctx.notes["sys_cases"] = len(cases)
    ctx.notes["sys_ties_skipped"] = ties
    ctx.notes["sys_spec_violation_classes"] = len(viol)
    ctx.notes["sys_model_difference_classes"] = len(broken)
    for i in (0, len(cases) // 2, len(cases) - 1):
        ctx.sample({"case": cases[i], "impl": impl[i], "model": model[i]})


def run_pend(ctx, nproc):
    """k readers pending on one DoIP / HSFZ connection at the moment of the loss (lib/c08pend.py, Model/LossPend.lean)"""
    cases = CP.gen_exhaustive()
    n_ex = len(cases)
    cases += CP.gen_sampled(ctx.rng, ctx.pick(1500, 12000) * (3 if ctx.widened else 1))
    impl = run_impl_many(cases, nproc)
    model = ctx.lean([CP.model_line(c) for c in cases])
    viol, ties = {}, {}
    for c, a, b in zip(cases, impl, model):
        ctx.ev()
        ctx.kind("pend:" + c["fl"], "pend-kind:" + c["kind"], f"pend-k:{len(c['rd'])}", f"pend-n:{c['n']}",
                 "pend-tmo:" + ("all" if all(t is not None for _, t in c["rd"]) else
                                "none" if all(t is None for _, t in c["rd"]) else "mixed"))
        ctx.nontrivial(CP.case_key(c))
        ctx.traces_validated += 1
        for tok in CP.readers_of(a):
            ctx.kind("pend-outcome:" + tok.split("@")[0].split(":")[0])
        sv = CP.spec_check(c, a)
        for clause, text in sv:
            k = f"{clause}:{c['fl']}"
            if k not in viol or CP.small(c) < CP.small(viol[k][0]):
                viol[k] = (c, a, b, clause, text)
        if not sv and " ".join(CP.readers_of(a)) != b:
            k = c["fl"]
            if k not in ties or CP.small(c) < CP.small(ties[k][0]):
                ties[k] = (c, a, b)
    for _, (c, a, b, clause, text) in sorted(viol.items()):
        ctx.disagree(f"c08pend:{clause}:{CP.model_line(c)}:{c['kind']}", f"{CP.describe(c)}: {text}",
                     {"case": c, "model_line": CP.model_line(c)}, impl=a, model=b, spec_violated=True, site=_pend_site(c))
    for _, (c, a, b) in sorted(ties.items()):
        ctx.disagree(f"c08pend:model-differs:{CP.model_line(c)}:{c['kind']}",
                     f"{CP.describe(c)}: implementation and model differ in the readers' outcomes",
                     {"case": c, "model_line": CP.model_line(c)}, impl=a, model=b, spec_violated=False, site=_pend_site(c))
    ctx.exhaustive_parts.append(
        f"pending readers: {{DoIPConnection, DoIPConnection(separate_diagnostic_message_queue=True), HSFZConnection}} x k in "
        f"{{1, 2, 3}} readers x every assignment of {{read_diag_request, read_frame}} x caller timeout {{None, 0.7 s}} to them x "
        f"{{0, 1, 2}} messages delivered before x loss {{eof, reset, close(), ack timeout of a concurrent write (where the "
        f"write can start), silent peer}} ({n_ex} cases); k up to 5, other timeouts / times / message counts sampled")
    ctx.notes["pend_cases"] = len(cases)
    ctx.notes["pend_spec_violation_classes"] = len(viol)
    ctx.notes["pend_model_difference_classes"] = len(ties)
    for i in (0, len(cases) // 2, len(cases) - 1):
        ctx.sample({"case": cases[i], "impl": impl[i], "model": model[i]})


def _pend_site(c):
    if c["fl"] == "hsfz":
        return "HSFZConnection.read_frame / _read_worker / close"
    return "DoIPConnection.read_frame_unsafe / read_diag_request_raw / close"


def _replay_pend(ctx, c):
    a = run_any(c)
    b = ctx.lean([CP.model_line(c)])[0]
    print("case  :", json.dumps(c, sort_keys=True))
    print("what  :", CP.describe(c))
    print("impl  :", a, " (one token per pending reader in start order, then the concurrent write, a read after the loss, close twice)")
    print("model :", b)
    v = CP.spec_check(c, a)
    for clause, text in v:
        print(f"property clause violated by the implementation: {clause}: {text}")
    return 1 if (v or " ".join(CP.readers_of(a)) != b) else 0


def _replay_sys(ctx, c):
    a = run_any(c)
    mline = ctx.lean([CS.model_line(c)])[0]
    b, ties = CS.canon_model(mline)
    print("case  :", json.dumps(c, sort_keys=True))
    print("events:", " ".join(c["ev"]))
    print("impl  :", a)
    print("model :", b, f"(ties {ties})")
    v = CS.spec_check(c, a, None if ties else b)
    for clause, text in v:
        print(f"property clause violated by the implementation: {clause}: {text}")
    return 1 if (v or (a != b and not ties)) else 0


def _replay_one(ctx, c):
    if "rd" in c:
        return _replay_pend(ctx, c)
    if "ev" in c:
        return _replay_sys(ctx, c)
    a = run_impl(c)
    b = ctx.lean([model_line(c)])[0]
    print("case  :", json.dumps(c, sort_keys=True))
    print("prefix:", stream_of(c)[: c["cut"]].hex() or "-", f"({where(c)})")
    print("impl  :", a)
    print("model :", b)
    v = spec_check(c, a, b)
    for clause, text in v:
        print(f"property clause violated by the implementation: {clause}: {text}")
    return 1 if (v or a != b) else 0


async def _impl_wait(case, wt):
    from gallia.services.uds.ecu import ECU
    loop = asyncio.get_event_loop()
    w, t = await _setup(case)
    ecu = ECU(t, timeout=0.5, max_retry=1)
    try:
        r = await ecu.wait_for_ecu(timeout=wt)
        res = f"returned:{r}"
    except Exception as e:  # noqa: BLE001
        res = "raised:" + type(e).__name__
    return f"{res} {_ms(loop.time()) - T0} {len(w.conns)}"


def wait_for_ecu_probe(ctx):
    """observation (not judged, no model): ECU.wait_for_ecu(10 s) after the idle connection was closed by a peer that is
    down for 3 s - `_wait_for_ecu_endless_loop` reconnects inside its `except` clause"""
    _ensure_patched()
    obs = {}
    for tr in LW.TRANSPORTS:
        case = dict(tr=tr, script="final", cut=0, kind="eof", delta=None, restart=3000, tmo=500, level="C", mr=1)
        try:
            obs[tr], _ = vrun(_impl_wait(case, 10), horizon=7200.0)
        except Stall:
            obs[tr] = "blocked"
        except Exception as e:  # noqa: BLE001
            obs[tr] = "harness-exc:" + type(e).__name__
    ctx.notes["wait_for_ecu_after_eof_peer_down_3s"] = obs
    ctx.notes["wait_for_ecu_note"] = (
        "observation: on the transports whose reconnect() connects once (tcp-lines, unix-lines, hsfz) wait_for_ecu() does not "
        "wait for a peer that is still down: the ConnectionRefusedError of the reconnect inside the except clause of "
        "_wait_for_ecu_endless_loop leaves wait_for_ecu after the first ping; DoIP (10 s reconnect window) returns True. "
        "A connection error in bounded time - consistent with the property's first sentence; recorded, not judged")


def replay(ctx, case):
    setup_repo_import()
    if "correspondence_disagreements" in case or "no_longer_checks" in case:
        for b in case.get("no_longer_checks", []):
            print("no longer checks:", b.get("what"))
            print("   ", str(b.get("detail"))[-600:].replace("\n", "\n    "))
        rc = 1 if case.get("no_longer_checks") else 0
        for d in case.get("correspondence_disagreements", [])[:5]:
            print("--", d.get("key"))
            rc |= _replay_one(ctx, d["case"]["case"])
        return rc
    c = case.get("case", case)
    c = c.get("case", c)
    return _replay_one(ctx, c)


MANIFEST = {
    "level_text": ("SEVERAL PENDING READERS (Model/LossPend.lean, 4 theorems): for ANY number k of tasks blocked in read_diag_request() / "
                   "read_frame() of one DoIPConnection (shared queue + mutex, or separate diagnostic-message queue read without the "
                   "mutex) or HSFZConnection, each with any caller timeout or none, any number of messages delivered before: once the "
                   "connection is lost every pending read ends no later than the loss and no later than its own timeout "
                   "(pend_every_reader_ends), a read with caller timeout ends by it whatever the peer does (pend_timeout_bounds), every "
                   "reader gets an outcome (pend_all_readers_accounted), returned messages are delivered ones, handed out once, in order, "
                   "to readers of the right queue (pend_no_fabrication). Tied by running k = 1..3 readers exhaustively (ops x timeout "
                   "{None, 0.7 s} x 0..2 messages x loss {eof, reset, close(), ack timeout, silence}) and k <= 5 sampled on the real "
                   "connections under virtual time. WHOLE EXECUTIONS (Model/LossSys.lean, 15 theorems): for every max_retry = n, every state and every event list "
                   "(client calls request / close / reconnect / transport read; peer events deliver any bytes, cut eof / reset / "
                   "silence, listener up / down, serve, routing activation answered / lost; advance) every call with a caller "
                   "timeout t ends within callBudget = sum over the attempts of min(t, ack) + t + ResponsePending budget, plus per "
                   "retry retry_wait * 2^i + reconnect window (sys_every_call_ends; exact closed form without ResponsePending "
                   "(n+1)(min(t,ack)+t) + n*window + sum retry_wait*2^i, attained by a silent peer: sys_every_call_ends_exact, "
                   "callBudget_closed; lifted to every observation of every run: sys_run_calls_end); a returned reply is a completely received message of the connection the last write of the "
                   "request went out on, every reconnect starts from an empty queue (sys_no_fabrication, "
                   "sys_no_fabrication_attempt; a stale reply on the SAME connection is returned - shown by example); the request "
                   "is written exactly once per attempt, timeouts / busy retry on the same connection, a new connection is opened "
                   "only after a loss that surfaced as ConnectionError / end-of-stream with a retry left (sys_retries_exact, "
                   "sys_retries_exact_attempt, sys_retries_exact_conn); with n >= 1, the peer accepting and answering, the call "
                   "returns the peer's reply through exactly one new connection (sys_recovers; n = 0 witness); close is idempotent "
                   "and close; request recovers (sys_close_idempotent, sys_close_harmless); a read on an ended / closed connection "
                   "returns at once for any backlog (sys_backlog_read_ends). Tied by running generated event lists (sensible: a "
                   "request, a loss, a recovery, set-up disturbances, close / reconnect, duplicate acks; adversarial; backlog "
                   "0..200 frames before eof / reset) against the real UDSClient over the real TCPLines / UnixLines / DoIP / HSFZ "
                   "transports with a scripted in-memory peer under virtual time: outcome, end time and connection count of every "
                   "call, every request on the wire (connection, time, bytes), refused connection attempts. ONE EXCHANGE: "
                   "Lean 4 theorems over an executable model of connection loss on the four stream transports composed with "
                   "the UDS client's retry / reconnect loop: for an arbitrary delivered prefix (every cut point of every "
                   "stream) and cut kind (eof / reset / silence) the pending request_unsafe ends with data, timeout, "
                   "connection error or end-of-stream no later than caller timeout + ack time (loss_bounded); without caller "
                   "timeout it still ends for eof / reset (loss_bounded_no_timeout) and blocks exactly for a silent peer; "
                   "returned data is the payload of a completely received frame / newline-terminated line of the peer's "
                   "stream (no_fabrication, through the C19 / C06 / C07 framing models); with max_retry >= 1 and the peer "
                   "accepting again inside the reconnect window the request returns the restarted peer's reply after one "
                   "reconnect (recover, with the reconnect windows of the transports characterised); close is idempotent "
                   "and never raises; request() with a client timeout never blocks for any retry budget; a dying reader "
                   "task / the end of the stream wakes the blocked consumer in the C06 / C07 connection models. Tied to the code by a differential run of the real TCPLines / UnixLines / "
                   "DoIP / HSFZ transports, BaseTransport.reconnect and ECU over in-memory peers with a listener that is "
                   "down for a virtual delay: every byte offset of two reply streams per transport x 3 cut kinds x 3 event "
                   "times x restart {0, 0.3, 3, 12 s} x caller timeout {None, 0.5, 5 s} x {transport level, client level}."),
    "level_note": ("Pending readers: start in one instant, FIFO queue / lock wake-up order of asyncio trusted, no deadline ties, ack-timeout "
                   "loss only where the write is not serialised behind a pending read_frame(). Whole executions: one client task; a hanging TCP connect is bounded by the kernel only; deadline/event ties are "
                   "skipped; replies restricted to the 22 f1 90 vocabulary. Partial: real socket errors (EPIPE vs ECONNRESET timing, half-open connections, kernel buffering) are "
                   "represented by the three cut kinds; one client task; silence on a line transport never triggers a "
                   "reconnect (indistinguishable from a slow peer) - recovery is stated for losses that surface as "
                   "ConnectionError / end-of-stream. Trusted: Lean kernel (propext, Quot.sound, Classical.choice), asyncio "
                   "StreamReader / Queue / wait_for contracts, the in-memory peers and the virtual-time loop."),
    "technique": "Lean 4 proof (case analysis over the loss machine, induction over the client loop and over event lists, time-budget potential, C19/C06/C07 framing lemmas) + differential correspondence under virtual time with exhaustive cut-point enumeration and generated whole executions (sensible + adversarial + backlog)",
    "design_ref": "DESIGN.md section 7, C08",
}
