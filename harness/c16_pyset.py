"""C16 helper: differential test of the Lean model of CPython's set (lean/Gallia/Model/PySet.lean) against the real
`set` of the running interpreter.

A *program* is a list of ops over numbered registers; the Lean driver keeps PySet values in registers, the Python side
keeps real `set` objects.  After every op `list(s)` (the iteration order), `len(s)` and the table size (from
`sys.getsizeof`) of the destination register are compared.

ops (JSON lists):
  ["from", d, xs, how]   d = set(xs) | {x for x in xs} | set(iter) | display with variables
  ["add", d, x] ["discard", d, x] ["remove", d, x] ["update", d, xs, how]      in place on register d
  ["sub", d, a, b] ["or", d, a, b] ["copy", d, a]                                 new object in register d
  ["isub", a, b] ["ior", a, b]                                                   in place on register a (a != b)
  ["has", a, x]
"""
import sys

BASE = sys.getsizeof(set())
ENTRY = 16  # sizeof(setentry) on 64-bit builds


def table_size(s):
    extra = sys.getsizeof(s) - BASE
    return 8 if extra == 0 else extra // ENTRY


def nats(xs):
    xs = list(xs)
    return ",".join(str(int(x)) for x in xs) if xs else "-"


def lean_line(op):
    k = op[0]
    if k == "from":
        return f"s from {op[1]} {nats(op[2])}"
    if k in ("add", "discard", "remove"):
        return f"s {'discard' if k == 'remove' else k} {op[1]} {op[1]} {op[2]}"
    if k == "update":
        return f"s update {op[1]} {op[1]} {nats(op[2])}"
    if k in ("sub", "or"):
        return f"s {k} {op[1]} {op[2]} {op[3]}"
    if k == "copy":
        return f"s copy {op[1]} {op[2]}"
    if k in ("isub", "ior"):
        return f"s {k} {op[1]} {op[1]} {op[2]}"
    if k == "has":
        return f"s has {op[1]} {op[2]}"
    raise ValueError(op)


def make_set(xs, how):
    if how == 1:
        return {x for x in xs}
    if how == 2:
        return set(iter(xs))
    if how == 3 and 0 < len(xs) <= 12:  # a set display over variables: BUILD_SET n
        names = [f"v{i}" for i in range(len(xs))]
        return eval("{" + ",".join(names) + "}", {}, dict(zip(names, xs)))  # noqa: S307
    if how == 4:
        return set(tuple(xs))
    return set(xs)


class Real:
    """the real sets; registers hold distinct objects"""

    def __init__(self):
        self.regs = {}

    def get(self, i):
        if i not in self.regs:
            self.regs[i] = set()
        return self.regs[i]

    def step(self, op):
        """-> observation string in the driver's format (or '0'/'1' for has)"""
        k = op[0]
        if k == "from":
            self.regs[op[1]] = make_set(op[2], op[3] if len(op) > 3 else 0)
            d = op[1]
        elif k == "add":
            self.get(op[1]).add(op[2])
            d = op[1]
        elif k == "discard":
            self.get(op[1]).discard(op[2])
            d = op[1]
        elif k == "remove":
            try:
                self.get(op[1]).remove(op[2])
            except KeyError:
                pass
            d = op[1]
        elif k == "update":
            how = op[3] if len(op) > 3 else 0
            xs = op[2]
            self.get(op[1]).update(iter(xs) if how == 1 else (tuple(xs) if how == 2 else xs))
            d = op[1]
        elif k == "sub":
            self.regs[op[1]] = self.get(op[2]) - self.get(op[3])
            d = op[1]
        elif k == "or":
            assert op[2] != op[3]
            self.regs[op[1]] = self.get(op[2]) | self.get(op[3])
            d = op[1]
        elif k == "copy":
            src = self.get(op[2])
            self.regs[op[1]] = src.copy() if (len(op) < 4 or op[3] == 0) else set(src)
            d = op[1]
        elif k == "isub":
            assert op[1] != op[2]
            s = self.get(op[1])
            s -= self.get(op[2])
            d = op[1]
        elif k == "ior":
            assert op[1] != op[2]
            s = self.get(op[1])
            s |= self.get(op[2])
            d = op[1]
        elif k == "has":
            return "1" if op[2] in self.get(op[1]) else "0"
        else:
            raise ValueError(op)
        return observe(self.regs[d])


def observe(s):
    return f"{nats(s)} used={len(s)} size={table_size(s)}"


def strip_fill(line):
    """driver prints `<list> used= fill= size=`; fill is not observable on the real set"""
    return " ".join(p for p in line.split() if not p.startswith("fill="))


def run_program(ops):
    r = Real()
    return [r.step(op) for op in ops]


# ------------------------------------------------------------------------------------------------------------
# generators
# ------------------------------------------------------------------------------------------------------------
UNIVERSES = {
    "0..300": list(range(301)),
    "mult8": [8 * k for k in range(38)],
    "mult32": [32 * k for k in range(10)] + list(range(6)),
    "mult128": [128 * k for k in range(3)] + [32 * k + 1 for k in range(8)] + [22, 23, 54, 55],
    "sessions": list(range(0x7F)),
    "services": [0x10, 0x11, 0x14, 0x19, 0x22, 0x23, 0x24, 0x27, 0x28, 0x29, 0x2A, 0x2C, 0x2E, 0x2F, 0x31, 0x34, 0x35, 0x36,
                 0x37, 0x38, 0x3D, 0x3E, 0x7F, 0x83, 0x84, 0x85, 0x86, 0x87],
    "big": None,  # filled per sequence: ints below 2^61 - 1 with equal low bits
}


def random_program(rng, n_ops, uname):
    if uname == "big":
        lows = [rng.randrange(8) for _ in range(3)]
        univ = [(rng.randrange(2 ** rng.choice([8, 20, 40, 61]) - 1) & ~0x1F) | rng.choice(lows) for _ in range(40)]
        univ = [u % (2 ** 61 - 1) for u in univ] + [2 ** 61 - 2, 0, 1 << 35, 1 << 60]
    else:
        univ = UNIVERSES[uname]
    ops = []
    nreg = 3
    for _ in range(n_ops):
        k = rng.choice(["add"] * 6 + ["discard"] * 3 + ["remove", "update", "update", "sub", "sub", "or", "copy", "isub", "ior",
                                                     "from", "has", "clear"])
        a, b, d = rng.randrange(nreg), rng.randrange(nreg), rng.randrange(nreg)
        x = rng.choice(univ)
        xs = [rng.choice(univ) for _ in range(rng.choice([0, 1, 2, 3, 5, 8, 20, 40, 70]))]
        if k in ("add", "discard", "remove", "has"):
            ops.append([k, a, x])
        elif k == "update":
            ops.append(["update", a, xs, rng.randrange(3)])
        elif k == "from":
            ops.append(["from", d, xs, rng.randrange(5)])
        elif k == "clear":
            if rng.random() < 0.3:
                ops.append(["from", d, [], 0])
        elif k == "sub":
            ops.append(["sub", d, a, b])
        elif k == "copy":
            ops.append(["copy", d, a, rng.randrange(2)])
        elif a != b:
            ops.append([k, d, a, b] if k == "or" else [k, a, b])
    return ops


def randomize_shaped_program(rng):
    """the operations of RandomUDSServer.randomize on its iterated sets: next = set(); next.update(list) per source;
    level = next - set(ascending list)"""
    univ = list(range(0x7F))
    comb = rng.sample(univ, rng.choice([1, 3, 8, 20, 60, 67, 127]))
    if rng.random() < 0.3:
        comb = [1, 2, 3, 4] + list(range(0x40, 0x7F))
    ops = [["from", 0, [1], 3]]
    avail = {1}
    for _ in range(rng.randrange(1, 4)):
        ops.append(["from", 1, [], 0])
        p = rng.choice([0.02, 0.1, 0.3, 0.7, 1.0])
        for _src in range(rng.randrange(1, 6)):
            tr = [s for s in comb if rng.random() < p]
            ops.append(["update", 1, tr, 0])
        ops.append(["from", 2, sorted(avail), 0])
        ops.append(["sub", 0, 1, 2])
        for o in ops:
            if o[0] == "update":
                avail.update(o[2])
    return ops


def exhaustive_walk(init, univ, depth, kinds=("add", "discard"), first=None):
    """depth-first over all op sequences up to `depth` over `kinds` x `univ`, starting from set(init)
    (`first` = (kind, x): only the sequences that start with this op - the walk is done in such slices to bound memory).
    -> (lean_lines, expected, paths): node k of the walk is `s <op> <d+1> <d> x` on the Lean side (registers are
    values, so siblings share their prefix); the Python side replays the whole prefix on a fresh real set.
    `paths[k]` is the index of the parent node (-1 for the root) and the op, enough to rebuild the program."""
    lines = [f"s from 0 {nats(init)}"]
    expected = [observe(set(init))]
    paths = [(-1, None)]
    stack = []

    def replay():
        s = set(init)
        for k, x in stack:
            (s.add if k == "add" else s.discard)(x)
        return s

    def rec(d, parent):
        if d == depth:
            return
        for k in kinds:
            for x in univ:
                if d == 0 and first is not None and (k, x) != first:
                    continue
                stack.append((k, x))
                lines.append(f"s {k} {d + 1} {d} {x}")
                expected.append(observe(replay()))
                paths.append((parent, (k, x)))
                me = len(paths) - 1
                rec(d + 1, me)
                stack.pop()

    rec(0, 0)
    return lines, expected, paths


def program_of(init, paths, k):
    ops = []
    while k > 0:
        parent, op = paths[k]
        ops.append([op[0], 0, op[1]])
        k = parent
    return [["from", 0, list(init), 0]] + ops[::-1]
