"""C16 helper: canonical model dump and request/answer transcript of a RandomUDSServer.

Used in-process by harness/props/C16.py and as a script in separate interpreter processes
(`python c16_transcript.py` with a JSON job on stdin) started with different PYTHONHASHSEED values, import orders and
clock bases.  Output (stdout): one JSON document, keys sorted, no timestamps - it must be byte-identical for the same
seed / arguments / history in every environment.  The only masked content: the seed bytes of positive RequestSeed
answers (`67 <odd> ...`), which the server draws from an unseeded RNG on purpose.
"""
import asyncio
import json
import os
import sys

IMPORT_ORDERS = {
    # what is imported before gallia.services.uds.server
    0: ["gallia.command"],
    1: ["gallia.command", "gallia.services.uds.core.service", "gallia.services.uds.core.constants"],
    2: ["gallia.command", "gallia.transports", "gallia.services.uds", "gallia.commands", "gallia.db.handler"],
    3: ["gallia.command", "gallia.services.uds.ecu", "gallia.log", "gallia.services.uds.helpers", "gallia.dumpcap"],
}


def load_server_module(order=0):
    import importlib
    import logging

    src = os.path.join(os.environ.get("GALLIA_REPO", "/repo"), "src")
    if src not in sys.path:
        sys.path.insert(0, src)
    for m in IMPORT_ORDERS[order]:
        try:
            importlib.import_module(m)
        except ImportError:
            pass
    import gallia.services.uds.server as S

    assert os.path.realpath(S.__file__).startswith(os.path.realpath(src)), S.__file__
    logging.disable(logging.CRITICAL)
    return S


def dump_services(services) -> str:
    """canonical text of `server.services`: sessions ascending, services in dict order, None -> N"""
    if not services:
        return "-"
    out = []
    for sess in sorted(services):
        svcs = services[sess]
        out.append(f"{int(sess)}:" + ",".join(
            f"{int(k)}=" + ("N" if v is None else ".".join(str(int(x)) for x in v)) for k, v in svcs.items()))
    return ";".join(out)


class Clock:
    """stands in for `time()` inside gallia.services.uds.server: own base, small steps (no inactivity reset)"""

    def __init__(self, base):
        self.t = float(base)

    def __call__(self):
        self.t += 0.001
        return self.t


def mask_answer(req: bytes, ans):
    if ans is None:
        return "none"
    if len(ans) >= 2 and ans[0] == 0x67 and ans[1] % 2 == 1:
        return ans[:2].hex() + "*"
    return ans.hex()


async def _run_history(S, srv, history, tr=None):
    from gallia.transports import TargetURI

    if tr is None:
        tr = S.UDSServerTransport(srv, TargetURI("tcp://127.0.0.1:1"))
    answers = []
    for item in history:
        if item.startswith("unlock:"):
            # RequestSeed (sf-1) followed by SendKey (sf) with the seed just received (the server accepts the identity
            # as key).  The seed is fresh by design, so this one request of the history differs between processes; an
            # empty seed would turn the SendKey into a different (malformed) request, so the seed is re-requested until
            # it is non-empty.  Only the SendKey answer is recorded.
            sf = int(item[7:], 16)
            key = b"\x00\x00\x00"
            try:
                for _ in range(64):
                    ans, _t = await tr.handle_request(bytes([0x27, sf - 1]))
                    if ans is None or len(ans) < 2 or ans[0] != 0x67:
                        break
                    if len(ans) > 2:
                        key = bytes(ans[2:])
                        break
            except Exception as e:
                answers.append("EXC:" + type(e).__name__)
                continue
            req = bytes([0x27, sf]) + key
        elif item.startswith("seq:"):
            # requests that must stay adjacent (a seed request left pending, then a request whose answer may look at the state);
            # one answer string for the whole group, fresh seeds masked
            parts = []
            for h in item[4:].split("|"):
                r = bytes.fromhex(h)
                try:
                    a, _t = await tr.handle_request(r)
                    parts.append(mask_answer(r, a))
                except Exception as e:
                    parts.append("EXC:" + type(e).__name__)
            answers.append("/".join(parts))
            continue
        else:
            req = bytes.fromhex(item)
        try:
            ans, _ = await tr.handle_request(req)
        except Exception as e:  # must be the same exception class everywhere
            answers.append("EXC:" + type(e).__name__)
            continue
        answers.append(mask_answer(req, ans))
    return answers


_PARSER = None


def cli_build(argv):
    """the virtual ECU as `gallia <argv>` builds it: the real parser over the whole command tree -> the command's config
    (RngVirtualECUConfig) -> the command object -> its own `_server()`.  No transport is created.
    -> (server, config)"""
    global _PARSER
    import gallia.command  # noqa: F401
    from gallia.cli.gallia import create_parser, get_command
    from gallia.plugins.plugin import load_commands

    if _PARSER is None:
        _PARSER = create_parser(load_commands())
    try:
        _, config = _PARSER.parse_typed_args(list(argv))
    except SystemExit as e:
        raise RuntimeError(f"argument parser exits with {e.code}") from None
    cmd = get_command(config)
    return cmd._server(), config


def params_fingerprint(srv):
    """the arguments that reached RandomUDSServer, lists in the order randomize() walks them"""
    P = srv.randomness_parameters
    return {"seed": srv.seed,
            "mandatory_sessions": [int(x) for x in P.mandatory_sessions],
            "optional_sessions": [int(x) for x in P.optional_sessions],
            "mandatory_services": [int(x) for x in P.mandatory_services],
            "optional_services": [int(x) for x in P.optional_services],
            "p": [P.p_session, P.p_service, P.p_sub_function, P.p_identifier, P.p_correct_payload_format, P.p_dtc_status_mask]}


def transcript(S, cfg, clock_base=0.0, history=None):
    """cfg = {"seed": int, "params": {...RandomnessParameters kwargs...}, "history": [hex | "unlock:<sf>"]}
    or    {"argv": [...command line of `gallia script vecu rng ...`...], "history": [...]}"""
    S.time = Clock(clock_base)
    if "argv" in cfg:
        srv, _config = cli_build(cfg["argv"])
    else:
        P = S.RandomUDSServer.RandomnessParameters(**cfg["params"])
        srv = S.RandomUDSServer(cfg["seed"], P)
    loop = asyncio.new_event_loop()
    try:
        loop.run_until_complete(srv.setup())
        out = {"model": dump_services(srv.services)}
        if "argv" in cfg:
            out["params"] = params_fingerprint(srv)
        h = cfg.get("history") if history is None else history
        if h is not None:
            out["answers"] = loop.run_until_complete(_run_history(S, srv, h))
    finally:
        loop.close()
    return out


def defaults_fingerprint(S):
    P = S.RandomUDSServer.RandomnessParameters()
    return {"optional_services": [int(x) for x in P.optional_services],
            "mandatory_services": [int(x) for x in P.mandatory_services],
            "optional_sessions": [int(x) for x in P.optional_sessions],
            "mandatory_sessions": [int(x) for x in P.mandatory_sessions]}


def set_global_random(spec):
    """the state of the process-global `random` module is part of the environment: `None` leaves the os.urandom-seeded state of
    a fresh interpreter, `[seed, advance]` seeds it and advances it by `advance` draws (what unrelated code of the same
    process may have done before the virtual ECU is started).  A virtual ECU must not care."""
    import random

    if spec is None:
        return
    random.seed(spec[0])
    for _ in range(int(spec[1])):
        random.random()


def main():
    job = json.loads(sys.stdin.read())
    S = load_server_module(job.get("import_order", 0))
    set_global_random(job.get("global_random"))
    res = {"defaults": defaults_fingerprint(S), "runs": []}
    # the order in which this process builds and questions the ECUs differs between environments (`order`: a permutation of the
    # configuration indices): what an ECU answers must not depend on which other ECUs the process has seen before
    n = len(job["configs"])
    order = job.get("order") or list(range(n))
    runs = [None] * n
    for i in order:
        cfg = job["configs"][i]
        try:
            runs[i] = transcript(S, cfg, job.get("clock_base", 0.0))
        except Exception as e:
            runs[i] = {"error": type(e).__name__ + ": " + str(e)[:200]}
    res["runs"] = runs
    sys.stdout.write(json.dumps(res, sort_keys=True, separators=(",", ":")))


if __name__ == "__main__":
    main()
