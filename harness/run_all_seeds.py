"""run every stored seeded change against the check of its property (sequentially; scratch worktrees, scratch evidence)
and write seeded/RESULTS.md + seeded/results.json.  Usage: run_all_seeds.py [ID ...]"""
import json, re, subprocess, sys
from pathlib import Path

VERIF = Path(__file__).resolve().parent.parent
only = set(sys.argv[1:])
results = {}
rp = VERIF / "seeded" / "results.json"
if rp.exists():
    results = json.loads(rp.read_text())
for d in sorted((VERIF / "seeded").iterdir()):
    if not d.is_dir():
        continue
    name = d.name
    pid = name.split("-")[0]
    if only and pid not in only:
        continue
    if not (VERIF / "harness" / "props" / f"{pid}.py").exists():
        results[name] = {"check": pid, "verdict": "check not built"}
        continue
    out = subprocess.run([str(VERIF / "harness" / "run_seed.sh"), name, pid], capture_output=True, text=True).stdout
    m = re.search(r"exit=(\d+)", out)
    rc = int(m.group(1)) if m else -1
    key = ""
    lines = out.strip().splitlines()
    if len(lines) > 1:
        key = lines[-1].strip()
    nf = "no-failing-input-found" in out
    results[name] = {"check": pid, "exit": rc, "verdict": ("caught (failing input)" if rc == 1 and not nf else "caught (no-failing-input-found)" if rc == 1 else "MISSED" if rc == 0 else "error"),
                     "first_replay": key[:300]}
    print(name, results[name]["verdict"], flush=True)
rp.write_text(json.dumps(results, indent=1, sort_keys=True))
md = ["# Seeded changes vs checks", "", "| seeded change | what it does | needs | check | verdict | first replay |", "|---|---|---|---|---|---|"]
for name in sorted(results):
    meta = {}
    mp = VERIF / "seeded" / name / "meta.json"
    if mp.exists():
        meta = json.loads(mp.read_text())
    r = results[name]
    esc = lambda s: str(s).replace("|", "\\|").replace("\n", " ")[:260]
    md.append(f"| {name} | {esc(meta.get('summary',''))} | {esc(meta.get('needs',''))} | {r.get('check')} | {r.get('verdict')} | {esc(r.get('first_replay',''))} |")
(VERIF / "seeded" / "RESULTS.md").write_text("\n".join(md) + "\n")
