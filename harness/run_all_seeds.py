"""run every stored seeded change against the check of its property and write seeded/RESULTS.md + seeded/results.json.
Each change is applied in a scratch worktree of /repo; the checks run from private copies of /verif (own build directory, own
replays), several in parallel.  Usage: run_all_seeds.py [--workers K] [--extra C09-h:C20,C12-f:C11] [ID | ID-name ...]"""
import argparse
import json
import queue
import re
import shutil
import subprocess
import sys
import threading
from pathlib import Path

VERIF = Path(__file__).resolve().parent.parent
SCRATCH = Path("/var/tmp/seedall")

ap = argparse.ArgumentParser()
ap.add_argument("--workers", type=int, default=4)
ap.add_argument("--extra", default="C09-h:C20,C12-f:C11,C02-e:C11,C04-f:C03,C05-h:C03,C10-c:C20,C19-f:C13,C03-i:C04,C09-j:C03,C10-i:C05,C10-j:C20,C12-g:C11,C14-h:C19,C15-j:C17,C04-l:C01,C08-l:C07,C09-l:C04,C11-l:C01,C05-n:C01,C10-m:C03,C13-l:C01,C09-m:C05",
                help="changes that are (also) run against the check that owns the changed code")
ap.add_argument("ids", nargs="*")
a = ap.parse_args()
only = set(a.ids)
extra = dict(x.split(":") for x in a.extra.split(",") if x)


def sh(cmd, **kw):
    p = subprocess.run(cmd, shell=isinstance(cmd, str), capture_output=True, text=True, **kw)
    return p.returncode, p.stdout + p.stderr


def worker_dir(k):
    d = SCRATCH / f"verif-{k}"
    if not d.exists():
        d.parent.mkdir(parents=True, exist_ok=True)
        sh(f"cp -a {VERIF} {d}")
        shutil.rmtree(d / ".git", ignore_errors=True)
    else:
        sh(f"rsync -a --delete --exclude .git --exclude lean/.lake --exclude replays --exclude evidence {VERIF}/ {d}/")
    return d


def run_one(k, name, pid):
    w = SCRATCH / f"repo-{k}"
    sh(f"git -C /repo worktree remove --force {w}")
    shutil.rmtree(w, ignore_errors=True)
    sh(f"git -C /repo worktree add -q --detach {w} HEAD")
    try:
        rc, out = sh(f"git -C {w} apply {VERIF}/seeded/{name}/patch.diff")
        if rc != 0:
            return {"check": pid, "verdict": "patch does not apply"}
        vd = worker_dir(k)
        import os
        rc, out = sh(["./check", pid], cwd=vd, env={**os.environ, "GALLIA_REPO": str(w), "VERIF_EVIDENCE_DIR": str(SCRATCH / f"ev-{k}")}, timeout=3000)
        viol = [l for l in out.splitlines() if l.startswith("VIOLATION")]
        nf = bool(viol) and all("no-failing-input-found" in v for v in viol)
        key = ""
        for v in viol:
            if "no-failing-input-found" in v:
                continue
            try:
                d = json.load(open(v.split("replay=")[1].split()[0]))
                key = f"{d.get('key')} | {str(d.get('what'))[:220]}"
                break
            except Exception:
                pass
        verdict = ("caught (failing input)" if rc == 1 and not nf else "caught (no-failing-input-found)" if rc == 1
                   else "MISSED" if rc == 0 else f"error (exit {rc})")
        return {"check": pid, "exit": rc, "verdict": verdict, "first_replay": key[:300]}
    finally:
        sh(f"git -C /repo worktree remove --force {w}")
        shutil.rmtree(w, ignore_errors=True)


jobs = queue.Queue()
for d in sorted((VERIF / "seeded").iterdir()):
    if d.is_dir() and (not only or d.name.split("-")[0] in only or d.name in only):
        jobs.put((d.name, d.name.split("-")[0]))
        if d.name in extra:
            jobs.put((d.name + "@" + extra[d.name], extra[d.name]))
results = {}
rp = VERIF / "seeded" / "results.json"
if only and rp.exists():
    results = json.loads(rp.read_text())
lock = threading.Lock()


def loop(k):
    while True:
        try:
            name, pid = jobs.get_nowait()
        except queue.Empty:
            return
        try:
            r = run_one(k, name.split("@")[0], pid)
        except Exception as e:  # noqa: BLE001
            r = {"check": pid, "verdict": "error: " + repr(e)[:120]}
        with lock:
            results[name] = r
            print(name, r["verdict"], flush=True)


ts = [threading.Thread(target=loop, args=(30 + i,)) for i in range(a.workers)]
[t.start() for t in ts]
[t.join() for t in ts]
rp.write_text(json.dumps(results, indent=1, sort_keys=True))
md = ["# Seeded changes vs checks", "",
      "Each change was written by a fresh sub-agent from the property text alone and confirmed by the orchestrator (demo passes on the unchanged "
      "tree, fails with the patch, the pinned suite still passes). `name@CXX` rows: the change was (also) run against the check that owns the "
      "changed code.", "",
      "| seeded change | what it does | needs | check | verdict | first replay |", "|---|---|---|---|---|---|"]
for name in sorted(results):
    meta = {}
    mp = VERIF / "seeded" / name.split("@")[0] / "meta.json"
    if mp.exists():
        meta = json.loads(mp.read_text())
    r = results[name]
    esc = lambda s: str(s).replace("|", "\\|").replace("\n", " ")[:260]  # noqa: E731
    md.append(f"| {name} | {esc(meta.get('summary', ''))} | {esc(meta.get('needs', ''))} | {r.get('check')} | {r.get('verdict')} | {esc(r.get('first_replay', ''))} |")
(VERIF / "seeded" / "RESULTS.md").write_text("\n".join(md) + "\n")
from collections import Counter
print(Counter(r["verdict"] for r in results.values()))
