"""C15 - runs the real `BaseCommand.entry_point()` of three tiny command classes (plain AsyncScript, Scanner,
UDSScanner on an in-process fake transport / ECU) in a fresh temp directory and reports what the run left behind.

case = {"kind": "plain"|"scanner"|"uds", "lock","art","db","hooks": bool, "pre","post","dbopen": "ok"|"fail",
        "setup","main","tdPre","tdPost": EV, "how": {...optional concrete variants...},
        optional: "power","dumpcap_on","tp","props": bool (switches of Scanner / UDSScanner),
                  "f_power","f_connect","f_ecuConnect","f_tpStart","f_propsPre","f_propsPost","f_tpStop","f_ecuClose",
                  "f_close","f_dcStop": EV (faults of the framework's own steps), "f_dumpcap": started|none|missing|sync,
                  "world": {"lock": free|busy|broken, "base": "ok"|"file", "runs": [[when, tag|None], ...], "latest": when|None}
                           when < 0: a run directory with an older name, > 0: a newer name, 0: the very name this run gets}
EV   = "ok" | "exit:<n>" | "exitx" | "conn" | "uds" | "other" | "kbd" | "cancel"

Everything here runs inside a worker process (see `run_cases`); nothing is shared with the parent but the result.
"""
from __future__ import annotations

import asyncio
import fcntl
import json
import logging
import os
import shutil
import signal
import sqlite3
import sys
import tempfile
import threading
import traceback
import types
from datetime import datetime
from pathlib import Path

class _CaseHang(BaseException):
    pass


_READY = False
_G = {}


def _init_worker(repo_src: str):
    global _READY
    if _READY:
        return
    if os.environ.get("C15_DEBUG_STACKS"):
        import faulthandler
        faulthandler.register(signal.SIGUSR1, file=open(f"/var/tmp/c15-worker-{os.getpid()}.stack", "w"), all_threads=True)
    if repo_src not in sys.path:
        sys.path.insert(0, repo_src)
    import gallia.command  # noqa  (before gallia.plugins.plugin: circular import otherwise)
    import gallia.command.base as base
    import gallia.plugins.plugin as plugin
    from gallia.command import AsyncScript, Scanner, UDSScanner
    from gallia.command.base import AsyncScriptConfig, ScannerConfig
    from gallia.command.uds import UDSScannerConfig
    from gallia.services.uds.core.exception import MissingResponse, UDSException
    from gallia.services.uds.core.service import TesterPresentRequest
    from gallia.transports import BaseTransport, TargetURI

    logging.disable(logging.NOTSET)
    lg = logging.getLogger("gallia")
    lg.setLevel(1)
    lg.propagate = False
    for h in list(lg.handlers):
        lg.removeHandler(h)

    class Capture(logging.Handler):
        def __init__(self):
            super().__init__(1)
            self.items = []

        def emit(self, record):
            self.items.append((record.levelno, record.getMessage()))

    cap = Capture()
    lg.addHandler(cap)

    class Env:
        """per-case mutable context the tiny classes talk to"""
        case = None
        trace = None
        lockpath = None
        transports = []
        cmd = None
        n_close = 0
        n_props = 0
        dumpcaps = []
        ecus = []

    def lock_held():
        if Env.lockpath is None or not Env.lockpath.exists():
            return False
        fd = os.open(Env.lockpath, os.O_RDONLY)
        try:
            fcntl.flock(fd, fcntl.LOCK_EX | fcntl.LOCK_NB)
            fcntl.flock(fd, fcntl.LOCK_UN)
            return False
        except BlockingIOError:
            return True
        finally:
            os.close(fd)

    def mark(name):
        ad = getattr(Env.cmd, "artifacts_dir", None)
        meta = ad is not None and (ad / "META.json").exists()
        with open(Env.trace, "a") as f:
            f.write(f"{name} {int(lock_held())} {int(meta)}\n")

    async def act(point):
        """one lifecycle point: observed, then its scripted event"""
        mark(point)
        logging.getLogger("gallia").info(f"marker {point}")
        await fire(point)

    async def fire(point):
        """the scripted event of one lifecycle point (the command's own points by name, the framework's as f_<name>)"""
        ev = Env.case[point] if point in ("setup", "main", "tdPre", "tdPost") else Env.case.get("f_" + point, "ok")
        how = Env.case.get("how", {})
        if ev == "ok":
            return
        if ev.startswith("exit:"):
            sys.exit(int(ev[5:]))
        if ev == "exitx":
            sys.exit(how.get("exitx", None))
        if ev == "conn":
            raise {"base": ConnectionError, "pipe": BrokenPipeError, "reset": ConnectionResetError,
                   "refused": ConnectionRefusedError}[how.get("conn", "base")]("scripted connection error")
        if ev == "uds":
            if how.get("uds", "base") == "base":
                raise UDSException("scripted uds error")
            raise MissingResponse(TesterPresentRequest(suppress_response=False))
        if ev == "other":
            raise {"runtime": RuntimeError, "value": ValueError, "timeout": TimeoutError, "os": OSError,
                   "assert": AssertionError}[how.get("other", "runtime")]("scripted unexpected error")
        if ev == "kbd":
            raise KeyboardInterrupt
        if ev == "cancel":
            if how.get("cancel", "sigint") == "sigint":
                signal.raise_signal(signal.SIGINT)  # asyncio.run's handler cancels the main task
            else:
                asyncio.current_task().cancel()
            await asyncio.sleep(0)
            raise AssertionError("cancellation was not delivered")
        raise ValueError(ev)

    class FakeTransport(BaseTransport, scheme="fake"):
        """answers TesterPresent; everything else stays unanswered"""

        def __init__(self, target):
            super().__init__(target)
            self.q = asyncio.Queue()

        @classmethod
        async def connect(cls, target, timeout=None):
            t = TargetURI(target) if isinstance(target, str) else target
            await act("connect")
            tr = cls(t)
            Env.transports.append(tr)
            return tr

        async def close(self):
            # UDSScanner.teardown closes `ecu.transport` first, then Scanner.teardown closes `self.transport`
            Env.n_close += 1
            point = "ecuClose" if Env.case["kind"] == "uds" and Env.n_close == 1 else "close"
            mark("close")
            logging.getLogger("gallia").info(f"marker {point}")
            await fire(point)
            self.is_closed = True

        async def write(self, data, timeout=None, tags=None):
            if data[:1] == b"\x3e" and len(data) == 2 and not data[1] & 0x80:
                self.q.put_nowait(b"\x7e" + bytes([data[1] & 0x7F]))
            return len(data)

        async def read(self, timeout=None, tags=None):
            return await asyncio.wait_for(self.q.get(), timeout)

    class FakePowerSupply:
        @classmethod
        async def connect(cls, target):
            await act("power")
            return cls()

    class FakeDumpcap:
        def __init__(self):
            self.stopped = False

        @classmethod
        async def start(cls, target, artifacts_dir):
            if Env.case.get("f_dumpcap", "started") == "none":
                return None
            d = cls()
            Env.dumpcaps.append(d)
            return d

        async def sync(self, timeout=1):
            if Env.case.get("f_dumpcap", "started") == "sync":
                await asyncio.wait_for(asyncio.Event().wait(), 0.01)  # what the real sync() does when no header shows up

        async def stop(self):
            await act("dcStop")
            self.stopped = True

    def fake_which(name):
        mark("dumpcap")
        return None if Env.case.get("f_dumpcap", "started") == "missing" else "/usr/bin/" + name

    import gallia.command.uds as cuds
    from gallia.services.uds.ecu import ECU

    class TECU(ECU):
        def __init__(self, *a, **k):
            super().__init__(*a, **k)
            Env.ecus.append(self)

        async def connect(self):
            await act("ecuConnect")

        async def start_cyclic_tester_present(self, interval):
            await act("tpStart")
            await super().start_cyclic_tester_present(interval)

        async def stop_cyclic_tester_present(self):
            mark("tpStop")
            logging.getLogger("gallia").info("marker tpStop")
            if Env.case.get("f_tpStop") == "cancel" and Env.case.get("how", {}).get("tpStop") == "on-entry":
                # Ctrl-C arrives while teardown is in the synchronous stretch before it awaits the tester-present task:
                # the cancellation is delivered at that await
                if Env.case.get("how", {}).get("cancel", "sigint") == "sigint":
                    signal.raise_signal(signal.SIGINT)
                else:
                    asyncio.current_task().cancel()
                await super().stop_cyclic_tester_present()
                return
            await super().stop_cyclic_tester_present()
            await fire("tpStop")

        async def properties(self, fresh=False, config=None):
            Env.n_props += 1
            await act("propsPre" if Env.n_props == 1 else "propsPost")
            return await super().properties(fresh, config)

    real = {"PowerSupply": base.PowerSupply, "Dumpcap": base.Dumpcap, "shutil": base.shutil,
            "load_transport": plugin.load_transport, "load_ecu": cuds.load_ecu, "datetime": base.datetime}
    base.PowerSupply = FakePowerSupply
    base.Dumpcap = FakeDumpcap
    base.shutil = types.SimpleNamespace(which=fake_which)
    cuds.load_ecu = lambda oem: TECU

    class TPlain(AsyncScript):
        CONFIG_TYPE = AsyncScriptConfig

        async def setup(self):
            await act("setup")

        async def main(self):
            await act("main")

        async def teardown(self):
            await act("tdPre")
            await act("tdPost")

    class TScanner(Scanner):
        CONFIG_TYPE = ScannerConfig

        async def setup(self):
            await super().setup()
            await act("setup")

        async def main(self):
            await act("main")

        async def teardown(self):
            await act("tdPre")
            await super().teardown()
            await act("tdPost")

    class TUDS(UDSScanner):
        CONFIG_TYPE = UDSScannerConfig

        async def setup(self):
            await super().setup()
            await act("setup")

        async def main(self):
            await self.ecu.ping()
            await act("main")

        async def teardown(self):
            await act("tdPre")
            await super().teardown()
            await act("tdPost")

    class Marked:
        """the real class behind a shim that records that the step is reached"""

        def __init__(self, inner, name):
            self.inner, self.name = inner, name

        async def connect(self, target, *a, **k):
            mark(self.name)
            logging.getLogger("gallia").info(f"marker {self.name}")
            return await self.inner.connect(target, *a, **k)

    plugin.load_transport = lambda target: (FakeTransport if target.url.scheme == "fake"
                                            else Marked(real["load_transport"](target), "connect"))
    real["MarkedPowerSupply"] = Marked(real["PowerSupply"], "power")
    added = []
    orig_add, orig_rm = base.add_zst_log_handler, base.remove_zst_log_handler

    def add_wrap(*a, **k):
        h = orig_add(*a, **k)
        added.append(h)
        cap.items.append(("ATTACH", None))
        return h

    def rm_wrap(*a, **k):
        cap.items.append(("DETACH", None))
        return orig_rm(*a, **k)

    base.add_zst_log_handler = add_wrap
    base.remove_zst_log_handler = rm_wrap
    _G.update(base=base, real=real, FakePowerSupply=FakePowerSupply, Env=Env, cap=cap, added=added, TPlain=TPlain, TScanner=TScanner, TUDS=TUDS, lock_held=lock_held,
              AsyncScriptConfig=AsyncScriptConfig, ScannerConfig=ScannerConfig, UDSScannerConfig=UDSScannerConfig)
    _READY = True


HOOK = """flock -n -x {lock} true 2>/dev/null; L=$?
M=0; [ -f "$GALLIA_ARTIFACTS_DIR/META.json" ] && M=1
echo "{variant} $L $M" >> {trace}
printf '%s\\n' "{variant}|${{GALLIA_HOOK-unset}}|${{GALLIA_EXIT_CODE-unset}}|${{GALLIA_ARTIFACTS_DIR-unset}}|${{GALLIA_META-unset}}" >> {root}/hooks.log
echo "out of {variant}"
echo "err of {variant}" >&2
exit {rc}
"""


def _ts(s):
    try:
        return datetime.fromisoformat(s).timestamp()
    except Exception:
        return None


def run_concrete(case: dict) -> dict:
    """a shipped command end to end: `discover doip` against a closed local port, with a database"""
    from gallia.commands.discover.doip import DoIPDiscoverer, DoIPDiscovererConfig

    root = Path(tempfile.mkdtemp(prefix="c15-", dir=os.environ.get("C15_TMP", "/var/tmp")))
    obs: dict = {}
    try:
        cfg = DoIPDiscovererConfig(db=root / "g.sqlite", artifacts_base=root / "art", target="doip://127.0.0.1:1", start=1, stop=1)
        cmd = DoIPDiscoverer(cfg)
        try:
            rc = asyncio.run(asyncio.wait_for(cmd.entry_point(), 30))
            obs["exit"] = f"ret:{rc}"
        except _CaseHang:
            raise
        except BaseException as e:  # noqa
            obs["exit"] = "raise:" + type(e).__name__
        con = sqlite3.connect(root / "g.sqlite")
        rows = con.execute("SELECT exit_code, end_time FROM run_meta").fetchall()
        con.close()
        obs["db"] = [list(r) for r in rows]
        metas = list(root.glob("art/*/run-*/META.json"))
        obs["meta"] = json.loads(metas[0].read_text())["exit_code"] if metas else None
        obs["db_closed"] = cmd.db_handler is None or cmd.db_handler.connection is None
    except _CaseHang:
        raise
    except BaseException:  # noqa
        obs["harness_error"] = traceback.format_exc()[-1500:]
    finally:
        shutil.rmtree(root, ignore_errors=True)
    return obs


C15_DBCALLS = {"connect": "connect", "insert": "insert_run_meta", "complete": "complete_run_meta", "disconnect": "disconnect"}
OLD_NAMES = {-3: "run-20010101-000000.000003", -2: "run-20020202-000000.000002", -1: "run-20030303-000000.000001",
             1: "run-29970101-000000.000001", 2: "run-29980202-000000.000002", 3: "run-29990303-000000.000003"}
FIXED_NOW = datetime(2024, 5, 6, 7, 8, 9, 123456)
NOW_NAT = 10  # the model's name of the directory this run creates; an earlier run `when` is NOW_NAT + when


def _closed_port():
    import socket

    s = socket.socket()
    s.bind(("127.0.0.1", 0))
    port = s.getsockname()[1]
    s.close()
    return port


def run_case(case: dict) -> dict:
    """returns the canonical observation of one run"""
    if case.get("kind") == "concrete:discover-doip":
        return run_concrete(case)
    G = _G
    Env, cap, added, base, real = G["Env"], G["cap"], G["added"], G["base"], G["real"]
    root = Path(tempfile.mkdtemp(prefix="c15-", dir=os.environ.get("C15_TMP", "/var/tmp")))
    obs: dict = {}
    other_fd = None
    watchdog = None
    try:
        how = case.get("how", {})
        world = case.get("world") or {}
        wlock = world.get("lock", "free")
        Env.case, Env.root = case, root
        Env.trace = root / "trace.log"
        Env.trace.write_text("")
        Env.transports, Env.dumpcaps, Env.ecus = [], [], []
        Env.n_close = Env.n_props = 0
        Env.cmd = None
        Env.busy = None
        del cap.items[:]
        del added[:]
        kw = {}
        lockfile = root / "lockfile"
        if case["lock"] and wlock == "broken":
            if how.get("lock", "nodir") == "nodir":      # the directory of the lock file does not exist
                lockfile = root / "missing-dir" / "lockfile"
            else:                                           # ... or is a regular file
                (root / "plainfile").write_text("x")
                lockfile = root / "plainfile" / "lockfile"
        Env.lockpath = lockfile if case["lock"] else None
        if case["lock"]:
            kw["lock_file"] = lockfile
        if case["art"]:
            kw["artifacts_base"] = root / "art"
        if case["db"]:
            kw["db"] = root / "db" / "gallia.sqlite"
            if case.get("dbopen", "ok") == "fail":  # something that is not a database / has a foreign schema version
                (root / "db").mkdir()
                if how.get("dbopen", "garbage") == "garbage":
                    kw["db"].write_bytes(b"this is not a database " * 64)
                else:
                    con = sqlite3.connect(kw["db"])
                    con.executescript("CREATE TABLE version (schema text unique, version text); INSERT INTO version VALUES('main', '0.1');")
                    con.commit()
                    con.close()
        kw["hooks"] = bool(case["hooks"])
        # the scripts are configured in every run; `hooks` alone decides whether they are executed
        # how the hook command is spelled / how it fails varies with the case (deterministically): a plain `sh script`, an executable
        # script without `#!` line invoked by path (the shell runs it itself), shell syntax in the configured string; a hook that
        # exits non-zero, one whose last command does not exist (status 127), one whose last command is not executable (126)
        import zlib
        style = case.get("hookstyle")
        if style is None:
            style = zlib.crc32(repr(sorted((k, repr(x)) for k, x in case.items())).encode()) % 3
        for v in ("pre", "post"):
            sp = root / f"{v}.sh"
            failing = case[v] != "ok"
            sp.write_text(HOOK.format(root=root, lock=root / "lockfile", trace=Env.trace, variant=v,
                                      rc=3 if failing and style == 0 else 0))
            if not failing:
                if style == 1:
                    sp.chmod(0o755)
                    kw[f"{v}_hook"] = str(sp)
                elif style == 2:
                    kw[f"{v}_hook"] = f"true && sh {sp}"
                else:
                    kw[f"{v}_hook"] = f"sh {sp}"
            elif style == 1:
                kw[f"{v}_hook"] = f"sh {sp}; {root}/no-such-hook-{v}"
            elif style == 2:
                ne = root / f"{v}-noexec.sh"
                ne.write_text("echo never\n")
                ne.chmod(0o644)
                kw[f"{v}_hook"] = f"sh {sp}; {ne}"
            else:
                kw[f"{v}_hook"] = f"sh {sp}"
        kind = case["kind"]
        skw = {}
        base.PowerSupply = G["FakePowerSupply"]
        if kind != "plain":
            skw["dumpcap"] = bool(case.get("dumpcap_on", False))
            skw["target"] = "fake://ecu"
            if case.get("f_connect") == "conn" and how.get("connect") == "real-refused":
                skw["target"] = f"tcp-lines://127.0.0.1:{_closed_port()}"   # the real transport, nobody listening
            if case.get("power", False):
                skw["power_supply"] = "tcp://127.0.0.1:9?product_id=hmc804&channel=1"
                if case.get("f_power") == "conn" and how.get("power") == "real-refused":
                    skw["power_supply"] = f"tcp://127.0.0.1:{_closed_port()}?product_id=hmc804&channel=1"
                    base.PowerSupply = real["MarkedPowerSupply"]               # the real driver, nobody listening
        if kind == "plain":
            cfg = G["AsyncScriptConfig"](**kw)
            cmd = G["TPlain"](cfg)
        elif kind == "scanner":
            cfg = G["ScannerConfig"](**skw, **kw)
            cmd = G["TScanner"](cfg)
        else:
            cfg = G["UDSScannerConfig"](ping=how.get("ping", False), timeout=0.3, max_retries=0,
                                        tester_present=bool(case.get("tp", False)), properties=bool(case.get("props", False)),
                                        **skw, **kw)
            cmd = G["TUDS"](cfg)
        Env.cmd = cmd

        # ---- the world: earlier run directories, LATEST, an artifacts base that is a file ------------------
        names = {}                                   # directory name -> the model's name (Nat)
        wruns = world.get("runs", [])
        fixed = any(w == 0 for w, _ in wruns)
        now_name = "run-" + FIXED_NOW.strftime("%Y%m%d-%H%M%S.%f")
        if case["art"]:
            cdir = root / "art" / cmd.id
            if world.get("base", "ok") == "file":
                (root / "art").write_text("not a directory")
            else:
                for when, tag in wruns:
                    nm = now_name if when == 0 else OLD_NAMES[when]
                    names[nm] = NOW_NAT + when
                    (cdir / nm).mkdir(parents=True)
                    if tag is not None:
                        (cdir / nm / "META.json").write_text(json.dumps({"exit_code": tag, "command": "an earlier run"}) + "\n")
                lt = world.get("latest")
                if lt is not None:
                    (cdir / "LATEST").symlink_to(now_name if lt == 0 else OLD_NAMES[lt])
        if fixed:
            class FixedDT(datetime):
                @classmethod
                def now(cls, tz=None):
                    return FIXED_NOW if tz is None else datetime.now(tz)

            base.datetime = FixedDT   # only `prepare_artifacts_dir` calls now() without a time zone

        # ---- the lock held by somebody else: released once the run says that it waits ------------------------
        rel = {"n_before": None, "by": None}
        if case["lock"] and wlock in ("busy", "interrupted"):
            lockfile.touch()
            other_fd = os.open(lockfile, os.O_RDONLY)
            fcntl.flock(other_fd, fcntl.LOCK_EX | fcntl.LOCK_NB)

        def release(by):
            nonlocal other_fd
            if other_fd is not None and rel["by"] is None:
                rel["by"] = by
                rel["n_before"] = len([l for l in Env.trace.read_text().split("\n") if l])
                rel["art_before"] = cmd.artifacts_dir is not None
                fd, other_fd = other_fd, None
                os.close(fd)

        async def wrapper():
            loop = asyncio.get_running_loop()

            main_task = asyncio.current_task()

            def poll():
                if other_fd is None:
                    return
                if any(isinstance(lv, int) and "waiting for flock" in m for lv, m in cap.items):
                    if wlock == "interrupted" and rel.get("cancel_sent") is None:
                        # Ctrl-C while the run waits; the lock is handed over only when the run is through (the blocked
                        # flock thread has to get it before asyncio.run() can join the thread)
                        rel["cancel_sent"] = True
                        if how.get("cancel", "sigint") == "sigint":
                            signal.raise_signal(signal.SIGINT)
                        else:
                            main_task.cancel()
                    elif wlock != "interrupted":
                        release("waited")
                else:
                    loop.call_later(0.003, poll)

            if other_fd is not None:
                loop.call_later(0.003, poll)
            # a fault at the "db close" point of the finally block: the real disconnect() runs (the connection is closed), then
            # the step ends as if it had raised / as if Ctrl-C had been delivered at its await
            dbclose = case.get("dbclose")
            from gallia.db.handler import DBHandler
            real_disconnect = DBHandler.disconnect
            if dbclose in ("cancel", "raise"):
                async def faulty_disconnect(self_):
                    await real_disconnect(self_)
                    if dbclose == "cancel":
                        raise asyncio.CancelledError()
                    raise sqlite3.OperationalError("disk I/O error")
                DBHandler.disconnect = faulty_disconnect
            # a fault at one await INSIDE a database call of the lifecycle: the k-th execute / executescript / commit that
            # DBHandler.connect / insert_run_meta / complete_run_meta / disconnect awaits (counted per call, main task only) either
            # raises sqlite3.OperationalError before the statement is handed to sqlite ("raise"), or Ctrl-C arrives while the statement
            # is awaited ("cancel": the statement is queued for the sqlite thread and performed, CancelledError is delivered at the await)
            dbf = case.get("dbfault")
            undo = []
            Env.dbcall, Env.dbidx, Env.dbfired = None, 0, False
            if dbf:
                import aiosqlite

                def wrap_call(name):
                    orig = getattr(DBHandler, name)

                    async def call(self_, *a, **k):
                        prev = (Env.dbcall, Env.dbidx)
                        Env.dbcall, Env.dbidx = name, 0
                        try:
                            return await orig(self_, *a, **k)
                        finally:
                            Env.dbcall, Env.dbidx = prev
                    setattr(DBHandler, name, call)
                    undo.append((DBHandler, name, orig))

                def wrap_op(name):
                    orig = getattr(aiosqlite.Connection, name)

                    def op(self_, *a, **k):
                        # (a plain function: `async with conn.execute(...)` needs what the real method returns)
                        if Env.dbcall == C15_DBCALLS[dbf["call"]] and asyncio.current_task() is main_task and not Env.dbfired:
                            i = Env.dbidx
                            Env.dbidx += 1
                            if i == dbf["idx"]:
                                Env.dbfired = True
                                if dbf["mode"] == "raise":
                                    async def failing():   # like the real thing the error arrives at the await, after a suspension
                                        await asyncio.sleep(0)
                                        raise sqlite3.OperationalError("database is locked")
                                    return failing()
                                # asyncio.run() turns only the FIRST SIGINT of a run into a cancellation of the main task; a second
                                # one is its force-quit (KeyboardInterrupt raised wherever the main thread is), which is not the
                                # event meant here: after an earlier SIGINT the cancellation is delivered by Task.cancel()
                                h_ = signal.getsignal(signal.SIGINT)   # functools.partial(Runner._on_sigint, main_task=...)
                                runner_ = getattr(getattr(h_, "func", h_), "__self__", None)
                                first = getattr(runner_, "_interrupt_count", 0) == 0
                                if how.get("cancel", "sigint") == "sigint" and first:
                                    signal.raise_signal(signal.SIGINT)
                                else:
                                    main_task.cancel()
                        return orig(self_, *a, **k)
                    setattr(aiosqlite.Connection, name, op)
                    undo.append((aiosqlite.Connection, name, orig))

                for n in C15_DBCALLS.values():
                    wrap_call(n)
                for n in ("execute", "executescript", "commit"):
                    wrap_op(n)
            # contention: when the run enters the named database call another writer (a second sqlite connection on the same file,
            # standing in for a second gallia process that logs into the same --db) takes the write lock, writes, and commits
            # `hold` ms later - on a timer thread of its own, whatever the run does meanwhile
            dbb = case.get("dbbusy")
            Env.busy = None
            if dbb:
                busy = Env.busy = {"established": False, "timeout_ms": None, "timer": None, "released": threading.Event()}
                bname = C15_DBCALLS[dbb["phase"]]
                borig = getattr(DBHandler, bname)

                def take():
                    other = sqlite3.connect(root / "db" / "gallia.sqlite", timeout=0.05, isolation_level=None, check_same_thread=False)
                    try:
                        other.execute("BEGIN IMMEDIATE")
                        other.execute("INSERT OR IGNORE INTO address(url) VALUES('isotp://the-other-process')")
                    except sqlite3.Error as e:
                        busy["error"] = repr(e)
                        other.close()
                        return

                    def give():
                        try:
                            other.execute("COMMIT")
                            other.close()
                        except Exception as e:  # noqa
                            busy["release_error"] = repr(e)
                        busy["released"].set()

                    busy["established"] = True
                    busy["timer"] = threading.Timer(dbb["hold"] / 1000.0, give)
                    busy["timer"].daemon = True
                    busy["timer"].start()

                async def busy_call(self_, *a, **k):
                    if busy.get("entered") is None and asyncio.current_task() is main_task:
                        busy["entered"] = True
                        try:   # how long this connection is prepared to wait
                            async with self_.connection.execute("PRAGMA busy_timeout") as cur:
                                busy["timeout_ms"] = int((await cur.fetchone())[0])
                        except Exception as e:  # noqa
                            busy["timeout_error"] = repr(e)
                        take()
                    return await borig(self_, *a, **k)
                setattr(DBHandler, bname, busy_call)
                undo.append((DBHandler, bname, borig))
            try:
                return await cmd.entry_point()
            finally:
                if Env.busy is not None:
                    Env.busy["still_held_at_the_end"] = Env.busy["established"] and not Env.busy["released"].is_set()
                for obj, n, orig in undo:
                    setattr(obj, n, orig)
                DBHandler.disconnect = real_disconnect
                Env.snap_tp = [e.tester_present_task is None or e.tester_present_task.done() for e in Env.ecus]
                if wlock == "interrupted":
                    release("after-the-interrupt")

        if other_fd is not None:   # a run that blocks the event loop instead of waiting in a thread would never be released
            def bark():
                said = any(isinstance(lv, int) and "waiting for flock" in m for lv, m in list(cap.items))
                release("watchdog" if said else "watchdog-before-the-run-waited")

            watchdog = threading.Timer(8.0, bark)
            watchdog.daemon = True
            watchdog.start()
        Env.snap_tp = []
        t_before = datetime.now().timestamp()
        try:
            rc = asyncio.run(wrapper())
            obs["exit"] = f"ret:{rc}" if type(rc) is int else f"ret:{rc!r}"
        except (KeyboardInterrupt, asyncio.CancelledError) as e:
            obs["exit"] = "raise:cancelled"
            obs["exit_type"] = type(e).__name__
            obs["exit_in_lock_wait"] = "_aquire_flock" in traceback.format_exc()
        except _CaseHang:
            raise
        except BaseException as e:  # noqa
            obs["exit"] = "raise:" + type(e).__name__
            obs["exit_tb"] = traceback.format_exc()[-600:]
            obs["exit_in_artifacts"] = "prepare_artifacts_dir" in traceback.format_exc() and isinstance(e, OSError)
        t_after = datetime.now().timestamp()
        if watchdog is not None:
            watchdog.cancel()
        release("after-the-run")   # the run never waited for us

        if getattr(Env, "busy", None) is not None:   # the other writer is through before the database is looked at
            b = Env.busy
            if b["timer"] is not None:
                b["timer"].join(case["dbbusy"]["hold"] / 1000.0 + 3)
            obs["busy"] = {k: v for k, v in b.items() if k not in ("timer", "released", "entered")}
            obs["busy"]["released"] = b["released"].is_set() or not b["established"]
        # ---- trace -------------------------------------------------------------------------------
        tr = [l for l in Env.trace.read_text().split("\n") if l]
        if rel["n_before"]:   # actions performed while somebody else still had the lock: the lock was not ours
            tr = [" ".join([l.split(" ")[0], "0", l.split(" ")[2]]) if i < rel["n_before"] else l for i, l in enumerate(tr)]
        obs["trace"] = tr
        obs["waited"] = any(isinstance(lv, int) and "waiting for flock" in m for lv, m in cap.items)
        if case["lock"] and wlock in ("busy", "interrupted"):
            obs["lock_wait"] = rel["by"]
            obs["art_before_lock"] = bool(rel.get("art_before"))
        # ---- hooks -------------------------------------------------------------------------------
        times = {}
        hooks = []
        hl = root / "hooks.log"
        if hl.exists():
            for line in hl.read_text().splitlines():
                variant, ghook, gexit, gart, gmeta = line.split("|", 4)
                h = {"v": variant, "hook": ghook, "exit": gexit}
                h["art"] = "none" if gart == "None" else ("ok" if cmd.artifacts_dir is not None and gart == str(cmd.artifacts_dir) else "bad:" + gart)
                if gmeta == "unset":
                    h["meta"] = "unset"
                else:
                    try:
                        m = json.loads(gmeta)
                        h["meta"] = [m["exit_code"]]
                        if variant == "post":
                            times["he"] = _ts(m["end_time"])
                    except Exception:
                        h["meta"] = "bad"
                hooks.append(h)
        obs["hooks"] = hooks
        # ---- artifacts directory, META.json ------------------------------------------------------
        own = cmd.artifacts_dir
        if case["art"]:
            if own is None or not (own / "META.json").exists():
                obs["meta"] = "none"
            else:
                try:
                    m = json.loads((own / "META.json").read_text())
                    obs["meta"] = str(m["exit_code"])
                    times["ms"], times["me"] = _ts(m["start_time"]), _ts(m["end_time"])
                    obs["meta_cmd"] = m["command"] == f"{type(cmd).__module__}.{type(cmd).__name__}"
                    re_cfg = type(cfg)(**m["config"])
                    obs["meta_cfg"] = re_cfg.model_dump_json() == cfg.model_dump_json()
                except Exception as e:
                    obs["meta"] = f"bad:{e!r}"
            obs["env_file"] = own is not None and (own / "ENV").exists()
            cdir = root / "art" / cmd.id
            runs = []
            if cdir.is_dir():
                present = sorted(p.name for p in cdir.glob("run-*"))
                ordered = [n for n in names if n in present] + [n for n in present if n not in names]
                for n in ordered:
                    mf = cdir / n / "META.json"
                    tag = None
                    if mf.exists():
                        try:
                            tag = json.loads(mf.read_text())["exit_code"]
                        except Exception:
                            tag = -1
                    runs.append([names.get(n, NOW_NAT), tag])
                lk = cdir / "LATEST"
                obs["latest"] = names.get(os.readlink(lk), NOW_NAT) if lk.is_symlink() else None
            else:
                obs["latest"] = None
            obs["runs"] = runs
            obs["artdir"] = None if own is None else names.get(own.name, NOW_NAT)
            obs["artdir_under_base"] = own is None or own.parent == cdir.absolute()
        else:
            obs["meta"] = "off"
            obs["runs"], obs["latest"] = [], None
            obs["artdir"] = None if own is None else NOW_NAT
        # ---- database ----------------------------------------------------------------------------
        dbh = cmd.db_handler
        obs["db_closed"] = dbh is None or dbh.connection is None
        obs["dbfault_fired"] = bool(getattr(Env, "dbfired", False))
        if dbh is not None and dbh.connection is not None:
            try:  # leaked connection: stop its thread so the worker can go on
                conn = dbh.connection

                async def _close():
                    await asyncio.wait_for(conn.close(), 3)

                # barrier: everything the run had queued for the sqlite thread is performed before the database is looked at
                # (the thread dies when a statement finishes after the run's event loop is gone)
                import time as _time
                drained = threading.Event()
                conn._tx.put_nowait((None, drained.set))
                t_end = _time.time() + 5
                while not drained.is_set() and conn._thread.is_alive() and _time.time() < t_end:
                    _time.sleep(0.005)
                conn._thread.join(0.05)
                if conn._thread.is_alive():
                    asyncio.run(_close())
            except Exception:
                pass
        if case["db"]:
            p = root / "db" / "gallia.sqlite"
            if not p.exists():
                obs["db"] = "nofile"
            else:
                con = sqlite3.connect(p)
                try:
                    rows = con.execute("SELECT exit_code, start_time, end_time, end_timezone, path, script, config FROM run_meta").fetchall()
                    if kind == "uds":
                        obs["db_scan_results"] = con.execute("SELECT count(*) FROM scan_result").fetchone()[0]
                except sqlite3.DatabaseError:
                    rows = None
                con.close()
                if rows is None:
                    obs["db"] = "norow"
                elif len(rows) == 0:
                    obs["db"] = "norow"
                elif len(rows) > 1:
                    obs["db"] = f"rows:{len(rows)}"
                else:
                    ec, st, et, etz, path, script, config = rows[0]
                    times["ds"] = st
                    if et is None and ec is None:
                        obs["db"] = "open"
                    elif et is None or ec is None:
                        obs["db"] = f"half:{ec}:{et is not None}"
                    else:
                        obs["db"] = f"done:{ec}"
                        times["de"] = et
                    obs["db_path"] = path == str(cmd.artifacts_dir)
                    obs["db_cfg"] = json.loads(config) == json.loads(cfg.model_dump_json())
        else:
            obs["db"] = "off"
        # ---- times -------------------------------------------------------------------------------
        order = [("t0", t_before)] + [(k, times[k]) for k in ("ms", "ds", "me", "de") if k in times] + [("t1", t_after)]
        obs["tvals"] = dict(times)
        seq = [v for _, v in order]  # run_meta.start_time is taken in __init__, i.e. before t_before
        if "ms" in times:
            seq = seq[1:]
        obs["times_ordered"] = all(v is not None for v in seq) and all(seq[i] <= seq[i + 1] + 1e-6 for i in range(len(seq) - 1))
        # ---- log file ----------------------------------------------------------------------------
        lg = logging.getLogger("gallia")
        leftover = [h for h in lg.handlers if h is not cap]
        if case["art"] and own is not None:
            closed = (len(cmd.log_file_handlers) == 0 and not leftover and len(added) == 1
                      and all(h.file.closed for h in added))
            obs["log_closed"] = closed
            # what should be in the file: everything emitted while the handler was attached
            want, on = [], False
            for lv, msg in cap.items:
                if lv == "ATTACH":
                    on = True
                elif lv == "DETACH":
                    on = False
                elif on and lv >= 10:
                    want.append(msg)
            logf = own / "log.json.zst"
            if not logf.exists():
                obs["log"] = "nofile"
            else:
                from gallia.log import PenlogReader

                try:
                    with PenlogReader(logf) as r:
                        got = [rec.data for rec in r.records()]
                    if closed:
                        same = len(got) == len(want) and all(g == w or g.startswith(w + "\n") for g, w in zip(got, want))
                        # (QueueHandler.prepare appends the formatted traceback to the message text)
                        obs["log"] = "complete" if same else f"differs:{len(got)}/{len(want)}"
                    else:
                        obs["log"] = "readable-but-open"
                except Exception as e:
                    obs["log"] = "unreadable:" + type(e).__name__
        else:
            obs["log_closed"] = not leftover and not added
            obs["log"] = "off"
        for h in added:  # clean up leaked handlers so the next case starts clean
            try:
                if not h.file.closed:
                    lg.removeHandler(h.queue_handler)
                    h.close()
            except Exception:
                pass
        for h in leftover:
            lg.removeHandler(h)
        obs["reports"] = [m.split("-hook")[0] for lv, m in cap.items if isinstance(lv, int) and "-hook failed" in m]
        # ---- lock --------------------------------------------------------------------------------
        if case["lock"]:
            obs["lock_released"] = not G["lock_held"]()
            fd = cmd._lock_file_fd
            if fd is not None:
                try:
                    os.fstat(fd)
                    obs["lock_fd_closed"] = False
                    os.close(fd)
                except OSError:
                    obs["lock_fd_closed"] = True
        else:
            obs["lock_released"] = True
        # ---- transport, tester-present task, dumpcap -----------------------------------------------
        obs["transport_closed"] = all(t.is_closed for t in Env.transports)
        obs["n_transports"] = len(Env.transports)
        obs["tp_stopped"] = all(Env.snap_tp)
        obs["dc_stopped"] = all(d.stopped for d in Env.dumpcaps)
    except _CaseHang:
        raise
    except BaseException as e:  # noqa
        obs["harness_error"] = traceback.format_exc()[-1500:]
    finally:
        base.datetime = real["datetime"]
        base.PowerSupply = G["FakePowerSupply"]
        if watchdog is not None:
            watchdog.cancel()
        if other_fd is not None:
            try:
                os.close(other_fd)
            except OSError:
                pass
        shutil.rmtree(root, ignore_errors=True)
    return obs


def _worker(args):
    repo_src, cases = args
    _init_worker(repo_src)
    limit = float(os.environ.get("C15_CASE_LIMIT", "25"))
    max_hangs = int(os.environ.get("C15_MAX_HANGS", "3"))   # per worker: further cases are not run (and not judged) after that many
    hangs = 0

    def on_alarm(signum, frame):
        raise _CaseHang()

    out = []
    for c in cases:
        if hangs >= max_hangs:
            out.append({"skipped": True, "harness_error": "not run: this worker already cut off several runs that did not end"})
            continue
        # a run that does not come back (a changed entry_point() / teardown that waits for something that never happens) must not
        # hang the whole check: the case is cut and reported as such
        old = signal.signal(signal.SIGALRM, on_alarm)
        signal.setitimer(signal.ITIMER_REAL, limit, 5.0)  # repeating: the code under test may swallow the first one
        try:
            out.append(run_case(c))
        except _CaseHang:
            hangs += 1
            out.append({"hang": True, "harness_error": f"entry_point() run did not end within {limit:.0f} s of wall-clock time"})
        finally:
            signal.setitimer(signal.ITIMER_REAL, 0)
            signal.signal(signal.SIGALRM, old)
    return out


def _one(conn, repo_src, case):
    """one case in a process of its own (see Runner._isolated)"""
    try:
        conn.send(_worker((repo_src, [case]))[0])
    finally:
        conn.close()


def run_cases(repo_src: str, cases: list[dict], workers: int) -> list[dict]:
    """run all cases in worker processes (spawned, so the parent's logging / module state does not leak in)"""
    import multiprocessing as mp

    if not cases:
        return []
    workers = max(1, min(workers, len(cases)))
    chunks = [cases[i::workers] for i in range(workers)]
    ctx = mp.get_context("spawn")
    with ctx.Pool(workers) as pool:
        res = pool.map(_worker, [(repo_src, ch) for ch in chunks])
    out = [None] * len(cases)
    for w, rs in enumerate(res):
        for j, r in enumerate(rs):
            out[w + j * workers] = r
    return out


if __name__ == "__main__":
    repo = os.environ.get("GALLIA_REPO", "/repo") + "/src"
    case = json.loads(sys.argv[1])
    _init_worker(repo)
    print(json.dumps(run_case(case), indent=1))
