"""C20, extended tie: percent-encoding, the Unicode edge of int() / str.isspace(), arbitrary parameter maps, every
transport of the live registry (config built from qs_flat, connect() up to the network call), unix socket URIs.

Called from props/C20.py (`H` = that module: hs / unhs / Batch helpers live there)."""
import asyncio
import contextlib
import itertools
import struct
import types
import unicodedata
from unittest import mock

BMP = [c for c in range(0x10000) if not 0xD800 <= c < 0xE000]
INTERESTING_BYTES = [0x00, 0x41, 0x7F, 0x80, 0x8F, 0x90, 0x9F, 0xA0, 0xBF, 0xC0, 0xC1, 0xC2, 0xDF, 0xE0, 0xE1, 0xEC, 0xED, 0xEE,
                     0xEF, 0xF0, 0xF1, 0xF3, 0xF4, 0xF5, 0xFF]
BOOL_WORDS = ["1", "on", "t", "true", "y", "yes", "0", "off", "f", "false", "n", "no"]


def hyp_collect(ctx, strategy, n, salt):
    """`n` examples of a Hypothesis strategy, deterministic in (VERIF_SEED, salt)"""
    from hypothesis import HealthCheck, Phase, given, seed, settings

    out = []

    @settings(max_examples=n, database=None, phases=[Phase.generate], deadline=None, suppress_health_check=list(HealthCheck),
              derandomize=False)
    @seed(ctx.seed * 1000003 + salt)
    @given(strategy)
    def collect(x):
        out.append(x)

    collect()
    return out


class RealExt:
    def __init__(self, real):
        import pydantic
        from urllib.parse import quote_from_bytes, quote_plus, unquote_plus, unquote_to_bytes

        from gallia.plugins.plugin import load_transports
        from gallia.transports.schemes import TransportScheme

        self.real = real
        self.quote_plus, self.unquote_plus = quote_plus, unquote_plus
        self.quote_from_bytes, self.unquote_to_bytes = quote_from_bytes, unquote_to_bytes
        self.transports = {t.SCHEME: t for t in load_transports()}
        self.schemes = [s.value for s in TransportScheme]
        self.ta_int = pydantic.TypeAdapter(int)
        self.ta_bool = pydantic.TypeAdapter(bool)
        self.ValidationError = pydantic.ValidationError
        self.cfg_cls = {}
        for sch, t in self.transports.items():
            import sys
            mod = sys.modules[t.__module__]
            cands = [v for k, v in vars(mod).items() if isinstance(v, type) and issubclass(v, pydantic.BaseModel)
                     and v.__module__ == mod.__name__ and k.endswith("Config")]
            self.cfg_cls[sch] = cands[0] if len(cands) == 1 else None

    def lax(self, s):
        try:
            return f"some {self.ta_int.validate_python(s)}"
        except self.ValidationError:
            return "none"

    def boolean(self, s):
        try:
            return "true" if self.ta_bool.validate_python(s) else "false"
        except self.ValidationError:
            return "none"

    @staticmethod
    def show_cfg(c):
        out = []
        for name in type(c).model_fields:
            if name not in c.model_fields_set:
                out.append(f"{name}=dflt")
                continue
            v = getattr(c, name)
            out.append(f"{name}=" + (("true" if v else "false") if isinstance(v, bool) else str(int(v))))
        return " ".join(out) if out else "nocfg"

    def cfg(self, scheme, q):
        cls = self.cfg_cls.get(scheme)
        if cls is None:
            return "nocfg"
        try:
            return self.show_cfg(cls(**q))
        except (self.ValidationError, TypeError):
            return "err"

    @staticmethod
    def show_sock(rec):
        """the socket level effects of connect(): every setsockopt in order, the bound CAN ids (`none`: no socket was programmed)"""
        if "so" not in rec and "bind" not in rec and "so_err" not in rec:
            return "none"
        items = []
        for a in rec.get("so", []):
            v = a[2] if len(a) > 2 else None
            if isinstance(v, (bytes, bytearray)):
                sv = bytes(v).hex() or "-"
            elif isinstance(v, int):
                sv = f"i{int(v)}"
            else:
                sv = "?" + type(v).__name__
            items.append(f"{a[0]}:{a[1]}:{sv}")
        b = rec.get("bind")
        if "so_err" in rec:
            bs = "range"
        elif b is None:
            bs = "unbound"
        elif len(b) == 1:
            bs = "if"
        elif len(b) == 3 and all(isinstance(x, int) for x in b[1:]):
            bs = f"{b[1]}:{b[2]}"
        else:
            bs = "?" + repr(b[1:])
        return f"so={','.join(items) if items else '-'} bind={bs}"

    # ---- connect() of the real transport class with the network primitives replaced -------------------------------
    def connect(self, scheme, raw):
        """canonical plan string or `err:<kind>`; anything unexpected is returned as `exc:...`"""
        from vloop import vrun

        cls = self.transports[scheme]
        rec = {}

        class W:
            def close(self):
                pass

            async def wait_closed(self):
                pass

        async def open_connection(host=None, port=None, **kw):
            rec["host"], rec["port"] = host, port
            return object(), W()

        async def open_unix_connection(path=None, **kw):
            rec["path"] = path
            return object(), W()

        async def doip_connect(hostname, port, src_addr, target_addr, activation_type, protocol_version):
            rec["host"], rec["port"] = hostname, port
            rec["nums"] = {"src_addr": src_addr, "target_addr": target_addr, "activation_type": activation_type,
                           "protocol_version": protocol_version}
            return object()

        async def hsfz_connect(host, port, src_addr, dst_addr, ack_timeout):
            rec["host"], rec["port"] = host, port
            rec["nums"] = {"src_addr": src_addr, "dst_addr": dst_addr, "ack_timeout/1000": ack_timeout}
            return object()

        class FakeSock:
            def __init__(self, *a):
                pass

            def bind(self, addr):
                rec["bind"] = addr
                rec["host"] = addr[0]
                rec["bind_after_err"] = "so_err" in rec

            def setsockopt(self, *a):
                rec.setdefault("so", []).append(a)

            def setblocking(self, f):
                pass

        import socket as real_socket
        fake_s = types.SimpleNamespace(**{k: getattr(real_socket, k) for k in dir(real_socket) if k.isupper()})
        fake_s.socket = FakeSock
        patches = [mock.patch("asyncio.open_connection", open_connection), mock.patch("asyncio.open_unix_connection", open_unix_connection)]
        import sys
        mod = sys.modules[cls.__module__]
        if hasattr(cls, "_connect"):
            patches.append(mock.patch.object(cls, "_connect", staticmethod(doip_connect)))
        if hasattr(mod, "HSFZConnection"):
            patches.append(mock.patch.object(mod.HSFZConnection, "connect", staticmethod(hsfz_connect)))
        if hasattr(mod, "s") and getattr(mod, "s") is real_socket:
            patches.append(mock.patch.object(mod, "s", fake_s))
        def guarded(orig, name):
            # struct.pack of out-of-range numbers happens after the point the plan describes: the plan goes on, the socket
            # level record (`last_sock`) notes that the real connect() stops here
            def w(*a, **k):
                if "so_err" in rec:
                    return
                try:
                    orig(*a, **k)
                except struct.error:
                    rec["so_err"] = name
            return staticmethod(w)

        for name in ("_setsockopts", "_setsockllopts", "_setsockfcopts"):
            if hasattr(cls, name):
                patches.append(mock.patch.object(cls, name, guarded(getattr(cls, name), name)))
        self.last_sock = "noplan"
        try:
            target = self.real.TargetURI(raw)
        except ValueError:
            return "err:parse"
        try:
            with contextlib.ExitStack() as st:
                for p in patches:
                    st.enter_context(p)
                tr = vrun(cls.connect(target))
        except self.ValidationError:
            return "err:bad-config"
        except ValueError as e:
            m = str(e)
            if "is not a valid TransportScheme" in m:
                return "err:unknown-scheme"
            if m.startswith("invalid scheme"):
                return "err:wrong-scheme"
            if "no hostname" in m or "empty interface" in m:
                return "err:no-host"
            if m.startswith("Port"):
                return "err:bad-port"
            return f"exc:ValueError:{m[:80]}"
        except Exception as e:  # noqa: BLE001
            return f"exc:{type(e).__name__}:{str(e)[:80]}"
        cfg_cls = self.cfg_cls.get(scheme)
        cfg = getattr(tr, "config", None)
        if cfg_cls is not None and cfg is None:
            # the transport does not keep its config (HSFZ): rebuild it and check connect() used the same numbers
            cfg = cfg_cls(**target.qs_flat)
        if "nums" in rec and cfg is not None:
            for k, v in rec["nums"].items():
                exp = getattr(cfg, k) if not k.endswith("/1000") else getattr(cfg, k[:-5]) / 1000
                if v != exp:
                    return f"exc:connect-used-{k}={v!r}-config-has-{exp!r}"
        if "bind" in rec and len(rec["bind"]) == 3 and cfg is not None:
            exp = (cls._calc_flags(cfg.dst_addr, cfg.is_extended), cls._calc_flags(cfg.src_addr, cfg.is_extended))
            if tuple(rec["bind"][1:]) != exp:
                return f"exc:bind-used-{rec['bind'][1:]!r}-config-has-{exp!r}"
        self.last_sock = self.show_sock(rec)
        host = rec.get("host")
        port = rec.get("port", getattr(tr, "port", None) if scheme in ("doip", "hsfz") else None)
        path = rec.get("path")
        H = self.H
        return (f"host={'none' if host is None else H.hs(H.canon_host(host))} port={'none' if port is None else port} "
                f"path={'none' if path is None else H.hs(path)} {self.show_cfg(cfg) if cfg is not None else 'nocfg'}")


# linux/can/isotp.h, linux/can/raw.h (trusted base of the readable rendering; the comparison itself is on the raw bytes)
SOCK_NAMES = {(106, 1): ("CAN_ISOTP_OPTS", "<IIBBBB", ("flags", "frame_txtime", "ext_address", "txpad_content", "rxpad_content", "rx_ext_address")),
              (106, 2): ("CAN_ISOTP_RECV_FC", "<BBB", ("bs", "stmin", "wftmax")),
              (106, 5): ("CAN_ISOTP_LL_OPTS", "<BBB", ("mtu", "tx_dl", "tx_flags")),
              (101, 5): ("CAN_RAW_FD_FRAMES", None, ())}


def describe_sock(text):
    """`so=106:1:<hex>,... bind=rx:tx` with every block decoded per the kernel's struct layout"""
    if not text.startswith("so="):
        return text
    so, _, b = text.partition(" bind=")
    out = []
    for it in so[3:].split(","):
        if it == "-":
            continue
        try:
            lv, op, v = it.split(":")
            name, fmt, fields = SOCK_NAMES.get((int(lv), int(op)), (f"{lv}:{op}", None, ()))
            if fmt and not v.startswith(("i", "?")) and len(bytes.fromhex(v)) == struct.calcsize(fmt):
                vals = struct.unpack(fmt, bytes.fromhex(v))
                out.append(name + "{" + ", ".join(f"{f}={x:#x}" for f, x in zip(fields, vals)) + "}")
            else:
                out.append(f"{name}={v}")
        except ValueError:
            out.append(it)
    if ":" in b:
        rx_id, tx_id = b.split(":")
        try:
            b = f"rx_id={int(rx_id):#x} tx_id={int(tx_id):#x}"
        except ValueError:
            pass
    return "[" + "; ".join(out) + "] bind " + b


def check_sock(ctx, rx, H, sch, raw, model_sock, budget):
    """the socket level settings the real connect() programmed (recorded by the last rx.connect) against the oracle's"""
    rs = rx.last_sock
    if rs == model_sock:
        return True
    budget["s" + sch] = budget.get("s" + sch, 0) + 1
    if budget["s" + sch] <= 3:
        raw2, rs2, ms2 = shrink_sock(ctx, rx, H, sch, raw)
        ctx.disagree(f"sock-{sch}:" + H.case_key({"uri": raw2}),
                     f"{sch} connect({raw2!r}) programs the socket with {describe_sock(rs2)}; the URI says {describe_sock(ms2)}",
                     {"fn": "sock", "scheme": sch, "input": raw2}, impl=rs2, model=ms2, spec_violated=True, site=f"{sch} connect/setsockopt")
    return False


def shrink_sock(ctx, rx, H, sch, raw):
    """fixed order: drop query parameters one at a time while the socket level settings still differ"""
    def ev(r):
        m = ctx.lean([f"sock {H.hs(sch)} {H.hs(r)}"])[0]
        rx.connect(sch, r)
        return rx.last_sock, m

    head, q, tail = raw.partition("?")
    params = tail.split("&") if q else []
    i = 0
    while i < len(params):
        cand = params[:i] + params[i + 1:]
        r = head + ("?" + "&".join(cand) if cand else "")
        a, b = ev(r)
        if a != b and a != "noplan" and b != "noplan":
            params = cand
        else:
            i += 1
    r = head + ("?" + "&".join(params) if params else "")
    a, b = ev(r)
    return r, a, b


def canon_plan(H, out):
    if not out.startswith("host="):
        return out
    parts = out.split(" ", 3)
    h = parts[0][5:]
    if h != "none":
        h = H.hs(H.canon_host(H.unhs(h)))
    return " ".join([f"host={h}"] + parts[1:])


# ======================================================================================================================
def run_ext(ctx, real, B, H, nt, limited):
    import time
    t0 = time.time()

    def lap(name):
        nonlocal t0
        ctx.notes.setdefault("ext_section_seconds", {})[name] = round(time.time() - t0, 1)
        t0 = time.time()

    rx = RealExt(real)
    rx.H = H
    rng = ctx.rng
    hs, unhs, hb = H.hs, H.unhs, H.hb
    from hypothesis import strategies as st

    # ---- A. percent-encoding and UTF-8 ---------------------------------------------------------------------------
    def dec_replace(b):
        return hs(b.decode("utf-8", "replace"))

    cases = [bytes(t) for n in range(0, 3) for t in itertools.product(range(256), repeat=n)]
    cases += [bytes(t) for t in itertools.product(INTERESTING_BYTES, repeat=3)]
    if not ctx.quick:
        cases += [bytes(t) for t in itertools.product(INTERESTING_BYTES, repeat=4)]
    n_exh = len(cases)
    cases += [bytes(rng.choice(INTERESTING_BYTES + list(range(256))) for _ in range(rng.randint(3, 12))) for _ in range(ctx.pick(3000, 30000))]
    for b in cases:
        B.add(f"utf8dec {hb(b)}", dec_replace(b), "bytes.decode(utf-8,replace)", b.hex(), site="urllib.parse.unquote")
    for b in cases[:65793]:
        B.add(f"quoteb {hb(b)}", hs(rx.quote_from_bytes(b, safe="")), "quote_from_bytes", b.hex(), site="urllib.parse.quote")
    ctx.ev(len(cases) + 65793)
    ctx.dist["quote:utf8-decode-replace"] += len(cases)
    ctx.dist["quote:quote_from_bytes-all-bytes<=2"] += 65793
    ctx.distinct.add(hash(("q-exh", len(cases))))
    ctx.exhaustive_parts.append(f"bytes.decode('utf-8','replace') on every byte string of length <= 2 and every string of length 3"
                                f"{'' if ctx.quick else ' / 4'} over {len(INTERESTING_BYTES)} boundary bytes ({n_exh}); quote_from_bytes(safe='') on every "
                                "byte string of length <= 2")
    B.flush()
    qalpha = ["%", "C", "3", "a", "9", "+", "é", "x", "=", " "]
    cnt = 0
    for t in H.all_strings(qalpha, ctx.pick(5, 6)):
        B.add(f"unquoteplus {hs(t)}", hs(rx.unquote_plus(t)), "unquote_plus", t, site="urllib.parse.unquote_plus")
        B.add(f"unquoteb {hs(t)}", hb(rx.unquote_to_bytes(t)), "unquote_to_bytes", t, site="urllib.parse.unquote_to_bytes")
        cnt += 1
    ctx.ev(2 * cnt)
    ctx.dist["quote:unquote-exhaustive-small-alphabet"] += 2 * cnt
    ctx.distinct.add(hash(("uq-exh", cnt)))
    ctx.exhaustive_parts.append(f"unquote_plus / unquote_to_bytes on every string of length <= {ctx.pick(5, 6)} over {''.join(qalpha)!r} ({cnt} strings)")
    B.flush()
    texts = hyp_collect(ctx, st.text(max_size=12), ctx.pick(1500, 15000), 1)
    texts += hyp_collect(ctx, st.lists(st.sampled_from(list("ab09_.-~ +%&=#?/:@[]é€😀\x00\x7f\x80\xa0\u2028") + ["%41", "%C3%A9", "%e2%82%ac", "%ff", "%C3", "%zz"]),
                                       max_size=10).map("".join), ctx.pick(1500, 15000), 2)
    for t in texts:
        nt("quote_plus", t)
        ctx.kind("quote:hypothesis-text" + (":non-ascii" if not t.isascii() else ""))
        q = rx.quote_plus(t)
        B.add(f"quoteplus {hs(t)}", hs(q), "quote_plus", t, site="urllib.parse.quote_plus")
        B.add(f"unquoteplus {hs(t)}", hs(rx.unquote_plus(t)), "unquote_plus", t, site="urllib.parse.unquote_plus")
        if rx.unquote_plus(q) != t and limited("quote-roundtrip"):
            ctx.disagree(f"quote-roundtrip:{t!r}", f"unquote_plus(quote_plus({t!r})) = {rx.unquote_plus(q)!r}", {"fn": "quote_plus", "input": t},
                         impl=rx.unquote_plus(q), model=t, spec_violated=True, site="urllib.parse")
    B.flush()

    lap('A-quote')
    # ---- B. the Unicode edge: every BMP character in digit and white-space position ------------------------------
    extra = sorted({c for c in range(0x10000, 0x110000) if chr(c).isspace() or unicodedata.decimal(chr(c), None) is not None}
                   | {0x10000, 0x1D7CD, 0x1D7CE, 0x1D7FF, 0x1D800, 0x10FFFF})
    chars = [chr(c) for c in BMP + extra]
    shr_int = H.make_str_shrinker(ctx, "int", real.int)
    n_tmpl = 0
    for tmpl in ("{}", "{}7", "7{}", "1{}2", "0x{}", "{}1{}")[: ctx.pick(4, 6)]:
        n_tmpl += 1
        for c in chars:
            s = tmpl.format(c, c)
            B.add(f"int {hs(s)}", real.int(s), "auto_int", s, shrink=shr_int, site="utils.auto_int")
        ctx.ev(len(chars))
    shr_u1 = H.make_str_shrinker(ctx, "unravel", real.unravel1)
    for tmpl in ("{}", "1{}", "1,{}2-3", "1{}-2", "{}{}", "{}1,2")[: ctx.pick(4, 6)]:
        n_tmpl += 1
        for c in chars:
            s = tmpl.format(c, c)
            B.add(f"unravel {hs(s)}", real.unravel1(s), "unravel", s, shrink=shr_u1, site="utils.unravel")
        ctx.ev(len(chars))
    shr_pr = H.make_str_shrinker(ctx, "pranges", real.pranges)
    for tmpl in ("1{}2", "{}1-2{}", "{}")[: ctx.pick(2, 3)]:
        n_tmpl += 1
        for c in chars:
            s = tmpl.format(c, c)
            B.add(f"pranges {hs(s)}", real.pranges(s), "_process_ranges", s, shrink=shr_pr, site="command.config._process_ranges")
        ctx.ev(len(chars))
    shr_u2 = H.make_str_shrinker(ctx, "unravel2d", real.unravel2)
    for tmpl in ("1:2{}3", "1{}2:3", "{}1:2", "1:{}")[: ctx.pick(3, 4)]:
        n_tmpl += 1
        for c in chars:
            s = tmpl.format(c)
            B.add(f"unravel2d {hs(s)}", real.unravel2(s), "unravel_2d", s, shrink=shr_u2, site="utils.unravel_2d")
        ctx.ev(len(chars))
    for tmpl in ("{}7", "7{}", "{}")[: ctx.pick(2, 3)]:
        n_tmpl += 1
        for c in chars:
            s = tmpl.format(c)
            B.add(f"laxint {hs(s)}", rx.lax(s), "pydantic-int", s, site="pydantic int field")
        ctx.ev(len(chars))
    # the generated tables themselves against the live predicates
    tab = ctx.lean([f"chars {ord(c)}" for c in chars])
    for c, t in zip(chars, tab):
        d = unicodedata.decimal(c, None)
        exp = f"{1 if c.isspace() else 0} {1 if real.int(c + '7') == 'some 7' and c != '+' else 0} {'-' if d is None else d}"
        if t != exp and limited("unicode-table"):
            ctx.disagree(f"unicode-table:U+{ord(c):04X}", f"U+{ord(c):04X}: isspace / skipped by int() / decimal value = {exp}, oracle table {t}",
                         {"fn": "chars", "input": ord(c)}, impl=exp, model=t, spec_violated=True, site="unicodedata")
    ctx.ev(len(chars))
    ctx.dist["unicode:single-character-sweep"] += (n_tmpl + 1) * len(chars)
    ctx.distinct.add(hash(("uni-exh", len(chars))))
    ctx.exhaustive_parts.append(f"every BMP code point (and every astral space / decimal digit, {len(chars)} in all) in digit, inner and "
                                f"white-space position of auto_int ({ctx.pick(4, 6)} templates), unravel ({ctx.pick(4, 6)}), _process_ranges ({ctx.pick(2, 3)}), "
                                f"unravel_2d ({ctx.pick(3, 4)}), a pydantic int field ({ctx.pick(2, 3)}), and the isspace / int-skip / decimal tables")
    B.flush()
    # digits of other scripts, spaces of other kinds inside the theorem's own spellings
    zeros = [ord(c) for c in chars if unicodedata.decimal(c, None) == 0]
    uspaces = [c for c in chars if c.isspace() and ord(c) >= 128]
    specs = []
    for _ in range(ctx.pick(1500, 15000)):
        sp = H.rand_sp(rng, ws=H.WS + "".join(uspaces))
        z = rng.choice([0, 7, -1, rng.randrange(-300, 300), rng.randrange(-(1 << 40), 1 << 40)])
        specs.append((sp, z, rng.choice(zeros)))
    outs = ctx.lean([f"spell {H.sp_tok(sp)} {z}" for sp, z, _ in specs])
    outs2 = ctx.lean([f"toscript {zero} {o}" for (_, _, zero), o in zip(specs, outs)])
    for (sp, z, zero), o in zip(specs, outs2):
        s = unhs(o)
        nt("auto_int", s)
        ctx.kind("int:unicode-script-or-space")
        r = real.int(s)
        B.add(f"int {hs(s)}", r, "auto_int", s, shrink=shr_int, site="utils.auto_int")
        if r != f"some {z}" and limited("auto_int-unicode-spell"):
            ctx.disagree(f"auto_int-unicode-spell:{s!r}", f"auto_int({s!r}) = {r}, the spelled integer is {z}",
                         {"fn": "auto_int", "input": s, "spelled": z}, impl=r, model=f"some {z}", spec_violated=True, site="utils.auto_int")
    B.flush()

    lap('B-unicode')
    # ---- C. parameter maps with arbitrary names and values --------------------------------------------------------
    key_st = st.text(max_size=6)
    val_st = st.one_of(st.text(max_size=8), st.integers(-5, 70000).map(str), st.sampled_from(["", " ", "+", "%", "&", "=", "#", "?", "a=b&c", "é", "%41", "0x1f", "😀"]))
    maps = hyp_collect(ctx, st.dictionaries(key_st, val_st, max_size=4), ctx.pick(2500, 25000), 3)
    sweep = [c for i, c in enumerate(chars) if ord(c) < 0x800 or ord(c) >= 0x10000 or i % ctx.pick(8, 1) == 0]
    maps += [{"a": c} for c in sweep]
    n_sweep = len(sweep)
    lines = [f"fromparts {hs('tcp')} {hs('h')} none {H.show_args(a)}" for a in maps]
    model_uris = ctx.lean(lines)
    model_parsed = ctx.lean([f"parse {m}" for m in model_uris])
    for a, mu, mp in zip(maps[:-n_sweep], model_uris, model_parsed):
        nt("from_parts", repr(a))
        ctx.kind("uri-any:" + ("blank-value" if any(v == "" for v in a.values()) else "non-blank") +
                 (":non-ascii" if not all((k + v).isascii() for k, v in a.items()) else ""))
    ctx.ev(n_sweep)
    ctx.dist["uri-any:single-character-value-sweep"] += n_sweep
    for a, mu, mp in zip(maps, model_uris, model_parsed):
        ru = real.from_parts("tcp", "h", None, a)
        if ru != mu and limited("from_parts-any-str"):
            ctx.disagree("from_parts-string:" + H.case_key({"args": a}), f"TargetURI.from_parts('tcp','h',None,{a!r}) renders {unhs(ru) if not ru.startswith('exc:') else ru!r}; expected {unhs(mu)!r}",
                         {"fn": "from_parts", "scheme": "tcp", "host": "h", "port": None, "args": a}, impl=ru, model=mu, spec_violated=True,
                         site="TargetURI.from_parts")
            continue
        if ru.startswith("exc:"):
            continue
        rp = real.parse(unhs(ru))
        if rp != H.canon_model_parse(mp) and limited("from_parts-any-parse"):
            ctx.disagree("from_parts-parse-back:" + H.case_key({"args": a}), f"from_parts(..., {a!r}) parses back as {rp}; expected {mp}",
                         {"fn": "from_parts+parse", "scheme": "tcp", "host": "h", "port": None, "args": a}, impl=rp, model=mp, spec_violated=True,
                         site="TargetURI")
        # the property itself on the real code: non-blank parameters come back unchanged
        q = real.qs_flat(unhs(ru))
        want = {k: v for k, v in a.items() if v != ""}
        if q != want and limited("qs_flat-roundtrip"):
            ctx.disagree("qs_flat-roundtrip:" + H.case_key({"args": a}), f"qs_flat of from_parts(..., {a!r}) is {q!r}", {"fn": "qs_flat", "args": a},
                         impl=repr(q), model=repr(want), spec_violated=True, site="TargetURI.qs_flat")
        ctx.traces_validated += 1
    # raw queries: repeated names, blank values, pieces without '=', stray '%', '+', raw non-ASCII
    qa = ["a", "b", "=", "&", "%", "4", "1", "+"]
    raw_qs = list(H.all_strings(qa, ctx.pick(5, 6)))
    n_q = len(raw_qs)
    raw_qs += hyp_collect(ctx, st.lists(st.tuples(st.sampled_from(["a", "b", "", "a b", "%61", "é", "src_addr"]), st.one_of(st.none(), val_st)), max_size=5)
                          .map(lambda kv: "&".join(k if v is None else f"{k}={v}" for k, v in kv).replace("#", "%23")), ctx.pick(1500, 15000), 4)
    outs = [o.split()[3] if o != "err" else o for o in ctx.lean([f"parse {hs('tcp://h?' + q)}" for q in raw_qs])]
    for q, o in zip(raw_qs, outs):
        r = real.qs_flat("tcp://h?" + q)
        r = H.show_args(r)
        if r != o and limited("qs_flat-raw"):
            ctx.disagree(f"qs_flat-raw:{q!r}", f"TargetURI('tcp://h?{q}').qs_flat = {r}; expected {o}", {"fn": "qs_flat", "input": q}, impl=r, model=o,
                         spec_violated=True, site="TargetURI.qs_flat")
    ctx.ev(len(raw_qs))
    ctx.dist["uri-any:raw-query"] += len(raw_qs)
    ctx.distinct.add(hash(("rq-exh", n_q)))
    ctx.exhaustive_parts.append(f"qs_flat on every raw query of length <= {ctx.pick(5, 6)} over {''.join(qa)!r} ({n_q}); from_parts / qs_flat with each of the "
                                f"{n_sweep} swept characters as a parameter value")

    lap('C-uri-any')
    # ---- D. every transport of the live registry -------------------------------------------------------------------
    table_schemes = sorted(rx.transports)
    probe = ctx.lean([f"cfg {hs(s)} none" for s in table_schemes])
    for s, o in zip(table_schemes, probe):
        if o == "err" and rx.cfg_cls[s] is None or o == "bad-op":
            ctx.disagree(f"transport-not-modelled:{s}", f"transport scheme {s!r} of the live registry has no entry in the oracle's table",
                         {"fn": "registry", "scheme": s}, impl=s, model="missing", spec_violated=False, site="gallia.transports.registry")
    # value spellings per kind of reader
    def lax_text(n):
        t = rng.choice(["{}", "{}", "+{}", " {}", "{} ", "\t{}\n", "0{}", "00{}", "{}.0", "{}.00", "{:_}", "{}_", "_{}", "{:#x}", "{}e0", "{}.5",
                        "\xa0{}", "{} ", "\x1c{}", "-{}", "- {}", "+-{}", "--{}", "{}.", ".{}", "０{}", "{:,}"])
        return t.format(n)

    def bool_text():
        w = rng.choice(BOOL_WORDS)
        w = "".join(ch.upper() if rng.random() < 0.3 else ch for ch in w)
        return w if rng.random() < 0.85 else rng.choice([w + " ", " " + w, "2", "", "tru", "yess", "ｔ", "O", "none", "ＴRUE", "Ｋ"])

    auto_specs = []

    def auto_text():
        """placeholder resolved after one driver call: a spelled integer in any notation, white space / plus included"""
        sp = H.rand_sp(rng, ws=H.WS + "\xa0 ")
        z = rng.choice([0, 1, rng.randrange(0x100), rng.randrange(0x800), rng.randrange(0x10000), -rng.randrange(0x100)])
        auto_specs.append((sp, z))
        return ("@auto", len(auto_specs) - 1)

    cfg_cases = []
    for _ in range(ctx.pick(4000, 40000)):
        sch = rng.choice([s for s in table_schemes if rx.cfg_cls[s] is not None] * 3 + table_schemes)
        cls = rx.cfg_cls[sch]
        a = {}
        kind = "valid"
        if cls is not None:
            for name, info in cls.model_fields.items():
                if not info.is_required() and rng.random() < 0.55:
                    continue
                ann = str(info.annotation)
                has_before = any(name in d.info.fields for d in cls.__pydantic_decorators__.field_validators.values())
                if "bool" in ann:
                    a[name] = bool_text()
                elif has_before:
                    a[name] = auto_text() if rng.random() < 0.85 else rng.choice(["0x", "010", "1__0", "0b2", "hans", "", "١٢", "0x１f", "1 2", "\x1c1"])
                else:
                    a[name] = lax_text(rng.choice([0, 1, 7, 64, 1000, rng.randrange(100000)]))
        r = rng.random()
        if a and r < 0.07:
            del a[rng.choice(list(a))]
            kind = "key-dropped"
        elif r < 0.2:
            a[rng.choice(["extra", "x y", "SRC_ADDR", "src-addr", "é", "is_fd ", ""])] = rng.choice(["1", "junk", " "])
            kind = "unknown-parameter"
        elif a and r < 0.27:
            items = list(a.items())
            rng.shuffle(items)
            a = dict(items)
            kind = "shuffled"
        cfg_cases.append((sch, a, kind))
    spelled = [unhs(o) for o in ctx.lean([f"spell {H.sp_tok(sp)} {z}" for sp, z in auto_specs])]
    cfg_cases = [(sch, {k: (spelled[v[1]] if isinstance(v, tuple) else v) for k, v in a.items()}, kind) for sch, a, kind in cfg_cases]
    # exhaustive: every accepted bool word in every capitalisation, lax-int texts over a small alphabet
    for w in BOOL_WORDS:
        for mask in itertools.product([0, 1], repeat=len(w)):
            cfg_cases.append(("can-raw" if "can-raw" in rx.transports else table_schemes[0],
                              {"is_fd": "".join(ch.upper() if m else ch for ch, m in zip(w, mask))}, "bool-word"))
    lax_alpha = "01+-_. "
    n_lax = 0
    for t in H.all_strings(lax_alpha, ctx.pick(4, 5)):
        B.add(f"laxint {hs(t)}", rx.lax(t), "pydantic-int", t, site="pydantic int field")
        n_lax += 1
        if "hsfz" in rx.transports and len(t) <= 3:
            cfg_cases.append(("hsfz", {"src_addr": "1", "dst_addr": "2", "ack_timeout": t}, "lax-int-text"))
    ctx.ev(n_lax)
    ctx.dist["config:lax-int-exhaustive"] += n_lax
    ctx.distinct.add(hash(("lax-exh", n_lax)))
    ctx.exhaustive_parts.append(f"pydantic lax str->int on every string of length <= {ctx.pick(4, 5)} over {lax_alpha!r} ({n_lax}); every accepted bool "
                                "word in every capitalisation")
    B.flush()
    hosts = {"tcp": "ecu", "tcp-lines": "10.0.0.1", "doip": "fe80::1", "hsfz": "ecu", "isotp": "can0", "can-raw": "vcan0", "unix": "", "unix-lines": ""}
    lines = [f"fromparts {hs(sch)} {hs(hosts.get(sch, 'h') or 'h')} none {H.show_args(a)}" for sch, a, _ in cfg_cases]
    model_uris = ctx.lean(lines)
    model_parsed = ctx.lean([f"parse {m}" for m in model_uris])
    model_cfg = ctx.lean([f"cfg {hs(sch)} {mp.split()[3]}" if mp != "err" else "int -" for (sch, _, _), mp in zip(cfg_cases, model_parsed)])
    model_plan = ctx.lean([f"connect {hs(sch)} {m}" for (sch, _, _), m in zip(cfg_cases, model_uris)])
    model_sock = ctx.lean([f"sock {hs(sch)} {m}" for (sch, _, _), m in zip(cfg_cases, model_uris)])
    budget = {}
    for (sch, a, kind), mu, mc, mpl, msk in zip(cfg_cases, model_uris, model_cfg, model_plan, model_sock):
        nt("config", repr((sch, a)))
        ctx.kind(f"config:{sch}", f"config:{kind}")
        ru = real.from_parts(sch, hosts.get(sch, "h") or "h", None, a)
        if ru != mu:
            if limited("from_parts-cfg-str"):
                ctx.disagree("from_parts-string:" + H.case_key({"scheme": sch, "args": a}), f"from_parts({sch!r}, ..., {a!r}) renders {ru}; expected {mu}",
                             {"fn": "from_parts", "scheme": sch, "host": hosts.get(sch, "h") or "h", "port": None, "args": a}, impl=ru, model=mu,
                             spec_violated=True, site="TargetURI.from_parts")
            continue
        raw = unhs(ru)
        q = real.qs_flat(raw)
        rc = rx.cfg(sch, q)
        if rc != mc:
            budget[sch] = budget.get(sch, 0) + 1
            if budget[sch] <= 4:
                a2, rc2, mc2 = shrink_cfg(ctx, real, rx, H, sch, hosts.get(sch, "h") or "h", a)
                ctx.disagree(f"cfg-{sch}:" + H.case_key(a2), f"{sch} config built from qs_flat of from_parts(..., {a2!r}): got {rc2}, expected {mc2}",
                             {"fn": "cfg", "scheme": sch, "args": a2}, impl=rc2, model=mc2, spec_violated=True, site=f"{sch} config")
        rp = rx.connect(sch, raw)
        mpl = canon_plan(H, mpl)
        if rp != mpl:
            budget["c" + sch] = budget.get("c" + sch, 0) + 1
            if budget["c" + sch] <= 4:
                ctx.disagree(f"connect-{sch}:" + H.case_key({"uri": raw}), f"{sch} connect({raw!r}) goes on with {rp}; expected {mpl}",
                             {"fn": "connect", "scheme": sch, "input": raw}, impl=rp, model=mpl, spec_violated=True, site=f"{sch} connect")
        else:
            check_sock(ctx, rx, H, sch, raw, msk, budget)
        ctx.traces_validated += 1
    # connect(): scheme check, host, port, default port, path - raw URIs per class x scheme
    conn_cases = []
    good_q = {"doip": "src_addr=0x0e00&target_addr=0x1d", "hsfz": "src_addr=0xf4&dst_addr=0x10", "isotp": "src_addr=0x6f1&dst_addr=0x654",
              "can-raw": "is_fd=true", "tcp": "", "tcp-lines": "", "unix": "", "unix-lines": ""}
    for cls_s in table_schemes:
        for uri_s in table_schemes + ["http", "DOIP", "TcP-LiNeS", "foo", "unix+x"]:
            for rest in ["//ecu", "//ecu:0", "//ecu:1234", "//ecu:65535", "//ecu:65536", "//ecu:", "//ecu:x", "//[fe80::1]", "//[fe80::1]:13400",
                         "//", "///tmp/sock", "//tmp/sock", "/tmp/sock", "tmp/sock", "///tmp/a%20b", "///tmp/a b?x=1#f", "//ECU.Example:80/p", "//can0",
                         "///", "//:80", ""]:
                q = good_q.get(cls_s, "")
                conn_cases.append((cls_s, f"{uri_s}:{rest}" + (f"?{q}" if q else "")))
    for _ in range(ctx.pick(600, 6000)):
        cls_s = rng.choice(table_schemes)
        uri_s = cls_s if rng.random() < 0.8 else rng.choice(table_schemes)
        h, hk = H.rand_host(rng)
        p = H.rand_port(rng)
        netloc = (f"[{h}]" if ":" in h else h) + ("" if p is None else f":{p}")
        path = rng.choice(["", "", "/", "/tmp/sock", "/a/b c", "/%41", "/x;y", "/é"])
        if cls_s.startswith("unix") and rng.random() < 0.7:
            netloc = rng.choice(["", "", "host"])
        a, _k = H.rand_args(rng, cls_s if cls_s in ("doip", "hsfz", "isotp") else "x")
        q = "&".join(f"{k}={v}" for k, v in a.items())
        conn_cases.append((cls_s, f"{uri_s}://{netloc}{path}" + (f"?{q}" if q else "")))
    outs = ctx.lean([f"connect {hs(c)} {hs(r)}" for c, r in conn_cases])
    pouts = ctx.lean([f"parse {hs(r)}" for _, r in conn_cases])
    souts = ctx.lean([f"sock {hs(c)} {hs(r)}" for c, r in conn_cases])
    for (cls_s, raw), o, po, so in zip(conn_cases, outs, pouts, souts):
        nt("connect", repr((cls_s, raw)))
        rpar = real.parse(raw)
        if rpar != H.canon_model_parse(po) and limited("TargetURI-parse-conn"):
            ctx.disagree(f"TargetURI-parse:{raw!r}", f"TargetURI({raw!r}) reads {rpar}; expected {po}", {"fn": "parse", "input": raw}, impl=rpar,
                         model=po, spec_violated=True, site="TargetURI")
        if rpar == "err":
            continue
        ctx.kind(f"connect:{cls_s}")
        rp = rx.connect(cls_s, raw)
        o = canon_plan(H, o)
        ctx.kind("connect:" + (rp.split(" ")[0] if rp.startswith("err") else "ok"))
        if rp != o:
            budget["r" + cls_s] = budget.get("r" + cls_s, 0) + 1
            if budget["r" + cls_s] <= 4:
                ctx.disagree(f"connect-{cls_s}:" + H.case_key({"uri": raw}), f"{cls_s} connect({raw!r}) goes on with {rp}; expected {o}",
                             {"fn": "connect", "scheme": cls_s, "input": raw}, impl=rp, model=o, spec_violated=True, site=f"{cls_s} connect")
        else:
            check_sock(ctx, rx, H, cls_s, raw, so, budget)
        ctx.traces_validated += 1
    sock_grid(ctx, real, rx, H, nt, budget)
    ctx.notes["transports_in_registry"] = table_schemes
    lap('D-transports')


def sock_grid(ctx, real, rx, H, nt, budget):
    """ISO-TP / can-raw socket level settings: every combination of absent / 0 / hex / decimal / octal / binary spellings of the four
    optional ISO-TP settings (pairwise different numbers, so that a value landing in another field shows), with is_fd / is_extended /
    frame_txtime / tx_dl / ids varied along; a few out-of-range numbers (refused by the range check of the option block)"""
    rng = ctx.rng
    hs = H.hs
    if "isotp" not in rx.transports:
        return
    names = ("ext_address", "rx_ext_address", "tx_padding", "rx_padding")
    cases = []
    reps = ctx.pick(1, 4)
    for rep in range(reps):
        vals = rng.sample(range(1, 256), 4)
        sp = [[None, "0", f"{v:#x}", str(v), f"{v:#o}", f"{v:#b}"] for v in vals]
        for combo in itertools.product(*sp):
            a = {}
            if rng.random() < 0.8:
                a["is_fd"] = rng.choice(["true", "false"])
                a["is_extended"] = rng.choice(["true", "false"])
            a["src_addr"] = rng.choice(["0x6f1", "1777", f"{rng.randrange(1 << 29):#x}", str(rng.randrange(0x800)), f"{rng.randrange(1 << 32):#x}"])
            a["dst_addr"] = rng.choice(["0x6a0", "0x7ff", f"{rng.randrange(1 << 29):#x}", str(rng.randrange(0x800)), f"-{rng.randrange(0x800):#x}"])
            for k, v in zip(names, combo):
                if v is not None:
                    a[k] = v
            r = rng.random()
            if r < 0.15:
                a["frame_txtime"] = str(rng.choice([0, 1, 10, 255, 256, 65536, (1 << 32) - 1, rng.randrange(1 << 32)]))
            if r > 0.85:
                a["tx_dl"] = str(rng.choice([8, 12, 16, 20, 24, 32, 48, 64, 0, 255]))
            kind = "in-range"
            r = rng.random()
            if r < 0.04:
                a[rng.choice(names)] = rng.choice(["256", "0x100", "-1", "-0x80", "65535"])
                kind = "out-of-range"
            elif r < 0.06:
                a[rng.choice(["frame_txtime", "tx_dl"])] = rng.choice(["-1", "256", "4294967296"])
                kind = "out-of-range"
            cases.append(("isotp", "vcan0", a, kind))
    if "can-raw" in rx.transports:
        for fd in [None] + BOOL_WORDS:
            for ext in (None, "true", "false"):
                a = {}
                if fd is not None:
                    a["is_fd"] = fd
                if ext is not None:
                    a["is_extended"] = ext
                if rng.random() < 0.5:
                    a["dst_id"] = f"{rng.randrange(0x800):#x}"
                cases.append(("can-raw", "vcan0", a, "can-raw"))
    raws = []
    for sch, host, a, kind in cases:
        ru = real.from_parts(sch, host, None, a)
        raws.append(None if ru.startswith("exc:") else H.unhs(ru))
    live = [(c, r) for c, r in zip(cases, raws) if r is not None]
    plans = ctx.lean([f"connect {hs(c[0])} {hs(r)}" for c, r in live])
    socks = ctx.lean([f"sock {hs(c[0])} {hs(r)}" for c, r in live])
    for ((sch, host, a, kind), raw), mpl, msk in zip(live, plans, socks):
        nt("sock", repr((sch, raw)))
        ctx.kind(f"sock:{sch}", f"sock:{kind}", "sock:optional-settings-present-" + str(sum(1 for k in names if k in a)))
        rp = rx.connect(sch, raw)
        mpl = canon_plan(H, mpl)
        if rp != mpl:
            budget["g" + sch] = budget.get("g" + sch, 0) + 1
            if budget["g" + sch] <= 3:
                ctx.disagree(f"connect-{sch}:" + H.case_key({"uri": raw}), f"{sch} connect({raw!r}) goes on with {rp}; expected {mpl}",
                             {"fn": "connect", "scheme": sch, "input": raw}, impl=rp, model=mpl, spec_violated=True, site=f"{sch} connect")
            continue
        check_sock(ctx, rx, H, sch, raw, msk, budget)
        ctx.traces_validated += 1
    ctx.exhaustive_parts.append(f"ISO-TP option block / LL options / bound ids and can-raw options decoded for every combination of absent / 0 / hex / "
                                f"decimal / octal / binary spellings of ext_address, rx_ext_address, tx_padding, rx_padding ({len(live)} URIs)")


def shrink_cfg(ctx, real, rx, H, sch, host, a):
    """fixed order: drop parameters one at a time while the config still differs"""
    def ev(args):
        mu = ctx.lean([f"fromparts {H.hs(sch)} {H.hs(host)} none {H.show_args(args)}"])[0]
        mp = ctx.lean([f"parse {mu}"])[0]
        mc = ctx.lean([f"cfg {H.hs(sch)} {mp.split()[3]}"])[0] if mp != "err" else "err"
        ru = real.from_parts(sch, host, None, args)
        q = real.qs_flat(H.unhs(ru)) if not ru.startswith("exc:") else None
        return (rx.cfg(sch, q) if q is not None else "err"), mc

    cur = dict(a)
    for k in list(cur):
        c = {x: v for x, v in cur.items() if x != k}
        i, m = ev(c)
        if i != m:
            cur = c
    i, m = ev(cur)
    return cur, i, m


def replay_ext(ctx, real, H, c):
    """replay of the cases this module records; returns None when the case is not one of them"""
    fn = c.get("fn")
    rx = RealExt(real)
    rx.H = H
    hs = H.hs
    if fn in ("quote_plus", "unquote_plus") and isinstance(c.get("input"), str):
        op = "quoteplus" if fn == "quote_plus" else "unquoteplus"
        mo = ctx.lean([f"{op} {hs(c['input'])}"])[0]
        impl = hs(getattr(rx, fn)(c["input"]))
        print(f"now: {fn}({c['input']!r}) impl={impl} oracle={mo}")
        return impl != mo
    if fn == "qs_flat" and isinstance(c.get("input"), str):
        mo = ctx.lean([f"parse {hs('tcp://h?' + c['input'])}"])[0].split()[3]
        impl = H.show_args(real.qs_flat("tcp://h?" + c["input"]))
        print(f"now: qs_flat({c['input']!r}) impl={impl} oracle={mo}")
        return impl != mo
    if fn == "pydantic-int":
        mo = ctx.lean([f"laxint {hs(c['input'])}"])[0]
        impl = rx.lax(c["input"])
        print(f"now: int field on {c['input']!r} impl={impl} oracle={mo}")
        return impl != mo
    if fn == "cfg":
        _a, i, m = shrink_cfg(ctx, real, rx, H, c["scheme"], "h", c["args"])
        print(f"now: {c['scheme']} config from {c['args']!r}: impl={i} oracle={m}")
        return i != m
    if fn == "sock":
        mo = ctx.lean([f"sock {hs(c['scheme'])} {hs(c['input'])}"])[0]
        rx.connect(c["scheme"], c["input"])
        impl = rx.last_sock
        print(f"now: {c['scheme']} connect({c['input']!r}) programs {describe_sock(impl)}; the URI says {describe_sock(mo)}")
        return impl != mo
    if fn == "connect":
        mo = canon_plan(H, ctx.lean([f"connect {hs(c['scheme'])} {hs(c['input'])}"])[0])
        impl = rx.connect(c["scheme"], c["input"])
        print(f"now: {c['scheme']} connect({c['input']!r}) impl={impl} oracle={mo}")
        return impl != mo
    return None
