"""C13 tie, fresh-process part: request histories against a real RandomUDSServer in a process that has parsed NOTHING before.

gallia keeps per-class parser tables (`UDSService._SERVICES`, the nested `SubFunction` classes of the specialised
sub-function services RoutineControl / ReadDTCInformation / DynamicallyDefineDataIdentifier); anything cached there lives
as long as the process.  The main check parses hundreds of thousands of requests in one process, so "which service was
parsed FIRST in this server process" is a dimension it can exercise exactly once.  This helper is started as a new
interpreter per history (`python c13_order.py`, job as JSON on stdin): it imports the repo under test, builds the
server, runs the history through the real `UDSServerTransport.handle_request` with the scripted clock / recorded draws
of harness/secsm.py and prints the `creq` lines for the Lean driver plus what the real server did.  It never talks to
the model: the parent compares.

job    {"rng_seed": int, "seed": int, "params": {...}, "mask": "111111111", "history": [{"pdu": hex, "adv": n, "dur": n}, ...]}
result {"spec": str, "lines": [str], "steps": [{"impl": str, "pre": str, "orc": str, "problems": [str]}]}
"""
import json
import os
import subprocess
import sys

HERE = os.path.dirname(os.path.abspath(__file__))


def child_main():
    sys.path.insert(0, HERE)
    import secsm
    import c14_fuzz as F

    job = json.loads(sys.stdin.read())
    env = secsm.make_env(job["rng_seed"])
    real = F.Real(env, job["seed"], secsm.params_from_json(env, job["params"]))
    m = secsm.Machine(None, env, real, "c13", mask=job.get("mask", secsm.ALL_ON))
    m.reset()
    for it in job["history"]:
        m.request(it.get("sym", "pdu"), bytes.fromhex(it["pdu"]), it.get("adv", 1), it.get("dur", 2))
    steps = []
    for line, (path, impl, pre, dt, problems) in zip(m.lines, m.meta):
        steps.append({"impl": impl, "pre": F.fmt_state(pre), "orc": " ".join(line.split()[-6:]), "problems": problems})
    sys.stdout.write(json.dumps({"spec": real.spec, "lines": m.lines, "steps": steps}))


def start(job):
    """start one fresh interpreter for `job`; returns the Popen object (stdin already written)"""
    p = subprocess.Popen([sys.executable, os.path.abspath(__file__)], stdin=subprocess.PIPE, stdout=subprocess.PIPE,
                         stderr=subprocess.PIPE, env=dict(os.environ, PYTHONHASHSEED="0"))
    p.stdin.write(json.dumps(job).encode())
    p.stdin.close()
    return p


def finish(p, timeout=60):
    """-> (result dict | None, error text)"""
    try:
        p.wait(timeout=timeout)
    except subprocess.TimeoutExpired:
        p.kill()
        p.wait()
        return None, "timeout"
    out = p.stdout.read()
    err = p.stderr.read().decode(errors="replace")
    if p.returncode != 0:
        return None, f"exit {p.returncode}: {err[-800:]}"
    try:
        return json.loads(out), ""
    except ValueError:
        return None, f"unreadable output: {out[-300:]!r} {err[-500:]}"


def run_jobs(jobs, par=8):
    """run every job in its own fresh interpreter, at most `par` at a time, results in job order"""
    res = [None] * len(jobs)
    i = 0
    while i < len(jobs):
        chunk = list(range(i, min(i + par, len(jobs))))
        procs = [(k, start(jobs[k])) for k in chunk]
        for k, p in procs:
            res[k] = finish(p)
        i += par
    return res


if __name__ == "__main__":
    child_main()
