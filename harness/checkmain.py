"""./check <ID> [--tier quick|thorough] [--replay <path>]   |   ./check --setup   |   ./check --list

Decides one property on /repo's current working tree (DESIGN.md section 3):
regenerate tables -> lake build proof module + model driver -> axiom audit -> correspondence -> verdict -> evidence.

exit 0  property held on everything explored (KNOWN-FINDING lines may be printed)
exit 1  VIOLATION property=<ID> replay=<path> [no-failing-input-found]
exit 2  infrastructure failure (no Lean, timeout, ...) - never a VIOLATION line
"""
from __future__ import annotations

import argparse
import fcntl
import importlib
import json
import os
import re
import sys
import time
import traceback
from pathlib import Path

sys.path.insert(0, str(Path(__file__).resolve().parent))
sys.path.insert(0, str(Path(__file__).resolve().parent.parent))

from common import LEAN, PY, REPO, STD_AXIOMS, VERIF, Ctx, DriverError, canon, run_cmd, short_hash  # noqa: E402

FORBIDDEN = re.compile(r"\bsorry\b|\badmit\b|^\s*axiom\s|native_decide|bv_decide|implemented_by|\bunsafe\s|maxHeartbeats\s+0\b", re.M)

ALL_IDS = [f"C{i:02d}" for i in range(1, 21)]


def log(*a):
    print(*a, file=sys.stderr, flush=True)


class LakeLock:
    def __enter__(self):
        (LEAN / ".lake").mkdir(exist_ok=True)
        self.f = open(LEAN / ".lake" / "verif.lock", "w")
        fcntl.flock(self.f, fcntl.LOCK_EX)
        return self

    def __exit__(self, *a):
        fcntl.flock(self.f, fcntl.LOCK_UN)
        self.f.close()


def strip_comments(src: str) -> str:
    # nested block comments /- ... -/ and line comments --
    out = []
    i = 0
    depth = 0
    n = len(src)
    while i < n:
        if src.startswith("/-", i):
            depth += 1
            i += 2
        elif depth and src.startswith("-/", i):
            depth -= 1
            i += 2
        elif depth:
            if src[i] == "\n":
                out.append("\n")
            i += 1
        elif src.startswith("--", i):
            while i < n and src[i] != "\n":
                i += 1
        elif src[i] == '"':
            j = i + 1
            while j < n and src[j] != '"':
                j += 2 if src[j] == "\\" else 1
            out.append('""')
            i = j + 1
        else:
            out.append(src[i])
            i += 1
    return "".join(out)


def forbidden_scan() -> list[str]:
    hits = []
    for p in sorted(list((LEAN / "Gallia").rglob("*.lean")) + list((LEAN / "Driver").rglob("*.lean"))):
        txt = strip_comments(p.read_text())
        for m in FORBIDDEN.finditer(txt):
            line = txt.count("\n", 0, m.start()) + 1
            hits.append(f"{p.relative_to(LEAN)}:{line}: {m.group(0).strip()}")
    return hits


def theorems_of(lean_file: Path) -> list[str]:
    """fully qualified names of the `theorem`s declared in a proof file (namespace aware)"""
    txt = strip_comments(lean_file.read_text())
    ns: list[str] = []
    names = []
    for line in txt.split("\n"):
        m = re.match(r"\s*namespace\s+(\S+)", line)
        if m:
            ns.append(m.group(1))
            continue
        m = re.match(r"\s*end\s+(\S+)\s*$", line)
        if m and ns and ns[-1] == m.group(1):
            ns.pop()
            continue
        m = re.match(r"\s*(?:@\[[^\]]*\]\s*)?(?:private\s+|protected\s+)?theorem\s+([^\s:({\[]+)", line)
        if m:
            names.append(".".join(ns + [m.group(1)]))
    return names


def run_gens(names: list[str]) -> list[str]:
    """returns list of error texts (empty = all generators ran)"""
    errs = []
    for g in names:
        rc, out = run_cmd([PY, str(VERIF / "gen" / f"{g}.py")], cwd=VERIF, timeout=300,
                          env={**os.environ, "GALLIA_REPO": str(REPO), "PYTHONPATH": str(REPO / "src")})
        if rc != 0:
            errs.append(f"gen/{g}.py failed:\n{out[-3000:]}")
    return errs


def all_gens() -> list[str]:
    # translators that read another translator's output (c02_ctor / c02_fields read C02Registry.lean) come after the
    # `*_registry` ones, so that a fresh checkout (no Gen files yet) sets up in one pass
    return sorted((p.stem for p in (VERIF / "gen").glob("*.py") if not p.stem.startswith("_")),
                  key=lambda s: (not s.endswith("_registry"), s))


def lake_build(targets: list[str], timeout=1800):
    with LakeLock():
        return run_cmd(["lake", "build", *targets], cwd=LEAN, timeout=timeout)


def audit(prop_id: str, proof_mod: str, extra_files: list[Path]):
    """returns (theorems, axioms_by_theorem, error_text)"""
    files = [LEAN / (proof_mod.replace(".", "/") + ".lean")] + extra_files
    thms = []
    for f in files:
        if f.exists():
            thms += theorems_of(f)
    (LEAN / "Audit").mkdir(exist_ok=True)
    af = LEAN / "Audit" / f"{prop_id}.lean"
    body = f"import {proof_mod}\n" + "".join(f"#print axioms {t}\n" for t in thms)
    af.write_text(body)
    with LakeLock():
        rc, out = run_cmd(["lake", "env", "lean", str(af)], cwd=LEAN, timeout=900)
    axioms = {}
    # output: "'Name' depends on axioms: [a, b]"  or "'Name' does not depend on any axioms"
    for m in re.finditer(r"^'(.+)' depends on axioms: \[([^\]]*)\]", out, re.M):
        axioms[m.group(1)] = [a.strip() for a in m.group(2).replace("\n", " ").split(",") if a.strip()]
    for m in re.finditer(r"^'(.+)' does not depend on any axioms", out, re.M):
        axioms[m.group(1)] = []
    err = out if rc != 0 else ""
    return thms, axioms, err


def load_known():
    p = VERIF / "known_findings.jsonl"
    known, fixed = {}, {}
    if p.exists():
        for line in p.read_text().splitlines():
            line = line.strip()
            if not line or line.startswith("#"):
                continue
            e = json.loads(line)
            (known if e.get("status") == "known" else fixed)[(e["property"], e["key"])] = e
    return known, fixed


def write_replay(prop_id, payload) -> Path:
    d = VERIF / "replays"
    d.mkdir(exist_ok=True)
    p = d / f"{prop_id}-{short_hash(payload)}.json"
    p.write_text(json.dumps(payload, indent=1, sort_keys=True, default=str))
    return p


def driver_binary(target: str | None):
    if not target:
        return None
    b = LEAN / ".lake" / "build" / "bin" / target
    return b if b.exists() else None


def do_setup():
    t0 = time.time()
    errs = run_gens(all_gens())
    for e in errs:
        log(e)
    rc, out = lake_build(["Gallia"])
    log(out[-4000:])
    if rc != 0:
        log("setup: lake build Gallia failed")
        return 2
    exes = [f"c{i:02d}" for i in range(1, 21) if (LEAN / "Driver" / f"C{i:02d}.lean").exists()]
    if exes:
        rc, out = lake_build(exes)
        log(out[-4000:])
        if rc != 0:
            log("setup: driver build failed")
            return 2
    log(f"setup done in {time.time()-t0:.1f}s")
    return 0 if not errs else 2


def decide(prop_id: str, tier: str, seed: int) -> int:
    t0 = time.time()
    try:
        mod = importlib.import_module(f"props.{prop_id}")
    except ModuleNotFoundError:
        log(f"no check module for {prop_id}")
        return 2

    broken: list[dict] = []  # obligations / ties that no longer check
    for old in (VERIF / "replays").glob(f"{prop_id}-*.json"):
        old.unlink()

    # 1. regenerate tables from the working tree
    for e in run_gens(getattr(mod, "GENS", [])):
        broken.append({"what": "generator", "detail": e})

    # 2. build
    proof_mod = getattr(mod, "PROOF", f"Gallia.Proofs.{prop_id}")
    extra_proofs = getattr(mod, "EXTRA_PROOFS", [])
    drv_target = getattr(mod, "DRIVER", None)
    try:
        rc, out = lake_build([proof_mod, *extra_proofs])
    except Exception as e:  # timeout / lake missing
        log(f"infrastructure: lake build: {e!r}")
        return 2
    if rc != 0:
        if "error: Lean exited" not in out and "error:" not in out:
            log(out[-3000:])
            return 2
        broken.append({"what": f"lake build {proof_mod}", "detail": out[-6000:]})
    drv = None
    if drv_target:
        rc2, out2 = lake_build([drv_target])
        if rc2 == 0:
            drv = driver_binary(drv_target)
        else:
            broken.append({"what": f"lake build {drv_target} (model driver)", "detail": out2[-6000:]})

    # 3. audit
    thms, axioms = [], {}
    bad_axioms = {}
    if not any(b["what"].startswith("lake build Gallia") for b in broken):
        extra_files = [LEAN / (m.replace(".", "/") + ".lean") for m in extra_proofs]
        thms, axioms, aerr = audit(prop_id, proof_mod, extra_files)
        if aerr:
            broken.append({"what": "axiom audit", "detail": aerr[-4000:]})
        for t in thms:
            if t not in axioms:
                bad_axioms[t] = ["<no #print axioms output>"]
            elif not set(axioms[t]) <= STD_AXIOMS:
                bad_axioms[t] = axioms[t]
        if bad_axioms:
            broken.append({"what": "axiom audit: non-standard axioms", "detail": canon(bad_axioms)})
        if not thms:
            broken.append({"what": "axiom audit", "detail": "no theorems found in proof module"})
    hits = forbidden_scan()
    if hits:
        broken.append({"what": "forbidden tokens in Lean sources", "detail": "\n".join(hits)})
    leanchecker_out = None
    if tier == "thorough" and not broken:
        with LakeLock():
            rc3, out3 = run_cmd(["lake", "env", "leanchecker", proof_mod, *extra_proofs], cwd=LEAN, timeout=3600)
        leanchecker_out = out3[-500:]
        if rc3 != 0:
            broken.append({"what": "leanchecker", "detail": out3[-4000:]})

    # 4. correspondence
    ctx = Ctx(prop_id, tier, seed, drv)
    harness_crash = None

    # A correspondence run that does not come back (the implementation, changed, loops on some generated case and the check's own caps
    # do not reach it) must not hang the check: after the wall-clock limit whatever failing inputs were found so far are reported; if
    # there is none, the run is reported as no longer checking (no-failing-input-found).  Never fires on the unchanged tree (quick
    # tier < 2 min, thorough < 15 min).
    import threading
    run_limit = float(os.environ.get("VERIF_RUN_LIMIT", "1200" if tier == "quick" else "5400"))

    def _expired(phase, c):
        known_, _f = load_known()
        viol = [d for d in c.disagreements if d.spec_violated and (prop_id, d.key) not in known_]
        out_lines = []
        if viol:
            for d in viol[:20]:
                rp_ = write_replay(prop_id, {"property": prop_id, "kind": "failing-input", **d.to_json(), "seed": seed, "tier": tier,
                                             "note": f"reported when the {phase} did not finish within {run_limit:.0f} s"})
                out_lines.append(f"VIOLATION property={prop_id} replay={rp_}")
        else:
            rp_ = write_replay(prop_id, {"property": prop_id, "kind": "no-failing-input-found", "seed": seed, "tier": tier,
                                         "no_longer_checks": broken + [{"what": f"{phase} did not terminate within {run_limit:.0f} s of wall-clock time",
                                                                        "detail": "the implementation (or the comparison) no longer terminates on some generated case; "
                                                                                  f"{c.evaluations} cases had been evaluated"}],
                                         "correspondence_disagreements": [d.to_json() for d in c.disagreements[:20]]})
            out_lines.append(f"VIOLATION property={prop_id} replay={rp_} no-failing-input-found")
        try:
            import faulthandler
            log(f"{phase} cut after {run_limit:.0f} s; where the check was:")
            faulthandler.dump_traceback(file=sys.stderr)
        except Exception:
            pass
        for ln in out_lines:
            print(ln, flush=True)
        print(f"[{prop_id}] tier={tier} seed={seed} {phase} cut after {run_limit:.0f} s -> exit 1", flush=True)
        try:
            import multiprocessing
            for ch in multiprocessing.active_children():
                ch.kill()
        except Exception:
            pass
        os._exit(1)

    wd = threading.Timer(run_limit, _expired, args=("correspondence run", ctx))
    wd.daemon = True
    wd.start()
    try:
        mod.run(ctx)
    except DriverError as e:
        broken.append({"what": "model driver", "detail": str(e)})
    except Exception:
        harness_crash = traceback.format_exc()
        broken.append({"what": "correspondence harness raised (implementation no longer drivable as modelled)",
                       "detail": harness_crash[-6000:]})
    finally:
        wd.cancel()

    # 5. failing-input search when something no longer checks and no failing input is on the table yet
    def violating(c):
        return [d for d in c.disagreements if d.spec_violated]

    known, fixed = load_known()

    def is_known(d):
        return (prop_id, d.key) in known

    searched = False
    if (broken or [d for d in ctx.disagreements if not d.spec_violated]) and not [d for d in violating(ctx) if not is_known(d)]:
        searched = True
        sctx = Ctx(prop_id, tier, seed + 7919, drv)
        sctx.widened = True
        wd2 = threading.Timer(run_limit, _expired, args=("failing-input search", ctx))  # reports what the first run found
        wd2.daemon = True
        wd2.start()
        try:
            (getattr(mod, "search", None) or mod.run)(sctx)
        except Exception:
            log("search raised:\n" + traceback.format_exc()[-3000:])
        finally:
            wd2.cancel()
        for d in sctx.disagreements:
            if d.spec_violated and d.key not in ctx._seen_keys:
                ctx.disagreements.append(d)
                ctx._seen_keys.add(d.key)
        ctx.evaluations += sctx.evaluations
        ctx.distinct |= sctx.distinct
        ctx.dist.update(sctx.dist)

    # 6. verdict
    rc_final = 0
    n_viol = 0
    lines = []
    for d in ctx.disagreements:
        if is_known(d):
            what = re.sub(r"^(known|KNOWN-FINDING):?\s*property=\S+\s*", "", str(known[(prop_id, d.key)].get("what", d.what)))
            lines.append(f"KNOWN-FINDING: property={prop_id} {what}")
            continue
    new_viol = [d for d in violating(ctx) if not is_known(d)]
    tie_only = [d for d in ctx.disagreements if not d.spec_violated and not is_known(d)]
    if new_viol:
        for d in new_viol[:20]:
            rp = write_replay(prop_id, {"property": prop_id, "kind": "failing-input", **d.to_json(),
                                        "broken_obligations": [b["what"] for b in broken], "seed": seed, "tier": tier})
            lines.append(f"VIOLATION property={prop_id} replay={rp}")
            n_viol += 1
        rc_final = 1
    elif broken or tie_only:
        payload = {"property": prop_id, "kind": "no-failing-input-found",
                   "no_longer_checks": broken,
                   "correspondence_disagreements": [d.to_json() for d in tie_only[:20]],
                   "searched": searched, "seed": seed, "tier": tier}
        rp = write_replay(prop_id, payload)
        lines.append(f"VIOLATION property={prop_id} replay={rp} no-failing-input-found")
        n_viol += 1
        rc_final = 1
    for l in lines:
        print(l, flush=True)

    # 7. evidence
    discharged = sum(1 for t in thms if t in axioms and set(axioms[t]) <= STD_AXIOMS) if not any(
        b["what"].startswith("lake build Gallia") for b in broken) else 0
    axioms_seen = sorted({a for t in thms for a in axioms.get(t, [])})
    ev = {
        "property_id": prop_id,
        "tier": tier,
        "seed": seed,
        "level": "proof",
        "coverage": {
            "obligations": max(len(thms), 1),
            "discharged": discharged,
            "checker_cmd": f"cd lean && lake build {proof_mod} && lake env lean Audit/{prop_id}.lean"
                           + (" && lake env leanchecker " + proof_mod if tier == "thorough" else ""),
            "trusted_base": [
                "Lean 4.33.0 kernel" + (" (+ leanchecker re-check)" if leanchecker_out is not None else ""),
                "axioms: " + (", ".join(axioms_seen) if axioms_seen else "none"),
                "translators /verif/gen/*.py (tables regenerated from the live modules / AST)",
                "correspondence harness /verif/harness (generators, canonicalisation, virtual-time loop)",
                "Python stdlib / asyncio / struct contracts as listed in DESIGN.md section 5",
            ],
            "theorems": thms,
            "axioms_by_theorem": {t: axioms.get(t) for t in thms},
            "evaluations": ctx.evaluations,
            "distinct_nontrivial": len(ctx.distinct),
            "rule": ctx.rule,
            "samples": ctx.samples[:12] or ["<none>"],
            "traces_validated_against_impl": ctx.traces_validated,
            "input_distribution": dict(sorted(ctx.dist.items())),
            "exhaustive_parts": ctx.exhaustive_parts,
            "no_longer_checks": [b["what"] for b in broken],
            "known_findings_hit": sorted({d.key for d in ctx.disagreements if is_known(d)}),
            "failing_input_search_ran": searched,
            "notes": ctx.notes,
        },
        "assumptions": ctx.assumptions + list(getattr(mod, "ASSUMPTIONS", [])),
        "wall_s": round(time.time() - t0, 2),
        "violations": n_viol,
    }
    evdir = Path(os.environ.get("VERIF_EVIDENCE_DIR") or (VERIF / "evidence"))  # scratch runs (seeded changes, mutations) write elsewhere
    evdir.mkdir(exist_ok=True, parents=True)
    (evdir / f"{prop_id}.json").write_text(json.dumps(ev, indent=1, default=str))
    log(f"[{prop_id}] tier={tier} seed={seed} theorems={len(thms)} discharged={discharged} "
        f"evals={ctx.evaluations} distinct={len(ctx.distinct)} disagreements={len(ctx.disagreements)} "
        f"broken={len(broken)} wall={time.time()-t0:.1f}s -> exit {rc_final}")
    for b in broken:
        log(f"  no longer checks: {b['what']}\n    " + b["detail"][-1500:].replace("\n", "\n    "))
    return rc_final


def do_replay(prop_id: str, path: str) -> int:
    mod = importlib.import_module(f"props.{prop_id}")
    case = json.loads(Path(path).read_text())
    drv_target = getattr(mod, "DRIVER", None)
    run_gens(getattr(mod, "GENS", []))
    if drv_target:
        lake_build([drv_target])
    ctx = Ctx(prop_id, "quick", 0, driver_binary(drv_target))
    if not hasattr(mod, "replay"):
        print(json.dumps(case, indent=1))
        log("this property has no replay function; printed the recorded case")
        return 0
    return int(bool(mod.replay(ctx, case)))


def main():
    ap = argparse.ArgumentParser()
    ap.add_argument("id", nargs="?")
    ap.add_argument("--tier", default=os.environ.get("VERIF_TIER", "quick"), choices=["quick", "thorough"])
    ap.add_argument("--replay")
    ap.add_argument("--setup", action="store_true")
    ap.add_argument("--list", action="store_true")
    a = ap.parse_args()
    seed = int(os.environ.get("VERIF_SEED", "0") or 0)
    if a.setup:
        sys.exit(do_setup())
    if a.list:
        for i in ALL_IDS:
            print(i, "yes" if (VERIF / "harness" / "props" / f"{i}.py").exists() else "no")
        sys.exit(0)
    if not a.id:
        ap.error("property id required")
    if a.replay:
        sys.exit(do_replay(a.id, a.replay))
    try:
        sys.exit(decide(a.id, a.tier, seed))
    except SystemExit:
        raise
    except Exception:
        log("infrastructure failure:\n" + traceback.format_exc())
        sys.exit(2)


if __name__ == "__main__":
    main()
