#!/venv/bin/python
"""mutsweep.py - systematic mutation sweep of gallia against the registered checks (a self-test of the checks, not a check).

For every anchored source file a deterministic sample of AST-level mutants (comparison operator swaps, and/or swaps, dropped `not`,
`is None` flips, integer constants +-1, `if` conditions forced, `break`/`continue` swaps, deleted simple statements) is generated.
Each mutant is applied in a scratch git worktree of /repo (never in /repo itself); the pinned test suite must still pass with it
(otherwise it is `killed-by-tests` and uninteresting); then the checks mapped to the file run against the worktree from a private
copy of /verif (own lake build directory, own replays), and the verdicts are appended to the result file.  Survivors (all mapped
checks exit 0) are the interesting output: each is either an equivalent mutant or a gap in a check.

usage: mutsweep.py [--files f1,f2] [--per-file N] [--workers K] [--seed S] [--out results.jsonl] [--ids C01,C02]
"""
import argparse
import ast
import fcntl
import json
import os
import random
import shutil
import subprocess
import sys
import time
from concurrent.futures import ThreadPoolExecutor
from pathlib import Path

VERIF = Path(__file__).resolve().parent.parent
REPO = Path("/repo")
SCRATCH = Path("/var/tmp/mutsweep")

FILE_CHECKS = {
    "src/gallia/services/uds/core/service.py": ["C01", "C02", "C03"],
    "src/gallia/services/uds/core/utils.py": ["C01", "C02", "C20"],
    "src/gallia/services/uds/helpers.py": ["C03", "C10", "C04"],
    "src/gallia/services/uds/core/client.py": ["C04", "C05", "C01"],
    "src/gallia/services/uds/ecu.py": ["C05", "C11", "C10", "C09", "C12"],
    "src/gallia/transports/doip.py": ["C06", "C08"],
    "src/gallia/transports/hsfz.py": ["C07", "C08"],
    "src/gallia/transports/base.py": ["C19", "C08", "C20"],
    "src/gallia/transports/tcp.py": ["C19", "C08"],
    "src/gallia/transports/unix.py": ["C19", "C08"],
    "src/gallia/services/uds/server.py": ["C13", "C14", "C16", "C12", "C19"],
    "src/gallia/commands/scan/uds/sessions.py": ["C09"],
    "src/gallia/commands/scan/uds/services.py": ["C10"],
    "src/gallia/commands/scan/uds/identifiers.py": ["C10"],
    "src/gallia/command/base.py": ["C15"],
    "src/gallia/command/uds.py": ["C11", "C15", "C10"],
    "src/gallia/db/handler.py": ["C11", "C15", "C12"],
    "src/gallia/log.py": ["C17"],
    "src/gallia/cli/hr.py": ["C17"],
    "src/gallia/command/config.py": ["C18"],
    "src/gallia/config.py": ["C18"],
    "src/gallia/pydantic_argparse/argparse/parser.py": ["C18"],
    "src/gallia/utils.py": ["C20"],
    "src/gallia/net.py": ["C20"],
    "src/gallia/commands/script/vecu.py": ["C16", "C18"],
}

CMP_SWAP = {ast.Lt: ast.LtE, ast.LtE: ast.Lt, ast.Gt: ast.GtE, ast.GtE: ast.Gt, ast.Eq: ast.NotEq, ast.NotEq: ast.Eq,
            ast.Is: ast.IsNot, ast.IsNot: ast.Is, ast.In: ast.NotIn, ast.NotIn: ast.In}


def _is_logging(node):
    """skip mutations inside logger.* calls and raise-message strings"""
    return isinstance(node, ast.Call) and isinstance(node.func, ast.Attribute) and isinstance(node.func.value, ast.Name) and node.func.value.id == "logger"


class Collector(ast.NodeVisitor):
    def __init__(self, src):
        self.src = src
        self.sites = []  # (kind, lineno, col, end_lineno, end_col, replacement text, description)

    def seg(self, n):
        return ast.get_source_segment(self.src, n)

    def add(self, kind, node, new, desc):
        if new is None:
            return
        self.sites.append((kind, node.lineno, node.col_offset, node.end_lineno, node.end_col_offset, new, desc))

    def visit_Call(self, node):
        if _is_logging(node):
            return
        if isinstance(node.func, ast.Name) and node.func.id == "Field":
            return  # option declarations (defaults, help texts): a different default is not a property violation
        self.generic_visit(node)

    # type annotations are not behaviour
    def visit_arg(self, node):
        return

    def visit_AnnAssign(self, node):
        if node.value is not None:
            self.visit(node.value)

    def visit_FunctionDef(self, node):
        for d in node.args.defaults + [x for x in node.args.kw_defaults if x is not None]:
            self.visit(d)
        for st in node.body:
            self.visit(st)

    visit_AsyncFunctionDef = visit_FunctionDef

    def visit_Compare(self, node):
        if len(node.ops) == 1 and type(node.ops[0]) in CMP_SWAP:
            new = ast.Compare(left=node.left, ops=[CMP_SWAP[type(node.ops[0])]()], comparators=node.comparators)
            self.add("cmp", node, ast.unparse(new), f"{self.seg(node)} -> {ast.unparse(new)}")
        self.generic_visit(node)

    def visit_BoolOp(self, node):
        new = ast.BoolOp(op=ast.Or() if isinstance(node.op, ast.And) else ast.And(), values=node.values)
        self.add("boolop", node, "(" + ast.unparse(new) + ")", f"{self.seg(node)} -> {ast.unparse(new)}")
        self.generic_visit(node)

    def visit_UnaryOp(self, node):
        if isinstance(node.op, ast.Not):
            self.add("not", node, "(" + ast.unparse(node.operand) + ")", f"{self.seg(node)} -> {ast.unparse(node.operand)}")
        self.generic_visit(node)

    def visit_Constant(self, node):
        if isinstance(node.value, int) and not isinstance(node.value, bool) and 0 <= node.value <= 0xFFFF:
            for d in (1, -1):
                v = node.value + d
                if v >= 0:
                    txt = hex(v) if (self.seg(node) or "").lower().startswith("0x") else str(v)
                    self.add("const", node, txt, f"{self.seg(node)} -> {txt}")
        elif isinstance(node.value, bool):
            self.add("bool", node, str(not node.value), f"{node.value} -> {not node.value}")

    def visit_If(self, node):
        self.add("if-true", node.test, "True", f"if {self.seg(node.test)} -> if True")
        self.add("if-false", node.test, "False", f"if {self.seg(node.test)} -> if False")
        self.generic_visit(node)

    def visit_While(self, node):
        self.generic_visit(node)

    def visit_Break(self, node):
        self.add("break", node, "continue", "break -> continue")

    def visit_Continue(self, node):
        self.add("continue", node, "break", "continue -> break")

    def visit_BinOp(self, node):
        swap = {ast.Add: ast.Sub, ast.Sub: ast.Add, ast.LShift: ast.RShift, ast.RShift: ast.LShift, ast.BitAnd: ast.BitOr, ast.BitOr: ast.BitAnd,
                ast.Mult: ast.FloorDiv}
        if type(node.op) in swap and not isinstance(node.left, ast.Constant) or (type(node.op) in swap and not isinstance(getattr(node.left, "value", 0), str)):
            new = ast.BinOp(left=node.left, op=swap[type(node.op)](), right=node.right)
            try:
                self.add("binop", node, "(" + ast.unparse(new) + ")", f"{self.seg(node)} -> {ast.unparse(new)}")
            except Exception:
                pass
        self.generic_visit(node)

    def visit_Assign(self, node):
        # delete a simple statement (replace by pass) when it is an attribute / subscript store or an augmented update
        if len(node.targets) == 1 and isinstance(node.targets[0], ast.Attribute | ast.Subscript):
            self.add("del-stmt", node, "pass", f"delete `{(self.seg(node) or '')[:70]}`")
        self.generic_visit(node)

    def visit_AugAssign(self, node):
        self.add("del-stmt", node, "pass", f"delete `{(self.seg(node) or '')[:70]}`")
        self.generic_visit(node)

    def visit_Return(self, node):
        if node.value is not None and isinstance(node.value, ast.Name | ast.Attribute | ast.Call) and False:
            pass
        self.generic_visit(node)


def mutants_of(path, src):
    c = Collector(src)
    c.visit(ast.parse(src))
    lines = src.splitlines(keepends=True)
    out = []
    for kind, l0, c0, l1, c1, new, desc in c.sites:
        if l0 != l1:
            continue  # single-line sites only (keeps the textual replacement exact)
        line = lines[l0 - 1]
        b = line.encode()
        mutated = (b[:c0] + new.encode() + b[c1:]).decode()
        if mutated == line:
            continue
        out.append({"file": path, "line": l0, "kind": kind, "desc": desc, "old": line.rstrip("\n"), "new": mutated.rstrip("\n")})
    return out


def sh(cmd, cwd=None, env=None, timeout=None):
    p = subprocess.run(cmd, cwd=cwd, env=env, capture_output=True, text=True, timeout=timeout, shell=isinstance(cmd, str))
    return p.returncode, p.stdout + p.stderr


def pytest_ok(w):
    """the pinned suite binds fixed localhost ports: one run at a time, machine-wide"""
    with open("/var/tmp/mutsweep.pytest.lock", "w") as lk:
        fcntl.flock(lk, fcntl.LOCK_EX)
        for attempt in range(3):
            rc, out = sh(["/venv/bin/python", "-m", "pytest", "-q", "-x", "-p", "no:cacheprovider", "--timeout=120"], cwd=w,
                         env={**os.environ, "PYTHONPATH": f"{w}/src"}, timeout=900)
            tail = out.strip().splitlines()[-1] if out.strip() else ""
            if "31 passed" in tail:
                return True, tail
            if "address already in use" in out.lower() or "Errno 98" in out:
                time.sleep(4)
                continue
            return False, tail
        return False, "ports busy"


def worker_dir(k):
    d = SCRATCH / f"verif-{k}"
    if not d.exists():
        d.parent.mkdir(parents=True, exist_ok=True)
        sh(f"git -C {VERIF} worktree prune; cp -a {VERIF} {d}")
        shutil.rmtree(d / ".git", ignore_errors=True) if (d / ".git").is_dir() else (d / ".git").unlink(missing_ok=True)
    else:  # refresh sources, keep the build directory
        sh(f"rsync -a --delete --exclude .git --exclude lean/.lake --exclude replays --exclude evidence {VERIF}/ {d}/")
    return d


def run_mutant(k, m, ids_filter):
    w = SCRATCH / f"repo-{k}"
    sh(f"git -C {REPO} worktree remove --force {w}")
    shutil.rmtree(w, ignore_errors=True)
    rc, out = sh(f"git -C {REPO} worktree add -q --detach {w} HEAD")
    res = {**m, "checks": {}}
    try:
        p = w / m["file"]
        lines = p.read_text().splitlines(keepends=True)
        if lines[m["line"] - 1].rstrip("\n") != m["old"]:
            res["status"] = "stale"
            return res
        lines[m["line"] - 1] = m["new"] + "\n"
        p.write_text("".join(lines))
        rc, out = sh(["/venv/bin/python", "-c", "import gallia.command, gallia.services.uds.server, gallia.transports, gallia.cli.hr, gallia.commands"],
                     env={**os.environ, "PYTHONPATH": f"{w}/src"}, timeout=120)
        if rc != 0:
            res["status"] = "import-fails"
            return res
        ok, tail = pytest_ok(w)
        if not ok:
            res["status"] = "killed-by-tests"
            res["pytest"] = tail[:120]
            return res
        vd = worker_dir(k)
        ids = [i for i in FILE_CHECKS[m["file"]] if not ids_filter or i in ids_filter]
        survived = True
        for cid in ids:
            t0 = time.time()
            try:
                rc, out = sh(["./check", cid], cwd=vd, env={**os.environ, "GALLIA_REPO": str(w), "VERIF_EVIDENCE_DIR": str(SCRATCH / f"ev-{k}"),
                                                            "VLOOP_SPIN_LIMIT": "8"}, timeout=1500)
            except subprocess.TimeoutExpired:
                rc, out = 124, "TIMEOUT"
            viol = [l for l in out.splitlines() if l.startswith("VIOLATION")]
            key = None
            if viol:
                try:
                    rp = viol[0].split("replay=")[1].split()[0]
                    key = json.load(open(rp)).get("key")
                except Exception:
                    key = None
            res["checks"][cid] = {"exit": rc, "violations": len(viol), "nofail": any("no-failing-input-found" in v for v in viol), "key": key,
                                  "secs": round(time.time() - t0, 1), "tail": out.strip().splitlines()[-1][:200] if out.strip() else ""}
            if rc == 1:
                survived = False
                break  # caught: no need to run the remaining checks
        res["status"] = "survived" if survived else "caught"
        return res
    finally:
        sh(f"git -C {REPO} worktree remove --force {w}")
        shutil.rmtree(w, ignore_errors=True)


def main():
    ap = argparse.ArgumentParser()
    ap.add_argument("--files", default="")
    ap.add_argument("--per-file", type=int, default=12)
    ap.add_argument("--workers", type=int, default=6)
    ap.add_argument("--seed", type=int, default=0)
    ap.add_argument("--out", default="/var/tmp/mutsweep/results.jsonl")
    ap.add_argument("--ids", default="")
    ap.add_argument("--kinds", default="")
    ap.add_argument("--lines", default="", help="file-relative line range a-b to restrict to (single file)")
    ap.add_argument("--from-survivors", default="", help="re-run the survivors recorded in this results file (instead of sampling)")
    ap.add_argument("--wbase", type=int, default=0, help="first worker index (use distinct ranges for concurrent sweeps)")
    a = ap.parse_args()
    files = [f for f in a.files.split(",") if f] or list(FILE_CHECKS)
    rng = random.Random(a.seed)
    todo = []
    for f in files:
        src = (REPO / f).read_text()
        ms = mutants_of(f, src)
        if a.kinds:
            ms = [m for m in ms if m["kind"] in a.kinds.split(",")]
        if a.lines:
            lo, hi = map(int, a.lines.split("-"))
            ms = [m for m in ms if lo <= m["line"] <= hi]
        rng.shuffle(ms)
        todo += ms[: a.per_file]
    if a.from_survivors:
        todo = []
        for l in Path(a.from_survivors).read_text().splitlines():
            d = json.loads(l)
            if d.get("status") in ("survived", "error") and (not a.files or d["file"] in files):
                todo.append({k: d[k] for k in ("file", "line", "kind", "desc", "old", "new")})
    SCRATCH.mkdir(parents=True, exist_ok=True)
    done = set()
    outp = Path(a.out)
    if outp.exists():
        for l in outp.read_text().splitlines():
            try:
                d = json.loads(l)
                done.add((d["file"], d["line"], d["new"]))
            except Exception:
                pass
    todo = [m for m in todo if (m["file"], m["line"], m["new"]) not in done]
    print(f"{len(todo)} mutants to run ({len(done)} already in {outp})", flush=True)
    ids_filter = set(a.ids.split(",")) if a.ids else None
    import queue
    import threading
    q = queue.Queue()
    for m in todo:
        q.put(m)
    lock = threading.Lock()

    def loop(k):
        while True:
            try:
                m = q.get_nowait()
            except queue.Empty:
                return
            try:
                r = run_mutant(k, m, ids_filter)
            except Exception as e:  # noqa: BLE001
                r = {**m, "status": "error", "error": repr(e)[:200]}
            with lock:
                with open(outp, "a") as fh:
                    fh.write(json.dumps(r) + "\n")
                cs = ",".join(f"{c}:{v['exit']}" for c, v in r.get("checks", {}).items())
                print(f"[{r['status']}] {r['file'].split('/')[-1]}:{r['line']} {r['kind']} {r['desc'][:90]} {cs}", flush=True)

    with ThreadPoolExecutor(a.workers) as ex:
        list(ex.map(loop, range(a.wbase, a.wbase + a.workers)))


if __name__ == "__main__":
    main()
