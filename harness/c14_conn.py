"""C14 tie, whole connections: the real TCPUDSServerTransport.handle_client of a real RandomUDSServer on in-memory streams,
with the real client on the other end - a real TCPLinesTransport (LinesTransportMixin.write / read) under a real
UDSClient.request_unsafe (max_retry 0) - under virtual time.  Per exchange the observation is what Model/VEcuConn.lean
computes: the bytes the server wrote, the client's verdict, the server's session / security state and last_time_active,
whether the loop is alive, what is left in either stream; at the end the peer closes and the loop's epilogue is observed.

Script items (JSON-able):
    {"adv": ticks, "dur": ticks, "pdu": hex} | {"adv", "dur", "key": [...]}    client.request(pdu) (see c14_fuzz.py)
    {"adv": ticks, "dur": ticks, "line": hex}     raw bytes + "\\n" written straight into the server's stream
"""
import asyncio
import binascii

import c14_fuzz as F
from common import hx
from vloop import vrun

CLIENT_TIMEOUT = 1.0


class ConnClock:
    """`server.time`: handle_request reads it twice; the second read is `dur` ticks later"""

    def __init__(self, t):
        self.t = t
        self.dur = 0
        self.reads = 0

    def arm(self, adv, dur):
        self.t += adv * 0.25
        self.dur = dur
        self.reads = 0

    def __call__(self):
        self.reads += 1
        if self.reads == 2:
            self.t += self.dur * 0.25
        return self.t


class PipeWriter:
    """stands in for asyncio.StreamWriter: what is written arrives in the peer's StreamReader"""

    def __init__(self, peer_reader):
        self.peer = peer_reader
        self.log = bytearray()
        self.closed = False

    def write(self, data):
        if self.closed:
            raise ConnectionResetError("write on closed writer")
        self.log += data
        self.peer.feed_data(bytes(data))

    async def drain(self):
        await asyncio.sleep(0)

    def close(self):
        if not self.closed:
            self.closed = True
            self.peer.feed_eof()

    async def wait_closed(self):
        await asyncio.sleep(0)

    def is_closing(self):
        return self.closed

    def get_extra_info(self, name, default=None):
        return default


async def listen_args(S, t):
    """what `run()` passes to asyncio.start_server: the connection callback and the StreamReader limit of every
    connection (the server is not started: start_server is replaced for the duration of the call)"""
    rec = {}

    class FakeServer:
        async def __aenter__(self):
            return self

        async def __aexit__(self, *a):
            return False

        async def serve_forever(self):
            return None

    async def fake_start_server(cb, *a, **k):
        rec["cb"] = cb
        rec["limit"] = k.get("limit", 2 ** 16)
        return FakeServer()

    orig = S.asyncio.start_server
    S.asyncio.start_server = fake_start_server
    try:
        await t.run()
    finally:
        S.asyncio.start_server = orig
    return rec.get("cb", t.handle_client), rec.get("limit", 2 ** 16)


def end_of(caught):
    if not caught:
        return "?"
    c = caught[0]
    if "IndexError" in c:
        return "index"
    if "AssertionError" in c:
        return "assertion"
    if "Separator is" in c:
        return "line-too-long"
    if "binascii.Error" in c or "Error('Odd-length" in c or "Error('Non-hexadecimal" in c or "UnicodeDecodeError" in c:
        return "badline"
    return "raised:" + c.split("communication: ")[-1].split("(")[0]


async def _drive(real, script):
    env = real.env
    S = env["srv"]
    from gallia.services.uds.core.client import UDSClient, UDSRequestConfig
    from gallia.services.uds.core.exception import MalformedResponse, MissingResponse, RequestResponseMismatch
    from gallia.transports.tcp import TCPLinesTransport

    caught = []
    orig_error, orig_time = S.logger.error, S.time
    S.logger.error = lambda msg, *a, **k: caught.append(str(msg)[:200])
    real.fresh()
    clock = ConnClock(env["clock"].t)
    S.time = clock
    obs = []
    try:
        uri = env["TargetURI"]("tcp-lines://127.0.0.1:20162")
        t = S.TCPUDSServerTransport(real.server, uri)
        base = clock.t
        t.last_time_active = base
        handle_client, limit = await listen_args(S, t)
        s_reader, c_reader = asyncio.StreamReader(limit=limit), asyncio.StreamReader()
        s_writer = PipeWriter(c_reader)          # the server writes to the client
        c_writer = PipeWriter(s_reader)          # the client writes to the server
        task = asyncio.ensure_future(handle_client(s_reader, s_writer))
        transport = TCPLinesTransport(uri, c_reader, c_writer)
        client = UDSClient(transport, timeout=CLIENT_TIMEOUT, max_retry=0)
        cfg = UDSRequestConfig(max_retry=0, timeout=CLIENT_TIMEOUT)
        for item in script:
            env["rec"].clear()
            clock.arm(item.get("adv", 1), item.get("dur", 0))
            start = int(round((clock.t - base) * 4))
            wrote0 = len(s_writer.log)
            verdict, resp_pdu = "-", None
            if "line" in item:
                raw = bytes.fromhex(item["line"])
                s_reader.feed_data(raw + b"\n")
                for _ in range(6):
                    await asyncio.sleep(0)
                op = f"cline {hx(raw)}"
                pdu = None
            else:
                pdu = real.pdu_of(item)
                req = real.parse(pdu)
                try:
                    if hasattr(req, "pdu") and req.pdu == pdu:
                        resp = await client.request_unsafe(req, cfg)
                        resp_pdu = resp.pdu
                    else:  # the request parser raised on these bytes: the transport alone, then the acceptance test
                        resp_pdu = await transport.request_unsafe(pdu, CLIENT_TIMEOUT)
                        env["helpers"].parse_pdu(resp_pdu, req)
                    verdict = "accepted"
                except MissingResponse as e:
                    verdict = "closed" if isinstance(e.__cause__, ConnectionError) else "timeout"
                except TimeoutError:
                    verdict = "timeout"
                except RequestResponseMismatch:
                    verdict = "mismatch"
                except MalformedResponse:
                    verdict = "malformed"
                except binascii.Error:
                    verdict = "badline"
                except Exception as e:  # noqa: BLE001
                    verdict = "raised:" + type(e).__name__
                op = f"cxchg {hx(pdu)}"
            events = list(env["rec"])
            orc, problems = F.oracle_of(events)
            written = bytes(s_writer.log[wrote0:])
            rep = None
            if written.endswith(b"\n") and written.count(b"\n") == 1:
                try:
                    rep = bytes.fromhex(written[:-1].decode())
                except Exception:  # noqa: BLE001
                    rep = None
            real.last_reply = rep
            alive = not task.done()
            stop = int(round((clock.t - base) * 4))
            la = int(round((t.last_time_active - base) * 4))
            post = real.get_state()
            o = {"item": item, "op": op, "start": start, "stop": stop, "orc": orc, "orc_problems": problems, "alive": alive,
                 "end": "-" if alive else end_of(caught), "state": post, "la": la, "written": written, "verdict": verdict,
                 "resp_pdu": resp_pdu, "pdu": pdu, "rbuf": bytes(c_reader._buffer), "sbuf": bytes(s_reader._buffer),
                 "reads": clock.reads, "session_ok": post[0] in real.server.services}
            impl = (f"alive={int(alive)} end={o['end']} st={F.fmt_state(post)} la={la} written={hx(written) or '-'}")
            if "line" not in item:
                impl += f" client={verdict} rbuf={hx(o['rbuf']) or '-'} sbuf={hx(o['sbuf']) or '-'}"
            o["impl"] = impl
            obs.append(o)
            if not alive:
                break
        # the peer closes
        was_alive = not task.done()
        c_writer.close()
        for _ in range(6):
            await asyncio.sleep(0)
        done = task.done()
        exc = None
        if done:
            try:
                exc = task.exception()
            except BaseException as e:  # noqa: BLE001
                exc = e
        else:
            task.cancel()
        end = {"was_alive": was_alive, "done": done, "epilogue": "ok" if exc is None else
               ("zerodiv" if isinstance(exc, ZeroDivisionError) else "raised:" + type(exc).__name__),
               "end": "eof" if was_alive else (obs[-1]["end"] if obs else "?")}
        end["limit"] = limit
        end["impl"] = f"alive=0 end={end['end']} epilogue={end['epilogue']}" if done else "loop-still-running-after-eof"
        return obs, end
    finally:
        S.logger.error, S.time = orig_error, orig_time
        env["clock"].t = clock.t


def drive(real, script):
    (obs, end), _vt = vrun(_drive(real, script), horizon=10_000_000)
    return obs, end


def lean_lines(real, obs, limit=65536):
    """the model's side of one connection: `model`, `copen 0 <limit>`, one line per observed event, `ceof`"""
    lines = ["model " + real.spec, f"copen 0 {limit}"]
    for o in obs:
        lines.append(f"{o['op']} {o['start']} {o['stop']} {o['orc']}")
    lines.append("ceof")
    return lines


def model_view(o, mo):
    """cut the model's line down to what is observable on the real side (`served` is a local of handle_client)"""
    parts = [p for p in mo.split(" ") if not p.startswith("served=")]
    return " ".join(parts)
