"""C13 / C14 tie, shared part: the session / security state machine of the virtual ECU over WHOLE histories.

Every sequence over a small alphabet of request kinds (seed L, key L right / wrong, seed L', key L', TesterPresent,
DiagnosticSessionControl same / other session, ECUReset, another positive, another (handler-level) request, an idle gap) up
to a given length is run against the real `RandomUDSServer` behind the real `UDSServerTransport.handle_request` (depth-first
with snapshot / restore of the server state object, `last_time_active`, the clock and the seed source - so every prefix
is executed once) and compared *state by state* (session, level, pending seed, last_time_active) and *reply by reply*
with the concrete Lean model (`VEcu.vecuHandleSE`: rule chain + typed handlers + update_state + inactivity rule with both
clock reads; the `creq` operation of Driver/C13.lean and Driver/C14.lean).

The clock (`server.time`) is scripted per request: the first read returns `start`, every later read `stop` - the model
gets both; idle gaps around the 10 s boundary are enumerated separately.
"""
import random

import c14_fuzz as F
from common import hx

BASE = 1000.0
ALL_ON = "1" * 9
SWITCHES = [
    "default_response_if_service_not_supported",
    "default_response_if_missing_sub_function",
    "default_response_if_sub_function_not_supported",
    "default_response_if_incorrect_format",
    "default_response_if_session_change",
    "default_response_if_session_read",
    "default_response_if_tester_present",
    "default_response_if_none",
    "default_response_if_suppress",
]
ALPHA1 = ["seedL", "keyL+", "keyL-", "tp", "dscSame", "dscOther", "reset", "pos", "handler", "gap"]
ALPHA2 = ["seedL", "keyL+", "keyL-", "seedM", "keyM+", "tp", "dscSame", "dscOther", "reset", "pos", "handler", "gap"]
GAP = 41  # ticks added by the `gap` symbol: with the 1 tick between requests more than 10 s


def ticks(x):
    return int(round((x - BASE) * 4))


class SEClock:
    """`time()` of the server module: armed with (start, stop) the first read returns start, later reads stop"""

    def __init__(self):
        self.t = BASE
        self.vals = None
        self.n = 0

    def arm(self, start, stop):
        self.vals, self.n = (start, stop), 0

    def disarm(self, now):
        self.vals, self.t = None, now

    def __call__(self):
        if self.vals is None:
            return self.t
        v = self.vals[min(self.n, 1)]
        self.n += 1
        return v


class DetSrc:
    """seed source of the unseeded `RNG()` in security_access: a counter (part of the snapshot)"""

    def __init__(self, tag):
        self.tag, self.n = tag, 0

    def getrandbits(self, k):
        self.n += 1
        return random.Random(f"{self.tag}:{self.n}").getrandbits(k)


def make_env(ctx_seed):
    env = F.make_env(ctx_seed)
    clock = SEClock()
    env["srv"].time = clock
    env["clock"] = clock
    return env


def candidate_configs(env):
    S = env["UDSIsoServices"]
    allsvc = [s for s in S if s != S.NegativeResponse]
    handled = [S.DiagnosticSessionControl, S.EcuReset, S.SecurityAccess, S.RoutineControl, S.ReadDataByIdentifier,
               S.WriteDataByIdentifier, S.InputOutputControlByIdentifier, S.ClearDiagnosticInformation, S.ReadDTCInformation,
               S.TesterPresent]
    return [
        (13, {"mandatory_services": handled, "optional_services": [], "p_sub_function": 1.0, "p_session": 1.0,
              "mandatory_sessions": [1, 3], "optional_sessions": [2, 4, 0x60], "p_identifier": 0.0,
              "p_correct_payload_format": 0.0, "p_dtc_status_mask": 0.0}),  # every sub-function, handlers always negative
        (7, {"mandatory_sessions": [1, 2, 3], "optional_sessions": list(range(0x40, 0x46)), "mandatory_services": handled,
             "optional_services": [s for s in allsvc if s not in handled], "p_service": 0.3, "p_sub_function": 0.3,
             "p_session": 0.5, "p_identifier": 1.0, "p_correct_payload_format": 1.0, "p_dtc_status_mask": 1.0}),  # always positive
        (5, {"mandatory_sessions": [1, 0x7E], "optional_sessions": [0, 2, 0x7D], "mandatory_services": allsvc,
             "optional_services": [], "p_sub_function": 0.5, "p_session": 0.9, "p_identifier": 0.9,
             "p_correct_payload_format": 0.9, "p_dtc_status_mask": 0.9}),
        (21, {"mandatory_sessions": [1, 2], "optional_sessions": [3], "mandatory_services": handled, "optional_services": [],
              "p_sub_function": 0.2, "p_session": 1.0, "p_identifier": 0.5, "p_correct_payload_format": 0.5}),
    ]


def params_json(params):
    return {k: ([int(x) for x in v] if isinstance(v, list) else v) for k, v in params.items()}


def params_from_json(env, params):
    S = env["UDSIsoServices"]
    out = dict(params)
    for k in ("mandatory_services", "optional_services"):
        if k in out:
            out[k] = [S(x) for x in out[k]]
    return out


def suitable(real, two_levels):
    d = real.server.services.get(1, {})
    odd = [int(x) for x in (d.get(0x27) or []) if int(x) % 2 == 1]
    need = 2 if two_levels else 1
    return (len(odd) >= need and 0x3E in d and len(d.get(0x10) or []) >= 2 and d.get(0x11) and 0x22 in d and 0x2E in d)


class Machine:
    """one real server explored depth-first"""

    def __init__(self, ctx, env, real, mode, mask=ALL_ON, dur=2):
        self.ctx, self.env, self.real, self.mode, self.mask, self.dur = ctx, env, real, mode, mask, dur
        self.clock = env["clock"]
        odd = [int(x) for x in (real.server.services.get(1, {}).get(0x27) or []) if int(x) % 2 == 1]
        self.L = odd[0] if odd else 1
        self.M = odd[1] if len(odd) > 1 else ((self.L + 2) if self.L + 2 < 0x7E else 1)
        self.lines, self.meta = [], []
        self.found = {}
        self.viol = {}
        self.path = []
        self.reset()

    # -- state -------------------------------------------------------------------------------------------------------
    def reset(self):
        real = self.real
        real.server.behavior = self.env["srv"].UDSServer.Behavior(**{k: c == "1" for k, c in zip(SWITCHES, self.mask)})
        real.server.state.reset()
        self.clock.disarm(BASE)
        real.transport.last_time_active = BASE
        self.env["det"] = DetSrc(f"secsm:{self.env['rng_seed']}:{real.seed}")
        self.now = BASE
        self.pending_gap = 0
        self.path = []

    def snapshot(self):
        return (dict(self.real.server.state.__dict__), self.real.transport.last_time_active, self.now, self.env["det"].n,
                self.pending_gap, len(self.path))

    def restore(self, s):
        d = self.real.server.state.__dict__
        d.clear()
        d.update(s[0])
        self.real.transport.last_time_active = s[1]
        self.now = s[2]
        self.env["det"].n = s[3]
        self.pending_gap = s[4]
        del self.path[s[5]:]

    # -- symbols -----------------------------------------------------------------------------------------------------
    def pdu_of(self, sym, st):
        svcs = self.real.server.services
        pend = st[2]
        seed = pend[1] if pend else b""
        wrong = (bytes([seed[0] ^ 0xFF]) + seed[1:]) if seed else b"\x00"
        cur = svcs.get(st[0], {})
        if sym == "seedL":
            return bytes([0x27, self.L])
        if sym == "keyL+":
            return bytes([0x27, self.L + 1]) + (seed or b"\x01")
        if sym == "keyL-":
            return bytes([0x27, self.L + 1]) + wrong
        if sym == "keyL~":  # the right key with one more byte (same first byte, same prefix)
            return bytes([0x27, self.L + 1]) + seed + b"\x00"
        if sym == "keyL+sup":
            return bytes([0x27, (self.L + 1) | 0x80]) + (seed or b"\x01")
        if sym == "seedM":
            return bytes([0x27, self.M])
        if sym == "keyM+":
            return bytes([0x27, self.M + 1]) + (seed or b"\x01")
        if sym == "tp":
            return b"\x3e\x00"
        if sym == "tpSup":
            return b"\x3e\x80"
        if sym == "dscSame":
            return bytes([0x10, st[0] & 0x7F])
        if sym == "dscOther":
            others = [int(t) for t in (cur.get(0x10) or []) if int(t) != st[0]]
            return bytes([0x10, others[-1] if others else (1 if st[0] != 1 else 0x7F)])
        if sym == "dscSup":
            others = [int(t) for t in (cur.get(0x10) or []) if int(t) != st[0]]
            return bytes([0x10, (others[-1] if others else 1) | 0x80])
        if sym == "reset":
            sf = cur.get(0x11) or [1]
            return bytes([0x11, int(sf[0])])
        if sym == "pos":
            return b"\x22\xf1\x86"
        if sym == "handler":
            return b"\x2e\xf1\x90\x00"
        if sym == "neg":
            return b"\x22\xf1"
        raise ValueError(sym)

    # -- one request -------------------------------------------------------------------------------------------------
    def request(self, sym, pdu, adv, dur):
        real, clock, rec = self.real, self.clock, self.env["rec"]
        start = self.now + adv * 0.25
        stop = start + dur * 0.25
        pre = real.get_state()
        la = real.transport.last_time_active
        clock.arm(start, stop)
        rec.clear()
        exc, reply = None, None
        try:
            reply, _ = F.run_sync(real.transport.handle_request(pdu))
        except AssertionError as e:
            exc = ("assertion", e)
        except IndexError as e:
            exc = ("index", e)
        except BaseException as e:  # noqa: BLE001
            exc = (type(e).__name__, e)
        clock.disarm(stop)
        self.now = stop
        post = real.get_state()
        la2 = real.transport.last_time_active
        orc, problems = F.oracle_of(list(rec))
        self.path.append({"sym": sym, "adv": adv, "dur": dur, "pdu": pdu.hex()})
        st = F.fmt_state(post)
        o = None
        if self.mode == "c13":
            if exc is None:
                impl = f"ok {st} {hx(reply) if reply is not None else 'none'} la={ticks(la2)}"
            else:
                impl = f"crash {exc[0]} {st} la={ticks(la2)}"
            line = f"creq {F.fmt_state(pre)} {ticks(la)} {self.mask} {ticks(start)} {ticks(stop)} {hx(pdu)} {orc}"
        else:
            o = {"pdu": pdu, "pre": pre, "post": post, "reply": reply, "exc": None, "client": "-", "wf": "-",
                 "session_ok": post[0] in real.server.services, "cls": type(real.parse(pdu)).__name__}
            if exc is not None:
                o["exc"] = f"{type(exc[1]).__name__}: {str(exc[1])[:160]}"
                impl = f"crash {exc[0]} {st} client=- wf=- la={ticks(la2)} len=-"
            elif reply is None:
                impl = f"ok {st} none client=- wf=- la={ticks(la2)} len=-"
            else:
                o["client"] = real.client(reply, pdu, None)
                o["wf"] = real.well_formed(reply)
                impl = f"ok {st} {hx(reply)} client={o['client']} wf={o['wf']} la={ticks(la2)} len={len(reply)}"
            line = f"creq {F.fmt_state(pre)} {ticks(la)} {ticks(start)} {ticks(stop)} {hx(pdu)} {orc}"
            for clause, detail in F.clauses_broken(o):
                key = f"c14:{clause}:sm:{sym}:{detail}"
                size = (len(self.path), [x["sym"] for x in self.path])
                if key not in self.viol or size < self.viol[key][0]:
                    self.viol[key] = (size, list(self.path), impl, o["exc"] or detail)
        self.lines.append(line)
        self.meta.append((list(self.path), impl, pre, ticks(start) - ticks(la), problems))
        return pre, post, reply, exc

    def do(self, sym):
        """one symbol of the alphabet from the current state"""
        ctx = self.ctx
        if sym == "gap":
            self.pending_gap += GAP
            self.path.append({"sym": "gap", "adv": GAP})
            return
        st = self.real.get_state()
        pdu = self.pdu_of(sym, st)
        adv = 1 + self.pending_gap
        self.pending_gap = 0
        pre, post, reply, exc = self.request(sym, pdu, adv, self.dur)
        kind = "raised" if exc else "silent" if reply is None else ("nrc" + reply[2:3].hex() if reply[0] == 0x7F else "pos")
        ctx.kind(f"sm:{sym}:{kind}")
        if post[1] is not None and post[1] != pre[1]:
            ctx.kind("sm-event:unlocked")
        if pre[1] is not None and post[1] is None:
            ctx.kind("sm-event:relocked-by:" + (sym if adv <= 40 else "idle"))
        if pre[2] is not None and post[2] is None:
            ctx.kind("sm-event:pending-seed-cleared-by:" + (sym if adv <= 40 else "idle"))
        if pre[2] is not None and post[2] is not None and post[2] != pre[2]:
            ctx.kind("sm-event:pending-seed-replaced")
        ctx.nontrivial((self.real.seed, self.mask, pre, adv > 40, pdu))
        if len(self.lines) >= 40000:  # bounded memory in the deep (thorough) enumerations; every line is self-contained
            self.flush()

    def dfs(self, alphabet, depth):
        snap = self.snapshot()
        for sym in alphabet:
            self.restore(snap)
            self.do(sym)
            if depth > 1:
                self.dfs(alphabet, depth - 1)
        self.restore(snap)

    def script(self, items):
        """a straight history: items = (symbol | pdu bytes, adv, dur)"""
        self.reset()
        for sym, adv, dur in items:
            if isinstance(sym, bytes):
                self.request("pdu", sym, adv, dur)
            else:
                self.request(sym, self.pdu_of(sym, self.real.get_state()), adv, dur)

    # -- model side --------------------------------------------------------------------------------------------------
    def case_of(self, path):
        r = self.real
        return {"kind": "history", "seed": r.seed, "params": params_json(r.params), "model": r.spec[:2000], "mask": self.mask,
                "history": path}

    def flush(self):
        ctx = self.ctx
        if not self.lines:
            return
        out = ctx.lean(["model " + self.real.spec] + self.lines)[1:]
        for (path, impl, pre, dt, problems), mo in zip(self.meta, out):
            ctx.ev()
            model = mo.rsplit(" ready=", 1)[0] if self.mode == "c14" else mo
            size = (len(path), [x["sym"] for x in path])
            last = path[-1]
            if problems:
                key = f"{self.mode}:sm:unmodelled-draws:{last['sym']}"
                if key not in self.found or size < self.found[key][0]:
                    self.found[key] = (size, path, impl, "; ".join(problems), False)
            if self.mode == "c14" and " ready=1" not in mo and impl.startswith("ok"):
                key = f"c14:sm:state-outside-ready:{last['sym']}"
                if key not in self.found or size < self.found[key][0]:
                    self.found[key] = (size, path, impl, mo, False)
            if model != impl:
                iw, mw = impl.split(), model.split()
                same = iw[0] == mw[0] and (iw[1:4] == mw[1:4] if iw[0] == "ok" else iw[2:5] == mw[2:5])
                pclass = f"lvl={int(pre[1] is not None)},seed={int(pre[2] is not None)},idle={int(dt > 40)}"
                key = (f"{self.mode}:sm:mask={self.mask}:{last['sym']}:pre[{pclass}]:impl={F_out_kind(impl)}:expected={F_out_kind(model)}"
                       f":state={'same' if same else 'differs'}:la={'same' if iw[-1 if self.mode == 'c13' else -2] == mw[-1 if self.mode == 'c13' else -2] else 'differs'}")
                if key not in self.found or size < self.found[key][0]:
                    self.found[key] = (size, path, impl, model, True)
        self.lines, self.meta = [], []

    def report(self):
        ctx = self.ctx
        for key in sorted(self.viol, key=lambda k: self.viol[k][0])[:6]:
            _, path, impl, detail = self.viol[key]
            shown = [x["sym"] + (":" + x["pdu"] if "pdu" in x else "") for x in path]
            ctx.disagree(key, f"virtual ECU (seed {self.real.seed}) after the history {shown}: {detail}"[:900], self.case_of(path),
                         impl=impl[:600], model="no exception, session offered, reply accepted by the client", spec_violated=True,
                         site="RandomUDSServer / helpers.parse_pdu")
        for key in sorted(self.found, key=lambda k: self.found[k][0])[:8]:
            _, path, impl, model, differs = self.found[key]
            shown = [x["sym"] + (":" + x["pdu"] if "pdu" in x else "") + (f"(+{x['adv'] * 0.25:g}s)" if x.get("adv", 1) != 1 else "")
                     for x in path]
            what = (f"virtual ECU (seed {self.real.seed}, switches {self.mask}) differs from the concrete model after the history "
                    f"{shown}: impl `{impl[:200]}` expected `{str(model)[:200]}`")
            ctx.disagree(key, what[:900], self.case_of(path), impl=impl[:600], model=str(model)[:600],
                         spec_violated=(self.mode == "c13" and differs),
                         site="UDSServerTransport.handle_request / RandomUDSServer.respond / update_state")
        self.viol, self.found = {}, {}


def F_out_kind(s):
    w = s.split()
    if w[0] == "crash":
        return "raised-" + w[1]
    rep = w[4]
    if rep == "none":
        return "silent"
    if rep.startswith("7f") and len(rep) == 6:
        return "nrc" + rep[4:6]
    return "pos"


def build_reals(ctx, env, two_levels):
    reals = []
    for seed, params in candidate_configs(env):
        try:
            r = F.Real(env, seed, params)
        except Exception:  # noqa: BLE001 - randomize() failing is reported by the main part of the check
            continue
        if suitable(r, two_levels):
            reals.append(r)
    return reals


def boundary_scripts(m):
    """idle gaps around the 10 s boundary x handling durations: whether the pending seed / unlocked level / session survive
    depends on `start - last_time_active > 10` with last_time_active = the END of the previous request"""
    out = []
    for dur in (0, 1, 3, 4):
        for gap in range(36, 46):
            out.append([("dscOther", 1, dur), ("seedL", 1, dur), ("keyL+", gap, dur), ("pos", 1, dur)])
            out.append([("seedL", 1, dur), ("keyL+", 1, dur), ("tp", gap, dur), ("pos", gap, 0)])
    return out


def explore(ctx, mode):
    """the part of the tie shared by C13 and C14; `mode` selects driver line format and judgement"""
    env = make_env(ctx.seed)
    quick = ctx.quick and not getattr(ctx, "widened", False)
    reals1 = build_reals(ctx, env, False)
    reals2 = build_reals(ctx, env, True)
    ctx.ev()
    if not reals1 or not reals2:
        ctx.disagree(f"{mode}:sm:no-suitable-model", "none of the candidate configurations yields a model that offers SecurityAccess "
                     "(two levels), TesterPresent, session control, ECUReset and the identifier services in the default session",
                     {"candidates": [s for s, _ in candidate_configs(env)]}, spec_violated=False, site="harness/secsm.py")
        return
    d1 = 5 if quick else 6
    d2 = (4 if quick else 5) if mode == "c13" else (3 if quick else 5)
    machines = []
    # one level, full depth, all switches on
    m = Machine(ctx, env, reals1[0], mode)
    m.dfs(ALPHA1, d1)
    m.flush()
    machines.append(m)
    # two levels
    m = Machine(ctx, env, reals2[-1], mode)
    m.dfs(ALPHA2, d2)
    m.flush()
    machines.append(m)
    ctx.exhaustive_parts.append(f"security / session state machine: all sequences over {len(ALPHA1)} request kinds {ALPHA1} up to length "
                                f"{d1} (one level) and over {len(ALPHA2)} kinds {ALPHA2} up to length {d2} (two levels) against the "
                                "real server, every prefix compared state by state (session, level, pending seed, last_time_active) "
                                "and reply by reply with the concrete model")
    # suppressed variants and the other models, shallower
    for r in (reals1[1:] + [reals1[0]]) if not quick else reals1[1:2]:
        m = Machine(ctx, env, r, mode)
        m.dfs(["seedL", "keyL+", "keyL+sup", "keyL-", "keyL~", "tp", "tpSup", "dscSup", "reset", "neg", "gap"], 3 if quick else 4)
        m.flush()
        machines.append(m)
    # idle boundary
    for r in reals1[:2]:
        m = Machine(ctx, env, r, mode)
        for sc in boundary_scripts(m):
            m.script(sc)
            ctx.traces_validated += 1
        m.flush()
        machines.append(m)
    ctx.exhaustive_parts.append("idle gaps of 36..45 ticks (9.0 .. 11.25 s) between the END of one request and the START of the next x "
                                "handling durations 0 / 0.25 / 0.75 / 1 s, with a pending seed, an unlocked level and a non-default session")
    # switch subsets (C13 only): the state machine under every single switch off and a few pairs
    if mode == "c13":
        masks = ["".join("0" if k == i else "1" for k in range(9)) for i in range(9)]
        masks += ["0" * 9, "110111111", "111101011", "000011111"]
        if not quick:
            masks += ["".join("0" if k in (i, j) else "1" for k in range(9)) for i in range(9) for j in range(i + 1, 9)]
        for mi, mask in enumerate(masks):
            m = Machine(ctx, env, reals2[mi % len(reals2)], mode, mask=mask)
            m.dfs(ALPHA2, 2 if quick else 3)
            m.flush()
            machines.append(m)
        ctx.exhaustive_parts.append(f"the same alphabet up to length {2 if quick else 3} under {len(masks)} switch subsets")
    for m in machines:
        m.report()
    env["clock"].disarm(BASE)


def replay(ctx, c, mode):
    env = make_env(0)
    real = F.Real(env, c["seed"], params_from_json(env, c.get("params", {})))
    m = Machine(ctx, env, real, mode, mask=c.get("mask", ALL_ON))
    m.reset()
    for it in c["history"]:
        if it["sym"] == "gap":  # the gap is part of the next request's `adv`
            continue
        m.request(it["sym"], bytes.fromhex(it["pdu"]), it.get("adv", 1), it.get("dur", 2))
    lines, meta = list(m.lines), list(m.meta)
    out = ctx.lean(["model " + real.spec] + lines)[1:]
    bad = False
    for (path, impl, pre, dt, _p), mo, line in zip(meta, out, lines):
        model = mo.rsplit(" ready=", 1)[0] if mode == "c14" else mo
        print(f"request {path[-1]['pdu']} [{path[-1]['sym']}] state {pre} ticks since last_time_active {dt}")
        print("   implementation:", impl[:300])
        print("   model         :", mo[:300])
        print("   " + ("agree" if model == impl else "DIFFERS"))
        bad = bad or model != impl
    print("DISAGREE" if bad else "agree")
    return bad
