"""Shared plumbing for the per-property checks (see DESIGN.md section 3).

A per-property module `harness/props/CXX.py` defines

    ID          = "CXX"
    GENS        = ["uds", ...]          # translators in /verif/gen to run (gen/<name>.py -> lean/Gallia/Gen/*.lean)
    PROOF       = "Gallia.Proofs.CXX"   # Lean module holding the property theorems (audited with #print axioms)
    DRIVER      = "c19"                 # lean_exe target of the executable model (Driver/CXX.lean), or None
    ORACLE      = True/False            # True: the model is the external oracle the property names, so a
                                        # disagreement model<->code on an input is itself a failing input
    def run(ctx): ...                   # correspondence: drive model and implementation, record via ctx
    def replay(ctx, case): ...          # optional: re-run one recorded case, print both sides

and talks to this module only through `Ctx`.
"""
from __future__ import annotations

import hashlib
import json
import os
import random
import subprocess
import sys
import time
from collections import Counter
from pathlib import Path

VERIF = Path(__file__).resolve().parent.parent
LEAN = VERIF / "lean"
REPO = Path(os.environ.get("GALLIA_REPO", "/repo"))
PY = "/venv/bin/python"

STD_AXIOMS = {"propext", "Classical.choice", "Quot.sound"}


def canon(obj) -> str:
    return json.dumps(obj, sort_keys=True, separators=(",", ":"), default=str)


class Disagreement:
    """One point where model and implementation (or implementation and specification) differ.

    key            canonical identity of the *minimised* case (what known_findings.jsonl is matched on)
    what           one-line human description
    case           the input / operation sequence / history, replayable
    impl, model    what each side produced (canonicalised)
    spec_violated  True  : the property's own statement fails on the implementation's behaviour for this case
                   False : model and code differ but the property still holds on this case (tie broken)
                   None  : undecided
    site           call site / function implicated
    """

    def __init__(self, key, what, case, impl=None, model=None, spec_violated=True, site=""):
        self.key = key
        self.what = what
        self.case = case
        self.impl = impl
        self.model = model
        self.spec_violated = spec_violated
        self.site = site

    def to_json(self):
        return {
            "key": self.key,
            "what": self.what,
            "case": self.case,
            "impl": self.impl,
            "model": self.model,
            "spec_violated": self.spec_violated,
            "site": self.site,
        }


class DriverError(RuntimeError):
    pass


class Ctx:
    def __init__(self, prop_id: str, tier: str, seed: int, driver_path: Path | None):
        self.prop_id = prop_id
        self.tier = tier
        self.seed = seed
        self.rng = random.Random(f"{prop_id}:{seed}")
        self.driver_path = driver_path
        self.quick = tier == "quick"
        self.evaluations = 0
        self.distinct = set()
        self.dist = Counter()
        self.samples = []
        self.disagreements: list[Disagreement] = []
        self.assumptions: list[str] = []
        self.notes: dict = {}
        self.traces_validated = 0
        self.exhaustive_parts: list[str] = []
        self.t0 = time.time()
        self.rule = ""
        self._seen_keys = set()
        self.widened = False  # True while running as failing-input search

    # -- budget ------------------------------------------------------------------------------
    def elapsed(self):
        return time.time() - self.t0

    def pick(self, quick, thorough):
        """tier-dependent parameter"""
        return quick if self.quick and not self.widened else thorough

    # -- bookkeeping -------------------------------------------------------------------------
    def ev(self, n=1):
        self.evaluations += n

    def kind(self, *labels):
        for l in labels:
            self.dist[l] += 1

    def nontrivial(self, key):
        """count a case as distinct & non-trivial; key must identify the case"""
        if not isinstance(key, (str, bytes, int, tuple)):
            key = canon(key)
        self.distinct.add(hash(key))

    def sample(self, obj, cap=12):
        if len(self.samples) < cap:
            self.samples.append(obj)

    def assume(self, text):
        if text not in self.assumptions:
            self.assumptions.append(text)

    def disagree(self, key, what, case, impl=None, model=None, spec_violated=True, site=""):
        if key in self._seen_keys:
            return
        self._seen_keys.add(key)
        self.disagreements.append(Disagreement(key, what, case, impl, model, spec_violated, site))

    # -- the Lean side -----------------------------------------------------------------------
    def lean(self, lines: list[str], driver: Path | None = None) -> list[str]:
        """pipe `lines` through the model driver; one output line per input line"""
        drv = driver or self.driver_path
        if drv is None:
            raise DriverError("no model driver available")
        if not lines:
            return []
        for l in lines:
            if "\n" in l:
                raise ValueError("newline inside protocol line")
        data = ("\n".join(lines) + "\n").encode()
        if str(drv).endswith(".lean"):
            cmd = ["lake", "env", "lean", "--run", str(drv)]
        else:
            cmd = [str(drv)]
        p = subprocess.run(cmd, input=data, stdout=subprocess.PIPE, stderr=subprocess.PIPE, cwd=LEAN)
        if p.returncode != 0:
            raise DriverError(f"driver exited with {p.returncode}: {p.stderr.decode(errors='replace')[-2000:]}")
        out = p.stdout.decode().split("\n")
        if out and out[-1] == "":
            out.pop()
        if len(out) != len(lines):
            raise DriverError(f"driver returned {len(out)} lines for {len(lines)} requests")
        return out


def hx(b: bytes) -> str:
    return b.hex() if b else "-"


def unhx(s: str) -> bytes:
    return b"" if s == "-" else bytes.fromhex(s)


def short_hash(obj) -> str:
    return hashlib.sha256(canon(obj).encode()).hexdigest()[:12]


def run_cmd(cmd, cwd=None, timeout=None, env=None):
    p = subprocess.run(cmd, cwd=cwd, stdout=subprocess.PIPE, stderr=subprocess.STDOUT, timeout=timeout, env=env)
    return p.returncode, p.stdout.decode(errors="replace")


def setup_repo_import():
    """make sure `import gallia` resolves to REPO's working tree"""
    src = str(REPO / "src")
    if src not in sys.path:
        sys.path.insert(0, src)
    import gallia  # noqa

    assert str(Path(gallia.__file__).resolve()).startswith(str(REPO.resolve())), gallia.__file__
    # silence gallia's logging in-process
    import logging

    logging.disable(logging.CRITICAL)
