#!/bin/sh
# seed_ingest.sh <ID> [names...]: confirm the changes a seeding agent left under ${SEEDROOT:-/tmp/seed2}/<ID>/out/<name>/, store the confirmed ones
# under seeded/<ID>-<name>/, run them against the property's check, and remove the agent's scratch worktree
ID="$1"; shift; NAMES="${*:-c d}"
for x in $NAMES; do [ -f ${SEEDROOT:-/tmp/seed2}/$ID/out/$x/patch.diff ] && /verif/harness/confirm_seed.sh ${SEEDROOT:-/tmp/seed2}/$ID/out/$x $ID $x; done
for x in $NAMES; do [ -d /verif/seeded/$ID-$x ] && /verif/harness/run_seed.sh $ID-$x $ID; done
[ -d ${SEEDROOT:-/tmp/seed2}/$ID/repo ] && git -C /repo worktree remove --force ${SEEDROOT:-/tmp/seed2}/$ID/repo
exit 0
