"""C18 value generators: for a field kind and a provider (cli / env / file) produce

    (lean_raw_token, concrete)

where `concrete` is the argv token list (cli, without the option string), the environment string (env) or the python
value written to gallia.toml (file). `None` when the provider cannot express a value of that kind.
Valid and invalid pools are separate; validity on the model side is decided by the Lean model, not here - except for
the `opaque` kinds, whose own constructor is asked (`oracle_ok`).
"""
from __future__ import annotations

from c18_lib import Kind, thex

TRUE_S = ["1", "on", "t", "true", "y", "yes"]
FALSE_S = ["0", "off", "f", "false", "n", "no"]

URIS = [
    "tcp-lines://127.0.0.1:20162",
    "isotp://can0?src_addr=0x6f4&dst_addr=0x654&is_fd=false",
    "doip://192.0.2.7:13400?src_addr=0xe80&target_addr=0x1d",
    "hsfz://10.0.0.1:6801?src_addr=0xf4&dst_addr=0x10",
    "unix-lines:///var/run/ecu.sock",
    "tcp://[::1]:4444",
]
PSURIS = ["http://127.0.0.1:8000?product_id=abc&channel=1", "http://psu.example:8080?channel=2&id=3", "tcp://10.0.0.9:5025"]
FLOATS = ["2.5", "0.125", "10.0", "3.75", "0.5", "1e-05", "120.0"]
PATHS = ["/var/lib/gallia/run.db", "rel/dir/x.json", "a b/c", "/x", "logs/2026"]
STRS = ["echo hi", "abc", "x=1;y=2", "ünï", "a'b\"c", "sh ./hook.sh --flag"]


def _case(rng, s):
    return "".join(c.upper() if rng.random() < 0.5 else c.lower() for c in s)


def lax_int_text(rng, n: int) -> str:
    """a spelling pydantic's lax mode reads as the plain integer `n`: sign, leading zeros, single underscores,
    a fraction of zeros, surrounding white space"""
    s = str(abs(n))
    r = rng.random()
    if r < 0.15 and len(s) > 1:
        i = rng.randrange(1, len(s))
        s = s[:i] + "_" + s[i:]
    elif r < 0.3:
        s = "0" * rng.choice([1, 2]) + s
    elif r < 0.4:
        s = s + "." + "0" * rng.choice([1, 2])
    if n < 0:
        s = "-" + s
    elif rng.random() < 0.15:
        s = "+" + s
    if rng.random() < 0.1:
        s = rng.choice([" ", "\t"]) + s + rng.choice(["", " "])
    return s


def hex_int_text(rng, n: int) -> str:
    """a spelling `int(x, 16)` reads as `n`: optional 0x / 0X, any case, single underscores, sign"""
    s = _case(rng, format(abs(n), "x"))
    if len(s) > 1 and rng.random() < 0.2:
        i = rng.randrange(1, len(s))
        s = s[:i] + "_" + s[i:]
    r = rng.random()
    if r < 0.4:
        s = rng.choice(["0x", "0X"]) + (("_" if rng.random() < 0.2 else "") + s)
    if n < 0:
        s = "-" + s
    elif rng.random() < 0.1:
        s = "+" + s
    if rng.random() < 0.1:
        s = " " + s + " "
    return s


def int_text(rng, n: int, auto: bool) -> str:
    if not auto:
        return lax_int_text(rng, n)
    neg = n < 0
    m = abs(n)
    base = rng.choice(["d", "x", "o", "b"])
    if base == "d":
        s = str(m)
    elif base == "x":
        s = rng.choice(["0x", "0X"]) + _case(rng, format(m, "x"))
    elif base == "o":
        s = rng.choice(["0o", "0O"]) + format(m, "o")
    else:
        s = rng.choice(["0b", "0B"]) + format(m, "b")
    if len(s) > 3 and rng.random() < 0.2:
        i = rng.randrange(2 if base != "d" else 1, len(s))
        if s[i - 1] != "_" and s[i] != "_":
            s = s[:i] + "_" + s[i:]
    return ("-" if neg else "") + s


def _s(text: str) -> str:
    return "s:" + thex(text)


def small_int(rng, hi=255):
    return rng.choice([0, 1, 2, 3, 7, 16, 17, 42, 100, 127, 128, 200, 254, 255, rng.randrange(hi + 1)])


def oracle_ok(kind: Kind, text: str, model=None, name: str = "") -> bool:
    """validity of an opaque value: ask the type's own constructor / validator (not the parser glue)"""
    if kind.sub == "float":
        try:
            float(text)
            return True
        except ValueError:
            return False
    if kind.sub in ("uri", "psuri"):
        try:
            kind.pytype(text)
            return True
        except ValueError:
            return False
    if kind.sub == "validated-str":
        from gallia.plugins.plugin import load_ecus

        return text in [e.OEM for e in load_ecus()]
    raise AssertionError(kind.sub)


def valid(kind: Kind, src: str, rng, hi=255, uri_pool=None):
    k = kind.name
    if k == "bool":
        b = rng.random() < 0.5
        if src == "cli":
            return ("b:1" if b else "b:0", b)
        if src == "env":
            t = _case(rng, rng.choice(TRUE_S if b else FALSE_S))
            return (_s(t), t)
        mode = rng.choice(["bool", "bool", "bool", "str", "int"])
        if mode == "bool":
            return ("b:1" if b else "b:0", b)
        if mode == "int":
            return (f"i:{int(b)}", int(b))
        t = rng.choice(TRUE_S if b else FALSE_S)
        return (_s(t), t)
    if k in ("int", "autoInt", "hexInt"):
        n = small_int(rng, hi)
        if rng.random() < 0.15:
            n = -n          # on the command line a value with a leading `-` travels as `--option=value`
        if src == "file":
            r = rng.random()
            if r < 0.55:
                return (f"i:{n}", n)
            if r < 0.62:
                b = rng.random() < 0.5
                return ("b:1" if b else "b:0", b)      # TOML `true` / `false`: bool is an int
        t = hex_int_text(rng, n) if k == "hexInt" else int_text(rng, n, k == "autoInt")
        if k == "autoInt" and src == "env" and rng.random() < 0.2:
            t = " " + t + "\t"
        return (_s(t), [t] if src == "cli" else t)
    if k == "text":
        t = rng.choice(PATHS if kind.sub == "path" else STRS)
        return (_s(t), [t] if src == "cli" else t)
    if k == "opaque":
        if kind.sub == "float":
            t = rng.choice(FLOATS)
            if src == "file":
                return (f"o:{thex(repr(float(t)))}:1", float(t))
            t = repr(float(t))
            return (f"o:{thex(t)}:1", [t] if src == "cli" else t)
        if kind.sub == "uri":
            t = rng.choice(uri_pool or URIS)
        elif kind.sub == "psuri":
            t = rng.choice(PSURIS)
        else:
            t = "default"
        return (f"o:{thex(t)}:1", [t] if src == "cli" else t)
    if k == "hexBytes":
        b = bytes(rng.randrange(256) for _ in range(rng.choice([0, 1, 2, 2, 3, 8])))
        t = _case(rng, b.hex())
        if src == "cli" and t == "":
            t = "00"
        return (_s(t), [t] if src == "cli" else t)
    if k == "ranges":
        def piece():
            a = small_int(rng, hi)
            if rng.random() < 0.4:
                b = min(hi, a + rng.randrange(0, 6))
                return int_text(rng, a, True).replace("_", "") + "-" + int_text(rng, b, True).replace("_", "")
            return int_text(rng, a, True)

        toks = [",".join(piece() for _ in range(rng.choice([1, 1, 2]))) for _ in range(rng.choice([1, 2, 3]))]
        if src == "cli":
            if rng.random() < 0.1:
                toks = []
            return ("L:" + ",".join(_s(t) for t in toks), toks)
        if src == "env":
            t = " ".join(toks)
            return (_s(t), t)
        mode = rng.choice(["str", "liststr", "listint"])
        if mode == "str":
            t = ",".join(toks)
            return (_s(t), t)
        if mode == "liststr":
            return ("L:" + ",".join(_s(t) for t in toks), toks)
        ints = [small_int(rng, hi) for _ in range(rng.randrange(0, 4))]
        return ("L:" + ",".join(f"i:{i}" for i in ints), ints)
    if k == "ranges2d":
        def piece():
            a = str(small_int(rng, hi))
            if rng.random() < 0.3:
                a += "-" + str(min(hi, int(a) + rng.randrange(0, 3)))
            if rng.random() < 0.7:
                inner = ",".join(rng.choice([str(small_int(rng, hi)), f"{(x := small_int(rng, hi - 3))}-{x + 2}"]) for _ in range(rng.choice([1, 2])))
                return a + ":" + inner
            return a

        toks = [piece() for _ in range(rng.choice([1, 2, 3]))]
        if src == "cli":
            return ("L:" + ",".join(_s(t) for t in toks), toks)
        if src == "env" or rng.random() < 0.5:
            t = " ".join(toks)
            return (_s(t), t)
        return ("L:" + ",".join(_s(t) for t in toks), toks)
    if k == "enum":
        name, val = rng.choice(kind.members)
        mode = rng.choice(["name", "dec", "hex"])
        if src == "file" and rng.random() < 0.4:
            return (f"i:{val}", val)
        t = name if mode == "name" else str(val) if mode == "dec" else hex(val)
        return (_s(t), [t] if src == "cli" else t)
    if k == "choice":
        t = rng.choice(kind.choices)
        return (_s(t), [t] if src == "cli" else t)
    if k == "autoInts":
        if src == "env":
            return None      # a string never is a list
        n = rng.choice([0, 1, 1, 2, 3, 5])
        if src == "file" and rng.random() < 0.5:
            ints = [small_int(rng, 126) for _ in range(n)]
            return ("L:" + ",".join(f"i:{i}" for i in ints), ints)
        toks = [int_text(rng, small_int(rng, 126) * (-1 if src == "file" and rng.random() < 0.1 else 1), True) for _ in range(n)]
        return ("L:" + ",".join(_s(t) for t in toks), toks)
    if k == "tuples":
        if src != "cli":
            return None      # env: a string never is a list; no shipped option of this kind has a file key
        n = rng.choice([0, 1, 1, 2, 3])
        toks = []
        for _ in range(n):
            parts = [int_text(rng, small_int(rng, 0xFFFF), True) for _ in range(kind.arity)]
            if rng.random() < 0.15:
                parts = [" " + p + " " for p in parts]       # int(x, 0) strips
            toks.append(":".join(parts))
        return ("L:" + ",".join(_s(t) for t in toks), toks)
    if k == "enums":
        if src != "cli":
            return None
        n = rng.choice([0, 1, 2, 3, 6])
        toks = []
        for _ in range(n):
            name, val = rng.choice(kind.members)
            toks.append(rng.choice([name, str(val), hex(val), "0X" + format(val, "X"), "0b" + format(val, "b")]))
        return ("L:" + ",".join(_s(t) for t in toks), toks)
    return None


INVALID_TEXT = {
    "int": ["zz", "0x10", "1.5", "12a", "1__0", "_1", "1_", "1.", ".0", "+-1", "--1", "1e2", "", "1 0", "-_1", "0-01"],
    "hexInt": ["zz", "0o7", "_10", "1__0", "1_", "0x", "", "- 5", "+-1", "0x-1", "1.0", "g"],
    "tuples": ["1:2:3:4:5", "1", "1:x:3:4", "zz", "", "1;2", "1:2:0xzz:4"],
    "enums": ["NoSuchService", "999", "0x1ff", "1.0", ""],
    "autoInt": ["0xzz", "09", "1__0", "12a", "0x", "_1", "1_", "0b12", "- 5"],
    "hexBytes": ["abc", "zz", "3e 00", "0x3e"],
    "ranges": ["1-x", "1-2-3", "a", "1,,2"],
    "ranges2d": ["1:2:3", "x", "1:y"],
    "enum": ["NoSuchService", "999", "0x1ff", "1.0"],
    "choice": ["bogus", "Reset-To-Default"],
    "float": ["abc", "1,5", "0x10"],
    "uri": ["tcp://[::1", "http://[fe80::1%eth0"],
    "psuri": ["tcp://[::1"],
    "validated-str": ["no-such-oem", "Default"],
    "bool": ["maybe", "2", "tru"],
}


WRONG_TYPE = {
    "5": "i:5", "True": "b:1", "['tcp://a:1']": "L:" + _s("tcp://a:1"), "[]": "L:", "['1.0']": "L:" + _s("1.0"), "['1']": "L:" + _s("1"),
    "['alpha']": "L:" + _s("alpha"),
}


def invalid(kind: Kind, src: str, rng):
    """-> (lean_raw, concrete) of a value the field's validators refuse, or None if `src` cannot express one"""
    k = kind.name
    if k == "bool":
        if src == "cli":
            return None
        if src == "file" and rng.random() < 0.3:
            return ("i:2", 2)
        t = rng.choice(INVALID_TEXT["bool"])
        return (_s(t), t)
    if k == "text":
        if src != "file":
            return None
        v = rng.choice([5, 5, True, ["a"]])
        return ({"5": "i:5", "True": "b:1", "['a']": "L:" + _s("a")}[repr(v)], v)
    if k == "opaque":
        if src == "file" and kind.sub != "float" and rng.random() < 0.4:
            v = rng.choice([5, True, ["tcp://a:1"], []])       # a TOML value that is not a string
            return (WRONG_TYPE[repr(v)], v)
        if src == "file" and kind.sub == "float" and rng.random() < 0.3:
            v = rng.choice([["1.0"], []])
            return (WRONG_TYPE[repr(v)], v)
        t = rng.choice(INVALID_TEXT[kind.sub])
        return (f"o:{thex(t)}:0", [t] if src == "cli" else t)
    if k in ("int", "choice") and src == "file" and rng.random() < 0.3:
        v = rng.choice([["1"], []]) if k == "int" else rng.choice([5, True, ["alpha"]])
        return (WRONG_TYPE[repr(v)], v)
    if k in ("ranges", "ranges2d"):
        t = rng.choice(INVALID_TEXT[k])
        if src == "cli":
            toks = ["1", t] if rng.random() < 0.5 else [t]
            return ("L:" + ",".join(_s(x) for x in toks), toks)
        return (_s(t), t)
    if k == "autoInts":
        if src == "env":
            t = rng.choice(["1", "1 2", "[1]"])        # a string for a list field: refused as a whole
            return (_s(t), t)
        if src == "file":
            return None
        toks = rng.choice([["1", "0xzz"], ["0xzz"], ["1", "2", "09"], ["", "1"]])
        return ("L:" + ",".join(_s(x) for x in toks), toks)
    if k in ("tuples", "enums"):
        if src == "file":
            return None
        if src == "env":
            t = rng.choice(["1:2:3", "0x10", "DiagnosticSessionControl", ""])
            return (_s(t), t)
        bad = rng.choice(INVALID_TEXT[k])
        if k == "tuples":
            bad = {2: {"1:x:3:4": "1:x", "1:2:0xzz:4": "0xzz:4"}, 3: {"1:x:3:4": "1:x:3", "1:2:0xzz:4": "1:2:0xzz"}}.get(kind.arity, {}).get(bad, bad)
            good = ":".join(["1"] * kind.arity)
        else:
            good = kind.members[0][0]
        toks = rng.choice([[bad], [good, bad], [good, bad, good], [bad, bad]])
        return ("L:" + ",".join(_s(x) for x in toks), toks)
    if k == "dict":
        if src == "file":
            return None
        if src == "env":
            t = rng.choice(["a=1", '{"a": 1}', ""])
            return (_s(t), t)
        toks = rng.choice([[], ["a=1"], ['{"a": 1}'], ["a", "1"]])     # nargs=* always hands over a list
        return ("L:" + ",".join(_s(x) for x in toks), toks)
    if k in INVALID_TEXT:
        t = rng.choice(INVALID_TEXT[k])
        return (_s(t), [t] if src == "cli" else t)
    return None
