"""C14 tie, rare-draw search: the handlers of the virtual ECU draw their answers from an RNG seeded by
(model seed, session, request parameters). Some draws are rare per request (the same 24-bit DTC twice in one list: about
1e-4; an empty list; 0 / 255 from a randint; an empty or very long random_payload) and a history of a few hundred requests
on a dozen models hardly ever meets them. This part enumerates cheaply - stage 1 calls the real
`RandomUDSServer.respond_after_default` (the dispatch to every drawing handler) directly with the request object the real
parser returns, for hundreds of models x their reachable sessions x whole parameter ranges (all 256 status masks, every
listed reset type, sampled identifiers), with the recording RNG of c14_fuzz - and classifies the recorded draws by the
corner conditions the model's oracle can express. Stage 2 runs every call that raised and a few calls per corner kind as
a real history (session control path + the request) through `handle_request`, the real client and the Lean model like
any other history. Recomputed from the live code on every run; sizes are counts (not wall time), so the part is
deterministic given the seed.
"""
import c14_fuzz as F

DTC_RANGE = (0, 256 ** 3 - 1)


def corners(events):
    """labels of the corner conditions met by the recorded draws of one handler call"""
    out = []
    by_range = {}
    seen_exp = False
    for e in events:
        k = e[0]
        if k == "int":
            l = by_range.get((e[1], e[2]))
            if l is None:
                l = by_range[(e[1], e[2])] = []
            l.append(e[3])
        elif k == "exp":
            if not seen_exp:  # the byte drawn before a count (the DTCStatusAvailabilityMask)
                seen_exp = True
                for (a, b), vals in by_range.items():
                    if a in vals:
                        out.append("byte-before-count:min")
                    if b in vals:
                        out.append("byte-before-count:max")
            n = int(e[2] + 0.5)
            out.append(f"count(expovariate {1 / e[1]:g}):" + ("0" if n == 0 else "1" if n == 1 else "n"))
        elif k == "payload":
            data = e[5]
            drawn = int(e[3][0][1] + 0.5) if e[3] else -1
            out.append("payload:" + ("empty" if len(data) == 0 else "drawn-0-raised-to-min_len" if drawn == 0 else
                                     "1-byte" if len(data) == 1 else "n-bytes"))
            if data and set(data) <= {0}:
                out.append("payload:all-00")
            if data and set(data) <= {0xFF}:
                out.append("payload:all-ff")
            if 0 in data and 0xFF in data:
                out.append("payload:has-00-and-ff")
    for (a, b), vals in by_range.items():
        name = "dtc" if (a, b) == DTC_RANGE else f"randint({a},{b})"
        if b - a >= 65535 and len(set(vals)) != len(vals):
            out.append(f"{name}:same-value-twice-in-one-call")
        if a in vals:
            out.append(f"{name}:min")
        if b in vals:
            out.append(f"{name}:max")
    return out


def magnitude(events):
    """(metric name, value) for the `maximal` corners: the largest counts / payloads of the whole enumeration are run too"""
    out = []
    for e in events:
        if e[0] == "exp":
            out.append((f"largest-count(expovariate {1 / e[1]:g})", int(e[2] + 0.5)))
        elif e[0] == "payload":
            out.append(("longest-payload", len(e[5])))
    return out


COMMON = {"count(expovariate 50):n", "payload:n-bytes", "payload:1-byte"}


def offered(real, sess, pdu):
    d = real.server.services.get(sess, {})
    sid = pdu[0]
    if sid not in d:
        return False
    sfs = d[sid]
    if sfs is None:
        return True
    return len(pdu) >= 2 and (pdu[1] & 0x7F) in [int(x) for x in sfs]


def direct(real, sess, req):
    """the handler dispatch of the real server on `req` in session `sess` -> (recorded draws, exception name | None)"""
    st = real.server.state
    st.session, st.security_access_level, st.last_sa_response = sess, None, None
    rec = real.env["rec"]
    rec.clear()
    exc = None
    try:
        resp = F.run_sync(real.server.respond_after_default(req))
        if resp is not None:
            resp.pdu  # noqa: B018 - the bytes handle_request would send
    except BaseException as e:  # noqa: BLE001
        exc = type(e).__name__
    ev = list(rec)
    rec.clear()
    return ev, exc


def pool_configs(ctx, env, rng):
    """many models: default randomness parameters (small seeds, as a user would pass them) and rich ones where every
    handled service is offered in every session"""
    S = env["UDSIsoServices"]
    handled = [S.DiagnosticSessionControl, S.EcuReset, S.SecurityAccess, S.RoutineControl, S.ReadDataByIdentifier,
               S.WriteDataByIdentifier, S.InputOutputControlByIdentifier, S.ClearDiagnosticInformation, S.ReadDTCInformation,
               S.TesterPresent]
    n = ctx.pick(300, 1500)
    cfgs = [(s, {}) for s in rng.sample(range(4 * n), n)]
    for _ in range(n):
        cfgs.append((rng.randrange(1 << 30), {
            "mandatory_services": handled, "optional_services": [], "p_sub_function": rng.choice([0.3, 0.9]),
            "p_session": rng.choice([0.03, 0.1]), "p_identifier": rng.choice([0.5, 1.0]),
            "p_correct_payload_format": rng.choice([0.9, 1.0]), "p_dtc_status_mask": 0.9}))
    return cfgs


def requests_for(rng, real, sess, n_ids):
    """(label, ctor, pdu) of the parameter ranges of every drawing handler, for one session of one model"""
    d = real.server.services.get(sess, {})
    out = []
    if 0x11 in d:
        listed = [int(x) for x in (d[0x11] or [])]
        iso = [x for x in listed if x <= 5]  # the reset types ISO 14229 defines, plus one of the others
        for sf in iso + ([rng.choice([x for x in listed if x > 5])] if len(listed) > len(iso) else []):
            out.append(("EcuReset", "ECUResetRequest", bytes([0x11, int(sf)])))
            out.append(("EcuReset", "ECUResetRequest", bytes([0x11, int(sf) | 0x80])))
    ids = [0xF186, 0xF190, 0x0000, 0xFFFF] + [rng.randrange(0x10000) for _ in range(n_ids)]
    for did in ids:
        b = did.to_bytes(2, "big")
        if 0x22 in d:
            out.append(("ReadDataByIdentifier", "ReadDataByIdentifierRequest", b"\x22" + b))
        if 0x2E in d:
            out.append(("WriteDataByIdentifier", "WriteDataByIdentifierRequest", b"\x2e" + b + F_bytes(rng, 1, 4)))
        if 0x2F in d:
            out.append(("InputOutputControl", None, b"\x2f" + b + bytes([rng.choice([0, 1, 2, 3])]) + F_bytes(rng, 0, 2)))
        if 0x31 in d:
            for sf in (d[0x31] or []):
                out.append(("RoutineControl", None, bytes([0x31, int(sf) | (0x80 if rng.random() < 0.2 else 0)]) + b + F_bytes(rng, 0, 2)))
    if 0x14 in d:
        for g in (0xFFFFFF, 0, rng.randrange(1 << 24)):
            out.append(("ClearDiagnosticInformation", "ClearDiagnosticInformationRequest", b"\x14" + g.to_bytes(3, "big")))
    return out


def F_bytes(rng, lo, hi):
    return bytes(rng.randrange(256) for _ in range(rng.randint(lo, hi)))


def run(ctx, rn, env, session_paths, params_json):
    rng = ctx.rng
    reals = []
    for seed, params in pool_configs(ctx, env, rng):
        try:
            reals.append(F.Real(env, seed, params))
        except Exception:  # noqa: BLE001 - randomize raising is reported by the main part on its own models
            ctx.kind("rare-draw:model-not-built")
    pairs = []
    for real in reals:
        paths = session_paths(real)
        real.rare_paths = paths
        for sess in sorted(paths):
            pairs.append((real, sess))
    rng.shuffle(pairs)
    ctx.notes["rare_draw_models"] = len(reals)
    ctx.notes["rare_draw_model_sessions"] = len(pairs)

    hits = {}      # label -> [(order, real, sess, item, oracle)]
    raised = []    # (order, real, sess, item, exception name)
    biggest = {}   # metric -> [(value, -order, real, sess, item, oracle)]
    calls = {}
    nhits = {}
    order = [0]
    per_kind = ctx.pick(3, 12)

    def call(real, sess, label, ctor, pdu):
        req = real.parse(pdu)
        cls = type(req).__name__
        if cls == "RawRequest" or cls.startswith("ParseRaises") or not offered(real, sess, pdu):
            return
        events, exc = direct(real, sess, req)
        order[0] += 1
        calls[label] = calls.get(label, 0) + 1
        item = {"adv": 1, "pdu": pdu.hex()}
        if ctor is not None:
            item["ctor"] = ctor
        if exc is not None:
            ctx.kind(f"rare-draw:stage1:{label}:raised-{exc}")
            raised.append((order[0], real, sess, item, exc))
        for c in corners(events):
            ctx.kind(f"rare-draw:stage1:{label}:{c}")
            if c not in COMMON:
                key = f"{label}:{c}"
                nhits[key] = nhits.get(key, 0) + 1
                if nhits[key] <= per_kind:
                    hits.setdefault(key, []).append((order[0], real, sess, item, F.oracle_of(events)[0]))
        for metric, v in magnitude(events):
            l = biggest.setdefault(f"{label}:{metric}", [])
            if len(l) >= 2 and v <= l[1][0]:
                continue
            l.append((v, -order[0], real, sess, item, F.oracle_of(events)[0]))
            l.sort(key=lambda x: x[:2], reverse=True)
            del l[2:]

    # ReadDTCInformation: all 256 status masks (both suppress bits share the draws: the bit is not part of the RNG seed)
    dtc_pairs = [(r, s) for r, s in pairs if 0x19 in r.server.services.get(s, {})][: ctx.pick(160, 1500)]
    for real, sess in dtc_pairs:
        for mask in range(256):
            call(real, sess, "ReportDTCByStatusMask", "ReportDTCByStatusMaskRequest", bytes([0x19, 0x02, mask]))
    # EcuReset: every listed reset type of every session of the pool; the identifier services: sampled identifiers
    for real, sess in pairs:
        for label, ctor, pdu in requests_for(rng, real, sess, 0):
            if label == "EcuReset":
                call(real, sess, label, ctor, pdu)
    for real, sess in pairs[: ctx.pick(250, 1500)]:
        for label, ctor, pdu in requests_for(rng, real, sess, ctx.pick(6, 12)):
            if label != "EcuReset":
                call(real, sess, label, ctor, pdu)
    n_calls = sum(calls.values())
    ctx.ev(n_calls)
    ctx.notes["rare_draw_stage1_calls"] = dict(sorted(calls.items()))
    ctx.notes["rare_draw_hits"] = dict(sorted(nhits.items()))
    ctx.notes["rare_draw_raised"] = len(raised)

    # stage 2: real histories
    chosen = []
    for o, real, sess, item, exc in raised[: ctx.pick(12, 40)]:
        chosen.append((f"raised-{exc}", real, sess, item, None))
    for label in sorted(hits):
        for o, real, sess, item, orc in hits[label][:per_kind]:
            chosen.append((label, real, sess, item, orc))
    for metric in sorted(biggest):
        l = sorted(biggest[metric], key=lambda x: x[:2], reverse=True)[:2]
        for v, _o, real, sess, item, orc in l:
            chosen.append((f"{metric}={v}", real, sess, item, orc))
            ctx.notes.setdefault("rare_draw_largest", {})[metric] = max(v, ctx.notes.get("rare_draw_largest", {}).get(metric, 0))
    for label, real, sess, item, orc in chosen:
        obs = rn.history(real, list(real.rare_paths[sess]) + [dict(item)], "rare-draw:" + label.split("=")[0])
        last = obs[-1] if obs else None
        if last is None or len(obs) != len(real.rare_paths[sess]) + 1:
            ctx.kind("rare-draw:stage2:path-did-not-reach-the-session")
        elif orc is not None and last["orc"] != orc:
            ctx.kind("rare-draw:stage2:other-draws-than-the-direct-call")
        else:
            ctx.kind("rare-draw:stage2:same-draws-through-handle_request")
    rn.flush()

    # SecurityAccess draws its seed from an unseeded RNG (seeded per connection by the harness): many seed / key dialogues
    # in a row on one connection, every one a fresh random_payload() (empty seed: about 6 %)
    sa_pairs = [(r, s) for r, s in pairs if any(int(x) % 2 == 1 for x in (r.server.services.get(s, {}).get(0x27) or []))]
    for real, sess in sa_pairs[: ctx.pick(40, 200)]:
        lvls = [int(x) for x in real.server.services[sess][0x27] if int(x) % 2 == 1]
        items = list(real.rare_paths[sess])
        for k in range(ctx.pick(8, 16)):
            lvl = lvls[k % len(lvls)]
            items.append({"adv": 1, "pdu": bytes([0x27, lvl]).hex(), "ctor": "RequestSeedRequest"})
            items.append({"adv": 1, "key": [lvl + 1, "right", False]})
        for o in rn.history(real, items, "rare-draw:seed-key-dialogues"):
            if o["pdu"][0] == 0x27 and o["pdu"][1] % 2 == 1 and o["reply"] is not None and o["reply"][0] == 0x67:
                n = len(o["reply"]) - 2
                ctx.kind("rare-draw:security-seed:" + ("empty" if n == 0 else "1-byte" if n == 1 else "n-bytes" if n < 30 else ">=30-bytes"))
    rn.flush()
    ctx.exhaustive_parts.append(
        f"rare-draw search: RandomUDSServer.respond_after_default called directly on {len(reals)} models x reachable sessions "
        f"({len(pairs)} pairs): all 256 reportDTCByStatusMask masks on {len(dtc_pairs)} (model, session) pairs, every listed ISO-defined "
        "EcuReset type (with and without suppress bit) on all pairs, sampled identifiers for 0x22 / 0x2E / 0x2F / 0x31 / 0x14; "
        f"{n_calls} handler calls, draws recorded and classified (same DTC twice, 0 / 255 / 0xFFFFFF from randint, zero / one "
        "DTC, empty / min_len / longest payload, largest DTC count); every call that raised and a few per corner kind re-run "
        "as a real history through handle_request, the real client and the Lean model")
