"""C03 mutation self-test: applies each textual mutation to $C03_WS/repo (uncommitted), runs `./check C03` in $C03_WS/verif,
prints exit code + keys of the violations, restores the file.  usage: c03_mutations.py [names...]"""
import re, subprocess, sys, json, os
W = os.environ.get("C03_WS", "/var/tmp/ws-C03")  # workspace holding repo/ and verif/ worktrees
MUTS = {
 "M1-nrc-byte": ("src/gallia/services/uds/helpers.py", r"len\(pdu\) >= 2 and pdu\[1\] != request.service_id", "len(pdu) >= 3 and pdu[2] != request.service_id"),
 "M2-routine-drop-rid": ("src/gallia/services/uds/core/service.py", r"\n            and self.routine_identifier == request.routine_identifier", ""),
 "M3-rdbi-last-did": ("src/gallia/services/uds/core/service.py", r"return request.data_identifiers\[0\] == self.data_identifiers\[0\]", "return request.data_identifiers[-1] == self.data_identifiers[0]"),
 "M4-raw-fallback-neg": ("src/gallia/services/uds/helpers.py", r"if isinstance\(parsed_request, service.RawRequest\) and not isinstance\(\n        response, service.NegativeResponse\n    \):", "if isinstance(parsed_request, service.RawRequest):"),
 "M5-neg-matches-any": ("src/gallia/services/uds/core/service.py", r"return self.request_service_id == request.service_id", "return True"),
 "M6-wmba-drop-size": ("src/gallia/services/uds/core/service.py", r"\n            and self.memory_size == request.memory_size\n", "\n"),
 "M7-no-priority-positive": ("src/gallia/services/uds/helpers.py", r"            if response.service_id != request.service_id:\n                raise RequestResponseMismatch\(request, response\)\n\n        raise Malformed", "        raise Malformed"),
 "M8-exc-wrong-code": ("src/gallia/services/uds/core/exception.py", r"class RequestOutOfRange\(UnexpectedNegativeResponse, response_code=UDSErrorCodes.requestOutOfRange\)", "class RequestOutOfRange(UnexpectedNegativeResponse, response_code=UDSErrorCodes.securityAccessDenied)"),
 "M9-echo-dddi-2": ("src/gallia/services/uds/core/constants.py", r"UDSIsoServices.DynamicallyDefineDataIdentifier: 3,", "UDSIsoServices.DynamicallyDefineDataIdentifier: 2,"),
 "M10-dsc-suppress": ("src/gallia/services/uds/core/service.py", r"and request.diagnostic_session_type == self.diagnostic_session_type", "and request.sub_function_with_suppress_response_bit == self.diagnostic_session_type"),
 "M11-rawpos-slice": ("src/gallia/services/uds/core/service.py", r"return request.pdu\[1 : echo_length \+ 1\] == self.pdu\[1 : echo_length \+ 1\]", "return request.pdu[1:echo_length] == self.pdu[1:echo_length]"),
 "M12-transfer-counter": ("src/gallia/services/uds/core/service.py", r"and self.block_sequence_counter == request.block_sequence_counter", "and self.block_sequence_counter >= request.block_sequence_counter"),
 "M13-rmba-len-le": ("src/gallia/services/uds/core/service.py", r"and len\(self.data_record\) == request.memory_size", "and len(self.data_record) <= request.memory_size"),
 "M14-updownload-any": ("src/gallia/services/uds/core/service.py", r"\n            and request.SERVICE_ID == self.SERVICE_ID\n", "\n"),
 "M15-readdtc-class-only": ("src/gallia/services/uds/core/service.py", r"return isinstance\(request, _ReadDTCRequest\) and self.sub_function == request.sub_function", "return isinstance(request, _ReadDTCRequest)"),
 "M16-malformed-as-mismatch": ("src/gallia/services/uds/helpers.py", r"raise MalformedResponse\(request, response, str\(e\)\) from e", "raise RequestResponseMismatch(request, response, str(e)) from e"),
 "M17-secaccess-parity": ("src/gallia/services/uds/core/service.py", r"and request.security_access_type == self.security_access_type", "and request.security_access_type | 1 == self.security_access_type | 1"),
}
names = sys.argv[1:] or list(MUTS)
for n in names:
    f, old, new = MUTS[n]
    p = f"{W}/repo/{f}"
    src = open(p).read()
    k = len(re.findall(old, src))
    if k != 1:
        print(n, "PATTERN MATCHES", k); continue
    open(p, "w").write(re.sub(old, new.replace("\\", "\\\\"), src, count=1))
    try:
        r = subprocess.run(["./check", "C03"], cwd=f"{W}/verif", env={**os.environ, "GALLIA_REPO": f"{W}/repo"}, capture_output=True, text=True)
        out = r.stdout + r.stderr
        viol = [l for l in out.splitlines() if l.startswith("VIOLATION")]
        print(f"{n}: exit={r.returncode} violations={len(viol)}")
        for l in viol[:3]:
            m = re.search(r"replay=(\S+)", l)
            d = json.load(open(m.group(1)))
            print("    ", d.get("key"), "|", str(d.get("what"))[:230], "|", "no-failing-input" if "no-failing" in l else "")
        wall = re.search(r"wall=([\d.]+)s", out)
        print("     wall", wall.group(1) if wall else "?")
    finally:
        open(p, "w").write(src)
subprocess.run(["git", "-C", f"{W}/repo", "status", "--short"])
