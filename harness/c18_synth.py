"""C18: a synthetic command whose config has one required and one defaulted option of every modelled field kind,
declared exactly the way gallia's own commands declare theirs (gallia's Field(), the special types of
gallia.command.config). It goes through the real create_parser / GalliaBaseModel glue like any plugin command and
makes all 16 provider combinations reachable for every kind (the shipped commands have few required options)."""
from enum import IntEnum
from pathlib import Path
from typing import Annotated, Any, Literal

from pydantic import BeforeValidator, field_serializer

from gallia.command import AsyncScript
from gallia.command.base import AsyncScriptConfig
from gallia.command.config import AutoInt, EnumArg, Field, HexBytes, HexInt, Idempotent, Ranges, Ranges2D
from gallia.commands.primitive.uds.dddi import parse_id, parse_mem
from gallia.transports import TargetURI


class Colour(IntEnum):
    RED = 1
    GREEN = 0x22
    BLUE = 300


class SynthConfig(AsyncScriptConfig, cli_group="synthetic", config_section="gallia.synthetic"):
    r_bool: bool = Field(description="required bool")
    d_bool: bool = Field(True, description="bool")
    r_int: int = Field(description="required int")
    d_int: int = Field(5, description="int")
    r_auto: AutoInt = Field(description="required AutoInt")
    d_auto: AutoInt = Field(0x10, description="AutoInt")
    o_auto: AutoInt | None = Field(None, description="optional AutoInt with const", const=0x7F)
    r_hexint: HexInt = Field(description="required HexInt")
    d_hexint: HexInt = Field(0xFF, description="HexInt")
    d_autoints: list[AutoInt] = Field([1], description="list of AutoInt")
    d_enums: list[EnumArg[Colour]] = Field([Colour.RED], description="list of enum")
    d_ids: list[Annotated[tuple[int, int, int], BeforeValidator(parse_id)]] = Field([], description="ID:START:LENGTH")
    r_mems: list[Annotated[tuple[int, int], BeforeValidator(parse_mem)]] = Field(description="ADDRESS:LENGTH")
    d_props: dict[str, Any] | None = Field(None, description="properties")
    r_float: float = Field(description="required float")
    d_float: float = Field(1.5, description="float")
    r_str: str = Field(description="required str")
    d_str: str | None = Field(None, description="optional str")
    r_path: Path = Field(description="required path")
    d_path: Path | None = Field(None, description="optional path")
    r_hex: HexBytes = Field(description="required HexBytes")
    d_hex: HexBytes = Field(b"\x3e\x00", description="HexBytes")
    r_ranges: Ranges = Field(description="required Ranges")
    d_ranges: Ranges = Field([], description="Ranges")
    r_ranges2d: Ranges2D = Field(description="required Ranges2D")
    d_ranges2d: Ranges2D = Field({}, description="Ranges2D")
    r_enum: EnumArg[Colour] = Field(description="required enum")
    d_enum: EnumArg[Colour] = Field(Colour.RED, description="enum")
    r_choice: Literal["alpha", "beta", "gamma-delta"] = Field(description="required choice")
    d_choice: Literal["alpha", "beta", "gamma-delta"] = Field("alpha", description="choice")
    r_uri: Idempotent[TargetURI] = Field(description="required URI")
    hooks_like: bool = Field(False, description="own section", config_section="gallia.synthetic.sub")

    @field_serializer("r_uri")
    def serialize_target_uri(self, target_uri: TargetURI | None) -> Any:
        return None if target_uri is None else target_uri.raw


class Synth(AsyncScript):
    CONFIG_TYPE = SynthConfig
    SHORT_HELP = "synthetic"

    async def main(self) -> None:
        pass
