"""C18 helpers shared by gen/c18_options.py and harness/props/C18.py.

Two views of every option of every command of `load_commands()`:

* declared  - read off the class bodies with `ast` (which `Field(...)` call, which keywords, which annotation) and the
              class keywords `cli_group=` / `config_section=`; independent of what pydantic makes of the class
* live      - `CONFIG_TYPE.model_fields[name]` as the parser generator sees it

and, from the declared view, what the property expects of the option (env name, gallia.toml key, default).
"""
from __future__ import annotations

import ast
import contextlib
import inspect
import io
import json
import os
import sys
import tempfile
import textwrap
import typing
from dataclasses import dataclass, field
from enum import Enum
from pathlib import Path
from types import NoneType, UnionType
from typing import Annotated, Any, Literal, Union, get_args, get_origin

_READY = False


def ready():
    """import order matters: gallia.command before gallia.plugins.plugin"""
    global _READY
    if not _READY:
        import logging

        logging.disable(logging.CRITICAL)
        import gallia.command  # noqa
        import gallia.plugins.plugin as gp  # noqa

        # the installed plugins do not change during a run; scanning the entry points on every validation of an
        # `oem` field (24 ms each) is the only thing memoised here
        plugins = gp.load_plugins()
        gp.load_plugins = lambda: plugins
        _READY = True


def commands():
    ready()
    from gallia.plugins.plugin import CommandTree, load_commands

    def walk(t, path=()):
        for k, v in t.items():
            if isinstance(v, CommandTree):
                yield from walk(v.subtree, path + (k,))
            else:
                yield path + (k,), v

    return list(walk(load_commands()))


# ------------------------------------------------------------------------------------------------------------------
# declared view (AST)
# ------------------------------------------------------------------------------------------------------------------

_CLASS_CACHE: dict[type, dict[str, dict]] = {}


def _class_decls(k: type) -> dict[str, dict]:
    """name -> declaration facts for the annotated assignments in the body of class `k`"""
    if k in _CLASS_CACHE:
        return _CLASS_CACHE[k]
    import gallia.command.config as gc

    out: dict[str, dict] = {}
    try:
        src = textwrap.dedent(inspect.getsource(k))
        tree = ast.parse(src)
    except (OSError, TypeError, SyntaxError):
        _CLASS_CACHE[k] = out
        return out
    cdef = next((n for n in tree.body if isinstance(n, ast.ClassDef)), None)
    if cdef is None:
        _CLASS_CACHE[k] = out
        return out
    mod = sys.modules.get(k.__module__)
    class_kw = {}
    for kw in cdef.keywords:
        try:
            class_kw[kw.arg] = ast.literal_eval(kw.value)
        except ValueError:
            class_kw[kw.arg] = ("expr", ast.unparse(kw.value))
    for st in cdef.body:
        if not (isinstance(st, ast.AnnAssign) and isinstance(st.target, ast.Name)):
            continue
        name = st.target.id
        if name.startswith("_") or name == "model_config":
            continue
        d = {"name": name, "cls": k, "annotation_src": ast.unparse(st.annotation), "gallia_field": False, "kw": {},
             "has_default": st.value is not None, "class_kw": class_kw}
        v = st.value
        if isinstance(v, ast.Call) and isinstance(v.func, ast.Name):
            target = getattr(mod, v.func.id, None)
            if target is gc.Field:
                d["gallia_field"] = True
                d["has_default"] = bool(v.args) or any(kw.arg == "default" for kw in v.keywords)
                for kw in v.keywords:
                    try:
                        d["kw"][kw.arg] = ast.literal_eval(kw.value)
                    except ValueError:
                        try:  # e.g. config_section=UDSScannerConfig._config_section
                            d["kw"][kw.arg] = eval(ast.unparse(kw.value), dict(vars(mod)))  # noqa: S307
                        except Exception:
                            d["kw"][kw.arg] = ("expr", ast.unparse(kw.value))
        out[name] = d
    _CLASS_CACHE[k] = out
    return out


def _class_section(k: type):
    """config_section / cli_group a class passes to GalliaBaseModel.__init_subclass__ (None when not given)"""
    sec = k.__dict__.get("_config_section", None)
    grp = k.__dict__.get("_cli_group", None)
    return (sec if isinstance(sec, str) else None), (grp if isinstance(grp, str) else None)


def declared(config_type: type, name: str) -> dict | None:
    """declaration of field `name` as the most derived class in the MRO writes it"""
    from gallia.command.config import GalliaBaseModel

    for k in config_type.__mro__:
        if not (isinstance(k, type) and issubclass(k, GalliaBaseModel)):
            continue
        decls = _class_decls(k)
        if name in decls:
            d = dict(decls[name])
            sec, grp = _class_section(k)
            d["class_section"] = sec
            d["section"] = d["kw"]["config_section"] if isinstance(d["kw"].get("config_section"), str) else sec
            if k is GalliaBaseModel:
                d["section"] = None
            try:
                hints = typing.get_type_hints(k, include_extras=True)
                d["annotation"] = hints.get(name)
            except Exception:
                d["annotation"] = None
            d["annotated_top"] = get_origin(d["annotation"]) is Annotated
            return d
    return None


# ------------------------------------------------------------------------------------------------------------------
# kinds
# ------------------------------------------------------------------------------------------------------------------

@dataclass
class Kind:
    name: str  # bool int autoInt hexInt text opaque hexBytes ranges ranges2d enum choice autoInts tuples enums dict other
    optional: bool = False
    members: list[tuple[str, int]] = field(default_factory=list)  # enum / enums
    choices: list[str] = field(default_factory=list)
    sub: str = ""  # opaque: uri / psuri / float / oem;  text: str / path; other: description
    pytype: Any = None
    arity: int = 0  # tuples

    def lean(self, const=None, positional=False) -> str:
        if self.name in ("enum", "enums"):
            k = self.name + ":" + ",".join(f"{n}={v}" for n, v in self.members)
        elif self.name == "choice":
            k = "choice:" + ",".join(self.choices)
        elif self.name == "tuples":
            k = f"tuples:{self.arity}"
        else:
            k = self.name
        if self.optional:
            k += "/opt"
        if positional:
            k += "/pos"
        if const is not None:
            k += "/const=" + const
        return k

    def tag(self) -> str:
        """constructor of the model's `KindTag` (gen/c18_options.py)"""
        return self.name if self.name != "other" else "unmodelled"

    def label(self) -> str:
        return self.name + (f":{self.arity}" if self.name == "tuples" else "") + (":" + self.sub if self.sub else "") + ("?" if self.optional else "")


def _validator_funcs(metadata) -> list:
    return [getattr(m, "func", None) for m in metadata]


def classify(annotation, metadata, name: str = "", model: type | None = None) -> Kind:
    import gallia.command.config as gc
    from gallia.power_supply.uri import PowerSupplyURI
    from gallia.transports import TargetURI

    optional = False
    ann = annotation
    md = list(metadata)
    if get_origin(ann) in (Union, UnionType):
        args = [a for a in get_args(ann) if a is not NoneType]
        optional = len(args) != len(get_args(ann))
        if len(args) != 1:
            return Kind("other", optional, sub=str(annotation))
        ann = args[0]
    if get_origin(ann) is Annotated:
        md = list(ann.__metadata__) + md
        ann = ann.__origin__
    funcs = _validator_funcs(md)
    auto_f = get_args(gc.AutoInt)[1].func
    hexint_f = get_args(gc.HexInt)[1].func
    hex_f = get_args(gc.HexBytes)[1].func
    r2_f = get_args(gc.Ranges2D)[1].func

    if auto_f in funcs and ann is int:
        return Kind("autoInt", optional)
    if hexint_f in funcs and ann is int:
        return Kind("hexInt", optional)
    if hex_f in funcs:
        return Kind("hexBytes", optional)
    if gc._process_ranges in funcs:
        return Kind("ranges", optional)
    if r2_f in funcs:
        return Kind("ranges2d", optional)
    if isinstance(ann, type) and issubclass(ann, Enum) and funcs:
        return Kind("enum", optional, members=[(m.name, int(m.value)) for m in ann], pytype=ann)
    if get_origin(ann) is Literal:
        largs = get_args(ann)
        if all(isinstance(a, Enum) for a in largs):
            return Kind("enum", optional, members=[(a.name, int(a.value)) for a in largs], pytype=type(largs[0]), sub="literal")
        if all(isinstance(a, str) for a in largs):
            return Kind("choice", optional, choices=list(largs))
        return Kind("other", optional, sub=str(ann))
    if ann is PowerSupplyURI:
        return Kind("opaque", optional, sub="psuri", pytype=ann)
    if ann is TargetURI:
        return Kind("opaque", optional, sub="uri", pytype=ann)
    if ann is bool:
        return Kind("bool", optional)
    if ann is int and not funcs:
        return Kind("int", optional)
    if ann is float:
        return Kind("opaque", optional, sub="float", pytype=float)
    if ann is str:
        validated = False
        if model is not None:
            for dec in getattr(model, "__pydantic_decorators__").field_validators.values():
                if name in dec.info.fields:
                    validated = True
        if validated:
            return Kind("opaque", optional, sub="validated-str", pytype=str)
        return Kind("text", optional, sub="str")
    if ann is Path:
        return Kind("text", optional, sub="path", pytype=Path)
    if get_origin(ann) is list:
        (el,) = get_args(ann)
        if get_origin(el) is Annotated and el.__origin__ is int and auto_f in _validator_funcs(el.__metadata__):
            return Kind("autoInts", optional)
        if get_origin(el) is Annotated and isinstance(el.__origin__, type) and issubclass(el.__origin__, Enum) and el.__metadata__:
            e = el.__origin__
            return Kind("enums", optional, members=[(m.name, int(m.value)) for m in e], pytype=e)
        if get_origin(el) is Annotated and get_origin(el.__origin__) is tuple and set(get_args(el.__origin__)) == {int}:
            # list[Annotated[tuple[int, ...], BeforeValidator(parse_id | parse_mem)]]: the arity is the tuple's
            import gallia.commands.primitive.uds.dddi as dddi

            if set(_validator_funcs(el.__metadata__)) <= {dddi.parse_id, dddi.parse_mem}:
                return Kind("tuples", optional, arity=len(get_args(el.__origin__)))
    if get_origin(ann) is dict and get_args(ann) == (str, Any):
        return Kind("dict", optional)
    return Kind("other", optional, sub=str(ann)[:60])


# ------------------------------------------------------------------------------------------------------------------
# options of a command
# ------------------------------------------------------------------------------------------------------------------

@dataclass
class Opt:
    cmd: tuple
    name: str
    kind: Kind
    live_config: bool  # model_fields[name] is a ConfigArgFieldInfo
    live_arg: bool  # ... is an ArgFieldInfo
    decl: dict | None
    positional: bool
    hidden: bool
    short: str | None
    const: Any  # python value or _NOCONST
    required: bool
    default: Any
    env: str | None  # expected environment variable (declared view)
    key: str | None  # expected gallia.toml key (declared view)

    @property
    def ident(self):
        return " ".join(self.cmd) + ":" + self.name


NOCONST = object()


def options(path, cmd) -> list[Opt]:
    from pydantic_core import PydanticUndefined

    from gallia.command.config import ConfigArgFieldInfo
    from gallia.pydantic_argparse.utils.field import ArgFieldInfo

    ct = cmd.CONFIG_TYPE
    out = []
    for name, info in ct.model_fields.items():
        d = declared(ct, name)
        kw = (d or {}).get("kw", {})
        gallia_field = bool(d and d["gallia_field"])
        positional = bool(kw.get("positional", False))
        hidden = bool(kw.get("hidden", False))
        short = kw.get("short") if isinstance(kw.get("short"), str) else None
        const = NOCONST
        if "const" in kw:
            const = kw["const"] if not (isinstance(kw["const"], tuple) and kw["const"][:1] == ("expr",)) else eval(kw["const"][1], {})
        section = d["section"] if d else None
        # a positional argument is read from the environment / the file like any other (attributes_from_env does not
        # look at `positional`), argparse just never gets to see that value
        env = f"GALLIA_{name.upper()}" if gallia_field and not hidden else None
        key = f"{section}.{name}" if gallia_field and section is not None and not hidden else None
        if gallia_field and section == "" and key is not None:
            key = name
        required = info.is_required()
        default = None if required else info.get_default(call_default_factory=True)
        out.append(Opt(tuple(path), name, classify(info.annotation, info.metadata, name, ct), isinstance(info, ConfigArgFieldInfo),
                       isinstance(info, ArgFieldInfo), d, positional, hidden, short, const, required, default, env, key))
    return out


# ------------------------------------------------------------------------------------------------------------------
# canonical values (both sides print these)
# ------------------------------------------------------------------------------------------------------------------

def thex(s: str) -> str:
    return s.encode().hex()


def canon_val(v) -> str:
    from gallia.transports import TargetURI

    if v is None:
        return "none"
    if isinstance(v, bool):
        return "b:1" if v else "b:0"
    if isinstance(v, Enum):
        return f"i:{int(v.value)}" if isinstance(v.value, int) else "t:" + thex(str(v.value))
    if isinstance(v, int):
        return f"i:{v}"
    if isinstance(v, float):
        return "t:" + thex(repr(v))
    if isinstance(v, bytes):
        return "x:" + v.hex()
    if isinstance(v, TargetURI):
        return "t:" + thex(v.raw) if isinstance(v.raw, str) else "py:" + thex(f"{type(v).__name__}({v.raw!r})")
    if isinstance(v, (str, Path)):
        return "t:" + thex(str(v))
    if isinstance(v, (list, tuple)) and all(isinstance(x, int) and not isinstance(x, bool) for x in v):
        return "l:" + ",".join(str(int(x)) for x in v)
    if isinstance(v, list) and v and all(isinstance(x, (tuple, list)) and all(isinstance(y, int) and not isinstance(y, bool) for y in x) for x in v):
        return "T:" + "/".join("+".join(str(int(y)) for y in x) for x in v)
    if isinstance(v, dict) and v and all(isinstance(k, int) for k in v):
        return "m:" + ";".join(f"{k}=" + ("-" if v[k] is None else "+".join(str(int(x)) for x in v[k])) for k in sorted(v))
    if isinstance(v, dict) and all(isinstance(k, str) for k in v):
        return ("m:" if not v else "d:" + tree_tok(v))
    return "py:" + thex(repr(v))


def canon_val_kind(v, kind) -> str:
    """`canon_val` where the field kind settles what an empty container is"""
    if kind is not None and v is not None:
        if kind.name == "opaque" and kind.sub == "float" and isinstance(v, (int, float)) and not isinstance(v, bool):
            return "t:" + thex(repr(float(v)))      # a float field whose (unvalidated) default is written as an int
        if kind.name == "dict" and isinstance(v, dict):
            return "d:" + tree_tok(v)
        if kind.name == "tuples" and isinstance(v, list):
            return "T:" + "/".join("+".join(str(int(y)) for y in x) for x in v)
    return canon_val(v)


def atom_tok(x) -> str | None:
    if isinstance(x, bool):
        return None
    if isinstance(x, int):
        return f"i:{x}"
    if isinstance(x, str):
        return "s:" + thex(x)
    return None


def tree_tok(v) -> str:
    """a TOML / JSON value as the model's `Tree` (driver syntax)"""
    if isinstance(v, dict):
        return "{" + ";".join(thex(str(k)) + "=" + tree_tok(x) for k, x in v.items()) + "}"
    if v is None:
        return "n"
    if isinstance(v, bool):
        return "b1" if v else "b0"
    if isinstance(v, int):
        return f"i{v}"
    if isinstance(v, str):
        return "s" + thex(v)
    if isinstance(v, float):
        return "f" + thex(repr(v))
    if isinstance(v, list):
        toks = [atom_tok(x) for x in v]
        if all(t is not None for t in toks):
            return "a[" + ",".join(toks) + "]"
        if v and all(isinstance(x, list) and all(isinstance(y, int) and not isinstance(y, bool) for y in x) for x in v):
            return "A[" + "/".join("+".join(str(y) for y in x) for x in v) + "]"
    return "o" + thex(repr(v))


def untree(tok: str):
    """inverse of `tree_tok` (what the driver prints) -> python value; floats stay ('f', text), other ('o', text)"""
    pos = 0

    def leaf(t):
        if t == "n":
            return None
        if t in ("b0", "b1"):
            return t == "b1"
        if t[0] == "i":
            return int(t[1:])
        if t[0] == "s":
            return bytes.fromhex(t[1:]).decode()
        if t[0] == "f":
            return float(bytes.fromhex(t[1:]).decode())
        if t[0] == "a":
            body = t[2:-1]
            return [] if not body else [int(x[2:]) if x[0] == "i" else bytes.fromhex(x[2:]).decode() for x in body.split(",")]
        if t[0] == "A":
            body = t[2:-1]
            return [] if not body else [[int(y) for y in x.split("+")] if x else [] for x in body.split("/")]
        return ("o", bytes.fromhex(t[1:]).decode())

    def tree():
        nonlocal pos
        if tok[pos] == "{":
            pos += 1
            out = {}
            while tok[pos] != "}":
                if tok[pos] == ";":
                    pos += 1
                    continue
                j = tok.index("=", pos)
                k = bytes.fromhex(tok[pos:j]).decode()
                pos = j + 1
                out[k] = tree()
            pos += 1
            return out
        j = pos
        while j < len(tok) and tok[j] not in ";}=|":
            j += 1
        t = tok[pos:j]
        pos = j
        return leaf(t)

    return tree()


def canon_json(v, kind=None) -> str:
    """canonical form of a JSON value as the model's `J`"""
    if v is None:
        return "null"
    if kind is not None and kind.name == "opaque" and kind.sub == "float" and isinstance(v, (int, float)) and not isinstance(v, bool):
        return "s:" + thex(repr(float(v)))
    if kind is not None and kind.name == "dict" and isinstance(v, dict):
        return "d:" + tree_tok(v)
    if kind is not None and kind.name == "tuples" and isinstance(v, list):
        return "A:" + "/".join("+".join(str(int(y)) for y in x) for x in v)
    if isinstance(v, bool):
        return "b:1" if v else "b:0"
    if isinstance(v, int):
        return f"n:{v}"
    if isinstance(v, float):
        return "s:" + thex(repr(v))
    if isinstance(v, str):
        return "s:" + thex(v)
    if isinstance(v, list) and all(isinstance(x, int) and not isinstance(x, bool) for x in v):
        return "a:" + ",".join(str(x) for x in v)
    if isinstance(v, dict):
        return "o:" + ";".join(f"{k}=" + ("-" if x is None else "+".join(str(int(y)) for y in x)) for k, x in v.items())
    return "py:" + thex(repr(v))


# ------------------------------------------------------------------------------------------------------------------
# gallia.toml writer, real parser runs
# ------------------------------------------------------------------------------------------------------------------

def toml_value(v) -> str:
    if isinstance(v, bool):
        return "true" if v else "false"
    if isinstance(v, int):
        return str(v)
    if isinstance(v, float):
        return repr(v)
    if isinstance(v, str):
        return json.dumps(v)
    if isinstance(v, list):
        return "[" + ", ".join(toml_value(x) for x in v) + "]"
    raise TypeError(v)


def toml_text(values: dict[str, Any]) -> str:
    """values: dotted key -> python value"""
    groups: dict[str, dict[str, Any]] = {}
    for k, v in values.items():
        sec, _, attr = k.rpartition(".")
        groups.setdefault(sec, {})[attr] = v
    out = []
    for sec in sorted(groups, key=lambda s: (s != "", s)):
        if sec:
            out.append(f"[{sec}]")
        for attr, v in groups[sec].items():
            out.append(f"{attr} = {toml_value(v)}")
        out.append("")
    return "\n".join(out)


class Sandbox:
    """temp dir with a gallia.toml, GALLIA_CONFIG pointing at it, GALLIA_* otherwise cleared"""

    def __init__(self):
        self.dir = tempfile.mkdtemp(prefix="c18-", dir="/var/tmp")
        self.path = os.path.join(self.dir, "gallia.toml")
        self.saved = {k: v for k, v in os.environ.items() if k.startswith("GALLIA_")}
        for k in self.saved:
            del os.environ[k]
        self.set({}, {})

    def set(self, file_values: dict[str, Any], env: dict[str, str], text: str | None = None):
        for k in [k for k in os.environ if k.startswith("GALLIA_")]:
            del os.environ[k]
        with open(self.path, "w") as f:
            f.write(toml_text(file_values) if text is None else text)
        os.environ["GALLIA_CONFIG"] = self.path
        os.environ.update(env)

    def close(self):
        import shutil

        for k in [k for k in os.environ if k.startswith("GALLIA_")]:
            del os.environ[k]
        os.environ.update(self.saved)
        shutil.rmtree(self.dir, ignore_errors=True)


def real_parse(parser, argv):
    """-> ("ok", cfg) | ("exit", code, message tail) | ("raise", exception class name, text)"""
    err = io.StringIO()
    out = io.StringIO()
    try:
        with contextlib.redirect_stderr(err), contextlib.redirect_stdout(out):
            _, cfg = parser.parse_typed_args(list(argv))
        return ("ok", cfg)
    except SystemExit as e:
        text = err.getvalue()
        i = text.rfind("error")
        j = text.rfind("errors: ")
        if j >= 0:
            i = text.rfind("\n", 0, j) + 1
        return ("exit", e.code, text[i:] if i >= 0 else text[-400:])
    except Exception as e:  # a validator raising something pydantic does not convert
        return ("raise", type(e).__name__, str(e)[:200])
