"""C14 tie, real side: the real RandomUDSServer behind the real UDSServerTransport.handle_request (and
TCPUDSServerTransport.handle_client on in-memory streams), fed request histories; every reply goes through the real
client-side acceptance test helpers.parse_pdu; every random draw of the handler call is recorded.

History items (JSON-able):
    {"adv": ticks, "pdu": hex}                              a request `adv` ticks of 0.25 s after the previous one
    {"adv": ticks, "key": [type, kind, suppress]}           SendKey whose key is derived from the previous reply:
                                                            kind = right | wrong | short | long
    optional "ctor": name of the gallia request class the PDU was built with (the object is rebuilt by `from_pdu`)
"""
import asyncio
import random
import types

from common import hx


class Clock:
    def __init__(self):
        self.t = 1000.0

    def __call__(self):
        return self.t


def run_sync(coro):
    try:
        coro.send(None)
    except StopIteration as e:
        return e.value
    coro.close()
    raise RuntimeError("handle_request suspended (not expected for RandomUDSServer)")


def fmt_state(s):
    return f"{s[0]} {'none' if s[1] is None else s[1]} {'none' if s[2] is None else str(s[2][0]) + ':' + hx(s[2][1])}"


def make_env(rng_seed):
    """import the repo under test, replace `server.time` by a scripted clock and `server.RNG` by a recording subclass
    (same streams; the unseeded `RNG()` of requestSeed is seeded from a per-server deterministic source)"""
    from common import setup_repo_import

    setup_repo_import()
    import gallia.services.uds.server as srv
    from gallia.services.uds import helpers
    from gallia.services.uds.core import exception, service
    from gallia.services.uds.core.constants import UDSIsoServices
    from gallia.transports import TargetURI

    clock = Clock()
    srv.time = clock  # `from time import time` in the server module
    srv.traceback = types.SimpleNamespace(print_exc=lambda *a, **k: None)
    base = srv.RNG
    while getattr(base, "_verif_patched", False):
        base = base.__mro__[1]
    env = {"srv": srv, "service": service, "helpers": helpers, "exception": exception, "TargetURI": TargetURI, "clock": clock,
           "UDSIsoServices": UDSIsoServices, "rec": [], "det": random.Random(f"C14-rng:{rng_seed}"), "rng_seed": rng_seed,
           "parse_cache": {}}
    rec = env["rec"]

    class RecRNG(base):
        _verif_patched = True

        def __init__(self, *args):
            self._in_payload = None
            if args:
                super().__init__(*args)
            else:  # `RNG()` in security_access: seeded from the OS in the original
                super().__init__("c14", env["det"].getrandbits(64))

        def random_bool(self, p_true):
            r = super().random_bool(p_true)
            rec.append(("bool", p_true, bool(r)))
            return r

        def randint(self, a, b):
            r = super().randint(a, b)
            if self._in_payload is not None:
                self._in_payload["draws"].append((a, b, r))
            else:
                rec.append(("int", a, b, r))
            return r

        def expovariate(self, lambd=1.0):
            r = super().expovariate(lambd)
            if self._in_payload is not None:
                self._in_payload["exp"].append((lambd, r))
            else:
                rec.append(("exp", lambd, r))
            return r

        def random_payload(self, *args, **kwargs):
            self._in_payload = {"draws": [], "exp": []}
            try:
                r = super().random_payload(*args, **kwargs)
            finally:
                info, self._in_payload = self._in_payload, None
            rec.append(("payload", args, dict(kwargs), info["exp"], info["draws"], bytes(r)))
            return r

    srv.RNG = RecRNG
    return env


def oracle_of(events):
    """recorded draws of one handler call -> the oracle fields of the Lean model (as protocol tokens) + problems"""
    problems = []
    bools = "".join("1" if e[2] else "0" for e in events if e[0] == "bool") or "-"
    pays = [e for e in events if e[0] == "payload"]
    ints = [e for e in events if e[0] == "int"]
    exps = [e for e in events if e[0] == "exp"]
    paylen, payhex = 0, "-"
    if pays:
        if len(pays) > 1:
            problems.append(f"{len(pays)} random_payload calls in one handler call")
        _, args, kwargs, pexp, draws, _result = pays[0]
        if len(pexp) != 1 or abs(pexp[0][0] - 1 / 8) > 1e-12:
            problems.append(f"random_payload drew expovariate {pexp}")
        else:
            paylen = int(pexp[0][1] + 0.5)
        if any((a, b) != (0, 255) for a, b, _ in draws):
            problems.append("random_payload draws outside randint(0, 255)")
        if kwargs.get("max_len") is not None or len(args) > 1:
            problems.append("random_payload called with max_len")
        payhex = hx(bytes(r & 0xFF for _, _, r in draws))
    byte, dtccount, dtcs = 0, 0, "-"
    if exps:
        if len(exps) > 1 or abs(exps[0][1] - 1 / 50) > 1e-12:
            problems.append(f"expovariate calls {[(e[1]) for e in exps]}")
        dtccount = int(exps[0][2] + 0.5)
        idx = events.index(exps[0])
        before = [e for e in events[:idx] if e[0] == "int"]
        after = [e for e in events[idx + 1:] if e[0] == "int"]
        if len(before) != 1 or (before[0][1], before[0][2]) != (0, 255):
            problems.append(f"draws before the DTC count: {before}")
        else:
            byte = before[0][3]
        d = [e[3] for e in after if (e[1], e[2]) == (0, 256 ** 3 - 1)]
        s = [e[3] for e in after if (e[1], e[2]) == (0, 255)]
        if len(d) != len(s) or len(d) + len(s) != len(after) or len(d) != dtccount:
            problems.append(f"DTC loop drew {len(d)} DTCs / {len(s)} status bytes / {len(after)} ints for count {dtccount}")
        dtcs = ",".join(f"{x}:{y}" for x, y in zip(d, s)) or "-"
    else:
        if len(ints) > 1 or any((e[1], e[2]) != (0, 255) for e in ints):
            problems.append(f"randint calls {[(e[1], e[2]) for e in ints]}")
        if ints:
            byte = ints[0][3] & 0xFF
    return f"{bools} {byte} {paylen} {payhex} {dtccount} {dtcs}", problems


class Real:
    """one real RandomUDSServer behind a real UDSServerTransport"""

    def __init__(self, env, seed, params):
        self.env = env
        srv = env["srv"]
        rp = srv.RandomUDSServer.RandomnessParameters(**params)
        self.server = srv.RandomUDSServer(seed, rp)
        self.server.randomize()
        self.transport = srv.UDSServerTransport(self.server, env["TargetURI"]("tcp-lines://127.0.0.1:1"))
        self.seed = seed
        self.params = params
        self.spec = self.model_spec()
        self.fresh()

    def fresh(self):
        """a new connection to a freshly started server: initial state, deterministic seed source"""
        self.server.state.reset()
        self.transport.last_time_active = self.env["clock"].t
        self.env["det"] = random.Random(f"C14-rng:{self.env['rng_seed']}:{self.seed}:{self.spec}")
        self.last_reply = None

    def model_spec(self):
        parts = []
        for sess, svcs in self.server.services.items():
            es = []
            for sid, sfs in svcs.items():
                if sfs is None:
                    v = "N"
                elif len(sfs) == 0:
                    v = "-"
                else:
                    v = ".".join(str(int(x)) for x in sfs)
                es.append(f"{int(sid)}={v}")
            parts.append(f"{int(sess)}:" + ",".join(es))
        return ";".join(parts) if parts else "-"

    def get_state(self):
        st = self.server.state
        sa = getattr(st, "last_sa_response", None)  # a state object without the attribute is the server's problem, not the observer's
        return (int(st.session), None if st.security_access_level is None else int(st.security_access_level),
                None if sa is None else (int(sa.security_access_type), bytes(sa.security_seed)))

    def set_state(self, s):
        st = self.server.state
        st.session, st.security_access_level = s[0], s[1]
        st.last_sa_response = None if s[2] is None else self.env["service"].SecurityAccessResponse(s[2][0], s[2][1])

    def parse(self, pdu):
        """(class name of UDSRequest.parse_dynamic(pdu), the object)"""
        c = self.env["parse_cache"]
        v = c.get(pdu)
        if v is None:
            try:
                v = self.env["service"].UDSRequest.parse_dynamic(pdu)
            except Exception as e:  # noqa: BLE001 - reported through the crash of handle_request on the same bytes
                v = type("ParseRaises" + type(e).__name__, (), {})()
            if len(c) < 300000:
                c[pdu] = v
        return v

    def pdu_of(self, item):
        """resolve a history item to request bytes (SendKey items depend on the previous reply)"""
        if "pdu" in item:
            return bytes.fromhex(item["pdu"])
        t, kind, sup = item["key"]
        last = self.last_reply
        seed = last[2:] if last is not None and len(last) >= 2 and last[0] == 0x67 else b""
        if kind == "right":
            key = seed
        elif kind == "wrong":
            key = bytes((seed[0] ^ 0xFF,)) + seed[1:] if seed else b"\x00"
        elif kind == "short":
            key = seed[:-1]
        else:
            key = seed + b"\x01"
        return bytes([0x27, (t & 0x7F) | (0x80 if sup else 0)]) + key

    def client(self, reply, pdu, ctor):
        """the real acceptance test, with the request object the real parser returns and (when the PDU came from one
        of gallia's request constructors) with an object of that class"""
        sv, ex, helpers = self.env["service"], self.env["exception"], self.env["helpers"]
        reqs = [self.parse(pdu)]
        if ctor is not None:
            try:
                reqs.append(getattr(sv, ctor).from_pdu(pdu))
            except Exception:
                pass
        verdict = "accepted"
        for r in reqs:
            try:
                helpers.parse_pdu(reply, r)
            except ex.RequestResponseMismatch:
                return "mismatch"
            except ex.MalformedResponse:
                return "malformed"
            except Exception as e:
                return "raised:" + type(e).__name__
        return verdict

    def well_formed(self, reply):
        try:
            return "1" if self.env["service"].UDSResponse.parse_dynamic(reply).pdu == reply else "0"
        except Exception:
            return "0"

    def step(self, item, force_pre=None):
        """handle one history item -> observation dict"""
        clock = self.env["clock"]
        rec = self.env["rec"]
        pdu = self.pdu_of(item)
        clock.t += item.get("adv", 1) * 0.25
        if force_pre is not None:
            self.set_state(force_pre)
        pre = self.get_state()
        dt = int(round((clock.t - self.transport.last_time_active) * 4))
        rec.clear()
        exc = None
        reply = None
        try:
            reply, _dt = run_sync(self.transport.handle_request(pdu))
        except AssertionError as e:
            exc = ("assertion", e)
        except IndexError as e:
            exc = ("index", e)
        except BaseException as e:  # noqa: BLE001 - the server must never raise, whatever it is
            exc = (type(e).__name__, e)
        events = list(rec)
        post = self.get_state()
        orc, problems = oracle_of(events)
        o = {"pdu": pdu, "pre": pre, "post": post, "dt": dt, "orc": orc, "orc_problems": problems, "reply": reply, "exc": None,
             "client": "-", "wf": "-", "session_ok": post[0] in self.server.services, "cls": type(self.parse(pdu)).__name__}
        if exc is not None:
            o["exc"] = f"{type(exc[1]).__name__}: {str(exc[1])[:160]}"
            o["impl"] = f"crash {exc[0]} {fmt_state(post)} client=- wf=-"
            self.last_reply = None
            return o
        self.last_reply = reply
        if reply is None:
            o["impl"] = f"ok {fmt_state(post)} none client=- wf=-"
            return o
        o["client"] = self.client(reply, pdu, item.get("ctor"))
        o["wf"] = self.well_formed(reply)
        o["impl"] = f"ok {fmt_state(post)} {hx(reply)} client={o['client']} wf={o['wf']}"
        return o

    def lean_line(self, o):
        return f"sreq {fmt_state(o['pre'])} {o['dt']} {hx(o['pdu'])} {o['orc']}"


def clauses_broken(o):
    """the property's own clauses, judged on the real run alone"""
    out = []
    if o["exc"] is not None:
        out.append(("raises", o["exc"].split(":")[0]))
        return out
    if not o["session_ok"]:
        out.append(("left-sessions", "session-not-offered"))
    if o["reply"] is not None:
        if o["client"] != "accepted":
            out.append(("client-refuses", o["client"]))
        if o["wf"] != "1":
            out.append(("reply-not-well-formed", "wf=0"))
    return out


async def drive_client_loop(real, items):
    """the same history through TCPUDSServerTransport.handle_client on in-memory streams: one line per request.
    -> (alive at the end, index of the request during which the connection was dropped | None, per-request reply
    lines (bytes | None), the exception the connection loop swallowed)"""
    from vloop import MemWriter

    S = real.env["srv"]
    caught = []
    orig_error = S.logger.error

    def spy(msg, *a, **k):
        caught.append(str(msg)[:200])

    S.logger.error = spy
    real.fresh()
    t = S.TCPUDSServerTransport(real.server, real.env["TargetURI"]("tcp-lines://127.0.0.1:20162"))
    t.last_time_active = real.env["clock"].t
    reader = asyncio.StreamReader()
    writer = MemWriter()
    task = asyncio.ensure_future(t.handle_client(reader, writer))
    dropped_at = None
    replies = []
    seen = 0
    try:
        for i, item in enumerate(items):
            pdu = real.pdu_of(item)
            real.env["clock"].t += item.get("adv", 1) * 0.25
            reader.feed_data(pdu.hex().encode() + b"\n")
            for _ in range(8):
                await asyncio.sleep(0)
            lines = writer.data.split(b"\n")[:-1]
            new = lines[seen:]
            seen = len(lines)
            rep = bytes.fromhex(new[0].decode()) if new else None
            replies.append(rep)
            real.last_reply = rep
            if task.done() and dropped_at is None:
                dropped_at = i
                break
        alive = not task.done()
        reader.feed_eof()
        try:
            await asyncio.wait_for(task, 1.0)
        except BaseException:  # noqa: BLE001
            pass
    finally:
        S.logger.error = orig_error
    return alive, dropped_at, replies, caught
