"""C14 tie: the real RandomUDSServer behind UDSServerTransport.handle_request / handle_client, fed arbitrary request
histories; every reply goes through the real client-side acceptance test helpers.parse_pdu.

run_model(seed, params, history) -> list of per-request observations
  {"req": hex, "reply": hex|None, "exc": name|None, "session_ok": bool, "client": "accepted"|"suppressed"|<exception name>}
"""
import asyncio
import types


def structured_requests(rng, srv):
    """mostly valid requests built from gallia's own request classes, aimed at what this model offers"""
    from gallia.services.uds.core import service as s

    sessions = sorted(srv.services.keys())
    out = []

    def did():
        return rng.choice([0xF186, 0xF190, 0x0000, 0xFFFF, rng.randrange(0x10000)])

    makers = [
        lambda: s.DiagnosticSessionControlRequest(rng.choice(sessions + [rng.randrange(1, 0x7F)]), rng.random() < 0.3),
        lambda: s.ECUResetRequest(rng.choice([1, 2, 3, 4, 5, rng.randrange(1, 0x7F)]), rng.random() < 0.3),
        lambda: s.RequestSeedRequest(rng.choice([1, 3, 5, 0x11, 0x7D]), rng.choice([b"", b"\x01\x02"]), rng.random() < 0.2),
        lambda: s.TesterPresentRequest(rng.random() < 0.4),
        lambda: s.ReadDataByIdentifierRequest(did()),
        lambda: s.ReadDataByIdentifierRequest([did() for _ in range(rng.randint(2, 5))]),
        lambda: s.WriteDataByIdentifierRequest(did(), bytes(rng.randrange(256) for _ in range(rng.randint(1, 20)))),
        lambda: s.StartRoutineRequest(did(), rng.choice([b"", b"\x00", b"\xde\xad\xbe\xef"]), rng.random() < 0.2),
        lambda: s.StopRoutineRequest(did(), b"", rng.random() < 0.2),
        lambda: s.RequestRoutineResultsRequest(did(), b"", rng.random() < 0.2),
        lambda: s.ReturnControlToECURequest(did()),
        lambda: s.ShortTermAdjustmentRequest(did(), b"\x01", b""),
        lambda: s.ClearDiagnosticInformationRequest(rng.choice([0xFFFFFF, 0, rng.randrange(1 << 24)])),
        lambda: s.ReportDTCByStatusMaskRequest(rng.randrange(256), rng.random() < 0.2),
        lambda: s.ReportNumberOfDTCByStatusMaskRequest(rng.randrange(256)),
        lambda: s.CommunicationControlRequest(rng.choice([0, 1, 2, 3]), rng.choice([1, 2, 3]), rng.random() < 0.3),
        lambda: s.ControlDTCSettingRequest(rng.choice([1, 2]), b"", rng.random() < 0.3),
        lambda: s.ReadMemoryByAddressRequest(rng.randrange(1 << 16), rng.randint(1, 64)),
        lambda: s.RequestTransferExitRequest(b""),
        lambda: s.TransferDataRequest(rng.randrange(256), b"\x00\x01"),
    ]
    for _ in range(rng.randint(3, 10)):
        try:
            out.append(rng.choice(makers)().pdu)
        except Exception:
            pass
    return out


def history(rng, srv, n, exhaustive_sid=None):
    """request PDUs; `key` items are filled in from the previous reply by the runner"""
    h = []
    sessions = sorted(srv.services.keys())
    while len(h) < n:
        r = rng.random()
        if r < 0.25:
            h.append(bytes(rng.randrange(256) for _ in range(rng.randint(1, 9))))
        elif r < 0.45:
            sid = rng.randrange(256) if exhaustive_sid is None else exhaustive_sid
            h.append(bytes([sid]) + bytes(rng.randrange(256) for _ in range(rng.randint(0, 8))))
        elif r < 0.55:
            h.append(bytes([0x10, rng.choice(sessions)]))
        elif r < 0.63:
            lvl = rng.choice([1, 3, 5, 0x11, 0x41])
            h.append(bytes([0x27, lvl]))
            if rng.random() < 0.5:
                h.append(b"\x3e\x00")
            h.append(("key", lvl + 1, rng.choice(["right", "right", "wrong", "short"])))
        else:
            h.extend(structured_requests(rng, srv))
    return h[: n + 4]


async def drive(srv, hist, clock=None):
    """through UDSServerTransport.handle_request; returns observations"""
    from gallia.services.uds import helpers
    from gallia.services.uds.core import service
    from gallia.services.uds.server import UDSServerTransport
    from gallia.transports.base import TargetURI

    tr = UDSServerTransport(srv, TargetURI("fake://srv"))
    obs = []
    last = None
    for item in hist:
        if isinstance(item, tuple):
            seed = last[2:] if last is not None and len(last) >= 2 and last[0] == 0x67 else b"\x00"
            key = seed if item[2] == "right" else (bytes(len(seed)) + b"\x01" if item[2] == "wrong" else seed[:-1])
            pdu = bytes([0x27, item[1]]) + key
        else:
            pdu = item
        o = {"req": pdu.hex(), "reply": None, "exc": None, "session_ok": True, "client": None}
        try:
            reply, _t = await tr.handle_request(pdu)
        except BaseException as e:  # the server must never raise
            o["exc"] = type(e).__name__ + ": " + str(e)[:120]
            obs.append(o)
            last = None
            continue
        o["session_ok"] = srv.state.session in srv.services
        if reply is None:
            o["client"] = "suppressed"
            last = None
        else:
            o["reply"] = reply.hex()
            last = reply
            try:
                req_obj = service.UDSRequest.parse_dynamic(pdu)
                helpers.parse_pdu(reply, req_obj)
                o["client"] = "accepted"
            except BaseException as e:
                o["client"] = type(e).__name__
        obs.append(o)
    return obs


async def drive_client_loop(srv, pdus):
    """through TCPUDSServerTransport.handle_client on in-memory streams: does the connection survive?"""
    import gallia.services.uds.server as S
    from gallia.transports.base import TargetURI

    from vloop import MemWriter

    S.traceback = types.SimpleNamespace(print_exc=lambda *a, **k: None)
    t = S.TCPUDSServerTransport(srv, TargetURI("tcp-lines://127.0.0.1:20162"))
    reader = asyncio.StreamReader()
    writer = MemWriter()
    task = asyncio.ensure_future(t.handle_client(reader, writer))
    answered_before_close = None
    for i, p in enumerate(pdus):
        reader.feed_data(p.hex().encode() + b"\n")
        for _ in range(6):
            await asyncio.sleep(0)
        if task.done() and answered_before_close is None:
            answered_before_close = i
    alive = not task.done()
    reader.feed_eof()
    try:
        await asyncio.wait_for(task, 1.0)
    except BaseException:
        pass
    return alive, answered_before_close, writer.data.count(b"\n")
