"""Virtual-time asyncio event loop (DESIGN.md section 2, appendix A.3).

When nothing is ready the clock jumps to the next timer.  If nothing is ready, no timer is pending and no
external (thread) operation is in flight, the loop raises Stall - that is how "blocks forever" is observed.
While external operations are in flight (aiosqlite worker thread, run_in_executor) the loop blocks in the real
selector instead of jumping the clock.
"""
import asyncio
import heapq
import selectors
import threading


class Stall(RuntimeError):
    pass


class VLoop(asyncio.SelectorEventLoop):
    def __init__(self):
        super().__init__(selectors.SelectSelector())
        self._vt = 0.0
        self._ext = 0
        self._ext_lock = threading.Lock()
        self.horizon = None  # optional virtual-time horizon; exceeding it raises Stall

    def time(self):
        return self._vt

    # external operations (threads) --------------------------------------------------------------
    def ext_begin(self):
        with self._ext_lock:
            self._ext += 1

    def ext_end(self):
        with self._ext_lock:
            self._ext -= 1

    def run_in_executor(self, executor, func, *args):
        self.ext_begin()
        fut = super().run_in_executor(executor, func, *args)
        fut.add_done_callback(lambda _f: self.ext_end())
        return fut

    def _run_once(self):
        while self._scheduled and self._scheduled[0]._cancelled:
            h = heapq.heappop(self._scheduled)
            h._scheduled = False
            self._timer_cancelled_count = max(0, self._timer_cancelled_count - 1)
        if not self._ready:
            if self._ext > 0:
                # wait in real time for the thread to call back; do not move the virtual clock
                event_list = self._selector.select(0.05)
                self._process_events(event_list)
                if not self._ready:
                    return
            elif self._scheduled:
                when = self._scheduled[0]._when
                if when > self._vt:
                    if self.horizon is not None and when > self.horizon:
                        raise Stall(f"virtual-time horizon {self.horizon} exceeded")
                    self._vt = when
            else:
                # is there really nothing? give the selector one non-blocking look (self-pipe wakeups)
                event_list = self._selector.select(0)
                self._process_events(event_list)
                if not self._ready:
                    raise Stall("nothing ready, no timers: the awaited operation blocks forever")
        super()._run_once()


def vrun(coro, horizon=None):
    """run `coro` to completion under virtual time; returns (result, virtual_seconds)"""
    loop = VLoop()
    loop.horizon = horizon
    try:
        asyncio.set_event_loop(loop)
        res = loop.run_until_complete(coro)
        return res, loop.time()
    finally:
        try:
            # cancel leftovers quietly
            for t in asyncio.all_tasks(loop):
                t.cancel()
            loop.run_until_complete(asyncio.sleep(0))
        except BaseException:
            pass
        asyncio.set_event_loop(None)
        loop.close()


class MemWriter:
    """stands in for asyncio.StreamWriter: records what is written, with virtual timestamps"""

    def __init__(self, on_write=None):
        self.chunks = []
        self.closed = False
        self.on_write = on_write
        self.fail_with = None  # exception instance to raise from write/drain

    def write(self, data):
        if self.fail_with is not None:
            raise self.fail_with
        if self.closed:
            raise ConnectionResetError("write on closed writer")
        t = asyncio.get_event_loop().time()
        self.chunks.append((t, bytes(data)))
        if self.on_write:
            self.on_write(bytes(data))

    async def drain(self):
        if self.fail_with is not None:
            raise self.fail_with
        await asyncio.sleep(0)

    def close(self):
        self.closed = True

    async def wait_closed(self):
        await asyncio.sleep(0)

    def is_closing(self):
        return self.closed

    def get_extra_info(self, name, default=None):
        return default

    @property
    def data(self):
        return b"".join(c for _, c in self.chunks)


_aiosqlite_patched = False


def patch_aiosqlite():
    """make aiosqlite's worker-thread round trips visible to VLoop (no clock jump / stall while one is in flight)"""
    global _aiosqlite_patched
    if _aiosqlite_patched:
        return
    import aiosqlite.core as core

    def bracket(orig):
        async def wrapped(self, *a, **k):
            loop = asyncio.get_event_loop()
            if isinstance(loop, VLoop):
                loop.ext_begin()
                try:
                    return await orig(self, *a, **k)
                finally:
                    loop.ext_end()
            return await orig(self, *a, **k)

        return wrapped

    core.Connection._execute = bracket(core.Connection._execute)
    core.Connection._connect = bracket(core.Connection._connect)
    core.Connection.close = bracket(core.Connection.close)
    _aiosqlite_patched = True
