"""Virtual-time asyncio event loop (DESIGN.md section 2, appendix A.3).

When nothing is ready the clock jumps to the next timer.  If nothing is ready, no timer is pending and no
external (thread) operation is in flight, the loop raises Stall - that is how "blocks forever" is observed.
While external operations are in flight (aiosqlite worker thread, run_in_executor) the loop blocks in the real
selector instead of jumping the clock.
"""
import asyncio
import heapq
import os
import selectors
import signal
import threading
import time as _time


class Stall(RuntimeError):
    pass


class Spin(BaseException):
    """one callback of the loop (a task step) ran for `spin_limit` wall-clock seconds without returning to the event
    loop: the code under test is in a busy loop that never suspends (awaits that complete immediately, forever).
    A BaseException, so that no `except Exception` of the code under test swallows it."""


SPIN_LIMIT = float(os.environ.get("VLOOP_SPIN_LIMIT", "20"))


_spins = 0  # busy loops seen in this process so far


def spin_limit_now():
    """the first busy loop of a process is given SPIN_LIMIT seconds (no false alarm on a loaded machine); once one has
    been seen, further ones are cut after 0.5 s (a spinning task leaks timer handles: the loop never gets to purge them)"""
    return SPIN_LIMIT if _spins == 0 else min(SPIN_LIMIT, 0.5)


_iter_cpu0 = 0.0  # process CPU time at the start of the current loop iteration


def _on_alarm(signum, frame):
    global _spins
    lim = spin_limit_now()
    # a busy loop burns CPU; a process that merely was not scheduled (loaded machine) or sits in a blocking call has used
    # little CPU time since the iteration began: no alarm then, the repeating timer asks again
    if _time.process_time() - _iter_cpu0 < 0.7 * lim:
        return
    _spins += 1
    raise Spin(f"no return to the event loop for {lim} s of wall-clock time (busy loop)")


class VLoop(asyncio.SelectorEventLoop):
    def __init__(self):
        super().__init__(selectors.SelectSelector())
        self._vt = 0.0
        self._ext = 0
        self._ext_lock = threading.Lock()
        self.horizon = None  # optional virtual-time horizon; exceeding it raises Stall
        # livelock watchdog (opt-in): wall-clock seconds the loop may keep iterating at one virtual instant (tasks that
        # keep yielding to the loop without ever waiting for a timer or I/O); None = off (a whole scan against an
        # in-process ECU legitimately runs at one virtual instant)
        self.livelock_limit = None
        self._vt_wall = _time.monotonic()
        # busy-loop watchdog: re-armed on every iteration, fires when a single iteration takes SPIN_LIMIT wall seconds
        self._spin = False
        if SPIN_LIMIT > 0 and threading.current_thread() is threading.main_thread():
            try:
                signal.signal(signal.SIGALRM, _on_alarm)
                self._spin = True
            except (ValueError, OSError):
                self._spin = False

    def close(self):
        if self._spin:
            signal.setitimer(signal.ITIMER_REAL, 0)
        super().close()

    def run_until_complete(self, future):
        try:
            return super().run_until_complete(future)
        finally:
            if self._spin:  # the watchdog is armed only while the loop runs
                signal.setitimer(signal.ITIMER_REAL, 0)

    def time(self):
        return self._vt

    # external operations (threads) --------------------------------------------------------------
    def ext_begin(self):
        with self._ext_lock:
            self._ext += 1

    def ext_end(self):
        with self._ext_lock:
            self._ext -= 1

    def run_in_executor(self, executor, func, *args):
        self.ext_begin()
        fut = super().run_in_executor(executor, func, *args)
        fut.add_done_callback(lambda _f: self.ext_end())
        return fut

    def _run_once(self):
        if self._spin:
            global _iter_cpu0
            _iter_cpu0 = _time.process_time()
            # repeating: an exception raised by the handler inside a weakref callback / __del__ / the garbage collector
            # is swallowed by the interpreter ("Exception ignored in ..."); the next tick raises it again
            signal.setitimer(signal.ITIMER_REAL, spin_limit_now(), 0.2)
        if self.livelock_limit is not None:
            if self._ext > 0:
                self._vt_wall = _time.monotonic()
            elif _time.monotonic() - self._vt_wall > min(self.livelock_limit, spin_limit_now()):
                global _spins
                _spins += 1
                raise Spin(f"the loop keeps iterating at virtual time {self._vt} without ever waiting (livelock)")
        while self._scheduled and self._scheduled[0]._cancelled:
            h = heapq.heappop(self._scheduled)
            h._scheduled = False
            self._timer_cancelled_count = max(0, self._timer_cancelled_count - 1)
        if not self._ready:
            if self._ext > 0:
                # wait in real time for the thread to call back; do not move the virtual clock
                event_list = self._selector.select(0.05)
                self._process_events(event_list)
                if not self._ready:
                    return
            elif self._scheduled:
                when = self._scheduled[0]._when
                if when > self._vt:
                    if self.horizon is not None and when > self.horizon:
                        raise Stall(f"virtual-time horizon {self.horizon} exceeded")
                    self._vt = when
                    self._vt_wall = _time.monotonic()
            else:
                # is there really nothing? give the selector one non-blocking look (self-pipe wakeups)
                event_list = self._selector.select(0)
                self._process_events(event_list)
                if not self._ready:
                    raise Stall("nothing ready, no timers: the awaited operation blocks forever")
        super()._run_once()


def vrun(coro, horizon=None, livelock=None):
    """run `coro` to completion under virtual time; returns (result, virtual_seconds)"""
    loop = VLoop()
    loop.horizon = horizon
    loop.livelock_limit = livelock
    try:
        asyncio.set_event_loop(loop)
        res = loop.run_until_complete(coro)
        return res, loop.time()
    finally:
        try:
            # cancel leftovers quietly
            for t in asyncio.all_tasks(loop):
                t.cancel()
            loop.run_until_complete(asyncio.sleep(0))
        except BaseException:
            pass
        asyncio.set_event_loop(None)
        loop.close()


class MemWriter:
    """stands in for asyncio.StreamWriter: records what is written, with virtual timestamps"""

    def __init__(self, on_write=None):
        self.chunks = []
        self.closed = False
        self.on_write = on_write
        self.fail_with = None  # exception instance to raise from write/drain

    def write(self, data):
        if self.fail_with is not None:
            raise self.fail_with
        if self.closed:
            raise ConnectionResetError("write on closed writer")
        t = asyncio.get_event_loop().time()
        self.chunks.append((t, bytes(data)))
        if self.on_write:
            self.on_write(bytes(data))

    async def drain(self):
        if self.fail_with is not None:
            raise self.fail_with
        await asyncio.sleep(0)

    def close(self):
        self.closed = True

    async def wait_closed(self):
        await asyncio.sleep(0)

    def is_closing(self):
        return self.closed

    def get_extra_info(self, name, default=None):
        return default

    @property
    def data(self):
        return b"".join(c for _, c in self.chunks)


_aiosqlite_patched = False


def patch_aiosqlite():
    """make aiosqlite's worker-thread round trips visible to VLoop (no clock jump / stall while one is in flight)"""
    global _aiosqlite_patched
    if _aiosqlite_patched:
        return
    import aiosqlite.core as core

    def bracket(orig):
        async def wrapped(self, *a, **k):
            loop = asyncio.get_event_loop()
            if isinstance(loop, VLoop):
                loop.ext_begin()
                try:
                    return await orig(self, *a, **k)
                finally:
                    loop.ext_end()
            return await orig(self, *a, **k)

        return wrapped

    core.Connection._execute = bracket(core.Connection._execute)
    core.Connection._connect = bracket(core.Connection._connect)
    core.Connection.close = bracket(core.Connection.close)
    _aiosqlite_patched = True
