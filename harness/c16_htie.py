"""C16 handler layer: the real request handlers of RandomUDSServer against Model/VEcuRng.lean.

(A)  AST obligations: the table of RNG objects / seed expressions / free names / draw calls per handler reachable from
     `respond_after_default` and the source text of `stateful_rng` / `RNG` (gen/c16_handlers.py, recomputed from the live code)
     must be the table the model was written against (driver `h sources`); a difference names the handler.
(H)  recorded draws: `RNG` is replaced by a recording subclass of itself (every seeding: the text handed to
     `random.Random.seed`; every top-level method call: kind, arguments, result); `respond_after_default` and `update_state` of
     the server instance are wrapped.  For every handler call the model gets the server seed, the three handler
     probabilities, the state before, the typed request and - as its oracle - the recorded results keyed by seed text; it must
     produce the same answer bytes, the same state after, and the same trace: the same seed texts in the same order, each with
     the same kinds of calls (so a draw the model does not know, an RNG seeded with another text, or an RNG object the
     table does not list is a broken tie).  The state of the process-global `random` module is compared before / after every
     handler call.
"""
import asyncio
import random as _random
import struct
import sys
from pathlib import Path

import c16_transcript as T

import importlib.util

_spec = importlib.util.spec_from_file_location("c16_gen_handlers", str(Path(__file__).resolve().parent.parent / "gen" / "c16_handlers.py"))
GEN = importlib.util.module_from_spec(_spec)
_spec.loader.exec_module(GEN)


def fbits(x: float) -> int:
    return struct.unpack("<Q", struct.pack("<d", x))[0]


def hextext(t):
    if t is None:
        return "-"
    b = t.encode() if isinstance(t, str) else repr(t).encode()
    return b.hex() if b else "-"


def make_recording_rng(base, log):
    """a subclass of the real RNG: same seeding code, same draws; records seedings and top-level method calls"""

    class TraceRNG(base):
        _depth = 0

        def seed(self, a=None, version=2):
            super().seed(a, version)
            self._seg = {"text": a, "calls": [], "vals": []}
            log.append(self._seg)

        def _rec(self, kind, val):
            if self._depth == 0:
                self._seg["calls"].append(kind)
                self._seg["vals"].append(val)

        def random(self):
            v = super().random()
            if self._depth == 0:
                self._rec("R", fbits(v))
            return v

        def expovariate(self, lambd=1.0):
            self._depth += 1
            try:
                v = super().expovariate(lambd)
            finally:
                self._depth -= 1
            mean = round(1 / lambd)
            self._rec(f"E{mean}" if 1 / mean == lambd else f"E?{lambd!r}", fbits(v))
            return v

        def randint(self, a, b):
            self._depth += 1
            try:
                v = super().randint(a, b)
            finally:
                self._depth -= 1
            self._rec(f"I{a}-{b}", v)
            return v

        def _other(self, name, *args, **kw):
            self._depth += 1
            try:
                v = getattr(super(), name)(*args, **kw)
            finally:
                self._depth -= 1
            self._rec(f"?{name}", 0)
            return v

        def getrandbits(self, k):
            if self._depth == 0:
                self._rec(f"?getrandbits{k}", 0)
            return super().getrandbits(k)

        def choice(self, seq):
            return self._other("choice", seq)

        def randrange(self, *a, **kw):
            return self._other("randrange", *a, **kw)

        def uniform(self, a, b):
            return self._other("uniform", a, b)

        def randbytes(self, n):
            return self._other("randbytes", n)

        def gauss(self, *a, **kw):
            return self._other("gauss", *a, **kw)

        def shuffle(self, x):
            return self._other("shuffle", x)

        def sample(self, *a, **kw):
            return self._other("sample", *a, **kw)

    return TraceRNG


def typed_request(service, req):
    """-> (kind, pdu hex | '-', a, b) as the driver's `h req` takes it; mirrors the isinstance ladder of respond_after_default"""
    pdu = bytes(req.pdu).hex() or "-"
    if isinstance(req, service.ECUResetRequest):
        return ("ecureset", pdu, int(req.reset_type), 0)
    if isinstance(req, service.RequestSeedRequest):
        return ("requestseed", "-", int(req.security_access_type), 0)
    if isinstance(req, service.SendKeyRequest):
        return ("sendkey", bytes(req.security_key).hex() or "-", int(req.security_access_type), 0)
    if isinstance(req, service.RoutineControlRequest):
        return ("routine", pdu, int(req.routine_identifier), int(req.sub_function))
    if isinstance(req, service.ReadDataByIdentifierRequest):
        return ("rdbi", pdu, int(req.data_identifier), 0)
    if isinstance(req, service.WriteDataByIdentifierRequest):
        return ("wdbi", pdu, int(req.data_identifier), 0)
    if isinstance(req, service.InputOutputControlByIdentifierRequest):
        return ("ioctl", pdu, int(req.data_identifier), 0)
    if isinstance(req, service.ClearDiagnosticInformationRequest):
        return ("cleardtc", "-", int(req.group_of_dtc), 0)
    if req.service_id == 0x19:
        if isinstance(req, service.ReportDTCByStatusMaskRequest):
            return ("dtcmask", "-", int(req.dtc_status_mask), 0)
        return ("dtcother", "-", 0, 0)
    return ("other", "-", int(req.service_id), 0)


def canon_reply(resp):
    """the answer bytes of a handler, in the driver's reply syntax"""
    if resp is None:
        return "none"
    if isinstance(resp, BaseException):
        return "EXC:" + type(resp).__name__
    try:
        p = bytes(resp.pdu)
    except Exception as e:  # noqa: BLE001
        return "EXC-pdu:" + type(e).__name__
    h = lambda b: b.hex() or "-"  # noqa: E731
    if p[0] == 0x7F and len(p) == 3:
        return f"neg,{p[1]},{p[2]}"
    if p[0] == 0x51 and len(p) in (2, 3):
        return f"ecureset,{p[1]},{p[2] if len(p) == 3 else '-'}"
    if p[0] == 0x67 and len(p) >= 2:
        return f"saseed,{p[1]},{h(p[2:])}" if p[1] % 2 == 1 else (f"sakey,{p[1]}" if len(p) == 2 else f"sakey?,{h(p)}")
    if p[0] == 0x71 and len(p) >= 4:
        return f"routine,{p[1]},{int.from_bytes(p[2:4], 'big')},{h(p[4:])}"
    if p[0] == 0x62 and len(p) >= 3:
        return f"rdbi,{int.from_bytes(p[1:3], 'big')},{h(p[3:])}"
    if p[0] == 0x6E and len(p) == 3:
        return f"wdbi,{int.from_bytes(p[1:3], 'big')}"
    if p[0] == 0x6F and len(p) >= 3:
        return f"ioctl,{int.from_bytes(p[1:3], 'big')},{h(p[3:])}"
    if p[0] == 0x54 and len(p) == 1:
        return "cleardtc"
    if p[0] == 0x59 and len(p) >= 3 and p[1] == 0x02 and (len(p) - 3) % 4 == 0:
        recs = [f"{int.from_bytes(p[i:i + 3], 'big')}={p[i + 3]}" for i in range(3, len(p), 4)]
        return f"dtcs,{p[2]}," + ".".join(recs)
    return "chain," + h(p)


def state_of(srv):
    sa = srv.state.last_sa_response
    return (int(srv.state.session),
            "-" if sa is None else f"{int(sa.security_access_type)}:{bytes(sa.security_seed).hex() or '-'}")


def update_kind(service, resp):
    if isinstance(resp, service.DiagnosticSessionControlResponse):
        return ("dsc", int(resp.diagnostic_session_type), "-")
    if isinstance(resp, service.ECUResetResponse):
        return ("ecureset", int(resp.reset_type), "-")
    if isinstance(resp, service.TesterPresentResponse):
        return ("tp", 0, "-")
    if isinstance(resp, service.SecurityAccessResponse):
        t = int(resp.security_access_type)
        return ("saseed", t, bytes(resp.security_seed).hex() or "-") if t % 2 == 1 else ("sakey", t, "-")
    return ("other", 0, "-")


class Tap:
    """wraps one server instance; collects one record per handler call / update_state call"""

    def __init__(self, S, srv, log, tag):
        self.S, self.srv, self.log, self.tag = S, srv, log, tag
        self.calls = []
        self.updates = []
        from gallia.services.uds.core import service

        self.service = service
        orig_rad = srv.respond_after_default
        orig_upd = srv.update_state

        async def rad(request):
            before = state_of(srv)
            del log[:]
            g0 = _random.getstate()
            try:
                resp = await orig_rad(request)
            except Exception as e:  # noqa: BLE001
                resp = e
            rec = {"tag": tag, "req": typed_request(service, request), "raw": bytes(request.pdu).hex(), "before": before,
                   "after": state_of(srv), "reply": canon_reply(resp), "global_random_touched": _random.getstate() != g0,
                   "segs": [dict(s) for s in log if not (s["text"] is None and not s["calls"])]}
            self.calls.append(rec)
            if isinstance(resp, BaseException):
                raise resp
            return resp

        async def upd(request, response):
            before = state_of(srv)
            await orig_upd(request, response)
            self.updates.append({"tag": tag, "before": before, "after": state_of(srv), "kind": update_kind(service, response),
                                 "raw": bytes(request.pdu).hex()})

        srv.respond_after_default = rad
        srv.update_state = upd


def cfg_line(srv):
    P = srv.randomness_parameters
    return f"h cfg {int(srv.seed)} {fbits(float(P.p_identifier))} {fbits(float(P.p_correct_payload_format))} {fbits(float(P.p_dtc_status_mask))}"


DIRECT_REQUESTS = [
    # bytes that exercise str(bytes): quotes, backslash, control characters, high bytes
    "1101", "1102", "1103", "1104", "1184", "1144", "110a",
    "2701", "2703", "2711", "277d",
    "3101ff00", "310127225c", "31020a0d09", "3103007f80ff", "31010000", "3181ff00", "31015c27", "310100002722",
    "22f190", "222722", "225c0a", "220000", "22ffff", "22f186",
    "2ef19000", "2e27225c0a", "2e0001", "2e00012727", "2e000122", "2e5c5c5c5c", "2ef1900102030405",
    "2ff19003", "2f27220300", "2f0001ff", "2f7f8081",
    "14ffffff", "14000000", "14272200",
    "1902ff", "190200", "190227", "19025c", "190a", "1901ff", "1906000000ff",
    "3e00", "85", "2800",
]


async def _direct(S, srv, tap, sessions, sa_states, reqs):
    from gallia.services.uds.core import service

    for sess in sessions:
        for sa in sa_states:
            for h in reqs:
                try:
                    req = service.UDSRequest.parse_dynamic(bytes.fromhex(h))
                except Exception:  # noqa: BLE001
                    continue
                if isinstance(req, service.RawRequest) and req.service_id != 0x19:
                    continue
                srv.state.session = sess
                srv.state.last_sa_response = None if sa is None else service.SecurityAccessResponse(sa[0], bytes.fromhex(sa[1]))
                try:
                    await srv.respond_after_default(req)
                except Exception:  # noqa: BLE001  (recorded by the tap)
                    pass


def collect(S, base_rng, jobs):
    """jobs: ("history", cfg) | ("direct", seed, params, sessions, sa_states, requests) -> (servers, call records, update records)"""
    log = []
    S.RNG = make_recording_rng(base_rng, log)
    S.time = T.Clock(1.0e6)
    cfg_lines, calls, updates = [], [], []
    loop = asyncio.new_event_loop()
    try:
        for k, job in enumerate(jobs):
            try:
                if job[0] == "history":
                    cfg = job[1]
                    P = S.RandomUDSServer.RandomnessParameters(**cfg["params"])
                    srv = S.RandomUDSServer(cfg["seed"], P)
                    loop.run_until_complete(srv.setup())
                    tap = Tap(S, srv, log, k)
                    loop.run_until_complete(T._run_history(S, srv, cfg["history"]))
                else:
                    _, seed, params, sessions, sa_states, reqs = job
                    P = S.RandomUDSServer.RandomnessParameters(**params)
                    srv = S.RandomUDSServer(seed, P)
                    tap = Tap(S, srv, log, k)
                    loop.run_until_complete(_direct(S, srv, tap, sessions, sa_states, reqs))
            except Exception:  # noqa: BLE001  (a server that cannot be built is C1's / C2's business)
                cfg_lines.append(None)
                continue
            cfg_lines.append(cfg_line(srv))
            calls += tap.calls
            updates += tap.updates
    finally:
        loop.close()
        S.RNG = base_rng
        S.time = __import__("time").time
    return cfg_lines, calls, updates


def trace_text(segs):
    return ";".join(hextext(s["text"]) + ":" + ",".join(s["calls"]) for s in segs)


def model_lines_for_call(rec):
    lines = ["h clear"]
    for s in rec["segs"]:
        if s["vals"]:
            lines.append(f"h rng {hextext(s['text'])} {','.join(str(v) for v in s['vals'])}")
    sess, sa = rec["before"]
    t, sd = ("-", "-") if sa == "-" else sa.split(":")
    lines.append(f"h state {sess} {t} {sd}")
    kind, pdu, a, b = rec["req"]
    lines.append(f"h req {kind} {pdu} {a} {b}")
    return lines


def parse_sources(text):
    out = {}
    for part in text.split(" @@ "):
        k, _, v = part.partition("=")
        if k == "handlers":
            out[k] = [x for x in v.split(" ;; ") if x]
        else:
            d = {}
            for row in v.split(" ## "):
                name, _, items = row.partition(" :: ")
                d[name] = [x for x in items.split(" ;; ") if x] if items else []
            out[k] = d
    return out


def check_ast(ctx, S):
    """(A) the regenerated handler table against the one the model declares"""
    got = GEN.tables(S)
    decl = parse_sources(ctx.lean(["h sources"])[0])
    ctx.notes["handler_ast"] = {"handlers": got["handlers"], "rng_sources": got["sources"], "draw_calls": got["draws"]}
    case = {"kind": "ast", "env": None, "configs": []}
    if got["handlers"] != decl["handlers"]:
        ctx.disagree("ast:handlers", "respond_after_default dispatches to other handlers than the modelled ones", case,
                     impl=got["handlers"], model=decl["handlers"], spec_violated=False, site="RandomUDSServer.respond_after_default")
    for h in got["handlers"]:
        for key, what, dk in (("sources", "creates / seeds its RNG objects from other expressions than the modelled ones", "sources"),
                              ("free", "reads other global names / server attributes than the modelled handler "
                                       "(a source of variation outside seed, state and request?)", "free"),
                              ("draws", "calls other methods on its RNG objects than the modelled ones", "draws")):
            ctx.ev()
            if got[key].get(h) != decl[dk].get(h):
                ctx.disagree(f"ast:{key}:{h}", f"handler {h} {what}", case, impl=got[key].get(h), model=decl[dk].get(h),
                             spec_violated=False, site=f"RandomUDSServer.{h}")
    for k, v in got["texts"].items():
        ctx.ev()
        if [v] != decl["texts"].get(k):
            ctx.disagree(f"ast:text:{k}", f"the seeding code {k} is not the code the model was written against", case, impl=v,
                         model=decl["texts"].get(k), spec_violated=False, site=k)


def check_calls(ctx, cfg_lines, calls, updates, jobs):
    """(H) every recorded handler call / update_state call against the model"""
    lines, index = [], []
    cur = None
    for rec in calls:
        if cfg_lines[rec["tag"]] is None:
            continue
        if cur != rec["tag"]:
            lines.append(cfg_lines[rec["tag"]])
            cur = rec["tag"]
        ml = model_lines_for_call(rec)
        lines += ml
        index.append((len(lines) - 1, rec))
    uindex = []
    for u in updates:
        sess, sa = u["before"]
        t, sd = ("-", "-") if sa == "-" else sa.split(":")
        lines.append(f"h state {sess} {t} {sd}")
        lines.append(f"h update {u['kind'][0]} {u['kind'][1]} {u['kind'][2]}")
        uindex.append((len(lines) - 1, u))
    out = ctx.lean(lines) if lines else []
    n_pos = 0
    for i, rec in index:
        ctx.ev()
        ctx.traces_validated += 1
        hname = {"ecureset": "ecu_reset", "requestseed": "security_access", "sendkey": "security_access", "routine": "routine_control",
                 "rdbi": "read_data_by_identifier", "wdbi": "write_data_by_identifier", "ioctl": "input_output_control_by_identifier",
                 "cleardtc": "clear_diagnostic_information", "dtcmask": "read_dtc_information", "dtcother": "read_dtc_information",
                 "other": "-"}[rec["req"][0]]
        positive = not rec["reply"].startswith(("neg", "none", "EXC"))
        n_pos += positive
        ctx.kind(f"handler:{hname}:{'positive' if positive else 'negative'}")
        if positive:
            ctx.nontrivial(("h", rec["tag"], rec["raw"], rec["before"]))
        impl = f"reply={rec['reply']} session={rec['after'][0]} sa={rec['after'][1]} trace={trace_text(rec['segs'])}"
        job = jobs[rec["tag"]]
        # minimised: the handler call alone on a fresh server - (seed, handler parameters, session, pending answer, request)
        jseed, jparams = (job[1], job[2]) if job[0] == "direct" else (job[1]["seed"], job[1]["params"])
        sa_b = None if rec["before"][1] == "-" else [int(rec["before"][1].split(":")[0]), rec["before"][1].split(":")[1].replace("-", "")]
        case = {"kind": "handler", "job": ["direct", jseed, jparams, [rec["before"][0]], [sa_b], [rec["raw"]]],
                "request": rec["raw"], "state_before": list(rec["before"])}
        if rec["global_random_touched"]:
            ctx.disagree(f"h:global-random:{hname}", f"handler {hname} advanced the process-global random module while answering "
                         f"{rec['raw']} (session {rec['before'][0]})", case, impl="random.getstate() changed", model="untouched",
                         spec_violated=False, site=f"RandomUDSServer.{hname}")
        if out[i] == impl:
            continue
        mo = dict(p.split("=", 1) for p in out[i].split(" ") if "=" in p)
        io = dict(p.split("=", 1) for p in impl.split(" "))
        if mo.get("trace") != io["trace"]:
            ms, is_ = (mo.get("trace") or "").split(";"), io["trace"].split(";")
            k = next((j for j, (x, y) in enumerate(zip(ms, is_)) if x != y), min(len(ms), len(is_)))
            mt = ms[k].split(":")[0] if k < len(ms) else "(no further RNG)"
            it = is_[k].split(":")[0] if k < len(is_) else "(no further RNG)"
            if mt != it:
                dec = lambda x: bytes.fromhex(x).decode(errors="replace") if x not in ("-", "(no further RNG)") else ("RNG() unseeded" if x == "-" else x)  # noqa: E731
                ctx.disagree(f"h:seed-text:{hname}", f"handler {hname}: RNG object {k} of the call is seeded with another text than the "
                             f"model derives from (seed, session, request) for request {rec['raw']} in session {rec['before'][0]}",
                             case, impl=dec(it), model=dec(mt), spec_violated=False, site=f"RandomUDSServer.{hname}")
            else:
                ctx.disagree(f"h:draws:{hname}", f"handler {hname}: the calls made on RNG object {k} differ from the model's for request "
                             f"{rec['raw']} in session {rec['before'][0]}", case, impl=is_[k] if k < len(is_) else None,
                             model=ms[k] if k < len(ms) else None, spec_violated=False, site=f"RandomUDSServer.{hname}")
        elif mo.get("reply") != io["reply"]:
            ctx.disagree(f"h:reply:{hname}", f"handler {hname}: with the same draws the model answers differently to {rec['raw']} in "
                         f"session {rec['before'][0]}", case, impl=io["reply"], model=mo.get("reply"), spec_violated=False,
                         site=f"RandomUDSServer.{hname}")
        else:
            ctx.disagree(f"h:state:{hname}", f"handler {hname}: state after {rec['raw']} differs from the model's", case,
                         impl=f"session={io['session']} sa={io['sa']}", model=f"session={mo.get('session')} sa={mo.get('sa')}",
                         spec_violated=False, site=f"RandomUDSServer.{hname}")
    for i, u in uindex:
        ctx.ev()
        impl = f"session={u['after'][0]} sa={u['after'][1]}"
        if out[i] != impl:
            ctx.disagree(f"h:update-state:{u['kind'][0]}", f"update_state after a {u['kind'][0]} response to {u['raw']}: the state differs "
                         "from the model's", {"kind": "handler", "job": None, "request": u["raw"], "state_before": list(u["before"])},
                         impl=impl, model=out[i], spec_violated=False, site="RandomUDSServer.update_state")
    return n_pos


def check_repr(ctx):
    """str(bytes) of the interpreter against `pyBytesRepr`: all single bytes, all pairs with a quote, random strings"""
    vals = [bytes([b]) for b in range(256)] + [bytes([q, b]) for q in (0x27, 0x22) for b in range(256)] + [b"", b"'\"", b"\"'\\"]
    vals += [bytes(ctx.rng.randrange(256) for _ in range(ctx.rng.randrange(1, 12))) for _ in range(ctx.pick(300, 3000))]
    out = ctx.lean([f"h repr {v.hex() or '-'}" for v in vals])
    for v, o in zip(vals, out):
        ctx.ev()
        if o != (str(v).encode().hex()):
            ctx.disagree("h:bytes-repr", "str(bytes) differs from the model's pyBytesRepr", {"kind": "repr", "bytes": v.hex()},
                         impl=str(v), model=bytes.fromhex(o).decode(errors="replace") if o != "bad-op" else o, spec_violated=False,
                         site="Model/VEcuRng.lean pyBytesRepr")
            break


def check_handlers(ctx, S, base_rng, cfgs):
    check_ast(ctx, S)
    check_repr(ctx)
    rng = ctx.rng
    jobs = [("history", c) for c in cfgs if "seed" in c and "history" in c]
    sa_states = [None, (1, "0102"), (3, ""), (0x11, "27225c")]  # (security_access_type, seed hex) of a pending answer
    dense = {"p_identifier": 1.0, "p_correct_payload_format": 1.0, "p_dtc_status_mask": 1.0}
    for k in range(ctx.pick(6, 30)):
        params = dict(dense) if k % 3 == 0 else {"p_identifier": rng.choice([0.3, 0.7, 1.0]),
                                                 "p_correct_payload_format": rng.choice([0.2, 0.6, 1.0]),
                                                 "p_dtc_status_mask": rng.choice([0.5, 0.9])}
        seed = rng.choice([0, 1, -3, 42, 2 ** 31, rng.randrange(10 ** 9)])
        reqs = list(DIRECT_REQUESTS)
        for _ in range(ctx.pick(25, 80)):
            sid = rng.choice([0x22, 0x2E, 0x2F, 0x31, 0x14, 0x19, 0x11, 0x27])
            body = bytes(rng.choice([0x27, 0x22, 0x5C, 0x0A, 0x00, 0x41, 0x7F, 0xFF, rng.randrange(256)]) for _ in range(rng.randrange(1, 7)))
            if sid == 0x27:
                body = bytes([rng.choice([2, 4, 0x12])]) + body
            if sid == 0x19:
                body = bytes([2, rng.randrange(256)])
            if sid == 0x31:
                body = bytes([rng.choice([1, 2, 3])]) + body + b"\x00"
            reqs.append((bytes([sid]) + body).hex())
        jobs.append(("direct", seed, params, [1, rng.choice([2, 3, 0x41, 0x7E])], sa_states[: 2 + k % 3], reqs))
    cfg_lines, calls, updates = collect(S, base_rng, jobs)
    n_pos = check_calls(ctx, cfg_lines, calls, updates, jobs)
    by = {}
    for r in calls:
        by[r["req"][0]] = by.get(r["req"][0], 0) + 1
    ctx.notes["handler_tie"] = {"servers": len(jobs), "handler_calls": len(calls), "positive_answers": n_pos, "update_state_calls": len(updates),
                                "rng_objects": sum(len(r["segs"]) for r in calls), "draws": sum(len(s["calls"]) for r in calls for s in r["segs"]),
                                "by_request_kind": by}
    want = {"ecureset", "requestseed", "sendkey", "routine", "rdbi", "wdbi", "ioctl", "cleardtc", "dtcmask", "dtcother"}
    if not want <= set(by):
        ctx.disagree("h:coverage", "the recorded handler calls no longer reach every handler", {"kind": "handler", "job": None},
                     impl=sorted(by), model=sorted(want), spec_violated=False, site="harness/c16_handlers.py")


def replay(ctx, S, base_rng, c):
    """re-runs the recorded case (kind handler | ast | repr) against the current tree; True = still failing"""
    import json

    n0 = len(ctx.disagreements)
    if c.get("kind") == "ast":
        check_ast(ctx, S)
    elif c.get("kind") == "repr":
        check_repr(ctx)
    else:
        job = c.get("job")
        if not job:
            check_ast(ctx, S)
        else:
            job = ("history", job[1]) if job[0] == "history" else tuple(job)
            cfg_lines, calls, updates = collect(S, base_rng, [job])
            check_calls(ctx, cfg_lines, calls, updates, [job])
    new = ctx.disagreements[n0:]
    for d in new[:5]:
        print(json.dumps(d.to_json(), indent=1, default=str)[:3000])
    print(f"{len(new)} disagreement(s) between the handlers and Model/VEcuRng on this case")
    return bool(new)
