import Gallia.Lib.Proto
import Gallia.Model.Doip
open Gallia Gallia.Proto Gallia.Doip Gallia.Framing

/-
  line protocol (one reply line per request line):
    reset <src> <tgt> <ver>            fresh established connection (no routing activation)
    arr <delay_ms> <hex>               stage a chunk that arrives <delay_ms> after the start of the next call
    write <hex> <timeout_ms>           DoIPTransport.write          -> "<result> <t_done>"
    read <timeout_ms>                  DoIPTransport.read           -> "<result> <t_done>"
    idle                               deliver the staged chunks while the client does nothing
    connect <src> <tgt> <ver> <atype> <timeout_ms>   DoIPTransport.connect on a fresh connection
    state                              "q=[..] closed=<0|1> now=<ms> out=[t:hex,..]"
    parse <hex>                        what the reader task makes of a byte stream: "<items> | <leftover>"
-/

structure DSt where
  cfg : Cfg := ⟨0, 0, 2⟩
  st : St := {}
  arr : List (Nat × Bytes) := []

/-- `GenericDoIPHeaderNACKCodes(code)` with its `_missing_` (the queue holds the enum member) -/
def hdrNackName (c : UInt8) : UInt8 := if c ≤ 4 then c else 0xFF

/-- frames as the queue of the implementation shows them (negative-ack / header-nack codes are enum members) -/
def showFrame : Frame → String
  | .hdrNack c => s!"hnack:{(hdrNackName c).toNat}"
  | .rar s t c => s!"rar:{s}:{t}:{c.toNat}"
  | .diag s t d => s!"diag:{s}:{t}:{hexOrDash d}"
  | .ackPos s t p => s!"ackp:{s}:{t}:{hexOrDash p}"
  | .ackNeg s t c p => s!"ackn:{s}:{t}:{(nackName c).toNat}:{hexOrDash p}"

def showItem : Item → String
  | .fatal => "fatal"
  | .drop => "drop"
  | .alive => "alive"
  | .q f => showFrame f

def showList (xs : List String) : String := "[" ++ ",".intercalate xs ++ "]"

def showRes : OpRes → String
  | .ok => "ok"
  | .msg d => s!"msg:{hexOrDash d}"
  | .nack c => s!"nack:{c.toNat}"
  | .denied c => s!"denied:{c.toNat}"
  | .timeout => "timeout"
  | .conn => "conn"

def showState (s : St) : String :=
  s!"q={showList (s.queue.map showFrame)} closed={if s.closed then 1 else 0} now={s.now} " ++
  s!"out={showList (s.out.map fun o => s!"{o.1}:{hexOrDash o.2}")}"

def finishOp (d : DSt) (r : OpRes × Nat × St) : DSt × String :=
  ({ d with st := r.2.2, arr := [] }, s!"{showRes r.1} {r.2.1}")

def step (d : DSt) (line : String) : DSt × String :=
  match words line with
  | ["reset", s, t, v] =>
    match s.toNat?, t.toNat?, v.toNat? with
    | some s, some t, some v => ({ cfg := ⟨s, t, UInt8.ofNat v⟩ }, "ok")
    | _, _, _ => (d, "bad-op")
  | ["arr", dl, h] =>
    match dl.toNat?, parseHex h with
    | some dl, some b => ({ d with arr := d.arr ++ [(dl, b)] }, "ok")
    | _, _ => (d, "bad-op")
  | ["write", h, tmo] =>
    match parseHex h, tmo.toNat? with
    | some b, some tmo => finishOp d (opWrite d.cfg d.st b tmo d.arr)
    | _, _ => (d, "bad-op")
  | ["read", tmo] =>
    match tmo.toNat? with
    | some tmo => finishOp d (opRead d.cfg d.st tmo d.arr)
    | _ => (d, "bad-op")
  | ["idle"] => finishOp d (opIdle d.cfg d.st d.arr)
  | ["connect", s, t, v, a, tmo] =>
    match s.toNat?, t.toNat?, v.toNat?, a.toNat?, tmo.toNat? with
    | some s, some t, some v, some a, some tmo =>
      let cfg : Cfg := ⟨s, t, UInt8.ofNat v⟩
      finishOp { d with cfg := cfg } (opConnect cfg (UInt8.ofNat a) tmo d.arr)
    | _, _, _, _, _ => (d, "bad-op")
  | ["state"] => (d, showState d.st)
  | ["parse", h] =>
    match parseHex h with
    | some b =>
      let p := parseAll doipCutter b
      (d, s!"{showList (p.1.map (showItem ∘ classify))} | {hexOrDash p.2}")
    | none => (d, "bad-op")
  | _ => (d, "bad-op")

def main : IO Unit := loopState ({} : DSt) step
