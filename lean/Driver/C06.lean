import Gallia.Lib.Proto
import Gallia.Model.Doip
import Gallia.Model.DoipSys
open Gallia Gallia.Proto Gallia.Doip Gallia.Framing Gallia.DoipSys

/-
  line protocol (one reply line per request line):
    reset <src> <tgt> <ver>            fresh established connection (no routing activation)
    arr <delay_ms> <hex>               stage a chunk that arrives <delay_ms> after the start of the next call
    write <hex> <timeout_ms>           DoIPTransport.write          -> "<result> <t_done>"
    read <timeout_ms>                  DoIPTransport.read           -> "<result> <t_done>"
    idle                               deliver the staged chunks while the client does nothing
    connect <src> <tgt> <ver> <atype> <timeout_ms>   DoIPTransport.connect on a fresh connection
    state                              "q=[..] closed=<0|1> now=<ms> out=[t:hex,..]"
    parse <hex>                        what the reader task makes of a byte stream: "<items> | <leftover>"

  whole executions (`Model/DoipSys.lean`); a script is staged line by line and then run:
    sys <src> <tgt> <ver> <drainYields 0|1>    start a script on a fresh established connection
    gw <t_ms> <hex>                    the gateway delivers these bytes at absolute time t
    gweof <t_ms>                       the stream ends at absolute time t
    cl <think_ms> write <hex> <tmo|->  client program: `think` after the previous call returned (or after 0), do ...
    cl <think_ms> read <tmo|->
    cl <think_ms> activate <atype> <tmo|->
    cl <think_ms> close
    run                                "done=[t:want:res,..] q=[..] held=[..] closed=<0|1> client=<idle|waiting> out=[..] tr=<..> tie=<t|0> left=<n>"
    runv                               the same, preceded by the event list that was executed
-/

inductive GwEv
  | bytes (b : Bytes)
  | eof

inductive COp
  | write (d : Bytes) (t : Option Nat)
  | read (t : Option Nat)
  | activate (a : UInt8) (t : Option Nat)
  | close

structure DSt where
  cfg : Cfg := ⟨0, 0, 2⟩
  st : St := {}
  arr : List (Nat × Bytes) := []
  -- staged whole-execution script
  drain : Bool := true
  gws : List (Nat × GwEv) := []
  prog : List (Nat × COp) := []

/-- `GenericDoIPHeaderNACKCodes(code)` with its `_missing_` (the queue holds the enum member) -/
def hdrNackName (c : UInt8) : UInt8 := if c ≤ 4 then c else 0xFF

/-- frames as the queue of the implementation shows them (negative-ack / header-nack codes are enum members) -/
def showFrame : Frame → String
  | .hdrNack c => s!"hnack:{(hdrNackName c).toNat}"
  | .rar s t c => s!"rar:{s}:{t}:{c.toNat}"
  | .diag s t d => s!"diag:{s}:{t}:{hexOrDash d}"
  | .ackPos s t p => s!"ackp:{s}:{t}:{hexOrDash p}"
  | .ackNeg s t c p => s!"ackn:{s}:{t}:{(nackName c).toNat}:{hexOrDash p}"

def showItem : Item → String
  | .fatal => "fatal"
  | .drop => "drop"
  | .alive => "alive"
  | .q f => showFrame f

def showList (xs : List String) : String := "[" ++ ",".intercalate xs ++ "]"

def showRes : OpRes → String
  | .ok => "ok"
  | .msg d => s!"msg:{hexOrDash d}"
  | .nack c => s!"nack:{c.toNat}"
  | .denied c => s!"denied:{c.toNat}"
  | .timeout => "timeout"
  | .conn => "conn"

def showState (s : St) : String :=
  s!"q={showList (s.queue.map showFrame)} closed={if s.closed then 1 else 0} now={s.now} " ++
  s!"out={showList (s.out.map fun o => s!"{o.1}:{hexOrDash o.2}")}"

/-! ### whole executions: turn a timed script into an event list and run it -/

structure Run where
  sys : Sys := {}
  gws : List (Nat × GwEv)
  prog : List (Nat × COp)
  ops : List Op := []        -- executed so far (reversed)
  tie : Nat := 0             -- first instant at which a gateway event coincides with a client start / a timer
  last : Nat := 0            -- when the previous client call returned

def Run.emit (c : Cfg) (y : Raw → Bool) (r : Run) (op : Op) : Run :=
  let s' := execOp c y r.sys op
  let last :=
    if r.sys.done.length < s'.done.length then (s'.done.getLast?.map (·.t)).getD r.last
    else if op == .close then s'.now else r.last
  { r with sys := s', ops := op :: r.ops, last := last }

def deadlineOf : Client → Option Nat
  | .idle => none
  | .waiting _ _ p cl =>
    match p, cl with
    | some a, some b => some (min a b)
    | some a, none => some a
    | none, some b => some b
    | none, none => none

def optMin (a b : Option Nat) : Option Nat :=
  match a, b with
  | some x, some y => some (min x y)
  | some x, none => some x
  | none, y => y

def COp.toOp : COp → Op
  | .write d t => .write d t
  | .read t => .read t
  | .activate a t => .activate a t
  | .close => .close

/-- earliest event first; at one instant: timers, then the gateway, then the client (`tie` reports a gateway event
    coinciding with a client start or a deadline - the order of the real loop is then not determined) -/
def runScript (c : Cfg) (y : Raw → Bool) : Nat → Run → Run
  | 0, r => r
  | fuel + 1, r =>
    let now := r.sys.now
    let tg := r.gws.head?.map (·.1)
    let idle := r.sys.client == .idle
    let tc := if idle then r.prog.head?.map (fun p => max (r.last + p.1) now) else none
    let td := deadlineOf r.sys.client
    match optMin (optMin tg tc) td with
    | none => r
    | some t =>
      let r := if r.tie == 0 && tg.isSome && (tg == tc || tg == td) then { r with tie := tg.getD 0 } else r
      if now < t then runScript c y fuel (r.emit c y (.advance (t - now)))
      else if td.isSome && td == some t then runScript c y fuel (r.emit c y (.advance 0))
      else if tg == some t then
        match r.gws with
        | (_, .bytes b) :: rest => runScript c y fuel ({ r with gws := rest }.emit c y (.feed b))
        | (_, .eof) :: rest => runScript c y fuel ({ r with gws := rest }.emit c y .eof)
        | [] => r
      else
        match r.prog with
        | (_, op) :: rest => runScript c y fuel ({ r with prog := rest }.emit c y op.toOp)
        | [] => r

def showWant : Want → String
  | .ack _ => "write"
  | .rar => "activate"
  | .diag => "read"

def showTr (tr : List Tr) : String :=
  String.ofList (tr.map fun
    | .rx .fatal => 'f'
    | .rx .drop => 'd'
    | .rx .alive => 'a'
    | .rx (.q _) => 'q'
    | .reply => 'R')

def heldOf : Client → List Frame
  | .idle => []
  | .waiting _ sk _ _ => sk

def showOp : Op → String
  | .feed b => s!"feed:{hexOrDash b}"
  | .activate a t => s!"activate:{a.toNat}:{showOptNat t}"
  | .write d t => s!"write:{hexOrDash d}:{showOptNat t}"
  | .read t => s!"read:{showOptNat t}"
  | .close => "close"
  | .eof => "eof"
  | .advance dt => s!"advance:{dt}"

def parseTmo (s : String) : Option (Option Nat) := if s == "-" then some none else s.toNat?.map some

def finishOp (d : DSt) (r : OpRes × Nat × St) : DSt × String :=
  ({ d with st := r.2.2, arr := [] }, s!"{showRes r.1} {r.2.1}")

def step (d : DSt) (line : String) : DSt × String :=
  match words line with
  | ["reset", s, t, v] =>
    match s.toNat?, t.toNat?, v.toNat? with
    | some s, some t, some v => ({ cfg := ⟨s, t, UInt8.ofNat v⟩ }, "ok")
    | _, _, _ => (d, "bad-op")
  | ["arr", dl, h] =>
    match dl.toNat?, parseHex h with
    | some dl, some b => ({ d with arr := d.arr ++ [(dl, b)] }, "ok")
    | _, _ => (d, "bad-op")
  | ["write", h, tmo] =>
    match parseHex h, tmo.toNat? with
    | some b, some tmo => finishOp d (opWrite d.cfg d.st b tmo d.arr)
    | _, _ => (d, "bad-op")
  | ["read", tmo] =>
    match tmo.toNat? with
    | some tmo => finishOp d (opRead d.cfg d.st tmo d.arr)
    | _ => (d, "bad-op")
  | ["idle"] => finishOp d (opIdle d.cfg d.st d.arr)
  | ["connect", s, t, v, a, tmo] =>
    match s.toNat?, t.toNat?, v.toNat?, a.toNat?, tmo.toNat? with
    | some s, some t, some v, some a, some tmo =>
      let cfg : Cfg := ⟨s, t, UInt8.ofNat v⟩
      finishOp { d with cfg := cfg } (opConnect cfg (UInt8.ofNat a) tmo d.arr)
    | _, _, _, _, _ => (d, "bad-op")
  | ["state"] => (d, showState d.st)
  | ["sys", s, t, v, dr] =>
    match s.toNat?, t.toNat?, v.toNat? with
    | some s, some t, some v => ({ cfg := ⟨s, t, UInt8.ofNat v⟩, drain := dr != "0" }, "ok")
    | _, _, _ => (d, "bad-op")
  | ["gw", t, h] =>
    match t.toNat?, parseHex h with
    | some t, some b => ({ d with gws := d.gws ++ [(t, .bytes b)] }, "ok")
    | _, _ => (d, "bad-op")
  | ["gweof", t] =>
    match t.toNat? with
    | some t => ({ d with gws := d.gws ++ [(t, .eof)] }, "ok")
    | _ => (d, "bad-op")
  | ["cl", th, "write", h, tmo] =>
    match th.toNat?, parseHex h, parseTmo tmo with
    | some th, some b, some tmo => ({ d with prog := d.prog ++ [(th, .write b tmo)] }, "ok")
    | _, _, _ => (d, "bad-op")
  | ["cl", th, "read", tmo] =>
    match th.toNat?, parseTmo tmo with
    | some th, some tmo => ({ d with prog := d.prog ++ [(th, .read tmo)] }, "ok")
    | _, _ => (d, "bad-op")
  | ["cl", th, "activate", a, tmo] =>
    match th.toNat?, a.toNat?, parseTmo tmo with
    | some th, some a, some tmo => ({ d with prog := d.prog ++ [(th, .activate (UInt8.ofNat a) tmo)] }, "ok")
    | _, _, _ => (d, "bad-op")
  | ["cl", th, "close"] =>
    match th.toNat? with
    | some th => ({ d with prog := d.prog ++ [(th, .close)] }, "ok")
    | _ => (d, "bad-op")
  | [cmd] =>
    if cmd == "run" || cmd == "runv" then
      let r := runScript d.cfg (DoipSys.asyncioYields d.drain) (4 * (d.gws.length + d.prog.length) + 16)
        { gws := d.gws, prog := d.prog }
      let s := r.sys
      let line :=
        s!"done={showList (s.done.map fun e => s!"{e.t}:{showWant e.w}:{showRes e.res}")} " ++
        s!"q={showList (s.queue.map showFrame)} held={showList ((heldOf s.client).map showFrame)} " ++
        s!"closed={if s.closed then 1 else 0} client={if s.client == .idle then "idle" else "waiting"} " ++
        s!"out={showList (s.out.map fun o => s!"{o.1}:{hexOrDash o.2}")} tr={showTr s.tr} " ++
        s!"tie={r.tie} left={r.gws.length + r.prog.length}"
      ({ d with gws := [], prog := [] },
       if cmd == "runv" then s!"ops={showList (r.ops.reverse.map showOp)} " ++ line else line)
    else (d, "bad-op")
  | ["parse", h] =>
    match parseHex h with
    | some b =>
      let p := parseAll doipCutter b
      (d, s!"{showList (p.1.map (showItem ∘ classify))} | {hexOrDash p.2}")
    | none => (d, "bad-op")
  | _ => (d, "bad-op")

def main : IO Unit := loopState ({} : DSt) step
