import Gallia.Lib.Proto
import Gallia.Model.UdsResp
import Gallia.Model.UdsRespCtor
import Gallia.Model.UdsRespFields
open Gallia Gallia.Proto Gallia.UdsResp

/-
  Line protocol of the C02 model driver:
    fat <hex>      ->  none | ok <Class> <leaf>=<value>...   (`fieldsAt` of the class `decodeResp` accepts the bytes as: the table's
                       position slices, nothing taken from the decoded object)
    frm <Class> <hex>  ->  no-class | reject <reason> | ok <Class> <field>=... pdu=<hex>   (`Class.from_pdu`, model `fromPdu`)
    pst <Class> <hex>  ->  the same for `Class.parse_static` (a first byte 7F goes to NegativeResponse.from_pdu)
    dec <hex>      ->  reject <reason> | raw <hex> | ok <Class> <field>=<value>... pdu=<hex of encodeResp>
    con <Class> <form> <arg>...  ->  none | ok <Class> <field>=<value>... pdu=<hex>     (constructor + .pdu; `form` = Fields constructor,
                       args: decimal ints (signed), `none`, hex bytes (`-` empty), `,`-separated lists, `k:v` dict entries)
    conv <Class> <did> <hex>     ->  the same for the InputOutputControlByIdentifier convenience classes
  integers are printed in decimal, byte strings as lower-case hex (`-` = empty), absent optionals as `none`.
-/

def showReject : Reject → String
  | .empty => "empty" | .tooShort => "tooShort" | .tooLong => "tooLong" | .noSubFunction => "noSubFunction"
  | .subFunction => "subFunction" | .format => "format" | .nrc => "nrc"

def u (b : UInt8) : String := toString b.toNat

def showRecs (l : List (Nat × UInt8)) : String :=
  if l.isEmpty then "-" else ",".intercalate (l.map fun p => s!"{p.1}:{p.2.toNat}")

def fields : Resp → List String
  | .neg sid nrc => [s!"sid={u sid}", s!"nrc={u nrc}"]
  | .dsc ty rec => [s!"ty={u ty}", s!"rec={hexOrDash rec}"]
  | .ecuReset ty pdt => [s!"ty={u ty}", s!"pdt={showOptNat (pdt.map (·.toNat))}"]
  | .secAccess ty seed => [s!"ty={u ty}", s!"seed={hexOrDash seed}"]
  | .commCtrl ty => [s!"ty={u ty}"]
  | .testerPresent => []
  | .ctrlDTC ty => [s!"ty={u ty}"]
  | .rdbi did rec => [s!"did={did}", s!"rec={hexOrDash rec}"]
  | .rmba rec => [s!"rec={hexOrDash rec}"]
  | .dddi sub did => [s!"sub={u sub}", s!"did={showOptNat did}"]
  | .wdbi did => [s!"did={did}"]
  | .wmba alfid addr size => [s!"alfid={u alfid}", s!"addr={addr}", s!"size={size}"]
  | .clearDTC => []
  | .dtcCount sub mask fmt count => [s!"sub={u sub}", s!"mask={u mask}", s!"fmt={u fmt}", s!"count={count}"]
  | .dtcList sub mask recs => [s!"sub={u sub}", s!"mask={u mask}", s!"recs={showRecs recs}"]
  | .dtcExt dtc status recnum data => [s!"dtc={dtc}", s!"status={u status}", s!"recnum={u recnum}", s!"data={hexOrDash data}"]
  | .iocbi did rec => [s!"did={did}", s!"rec={hexOrDash rec}"]
  | .routine sub rid rec => [s!"sub={u sub}", s!"rid={rid}", s!"rec={hexOrDash rec}"]
  | .upDownload _ lfid maxLen => [s!"lfid={u lfid}", s!"max={maxLen}"]
  | .transferData ctr rec => [s!"ctr={u ctr}", s!"rec={hexOrDash rec}"]
  | .transferExit rec => [s!"rec={hexOrDash rec}"]
  | .rawPos _ => []

def showDec (b : Bytes) : String :=
  match decodeResp b with
  | .error r => s!"reject {showReject r}"
  | .ok (.rawPos p) => s!"raw {hexOrDash p}"
  | .ok r => joinSp (["ok", className b] ++ fields r ++ [s!"pdu={hexOrDash (encodeResp r)}"])

def pInt (s : String) : Option Int := s.toInt?
def pOptInt (s : String) : Option (Option Int) := if s == "none" then some none else s.toInt?.map some
def pList {α} (f : String → Option α) (s : String) : Option (List α) :=
  if s == "-" then some [] else (s.splitOn ",").mapM f
def pHexE (s : String) : Option Bytes := if s == "e" then some [] else parseHex s
def pPair {α β} (f : String → Option α) (g : String → Option β) (s : String) : Option (α × β) :=
  match s.splitOn ":" with
  | [a, b] => match f a, g b with
    | some x, some y => some (x, y)
    | _, _ => none
  | _ => none

def parseFields : List String → Option Fields
  | ["neg", a, b] => do pure (.neg (← pInt a) (← b.toNat?))
  | ["dsc", a, b] => do pure (.dsc (← pInt a) (← parseHex b))
  | ["ecuReset", a, b] => do pure (.ecuReset (← pInt a) (← pOptInt b))
  | ["secAccess", a, b] => do pure (.secAccess (← pInt a) (← parseHex b))
  | ["commCtrl", a] => do pure (.commCtrl (← pInt a))
  | ["testerPresent"] => some .testerPresent
  | ["ctrlDTC", a] => do pure (.ctrlDTC (← pInt a))
  | ["rdbi", a, b] => do pure (.rdbi (← pList pInt a) (← pList pHexE b))
  | ["rmba", a] => do pure (.rmba (← parseHex a))
  | ["dddi", a] => do pure (.dddi (← pOptInt a))
  | ["wdbi", a] => do pure (.wdbi (← pInt a))
  | ["wmba", a, b, c] => do pure (.wmba (← pInt a) (← pInt b) (← pOptInt c))
  | ["clearDTC"] => some .clearDTC
  | ["dtcCount", a, b, c] => do pure (.dtcCount (← pInt a) (← b.toNat?) (← pInt c))
  | ["dtcListD", a, b] => do pure (.dtcListD (← pInt a) (← pList (pPair pInt pInt) b))
  | ["dtcListB", a, b] => do pure (.dtcListB (← pInt a) (← parseHex b))
  | ["dtcExtT", a, b, c] => do pure (.dtcExtT (← pInt a) (← pInt b) (← pList (pPair pInt pHexE) c))
  | ["dtcExtB", a, c] => do pure (.dtcExtB (← parseHex a) (← pList (pPair pInt pHexE) c))
  | ["iocbi", a, b] => do pure (.iocbi (← pInt a) (← parseHex b))
  | ["routine", a, b] => do pure (.routine (← pInt a) (← parseHex b))
  | ["upDownload", a, b] => do pure (.upDownload (← pInt a) (← pOptInt b))
  | ["transferData", a, b] => do pure (.transferData (← pInt a) (← parseHex b))
  | ["transferExit", a] => do pure (.transferExit (← parseHex a))
  | _ => none

def showFVal : FVal → String
  | .int n => toString n
  | .none => "none"
  | .bytes b => hexOrDash b
  | .recs l => if l.isEmpty then "-" else ",".intercalate (l.map fun p => s!"{p.1}:{p.2}")

def showFat (b : Bytes) : String :=
  match decodeResp b with
  | .ok (.rawPos _) => "none"
  | .ok _ =>
    match fieldsAt (className b) b with
    | some fs => joinSp (["ok", className b] ++ fs.map fun p => s!"{p.1}={showFVal p.2}")
    | none => "no-table-row"
  | .error _ => "none"

def showCls (r : Option (Except Reject Resp)) : String :=
  match r with
  | none => "no-class"
  | some (.error x) => s!"reject {showReject x}"
  | some (.ok (.rawPos p)) => s!"raw {hexOrDash p}"
  | some (.ok r) => joinSp (["ok", className (encodeResp r)] ++ fields r ++ [s!"pdu={hexOrDash (encodeResp r)}"])

def showCon : Option Resp → String
  | none => "none"
  | some r => joinSp (["ok", className (encodeResp r)] ++ fields r ++ [s!"pdu={hexOrDash (encodeResp r)}"])

def step (line : String) : String :=
  match words line with
  | "con" :: cls :: rest => match parseFields rest with
    | some f => showCon (construct cls f)
    | none => "bad-op"
  | ["conv", cls, d, h] => match pInt d, parseHex h with
    | some d, some b => showCon (constructConv cls d b)
    | _, _ => "bad-op"
  | ["frm", cls, h] => match parseHex h with
    | some b => showCls (fromPdu cls b)
    | none => "bad-op"
  | ["pst", cls, h] => match parseHex h with
    | some b => showCls (parseStatic cls b)
    | none => "bad-op"
  | ["fat", h] => match parseHex h with
    | some b => showFat b
    | none => "bad-op"
  | ["dec", h] => match parseHex h with
    | some b => showDec b
    | none => "bad-op"
  | _ => "bad-op"

def main : IO Unit := loopLines step
