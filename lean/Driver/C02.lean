import Gallia.Lib.Proto
import Gallia.Model.UdsResp
open Gallia Gallia.Proto Gallia.UdsResp

/-
  Line protocol of the C02 model driver:
    dec <hex>      ->  reject <reason> | raw <hex> | ok <Class> <field>=<value>... pdu=<hex of encodeResp>
  integers are printed in decimal, byte strings as lower-case hex (`-` = empty), absent optionals as `none`.
-/

def showReject : Reject → String
  | .empty => "empty" | .tooShort => "tooShort" | .tooLong => "tooLong" | .noSubFunction => "noSubFunction"
  | .subFunction => "subFunction" | .format => "format" | .nrc => "nrc"

def u (b : UInt8) : String := toString b.toNat

def showRecs (l : List (Nat × UInt8)) : String :=
  if l.isEmpty then "-" else ",".intercalate (l.map fun p => s!"{p.1}:{p.2.toNat}")

def fields : Resp → List String
  | .neg sid nrc => [s!"sid={u sid}", s!"nrc={u nrc}"]
  | .dsc ty rec => [s!"ty={u ty}", s!"rec={hexOrDash rec}"]
  | .ecuReset ty pdt => [s!"ty={u ty}", s!"pdt={showOptNat (pdt.map (·.toNat))}"]
  | .secAccess ty seed => [s!"ty={u ty}", s!"seed={hexOrDash seed}"]
  | .commCtrl ty => [s!"ty={u ty}"]
  | .testerPresent => []
  | .ctrlDTC ty => [s!"ty={u ty}"]
  | .rdbi did rec => [s!"did={did}", s!"rec={hexOrDash rec}"]
  | .rmba rec => [s!"rec={hexOrDash rec}"]
  | .dddi sub did => [s!"sub={u sub}", s!"did={showOptNat did}"]
  | .wdbi did => [s!"did={did}"]
  | .wmba alfid addr size => [s!"alfid={u alfid}", s!"addr={addr}", s!"size={size}"]
  | .clearDTC => []
  | .dtcCount sub mask fmt count => [s!"sub={u sub}", s!"mask={u mask}", s!"fmt={u fmt}", s!"count={count}"]
  | .dtcList sub mask recs => [s!"sub={u sub}", s!"mask={u mask}", s!"recs={showRecs recs}"]
  | .dtcExt dtc status recnum data => [s!"dtc={dtc}", s!"status={u status}", s!"recnum={u recnum}", s!"data={hexOrDash data}"]
  | .iocbi did rec => [s!"did={did}", s!"rec={hexOrDash rec}"]
  | .routine sub rid rec => [s!"sub={u sub}", s!"rid={rid}", s!"rec={hexOrDash rec}"]
  | .upDownload _ lfid maxLen => [s!"lfid={u lfid}", s!"max={maxLen}"]
  | .transferData ctr rec => [s!"ctr={u ctr}", s!"rec={hexOrDash rec}"]
  | .transferExit rec => [s!"rec={hexOrDash rec}"]
  | .rawPos _ => []

def showDec (b : Bytes) : String :=
  match decodeResp b with
  | .error r => s!"reject {showReject r}"
  | .ok (.rawPos p) => s!"raw {hexOrDash p}"
  | .ok r => joinSp (["ok", className b] ++ fields r ++ [s!"pdu={hexOrDash (encodeResp r)}"])

def step (line : String) : String :=
  match words line with
  | ["dec", h] => match parseHex h with
    | some b => showDec b
    | none => "bad-op"
  | _ => "bad-op"

def main : IO Unit := loopLines step
