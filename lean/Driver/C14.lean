import Gallia.Lib.Proto
import Gallia.Model.VEcuHist
import Gallia.Model.VEcuConn
open Gallia Gallia.Proto Gallia.Server Gallia.VEcu Gallia.VEcuConn

/-
  line protocol
    model <spec>       spec = `-` | sess:entry,entry;sess:...   entry = sid=N | sid=- | sid=sf.sf.sf   (decimal)
        -> `ok unique=<0|1> listed=<0|1> closed=<0|1> small=<0|1> modelok=<0|1>`
    sreq <session> <level|none> <none|t:seedhex> <dt> <pduhex> <bools> <byte> <paylen> <payhex> <dtccount> <dtcs>
        the state before the request, ticks of 0.25 s since the last handled request (> 40: inactivity reset), the
        request bytes and the oracle of the handler call:
          bools   `-` | string of 0/1   random_bool results in call order
          byte    decimal               randint(0, 255) outside random_payload
          paylen  decimal               int(expovariate(1/8) + 0.5) of random_payload
          payhex  hex | `-`             the randint draws of random_payload
          dtccount decimal              int(expovariate(1/50) + 0.5)
          dtcs    `-` | dtc:status,...  decimal pairs, one per loop pass
    ->  `ok <session> <level> <seed memory> <reply hex|none> client=<accepted|mismatch|malformed|-> wf=<0|1|-> ready=<0|1>`
      | `crash <assertion|index> <session> <level> <seed memory> client=- wf=- ready=<0|1>`
        client: `helpers.parse_pdu(reply, parse_dynamic(request))` by the C03 model; wf: the reply decodes (C02) and
        re-encodes to itself; ready: `Server.Ready` held for the model and the state *before* the request (after the
        inactivity reset)
    creq <session> <level|none> <none|t:seedhex> <lastActive> <start> <stop> <pduhex> <bools> <byte> <paylen> <payhex> <dtccount> <dtcs>
        the same with `last_time_active` and the two clock reads of handle_request (`VEcu.vecuHandleSE`, every default
        behaviour on), all in ticks of 0.25 s
    ->  as for sreq, with ` la=<last_time_active> len=<reply length|-> ` in front of `ready=`
    copen <t0> [limit]                           a new connection (`VEcuConn.Sys.opened`), transport created at tick t0, reader limit
                                                 (default 65536) -> `ok`
    cline <linehex> <start> <stop> <oracle x6>   the server's loop gets the complete line <line> + "\n" (raw bytes)
    ->  `alive=<0|1> end=<-|eof|badline|line-too-long|assertion|index> served=<n> st=<session> <level> <seed> la=<n> written=<hex|->`
    cxchg <pduhex> <start> <stop> <oracle x6>    `client.request(pdu)` over the connection (`VEcuConn.exchange`)
    ->  as cline, then ` client=<accepted|mismatch|malformed|timeout|closed|badline> rbuf=<hex|-> sbuf=<hex|->`
    ceof                                         the peer closes -> `alive=0 end=<...> served=<n> epilogue=<ok|zerodiv>`
-/

structure St where
  assoc : Assoc := []
  model : Model := ⟨[], fun _ => none⟩
  sys : Sys := Sys.opened 0

def parseEntry (s : String) : Option (Sid × Option (List SubFn)) :=
  match s.splitOn "=" with
  | [a, b] => do
    let sid ← a.toNat?
    if b == "N" then pure (sid, none)
    else if b == "-" then pure (sid, some [])
    else
      let sfs ← (b.splitOn ".").mapM String.toNat?
      pure (sid, some sfs)
  | _ => none

def parseSession (s : String) : Option (Sess × List (Sid × Option (List SubFn))) :=
  match s.splitOn ":" with
  | [a, b] => do
    let sess ← a.toNat?
    let es ← if b == "" then pure [] else (b.splitOn ",").mapM parseEntry
    pure (sess, es)
  | _ => none

def parseModel (s : String) : Option Assoc :=
  if s == "-" then some [] else (s.splitOn ";").mapM parseSession

def showLevel : Option Int → String
  | none => "none"
  | some i => toString i

def showSeed : Option (Nat × Bytes) → String
  | none => "none"
  | some (t, s) => s!"{t}:{hexOrDash s}"

def showState (s : SrvState) : String := s!"{s.session} {showLevel s.level} {showSeed s.lastSA}"

def parseLevel (s : String) : Option (Option Int) :=
  if s == "none" then some none else (s.toInt?).map some

def parseSeed (s : String) : Option (Option (Nat × Bytes)) :=
  if s == "none" then some none else
  match s.splitOn ":" with
  | [a, b] => do
    let t ← a.toNat?
    let bs ← parseHex b
    pure (some (t, bs))
  | _ => none

def parseBools (s : String) : Option (List Bool) :=
  if s == "-" then some [] else
  s.toList.mapM (fun c => if c == '1' then some true else if c == '0' then some false else none)

def parseDtc (s : String) : Option (Fin 16777216 × UInt8) :=
  match s.splitOn ":" with
  | [a, b] => do
    let d ← a.toNat?
    let v ← b.toNat?
    if h : d < 16777216 then
      if v < 256 then pure (⟨d, h⟩, UInt8.ofNat v) else none
    else none
  | _ => none

def parseDtcs (s : String) : Option (List (Fin 16777216 × UInt8)) :=
  if s == "-" then some [] else (s.splitOn ",").mapM parseDtc

def parseOrc (bools byte paylen payhex dtccount dtcs : String) : Option Orc := do
  let bs ← parseBools bools
  let b ← byte.toNat?
  if b ≥ 256 then none
  let pl ← paylen.toNat?
  let pay ← parseHex payhex
  let dc ← dtccount.toNat?
  let ds ← parseDtcs dtcs
  pure { bools := bs, byte := UInt8.ofNat b, payLen := pl, payload := pay, dtcCount := dc, dtcs := ds }

def bit (b : Bool) : String := if b then "1" else "0"

def showVerdict : UdsMatch.Outcome → String
  | .accepted _ => "accepted"
  | .mismatch => "mismatch"
  | .malformed => "malformed"

def replyWF (p : Bytes) : Bool :=
  match UdsResp.decodeResp p with
  | .ok x => UdsResp.encodeResp x == p
  | .error _ => false

def doReq (s : St) (st : SrvState) (dt : Nat) (pdu : Bytes) (o : Orc) : String :=
  let st0 := if dt > idleLimit then st.reset else st
  let ready := bit (readyB s.assoc st0)
  match vecuHandleAt s.model ⟨st, 0⟩ dt pdu o with
  | (ts', .ok _ reply) =>
    match reply with
    | none => s!"ok {showState ts'.st} none client=- wf=- ready={ready}"
    | some x =>
      s!"ok {showState ts'.st} {hexOrDash x.pdu} client={showVerdict (clientVerdict x.pdu pdu)} wf={bit (replyWF x.pdu)} ready={ready}"
  | (ts', .crash c) =>
    s!"crash {match c with | .assertion => "assertion" | .index => "index"} {showState ts'.st} client=- wf=- ready={ready}"

def doCReq (s : St) (st : SrvState) (la start stop : Nat) (pdu : Bytes) (o : Orc) : String :=
  let st0 := if start - la > idleLimit then st.reset else st
  let ready := bit (readyB s.assoc st0)
  match vecuHandleSE allOn s.model ⟨st, la⟩ ⟨start, stop, pdu, o⟩ with
  | (ts', .ok _ reply) =>
    match reply with
    | none => s!"ok {showState ts'.st} none client=- wf=- la={ts'.lastActive} len=- ready={ready}"
    | some x =>
      s!"ok {showState ts'.st} {hexOrDash x.pdu} client={showVerdict (clientVerdict x.pdu pdu)} wf={bit (replyWF x.pdu)} la={ts'.lastActive} len={replyLen x} ready={ready}"
  | (ts', .crash c) =>
    s!"crash {match c with | .assertion => "assertion" | .index => "index"} {showState ts'.st} client=- wf=- la={ts'.lastActive} len=- ready={ready}"

def showEnd : Option EndCause → String
  | none => "-"
  | some .eof => "eof"
  | some .badLine => "badline"
  | some .tooLong => "line-too-long"
  | some (.raised .assertion) => "assertion"
  | some (.raised .index) => "index"

def showConn (c : Conn) (w : Bytes) : String :=
  s!"alive={bit c.alive} end={showEnd c.ended} served={c.served} st={showState c.ts.st} la={c.ts.lastActive} written={hexOrDash w}"

def showCRes : CRes → String
  | .accepted _ => "accepted"
  | .mismatch => "mismatch"
  | .malformed => "malformed"
  | .timeout => "timeout"
  | .closed => "closed"
  | .badLine => "badline"

def step (s : St) (line : String) : St × String :=
  match words line with
  | ["copen", t0] => match t0.toNat? with
    | some t => ({ s with sys := Sys.opened t }, "ok")
    | none => (s, "bad-op")
  | ["copen", t0, lim] => match t0.toNat?, lim.toNat? with
    | some t, some l => ({ s with sys := Sys.opened t l }, "ok")
    | _, _ => (s, "bad-op")
  | ["cline", hx, start, stop, bools, byte, paylen, payhex, dtccount, dtcs] =>
    match parseHex hx, start.toNat?, stop.toNat?, parseOrc bools byte paylen payhex dtccount dtcs with
    | some l, some t0, some t1, some o =>
      let (c', w) := serveLine s.model s.sys.conn l t0 t1 o
      ({ s with sys := { s.sys with conn := c', rbuf := s.sys.rbuf ++ w } }, showConn c' w)
    | _, _, _, _ => (s, "bad-op")
  | ["cxchg", hx, start, stop, bools, byte, paylen, payhex, dtccount, dtcs] =>
    match parseHex hx, start.toNat?, stop.toNat?, parseOrc bools byte paylen payhex dtccount dtcs with
    | some pdu, some t0, some t1, some o =>
      let q : CItem := ⟨t0, t1, pdu, o⟩
      let w := (serverPump s.model s.sys.conn (s.sys.sbuf ++ Lines.enc pdu) t0 t1 o).2.1
      let (sys', r) := exchange s.model s.sys q
      ({ s with sys := sys' },
       s!"{showConn sys'.conn w} client={showCRes r} rbuf={hexOrDash sys'.rbuf} sbuf={hexOrDash sys'.sbuf}")
    | _, _, _, _ => (s, "bad-op")
  | ["ceof"] =>
    let c' := serveEof s.sys.conn
    ({ s with sys := { s.sys with conn := c' } },
     s!"alive={bit c'.alive} end={showEnd c'.ended} served={c'.served} epilogue={if c'.epilogueRaises then "zerodiv" else "ok"}")
  | ["model", spec] => match parseModel spec with
    | some a =>
      ({ assoc := a, model := Model.ofAssoc a },
       s!"ok unique={bit (uniqueKeysB a)} listed={bit (listedB a)} closed={bit (closedB a)} small={bit (sessionsSmallB a)} modelok={bit (modelOKB a)}")
    | none => (s, "bad-op")
  | ["sreq", a, b, c, idle, hx, bools, byte, paylen, payhex, dtccount, dtcs] =>
    match a.toNat?, parseLevel b, parseSeed c, idle.toNat?, parseHex hx, parseOrc bools byte paylen payhex dtccount dtcs with
    | some sess, some lv, some sd, some dt, some pdu, some o => (s, doReq s ⟨sess, lv, sd⟩ dt pdu o)
    | _, _, _, _, _, _ => (s, "bad-op")
  | ["creq", a, b, c, la, start, stop, hx, bools, byte, paylen, payhex, dtccount, dtcs] =>
    match a.toNat?, parseLevel b, parseSeed c, la.toNat?, start.toNat?, stop.toNat?, parseHex hx,
      parseOrc bools byte paylen payhex dtccount dtcs with
    | some sess, some lv, some sd, some la, some t0, some t1, some pdu, some o => (s, doCReq s ⟨sess, lv, sd⟩ la t0 t1 pdu o)
    | _, _, _, _, _, _, _, _ => (s, "bad-op")
  | _ => (s, "bad-op")

def main : IO Unit := loopState ({} : St) step
