import Gallia.Lib.Proto
import Gallia.Model.Hsfz
import Gallia.Model.HsfzSys
open Gallia Gallia.Proto Gallia.Hsfz Gallia.Framing

structure DSt where
  cfg : Cfg := ⟨0xf4, 0x10, 1000⟩
  drainYields : Bool := false
  sys : Sys := {}
  ssys : HsfzSys.Sys := {}

def hex2 (b : UInt8) : String := hexStr [b]

def showItem : Item → String
  | .frame cw s t d => s!"f{cw}:{hex2 s}{hex2 t}:{hexOrDash d}"
  | .word cw => s!"w{cw}"

def showWire : Wire → String
  | .short cw d => s!"s{cw}:{hexOrDash d}"
  | .full cw s t d => s!"f{cw}:{hex2 s}{hex2 t}:{hexOrDash d}"

def showRes : Res → String
  | .wrote n => s!"wrote{n}"
  | .data d => s!"data:{hexOrDash d}"
  | .noAck => "noack"
  | .errWord cw => s!"errword{cw}"
  | .timeout => "timeout"
  | .badFd => "badfd"
  | .connReset => "connreset"
  | .peerClosed => "peerclosed"
  | .busy => "busy"

def showClient : Client → String
  | .idle => "idle"
  | .ackWait .. => "ack"
  | .reading .. => "read"

def semi (xs : List String) : String := if xs.isEmpty then "-" else ";".intercalate xs

def showSys (s : Sys) : String :=
  let q := semi ((s.queue ++ s.behind).map showItem)
  let o := semi (s.out.map fun (t, b) => s!"{t}:{hexOrDash b}")
  let d := semi (s.done.map fun (t, r) => s!"{t}:{showRes r}")
  s!"c={if s.closed then 1 else 0} t={s.now} cl={showClient s.client} q={q} out={o} done={d}"

def showTr : HsfzSys.Tr → String
  | .rx w => showWire w
  | .reply => "reply"
  | .ended => "ended"

/-- whole-execution system: the connection report plus connected flag, bytes waiting for the reader task, reader trace -/
def showSSys (s : HsfzSys.Sys) : String :=
  s!"conn={if s.connected then 1 else 0} pre={hexOrDash s.pre} tr={semi (s.tr.map showTr)} {showSys s.core}"

def optNat (w : String) : Option (Option Nat) :=
  if w == "none" then some none else w.toNat?.map some

def stepD (st : DSt) (line : String) : DSt × String :=
  let run (op : Op) : DSt × String :=
    let s' := execOp st.cfg (asyncioYields st.drainYields) st.sys op
    ({ st with sys := s' }, showSys s')
  let srun (op : HsfzSys.Op) : DSt × String :=
    let s' := HsfzSys.execOp st.cfg (asyncioYields st.drainYields) st.ssys op
    ({ st with ssys := s' }, showSSys s')
  match words line with
  | ["sreset", a, b, t, y] =>
    match a.toNat?, b.toNat?, optNat t with
    | some a, some b, some t =>
      ({ cfg := HsfzSys.cfgOfUri (UInt8.ofNat a) (UInt8.ofNat b) t, drainYields := y == "1", sys := {}, ssys := {} }, "ok")
    | _, _, _ => (st, "bad-op")
  | ["sfeed", h] => match parseHex h with
    | some b => srun (.feed b)
    | none => (st, "bad-op")
  | ["sconnect"] => srun .connect
  | ["swrite", h, t] => match parseHex h, optNat t with
    | some b, some t => srun (.write b t)
    | _, _ => (st, "bad-op")
  | ["sread", t] => match optNat t with
    | some t => srun (.read t)
    | none => (st, "bad-op")
  | ["sclose"] => srun .close
  | ["seof"] => srun .eof
  | ["sadv", d] => match d.toNat? with
    | some d => srun (.advance d)
    | none => (st, "bad-op")
  | ["reset", a, b, t, y] =>
    match a.toNat?, b.toNat?, t.toNat? with
    | some a, some b, some t =>
      ({ cfg := ⟨UInt8.ofNat a, UInt8.ofNat b, t⟩, drainYields := y == "1", sys := {}, ssys := {} }, "ok")
    | _, _, _ => (st, "bad-op")
  | ["feed", h] => match parseHex h with
    | some b => run (.feed b)
    | none => (st, "bad-op")
  | ["write", h, t] => match parseHex h, optNat t with
    | some b, some t => run (.write b t)
    | _, _ => (st, "bad-op")
  | ["read", t] => match optNat t with
    | some t => run (.read t)
    | none => (st, "bad-op")
  | ["adv", d] => match d.toNat? with
    | some d => run (.advance d)
    | none => (st, "bad-op")
  | ["eof"] => run .eof
  | ["parse", h] => match parseHex h with
    | some b =>
      let (fs, rest) := parseAll hsfzCutter b
      (st, s!"{semi (fs.map showWire)} {hexOrDash rest}")
    | none => (st, "bad-op")
  | ["encode", cw, a, h] => match cw.toNat?, parseHex a, parseHex h with
    | some cw, some [s, t], some d => (st, hexOrDash (encodeWire (.full cw s t d)))
    | some cw, some [], some d => (st, hexOrDash (encodeWire (.short cw d)))
    | _, _, _ => (st, "bad-op")
  | ["alive"] => (st, hexOrDash (aliveReply st.cfg))
  | _ => (st, "bad-op")

def main : IO Unit := loopState ({} : DSt) stepD
