import Gallia.Lib.Proto
import Gallia.Model.Randomize
import Gallia.Model.VEcuRng
open Gallia Gallia.Proto Gallia.Randomize

/-! line-protocol driver for the C16 model (`RandomUDSServer.randomize`)

  reset
  params <mandSess> <optSess> <mandSvc> <optSvc>      comma separated naturals, `-` = empty
  probs <p_session> <p_service> <p_sub_function>     IEEE-754 bit patterns (decimal)
  orders <l0>;<l1>;...                               iteration order of the level set per level
  choices <i0>,<i1>,...                              indices returned by rng.choice
  fdraws <k0>,<k1>,...                               rng.random() == k / 2^53
  bdraws 0110...                                     Boolean draws
  run float | run bool                               -> <dump> draws=<n> choices=<n> levels=<n> order=<ok|bad>
  wf <dump>                                          -> well-formedness report of a model under the current params
  runpy float | runpy bool                           -> <dump> draws=<n> choices=<n> levels=<n> orders=<l0>;<l1>;...
                                                        (no `orders` input: CPython's set order is computed, Model/PySet)
  defopt <all> <mandatory> <neg>                     -> list(set(all) - set(mandatory + [neg])) by the PySet model
  s new <d> | s from <d> <xs>                        registers of PySets (values); every `s` line prints
  s add|discard <d> <a> <x> | s update <d> <a> <xs>     <list(d)> used=<n> fill=<n> size=<n>
  s sub|or|isub|ior <d> <a> <b> | s copy <d> <a>     d := a - b | a | b | (a -= b) | (a |= b) | a.copy()
  s has <a> <x>                                      -> 0 | 1

 handler layer (Model/VEcuRng.lean):
  h cfg <seed> <p_identifier> <p_correct_payload_format> <p_dtc_status_mask>     (floats as IEEE-754 bit patterns, decimal)
  h clear                                             forget the recorded streams
  h rng <hex(seed text)|-> <v0,v1,...|->             results of the calls made on the RNG seeded with that text (- = RNG())
  h state <session> <saType|-> <seed hex|->
  h req <kind> <pdu hex|-> <a> <b>                    -> reply=<..> session=<n> sa=<type>:<seed hex>|- trace=<seg>;<seg>..
                                                        seg = <hex(seed text)|->:<call>,<call>..   call = R | I<lo>-<hi> | E<mean>
  h update <dsc|ecureset|tp|saseed|sakey|other> <a> <seed hex|->   -> session=<n> sa=..   (update_state on the current state)
  h sources                                           -> the declared AST tables (handler|sources|free names|draw calls ...)
  h repr <hex>                                        -> hex(utf8(str(bytes)))
-/

structure St where
  p : Params := ⟨[], [], [], []⟩
  pSession : Float := 0
  pService : Float := 0
  pSub : Float := 0
  orders : Array (List Nat) := #[]
  choices : Array Nat := #[]
  fdraws : Array Nat := #[]
  bdraws : Array Bool := #[]
  regs : Array PySet.PySet := #[]
  hcfg : VEcuRng.Cfg := ⟨0, ⟨0, 0, 0⟩⟩
  hstreams : List (Option String × Array Nat) := []
  hstate : VEcuRng.State := {}

def parseNats (s : String) : Option (List Nat) :=
  if s == "-" then some [] else (s.splitOn ",").mapM String.toNat?

def showNats (sep : String) (l : List Nat) : String := sep.intercalate (l.map toString)

def showSvc : Nat × Option (List Nat) → String
  | (k, none) => s!"{k}=N"
  | (k, some l) => s!"{k}={showNats "." l}"

def showModel (m : Model) : String :=
  if m.isEmpty then "-" else ";".intercalate (m.map fun (s, sm) => s!"{s}:{",".intercalate (sm.map showSvc)}")

def parseSvc (s : String) : Option (Nat × Option (List Nat)) :=
  match s.splitOn "=" with
  | [k, v] => do
    let k ← k.toNat?
    if v == "N" then pure (k, none)
    else if v == "" then pure (k, some [])
    else
      let l ← (v.splitOn ".").mapM String.toNat?
      pure (k, some l)
  | _ => none

def parseModel (s : String) : Option Model :=
  if s == "-" then some [] else
  (s.splitOn ";").mapM fun e =>
    match e.splitOn ":" with
    | [k, v] => do
      let k ← k.toNat?
      let sm ← if v == "" then pure [] else (v.splitOn ",").mapM parseSvc
      pure (k, sm)
    | _ => none

def two53 : Float := Float.ofNat (2 ^ 53)

/-- threshold of a call site, computed as the code computes it -/
def threshold (s : St) : Thr → Float
  | .trans n level => s.pSession / Float.ofNat n / Float.pow 2.0 (Float.ofNat level + 0.5)
  | .service => s.pService
  | .sa => s.pSub / 2.0
  | .sub => s.pSub

def oracles (s : St) (float : Bool) : Oracles where
  draw := fun i k =>
    if float then
      match s.fdraws[i]? with
      | some v => Float.ofNat v / two53 < threshold s k
      | none => false
    else s.bdraws.getD i false
  choice := fun c => s.choices.getD c 0
  order := fun l => s.orders.getD l []

/-- the level sets the model walks (replica of `levels` that keeps them), to validate the recorded orders -/
def levelSets (comb : List Nat) (o : Oracles) : Nat → Trans → List Nat → Nat → Nat → List (List Nat)
  | 0, _, lvl, _, _ => [lvl]
  | fuel + 1, t, lvl, level, i =>
    let b := levelBody comb o t lvl level i
    let nl := nextLevel t b.2.1
    if nl.isEmpty then [lvl] else lvl :: levelSets comb o fuel b.1 nl (level + 1) b.2.2

def isPermOf (a b : List Nat) : Bool :=
  a.length == b.length && a.all b.contains && b.all a.contains

def b01 (b : Bool) : String := if b then "1" else "0"

def showSet (x : PySet.PySet) : String :=
  let l := PySet.toList x
  s!"{if l.isEmpty then "-" else showNats "," l} used={x.used} fill={x.fill} size={x.table.size}"

def reg (s : St) (i : Nat) : PySet.PySet := s.regs.getD i PySet.empty

def setReg (s : St) (d : Nat) (x : PySet.PySet) : St × String :=
  let regs := if d < s.regs.size then s.regs else s.regs ++ Array.replicate (d + 1 - s.regs.size) PySet.empty
  ({ s with regs := regs.setIfInBounds d x }, showSet x)

def setOp (s : St) : List String → St × String
  | ["new", d] => match d.toNat? with
    | some d => setReg s d PySet.empty
    | none => (s, "bad-op")
  | ["from", d, xs] => match d.toNat?, parseNats xs with
    | some d, some xs => setReg s d (PySet.ofList xs)
    | _, _ => (s, "bad-op")
  | ["update", d, a, xs] => match d.toNat?, a.toNat?, parseNats xs with
    | some d, some a, some xs => setReg s d (PySet.update (reg s a) xs)
    | _, _, _ => (s, "bad-op")
  | ["has", a, x] => match a.toNat?, x.toNat? with
    | some a, some x => (s, b01 (PySet.contains (reg s a) x))
    | _, _ => (s, "bad-op")
  | ["copy", d, a] => match d.toNat?, a.toNat? with
    | some d, some a => setReg s d (PySet.copy (reg s a))
    | _, _ => (s, "bad-op")
  | [op, d, a, b] => match d.toNat?, a.toNat?, b.toNat? with
    | some d, some a, some b =>
      match op with
      | "add" => setReg s d (PySet.add (reg s a) b)
      | "discard" => setReg s d (PySet.discard (reg s a) b)
      | "sub" => setReg s d (PySet.difference (reg s a) (reg s b))
      | "or" => setReg s d (PySet.union (reg s a) (reg s b))
      | "isub" => setReg s d (PySet.differenceUpdate (reg s a) (reg s b))
      | "ior" => setReg s d (PySet.merge (reg s a) (reg s b))
      | _ => (s, "bad-op")
    | _, _, _ => (s, "bad-op")
  | _ => (s, "bad-op")

namespace H
open Gallia.VEcuRng

def hexText (t : String) : String := if t.isEmpty then "-" else hexStr t.toUTF8.toList
def unhexText (h : String) : Option String := (parseHex h).map (fun bs => String.ofList (bs.map (fun b => Char.ofNat b.toNat)))
def natsOf (bs : Bytes) : List Nat := bs.map (·.toNat)
def hexNats (l : List Nat) : String := hexOrDash (l.map UInt8.ofNat)

/-- the recorded results as a stream: the i-th call on the object gets the i-th recorded value -/
def streamOf (tbl : List (Option String × Array Nat)) (key : Option String) : DrawStream :=
  fun cs => ((tbl.find? (fun e => e.1 == key)).map (·.2)).getD #[] |>.getD (cs.length - 1) 0

def showCall : Call → String
  | .random => "R"
  | .randint lo hi => s!"I{lo}-{hi}"
  | .expo m => s!"E{m}"

def showSeg (sg : Segment) : String :=
  (match sg.1 with | some t => hexText t | none => "-") ++ ":" ++ ",".intercalate (sg.2.map showCall)

def showReply : Option Reply → String
  | none => "none"
  | some (.neg sid nrc) => s!"neg,{sid},{nrc}"
  | some (.ecuReset rt none) => s!"ecureset,{rt},-"
  | some (.ecuReset rt (some v)) => s!"ecureset,{rt},{v}"
  | some (.saSeed t sd) => s!"saseed,{t},{hexNats sd}"
  | some (.saKey t) => s!"sakey,{t}"
  | some (.routine sf rid pl) => s!"routine,{sf},{rid},{hexNats pl}"
  | some (.rdbi did pl) => s!"rdbi,{did},{hexNats pl}"
  | some (.wdbi did) => s!"wdbi,{did}"
  | some (.ioctl did pl) => s!"ioctl,{did},{hexNats pl}"
  | some .clearDTC => "cleardtc"
  | some (.dtcs m recs) => s!"dtcs,{m}," ++ ".".intercalate (recs.map (fun e => s!"{e.1}={e.2}"))
  | some (.dsc x) => s!"dsc,{x}"
  | some .testerPresent => "tp"
  | some (.chain pdu) => s!"chain,{hexNats pdu}"

def parseReq (kind : String) (pdu : List Nat) (a b : Nat) : Option Request :=
  match kind with
  | "ecureset" => some (.ecuReset pdu a)
  | "requestseed" => some (.requestSeed a)
  | "sendkey" => some (.sendKey a pdu)
  | "routine" => some (.routineControl pdu a b)
  | "rdbi" => some (.readDataById pdu a)
  | "wdbi" => some (.writeDataById pdu a)
  | "ioctl" => some (.ioControl pdu a)
  | "cleardtc" => some (.clearDTC a)
  | "dtcmask" => some (.reportDTCByStatusMask a)
  | "dtcother" => some .readDTCOther
  | "other" => some (.other a)
  | _ => none

def showTable (t : List (String × List String)) : String :=
  " ## ".intercalate (t.map (fun e => e.1 ++ " :: " ++ " ;; ".intercalate e.2))

def sources : String :=
  "handlers=" ++ " ;; ".intercalate declaredHandlers ++ " @@ sources=" ++ showTable declaredSources
    ++ " @@ free=" ++ showTable declaredFreeNames ++ " @@ draws=" ++ showTable declaredDrawCalls
    ++ " @@ texts=" ++ showTable (declaredTexts.map (fun e => (e.1, [e.2])))

end H

def hstep (s : St) : List String → St × String
  | ["cfg", seed, a, b, c] =>
    match seed.toInt?, a.toNat?, b.toNat?, c.toNat? with
    | some seed, some a, some b, some c =>
      ({ s with hcfg := ⟨seed, ⟨VEcuRng.floatOfBits a, VEcuRng.floatOfBits b, VEcuRng.floatOfBits c⟩⟩ }, "ok")
    | _, _, _, _ => (s, "bad-op")
  | ["clear"] => ({ s with hstreams := [] }, "ok")
  | ["rng", t, vs] =>
    match (if t == "-" then some none else (H.unhexText t).map some), parseNats vs with
    | some key, some vs =>
      let old := ((s.hstreams.find? (fun e => e.1 == key)).map (·.2.size)).getD 0
      if vs.length < old then (s, "ok")
      else ({ s with hstreams := (key, vs.toArray) :: s.hstreams.filter (fun e => e.1 != key) }, "ok")
    | _, _ => (s, "bad-op")
  | ["state", sess, t, sd] =>
    match sess.toNat?, parseHex sd with
    | some sess, some sd =>
      ({ s with hstate := ⟨sess, t.toNat?.map (fun t => (t, H.natsOf sd))⟩ }, "ok")
    | _, _ => (s, "bad-op")
  | ["req", kind, pdu, a, b] =>
    match parseHex pdu, a.toNat?, b.toNat? with
    | some pdu, some a, some b =>
      match H.parseReq kind (H.natsOf pdu) a b with
      | some req =>
        let w : VEcuRng.World := ⟨fun t => H.streamOf s.hstreams (some t), H.streamOf s.hstreams none, fun _ => 0⟩
        let o := VEcuRng.respondAfterDefault s.hcfg w s.hstate req
        let sa := match o.st.lastSA with | some (t, sd) => s!"{t}:{H.hexNats sd}" | none => "-"
        (s, s!"reply={H.showReply o.reply} session={o.st.session} sa={sa} trace={";".intercalate (o.trace.map H.showSeg)}")
      | none => (s, "bad-op")
    | _, _, _ => (s, "bad-op")
  | ["update", kind, a, sd] =>
    match a.toNat?, parseHex sd with
    | some a, some sd =>
      let r : Option VEcuRng.Reply := match kind with
        | "dsc" => some (.dsc a)
        | "ecureset" => some (.ecuReset a none)
        | "tp" => some .testerPresent
        | "saseed" => some (.saSeed a (H.natsOf sd))
        | "sakey" => some (.saKey a)
        | "other" => some (.neg a 0)
        | _ => none
      match r with
      | some r =>
        let st := VEcuRng.updateState s.hstate r
        let sa := match st.lastSA with | some (t, sd) => s!"{t}:{H.hexNats sd}" | none => "-"
        (s, s!"session={st.session} sa={sa}")
      | none => (s, "bad-op")
    | _, _ => (s, "bad-op")
  | ["sources"] => (s, H.sources)
  | ["repr", h] =>
    match parseHex h with
    | some bs => (s, H.hexText (VEcuRng.pyBytesRepr (H.natsOf bs)))
    | none => (s, "bad-op")
  | _ => (s, "bad-op")

def step (s : St) (line : String) : St × String :=
  match words line with
  | ["reset"] => ({}, "ok")
  | "h" :: rest => hstep s rest
  | ["params", a, b, c, d] =>
    match parseNats a, parseNats b, parseNats c, parseNats d with
    | some a, some b, some c, some d => ({ s with p := ⟨a, b, c, d⟩ }, "ok")
    | _, _, _, _ => (s, "bad-op")
  | ["probs", a, b, c] =>
    match a.toNat?, b.toNat?, c.toNat? with
    | some a, some b, some c =>
      ({ s with pSession := Float.ofBits a.toUInt64, pService := Float.ofBits b.toUInt64,
                pSub := Float.ofBits c.toUInt64 }, "ok")
    | _, _, _ => (s, "bad-op")
  | ["orders", a] =>
    if a == "-" then ({ s with orders := #[] }, "ok") else
    match (a.splitOn ";").mapM parseNats with
    | some l => ({ s with orders := l.toArray }, "ok")
    | none => (s, "bad-op")
  | ["choices", a] =>
    match parseNats a with
    | some l => ({ s with choices := l.toArray }, "ok")
    | none => (s, "bad-op")
  | ["fdraws", a] =>
    match parseNats a with
    | some l => ({ s with fdraws := l.toArray }, "ok")
    | none => (s, "bad-op")
  | ["bdraws", a] =>
    if a == "-" then ({ s with bdraws := #[] }, "ok")
    else ({ s with bdraws := (a.toList.map (· == '1')).toArray }, "ok")
  | ["run", mode] =>
    let o := oracles s (mode == "float")
    let r := randomizeGen isoTables s.p o
    let comb := s.p.mandatorySessions ++ s.p.optionalSessions
    let sets := levelSets comb o nSessions initTrans [defaultSession] 0 0
    let ok := sets.length == r.levels &&
      (List.range sets.length).all (fun l => isPermOf (o.order l) (sets.getD l []))
    (s, s!"{showModel r.model} draws={r.draws} choices={r.choices} levels={r.levels} order={if ok then "ok" else "bad"}")
  | ["runpy", mode] =>
    let o := oracles s (mode == "float")
    let r := randomizePyGen isoTables s.p o.draw o.choice
    (s, s!"{showModel r.model} draws={r.draws} choices={r.choices} levels={r.levels} orders={";".intercalate (r.orders.map (showNats ","))}")
  | ["defopt", a, m, n] =>
    match parseNats a, parseNats m, n.toNat? with
    | some a, some m, some n => (s, showNats "," (defaultOptionalServices a m n))
    | _, _, _ => (s, "bad-op")
  | "s" :: rest => setOp s rest
  | ["wf", m] =>
    match parseModel m with
    | some m =>
      let w := wfReport isoTables s.p m
      (s, s!"msess={b01 w.mandatorySessions} msvc={b01 w.mandatoryServices} default={b01 w.defaultPresent} reach={b01 w.reachable} returns={b01 w.returns} dscsess={b01 w.dscAreSessions}")
    | none => (s, "bad-op")
  | _ => (s, "bad-op")

def main : IO Unit := loopState ({} : St) step
