import Gallia.Lib.Proto
import Gallia.Model.Lifecycle
import Gallia.Spec.Lifecycle
import Gallia.Model.LifecycleDb
open Gallia Gallia.Proto Gallia.Lifecycle

/-
  line protocol
    run  <quirks:5 bits> <world> <kind> <cfg:8 bits> <script:18 words>             -> final
    spec <world> <kind> <cfg:8 bits> <script:18 words> | <final>                   -> ok | clause,clause
    code <kind> <cfg:8 bits> <script:18 words>                                     -> expected exit code of a run that starts
    start <world> <kind> <cfg:8 bits>                                              -> noLock | noArtDir | started
    dbrun  <kind> <call|-> <idx> <mode> <body event>                               -> exit=.. row=.. closed=.. finished=.. fired=..
    dbspec <kind> <call|-> <idx> <mode> <body event> | <the same fields, observed> -> ok | clause,clause
    dbbusy <kind> <insert|complete|disconnect> <hold ms> <busy timeout ms> <body event>   -> the same fields (another writer holds the lock)
    dbbusyspec <kind> <phase> <hold ms> <body event> | <the same fields, observed>      -> ok | clause,clause
           call : connect | insert | complete | disconnect ('-' = no fault)   mode : raise | cancel
  cfg bits : lock art db hooks power dumpcap tp props
  script   : pre dbopen power dumpcap connect ecuConnect tpStart propsPre setup main tdPre propsPost tpStop ecuClose close
             dcStop tdPost post
             pre/dbopen/post : ok | fail     dumpcap : started | none | missing | sync
             every other word: ok | exit:<n> | exitx | conn | uds | other | kbd | cancel
  world    : lock=<free|busy|broken|interrupted>;base=<0|1>;now=<n>;runs=<- | name:tag/name:tag ...>;latest=<-|n>      (tag '-' = no META.json)
  final    : exit=.. meta=.. db=.. dbclosed=.. logclosed=.. lock=.. pre=.. post=.. reports=.. tclosed=.. trace=..
             tpstopped=.. dcstopped=.. waited=.. artdir=.. runs=.. latest=..
-/

def bit (c : Char) : Option Bool := if c == '1' then some true else if c == '0' then some false else none

def parseKind : String → Option Kind
  | "plain" => some .plain
  | "scanner" => some .scanner
  | "uds" => some .uds
  | _ => none

def parseEv (s : String) : Option Ev :=
  match s with
  | "ok" => some none
  | "exitx" => some (some .sysExitOther)
  | "conn" => some (some (.err .conn))
  | "uds" => some (some (.err .uds))
  | "other" => some (some (.err .other))
  | "kbd" => some (some .kbd)
  | "cancel" => some (some .cancelled)
  | _ =>
    match s.splitOn ":" with
    | ["exit", n] => n.toNat?.map fun k => some (.sysExit k)
    | _ => none

def parseFail : String → Option Bool
  | "ok" => some false
  | "fail" => some true
  | _ => none

def parseCfg (k bits : String) : Option Cfg := do
  let kind ← parseKind k
  match bits.toList with
  | [a, b, c, d, e, f, g, h] =>
    some { kind, lock := ← bit a, art := ← bit b, db := ← bit c, hooks := ← bit d, power := ← bit e, dumpcap := ← bit f,
           tp := ← bit g, props := ← bit h }
  | _ => none

def parseQuirks (bits : String) : Option Quirks :=
  match bits.toList with
  | [a, b, c, d, e] => do
    some { hookUnbound := ← bit a, scannerDisconnect := ← bit b, cancelUnmapped := ← bit c, dbOpenUnguarded := ← bit d,
           mkdirExistOk := ← bit e }
  | _ => none

def parseDumpcap : String → Option Dumpcap
  | "started" => some .started
  | "none" => some .notStarted
  | "missing" => some .missing
  | "sync" => some .syncFails
  | _ => none

def parseScript : List String → Option Script
  | [p, o, pw, dc, cn, ec, ts, pp, a, b, c, pq, tq, e1, e2, ds, d, q] => do
    some { preFails := ← parseFail p, dbFails := ← parseFail o, power := ← parseEv pw, dumpcap := ← parseDumpcap dc,
           connect := ← parseEv cn, ecuConnect := ← parseEv ec, tpStart := ← parseEv ts, propsPre := ← parseEv pp,
           setup := ← parseEv a, main := ← parseEv b, tdPre := ← parseEv c, propsPost := ← parseEv pq,
           tpStop := ← parseEv tq, ecuClose := ← parseEv e1, close := ← parseEv e2, dcStop := ← parseEv ds,
           tdPost := ← parseEv d, postFails := ← parseFail q }
  | _ => none

def kv (key : String) (tok : String) : Option String :=
  match tok.splitOn "=" with
  | [k, v] => if k == key then some v else none
  | _ => none

def optNatP (s : String) : Option (Option Nat) :=
  if s == "-" then some none else s.toNat?.map some

def parseRuns (s : String) : Option (List RunDir) :=
  if s == "-" then some [] else
  (s.splitOn "/").mapM fun r => match r.splitOn ":" with
    | [n, t] => do some { name := ← n.toNat?, metaTag := ← optNatP t }
    | _ => none

def optNatS : Option Nat → String
  | none => "-"
  | some n => toString n

def showRuns (rs : List RunDir) : String :=
  if rs.isEmpty then "-" else "/".intercalate (rs.map fun r => s!"{r.name}:{optNatS r.metaTag}")

def parseWorld (s : String) : Option World :=
  match s.splitOn ";" with
  | [l, b, n, r, la] => do
    let lock ← match ← kv "lock" l with
      | "free" => some LockEnv.free
      | "busy" => some LockEnv.busy
      | "broken" => some LockEnv.broken
      | "interrupted" => some LockEnv.interrupted
      | _ => none
    let baseOk ← match ← kv "base" b with
      | "1" => some true
      | "0" => some false
      | _ => none
    some { lock, baseOk, now := ← (← kv "now" n).toNat?, runs := ← parseRuns (← kv "runs" r),
           latest := ← optNatP (← kv "latest" la) }
  | _ => none

def b01 (b : Bool) : String := if b then "1" else "0"

def showAct (a : Act) : String := a.name

def allActs : List Act :=
  [.pre, .power, .dumpcap, .connect, .ecuConnect, .tpStart, .propsPre, .setup, .main, .tdPre, .propsPost, .tpStop, .close,
   .dcStop, .tdPost, .post]

def parseAct (s : String) : Option Act := allActs.find? fun a => a.name == s

def showHook : Hook → String
  | .pre => "pre" | .post => "post"

def showFinal (f : Final) : String :=
  let exit := match f.exit with
    | .ret n => s!"ret:{n}"
    | .escCancelled => "esc:cancelled"
    | .escHook => "esc:hook"
    | .escDb => "esc:db"
    | .escArt => "esc:art"
    | .escLockWait => "esc:lockwait"
  let mf := match f.metaFile with
    | none => "none"
    | some m => s!"{m.exit}:{m.start}:{m.stop}"
  let db := match f.dbRow with
    | .absent => "absent"
    | .running a => s!"running:{a}"
    | .done a b x => s!"done:{a}:{b}:{x}"
  let post := match f.postEnv with
    | none => "none"
    | some e => s!"{e.exitCode}:{e.metaExit}:{e.metaStop}"
  let reports := if f.reports.isEmpty then "-" else ",".intercalate (f.reports.map showHook)
  let trace := if f.trace.isEmpty then "-" else
    ",".intercalate (f.trace.map fun o => s!"{showAct o.act}{b01 o.lockHeld}{b01 o.metaExists}")
  s!"exit={exit} meta={mf} db={db} dbclosed={b01 f.dbClosed} logclosed={b01 f.logClosed} lock={b01 f.lockReleased} pre={b01 f.preRan} post={post} reports={reports} tclosed={b01 f.transportClosed} trace={trace} tpstopped={b01 f.tpStopped} dcstopped={b01 f.dcStopped} waited={b01 f.waited} artdir={optNatS f.artDir} runs={showRuns f.runs} latest={optNatS f.latest}"

def parseBool : String → Option Bool
  | "1" => some true
  | "0" => some false
  | _ => none

def parseObs (s : String) : Option Obs :=
  let cs := s.toList
  if cs.length < 3 then none else
  let name := String.ofList (cs.take (cs.length - 2))
  match cs.drop (cs.length - 2) with
  | [a, b] => do some ⟨← parseAct name, ← bit a, ← bit b⟩
  | _ => none

def parseFinal : List String → Option Final
  | [e, m, d, dc, lc, lk, pr, po, rp, tc, tr, tps, dcs, wt, ad, rn, la] => do
    let e ← kv "exit" e
    let exit ← match e.splitOn ":" with
      | ["ret", n] => n.toNat?.map Outcome.ret
      | ["esc", "cancelled"] => some .escCancelled
      | ["esc", "hook"] => some .escHook
      | ["esc", "db"] => some .escDb
      | ["esc", "art"] => some .escArt
      | ["esc", "lockwait"] => some .escLockWait
      | _ => none
    let m ← kv "meta" m
    let metaFile ← match m.splitOn ":" with
      | ["none"] => some none
      | [x, a, b] => do some (some ⟨← x.toNat?, ← a.toNat?, ← b.toNat?⟩)
      | _ => none
    let d ← kv "db" d
    let dbRow ← match d.splitOn ":" with
      | ["absent"] => some DbRow.absent
      | ["running", a] => a.toNat?.map DbRow.running
      | ["done", a, b, x] => do some (DbRow.done (← a.toNat?) (← b.toNat?) (← x.toNat?))
      | _ => none
    let po ← kv "post" po
    let postEnv ← match po.splitOn ":" with
      | ["none"] => some none
      | [x, y, z] => do some (some ⟨← x.toNat?, ← y.toNat?, ← z.toNat?⟩)
      | _ => none
    let rp ← kv "reports" rp
    let reports ← if rp == "-" then some [] else
      (rp.splitOn ",").mapM fun h => match h with
        | "pre" => some Hook.pre
        | "post" => some Hook.post
        | _ => none
    let tr ← kv "trace" tr
    let trace ← if tr == "-" then some [] else (tr.splitOn ",").mapM parseObs
    some { exit, metaFile, dbRow, dbClosed := ← parseBool (← kv "dbclosed" dc),
           logClosed := ← parseBool (← kv "logclosed" lc), lockReleased := ← parseBool (← kv "lock" lk),
           preRan := ← parseBool (← kv "pre" pr), postEnv, reports,
           transportClosed := ← parseBool (← kv "tclosed" tc), trace,
           tpStopped := ← parseBool (← kv "tpstopped" tps), dcStopped := ← parseBool (← kv "dcstopped" dcs),
           waited := ← parseBool (← kv "waited" wt), artDir := ← optNatP (← kv "artdir" ad),
           runs := ← parseRuns (← kv "runs" rn), latest := ← optNatP (← kv "latest" la) }
  | _ => none

def splitBar : List String → List String × List String
  | [] => ([], [])
  | "|" :: rest => ([], rest)
  | x :: rest => let r := splitBar rest; (x :: r.1, r.2)

open DbFault in
def parseFault (c i m : String) : Option (Option Fault) :=
  if c == "-" then some none else do
    let call ← match c with
      | "connect" => some Call.connect
      | "insert" => some Call.insert
      | "complete" => some Call.complete
      | "disconnect" => some Call.disconnect
      | _ => none
    let mode ← match m with
      | "raise" => some Mode.raise
      | "cancel" => some Mode.cancel
      | _ => none
    some (some ⟨call, ← i.toNat?, mode⟩)

open DbFault in
def parseContention (p h : String) : Option Contention := do
  let phase ← match p with
    | "insert" => some Phase.insert
    | "complete" => some Phase.complete
    | "disconnect" => some Phase.disconnect
    | _ => none
  some ⟨phase, ← h.toNat?⟩

def showRow : DbFault.Row → String
  | none => "absent"
  | some none => "running"
  | some (some c) => s!"done:{c}"

def showOut (o : DbFault.Out) : String :=
  let exit := match o.exit with
    | .ret n => s!"ret:{n}"
    | _ => "esc:cancelled"
  s!"exit={exit} row={showRow o.row} closed={b01 o.closed} finished={b01 o.finished} fired={b01 o.fired}"

def parseOut : List String → Option DbFault.Out
  | [e, r, c, f, fi] => do
    let exit ← match (← kv "exit" e).splitOn ":" with
      | ["ret", n] => n.toNat?.map Outcome.ret
      | ["esc", "cancelled"] => some .escCancelled
      | _ => none
    let row ← match (← kv "row" r).splitOn ":" with
      | ["absent"] => some (none : DbFault.Row)
      | ["running"] => some (some none)
      | ["done", x] => x.toNat?.map fun n => some (some n)
      | _ => none
    some ⟨exit, row, ← parseBool (← kv "closed" c), ← parseBool (← kv "finished" f), ← parseBool (← kv "fired" fi)⟩
  | _ => none

def step (line : String) : String :=
  match words line with
  | ["dbrun", k, c, i, m, b] =>
    match parseKind k, parseFault c i m, parseEv b with
    | some k, some f, some b => showOut (DbFault.run k f b)
    | _, _, _ => "bad-op"
  | "dbspec" :: k :: c :: i :: m :: b :: "|" :: obs =>
    match parseKind k, parseFault c i m, parseEv b, parseOut obs with
    | some k, some f, some b, some o =>
      let v := DbFault.violations k f b o
      if v.isEmpty then "ok" else ",".intercalate v
    | _, _, _, _ => "bad-op"
  | ["dbbusy", k, p, h, t, b] =>
    match parseKind k, parseContention p h, t.toNat?, parseEv b with
    | some k, some c, some t, some b => showOut (DbFault.runC t k c b)
    | _, _, _, _ => "bad-op"
  | "dbbusyspec" :: k :: p :: h :: b :: "|" :: obs =>
    match parseKind k, parseContention p h, parseEv b, parseOut obs with
    | some k, some c, some b, some o =>
      let v := DbFault.violationsC k c b o
      if v.isEmpty then "ok" else ",".intercalate v
    | _, _, _, _ => "bad-op"
  | "run" :: q :: w :: k :: bits :: script =>
    match parseQuirks q, parseWorld w, parseCfg k bits, parseScript script with
    | some q, some w, some c, some s => showFinal (entryPointW q w c s)
    | _, _, _, _ => "bad-op"
  | "spec" :: w :: k :: bits :: rest =>
    let (script, fin) := splitBar rest
    match parseWorld w, parseCfg k bits, parseScript script, parseFinal fin with
    | some w, some cfg, some s, some f =>
      let v := Spec.violationsW w cfg s f
      if v.isEmpty then "ok" else ",".intercalate v
    | _, _, _, _ => "bad-op"
  | "code" :: k :: bits :: script =>
    match parseCfg k bits, parseScript script with
    | some c, some s => toString (Spec.code c s)
    | _, _ => "bad-op"
  | ["start", w, k, bits] =>
    match parseWorld w, parseCfg k bits with
    | some w, some c => match Spec.startOf w c with
      | .noLock => "noLock"
      | .lockWaitInterrupted => "lockWaitInterrupted"
      | .noArtDir => "noArtDir"
      | .started => "started"
    | _, _ => "bad-op"
  | _ => "bad-op"

def main : IO Unit := loopLines step
