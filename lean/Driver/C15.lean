import Gallia.Lib.Proto
import Gallia.Model.Lifecycle
import Gallia.Spec.Lifecycle
open Gallia Gallia.Proto Gallia.Lifecycle

/-
  line protocol
    run  <quirks:4 bits> <kind> <lock art db hooks:4 bits> <pre> <dbopen> <setup> <main> <tdPre> <tdPost> <post>   -> final
    spec <kind> <4 bits> <pre> <dbopen> <setup> <main> <tdPre> <tdPost> <post> | <final>                           -> ok | clause,clause
    code <kind> <setup> <main> <tdPre> <tdPost>                                                          -> expected exit code
  pre/dbopen/post : ok | fail          ev : ok | exit:<n> | exitx | conn | uds | other | kbd | cancel
  final    : exit=.. meta=.. db=.. dbclosed=.. logclosed=.. lock=.. pre=.. post=.. reports=.. tclosed=.. trace=..
-/

def bit (c : Char) : Option Bool := if c == '1' then some true else if c == '0' then some false else none

def parseKind : String → Option Kind
  | "plain" => some .plain
  | "scanner" => some .scanner
  | "uds" => some .uds
  | _ => none

def parseEv (s : String) : Option Ev :=
  match s with
  | "ok" => some none
  | "exitx" => some (some .sysExitOther)
  | "conn" => some (some (.err .conn))
  | "uds" => some (some (.err .uds))
  | "other" => some (some (.err .other))
  | "kbd" => some (some .kbd)
  | "cancel" => some (some .cancelled)
  | _ =>
    match s.splitOn ":" with
    | ["exit", n] => n.toNat?.map fun k => some (.sysExit k)
    | _ => none

def parseFail : String → Option Bool
  | "ok" => some false
  | "fail" => some true
  | _ => none

def parseCfg (k bits : String) : Option Cfg := do
  let kind ← parseKind k
  match bits.toList with
  | [a, b, c, d] => some { kind, lock := ← bit a, art := ← bit b, db := ← bit c, hooks := ← bit d }
  | _ => none

def parseQuirks (bits : String) : Option Quirks :=
  match bits.toList with
  | [a, b, c, d] => do
    some { hookUnbound := ← bit a, scannerDisconnect := ← bit b, cancelUnmapped := ← bit c, dbOpenUnguarded := ← bit d }
  | _ => none

def parseScript : List String → Option Script
  | [p, o, a, b, c, d, q] => do
    some { preFails := ← parseFail p, dbFails := ← parseFail o, setup := ← parseEv a, main := ← parseEv b, tdPre := ← parseEv c,
           tdPost := ← parseEv d, postFails := ← parseFail q }
  | _ => none

def b01 (b : Bool) : String := if b then "1" else "0"

def showAct : Act → String
  | .pre => "pre" | .connect => "connect" | .setup => "setup" | .main => "main"
  | .tdPre => "tdPre" | .close => "close" | .tdPost => "tdPost" | .post => "post"

def parseAct : String → Option Act
  | "pre" => some .pre | "connect" => some .connect | "setup" => some .setup | "main" => some .main
  | "tdPre" => some .tdPre | "close" => some .close | "tdPost" => some .tdPost | "post" => some .post
  | _ => none

def showHook : Hook → String
  | .pre => "pre" | .post => "post"

def showFinal (f : Final) : String :=
  let exit := match f.exit with
    | .ret n => s!"ret:{n}"
    | .escCancelled => "esc:cancelled"
    | .escHook => "esc:hook"
    | .escDb => "esc:db"
  let mf := match f.metaFile with
    | none => "none"
    | some m => s!"{m.exit}:{m.start}:{m.stop}"
  let db := match f.dbRow with
    | .absent => "absent"
    | .running a => s!"running:{a}"
    | .done a b x => s!"done:{a}:{b}:{x}"
  let post := match f.postEnv with
    | none => "none"
    | some e => s!"{e.exitCode}:{e.metaExit}:{e.metaStop}"
  let reports := if f.reports.isEmpty then "-" else ",".intercalate (f.reports.map showHook)
  let trace := if f.trace.isEmpty then "-" else
    ",".intercalate (f.trace.map fun o => s!"{showAct o.act}{b01 o.lockHeld}{b01 o.metaExists}")
  s!"exit={exit} meta={mf} db={db} dbclosed={b01 f.dbClosed} logclosed={b01 f.logClosed} lock={b01 f.lockReleased} pre={b01 f.preRan} post={post} reports={reports} tclosed={b01 f.transportClosed} trace={trace}"

def kv (key : String) (tok : String) : Option String :=
  match tok.splitOn "=" with
  | [k, v] => if k == key then some v else none
  | _ => none

def parseBool : String → Option Bool
  | "1" => some true
  | "0" => some false
  | _ => none

def parseObs (s : String) : Option Obs :=
  let cs := s.toList
  if cs.length < 3 then none else
  let name := String.ofList (cs.take (cs.length - 2))
  match cs.drop (cs.length - 2) with
  | [a, b] => do some ⟨← parseAct name, ← bit a, ← bit b⟩
  | _ => none

def parseFinal : List String → Option Final
  | [e, m, d, dc, lc, lk, pr, po, rp, tc, tr] => do
    let e ← kv "exit" e
    let exit ← match e.splitOn ":" with
      | ["ret", n] => n.toNat?.map Outcome.ret
      | ["esc", "cancelled"] => some .escCancelled
      | ["esc", "hook"] => some .escHook
      | ["esc", "db"] => some .escDb
      | _ => none
    let m ← kv "meta" m
    let metaFile ← match m.splitOn ":" with
      | ["none"] => some none
      | [x, a, b] => do some (some ⟨← x.toNat?, ← a.toNat?, ← b.toNat?⟩)
      | _ => none
    let d ← kv "db" d
    let dbRow ← match d.splitOn ":" with
      | ["absent"] => some DbRow.absent
      | ["running", a] => a.toNat?.map DbRow.running
      | ["done", a, b, x] => do some (DbRow.done (← a.toNat?) (← b.toNat?) (← x.toNat?))
      | _ => none
    let po ← kv "post" po
    let postEnv ← match po.splitOn ":" with
      | ["none"] => some none
      | [x, y, z] => do some (some ⟨← x.toNat?, ← y.toNat?, ← z.toNat?⟩)
      | _ => none
    let rp ← kv "reports" rp
    let reports ← if rp == "-" then some [] else
      (rp.splitOn ",").mapM fun h => match h with
        | "pre" => some Hook.pre
        | "post" => some Hook.post
        | _ => none
    let tr ← kv "trace" tr
    let trace ← if tr == "-" then some [] else (tr.splitOn ",").mapM parseObs
    some { exit, metaFile, dbRow, dbClosed := ← parseBool (← kv "dbclosed" dc),
           logClosed := ← parseBool (← kv "logclosed" lc), lockReleased := ← parseBool (← kv "lock" lk),
           preRan := ← parseBool (← kv "pre" pr), postEnv, reports,
           transportClosed := ← parseBool (← kv "tclosed" tc), trace }
  | _ => none

def step (line : String) : String :=
  match words line with
  | "run" :: q :: k :: bits :: script =>
    match parseQuirks q, parseCfg k bits, parseScript script with
    | some q, some c, some s => showFinal (entryPointQ q c s)
    | _, _, _ => "bad-op"
  | "spec" :: k :: bits :: p :: o :: a :: b :: c :: d :: q :: "|" :: fin =>
    match parseCfg k bits, parseScript [p, o, a, b, c, d, q], parseFinal fin with
    | some cfg, some s, some f =>
      let v := Spec.violations cfg s f
      if v.isEmpty then "ok" else ",".intercalate v
    | _, _, _ => "bad-op"
  | ["code", k, a, b, c, d] =>
    match parseKind k, parseScript ["ok", "ok", a, b, c, d, "ok"] with
    | some kind, some s => toString (Spec.exitOf kind (Spec.raised s))
    | _, _ => "bad-op"
  | _ => "bad-op"

def main : IO Unit := loopLines step
