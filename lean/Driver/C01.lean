import Gallia.Lib.Proto
import Gallia.Model.UdsReq
/-
  line-protocol driver over the UDS request model (C01)
    mk <kind> <args…>   ->  `err` | `ok <pdu hex> <request>`
    dec <hex>           ->  `<request> | <hex of encode (decode b)>`
  request / args text: tokens separated by blanks; bytes as hex (`-` = empty); integer lists `a,b,c` (`-` = empty);
  groups `a:b:c,…`; absent optional = `none`; booleans 0/1.
-/
open Gallia Gallia.Proto Gallia.UdsReq

def b01 (b : Bool) : String := if b then "1" else "0"

def showList (xs : List String) : String := if xs.isEmpty then "-" else ",".intercalate xs

def showReq : Req → String
  | .dsc ty sup => s!"dsc {ty} {b01 sup}"
  | .ecuReset ty sup => s!"ecuReset {ty} {b01 sup}"
  | .requestSeed l r sup => s!"requestSeed {l} {hexOrDash r} {b01 sup}"
  | .sendKey l k sup => s!"sendKey {l} {hexOrDash k} {b01 sup}"
  | .commCtrl c m sup => s!"commCtrl {c} {m} {b01 sup}"
  | .testerPresent sup => s!"testerPresent {b01 sup}"
  | .controlDTC t r sup => s!"controlDTC {t} {hexOrDash r} {b01 sup}"
  | .rdbi ds => s!"rdbi {showList (ds.map toString)}"
  | .rmba a s f => s!"rmba {a} {s} {f}"
  | .defineById d gs sup => s!"defineById {d} {showList (gs.map fun g => s!"{g.1}:{g.2.1}:{g.2.2}")} {b01 sup}"
  | .defineByMem d f gs sup => s!"defineByMem {d} {f} {showList (gs.map fun g => s!"{g.1}:{g.2}")} {b01 sup}"
  | .clearDDDI d sup => s!"clearDDDI {showOptNat d} {b01 sup}"
  | .wdbi d r => s!"wdbi {d} {hexOrDash r}"
  | .wmba a s f r => s!"wmba {a} {s} {f} {hexOrDash r}"
  | .clearDTC g => s!"clearDTC {g}"
  | .dtcByMask sf m sup => s!"dtcByMask {sf} {m} {b01 sup}"
  | .dtcPlain sf sup => s!"dtcPlain {sf} {b01 sup}"
  | .dtcExtByNumber d n sup => s!"dtcExtByNumber {d} {n} {b01 sup}"
  | .iocbi d o m => s!"iocbi {d} {hexOrDash o} {hexOrDash m}"
  | .routine sf r rec sup => s!"routine {sf} {r} {hexOrDash rec} {b01 sup}"
  | .reqDownload a s c e f => s!"reqDownload {a} {s} {c} {e} {f}"
  | .reqUpload a s c e f => s!"reqUpload {a} {s} {c} {e} {f}"
  | .transferData c r => s!"transferData {c} {hexOrDash r}"
  | .transferExit r => s!"transferExit {hexOrDash r}"
  | .raw b => s!"raw {hexOrDash b}"

def pBool (s : String) : Option Bool := if s == "1" then some true else if s == "0" then some false else none
def pInt (s : String) : Option Int := s.toInt?
def pOptInt (s : String) : Option (Option Int) := if s == "none" then some none else (s.toInt?).map some
def pInts (s : String) : Option (List Int) := if s == "-" then some [] else (s.splitOn ",").mapM (·.toInt?)

def parseArgs : List String → Option Args
  | ["dsc", t, s] => do pure (.dsc (← pInt t) (← pBool s))
  | ["ecuReset", t, s] => do pure (.ecuReset (← pInt t) (← pBool s))
  | ["requestSeed", l, r, s] => do pure (.requestSeed (← pInt l) (← parseHex r) (← pBool s))
  | ["sendKey", l, r, s] => do pure (.sendKey (← pInt l) (← parseHex r) (← pBool s))
  | ["commCtrl", c, m, s] => do pure (.commCtrl (← pInt c) (← pInt m) (← pBool s))
  | ["testerPresent", s] => do pure (.testerPresent (← pBool s))
  | ["controlDTC", t, r, s] => do pure (.controlDTC (← pInt t) (← parseHex r) (← pBool s))
  | ["rdbi", ds] => do pure (.rdbi (← pInts ds))
  | ["rmba", a, s, f] => do pure (.rmba (← pInt a) (← pInt s) (← pOptInt f))
  | ["defineById", d, a, b, c, s] => do pure (.defineById (← pInt d) (← pInts a) (← pInts b) (← pInts c) (← pBool s))
  | ["defineByMem", d, a, b, f, s] => do pure (.defineByMem (← pInt d) (← pInts a) (← pInts b) (← pOptInt f) (← pBool s))
  | ["clearDDDI", d, s] => do pure (.clearDDDI (← pOptInt d) (← pBool s))
  | ["wdbi", d, r] => do pure (.wdbi (← pInt d) (← parseHex r))
  | ["wmba", a, r, s, f] => do pure (.wmba (← pInt a) (← parseHex r) (← pOptInt s) (← pOptInt f))
  | ["clearDTC", g] => do pure (.clearDTC (← pInt g))
  | ["dtcByMask", sf, m, s] => do pure (.dtcByMask (← sf.toNat?) (← pInt m) (← pBool s))
  | ["dtcPlain", sf, s] => do pure (.dtcPlain (← sf.toNat?) (← pBool s))
  | ["dtcExtByNumber", d, n, s] => do pure (.dtcExtByNumber (← pInt d) (← pInt n) (← pBool s))
  | ["dtcExtByNumberB", d, n, s] => do pure (.dtcExtByNumberB (← parseHex d) (← pInt n) (← pBool s))
  | ["iocbi", d, o, m] => do pure (.iocbi (← pInt d) (← parseHex o) (← parseHex m))
  | ["iocbiConv", p, d, m] => do pure (.iocbiConv (← p.toNat?) (← pInt d) (← parseHex m))
  | ["iocbiShortTerm", d, st, m] => do pure (.iocbiShortTerm (← pInt d) (← parseHex st) (← parseHex m))
  | ["routine", sf, r, rec, s] => do pure (.routine (← sf.toNat?) (← pInt r) (← parseHex rec) (← pBool s))
  | ["reqDownload", a, s, c, e, f] => do pure (.reqDownload (← pInt a) (← pInt s) (← pInt c) (← pInt e) (← pOptInt f))
  | ["reqUpload", a, s, c, e, f] => do pure (.reqUpload (← pInt a) (← pInt s) (← pInt c) (← pInt e) (← pOptInt f))
  | ["transferData", c, r] => do pure (.transferData (← pInt c) (← parseHex r))
  | ["transferExit", r] => do pure (.transferExit (← parseHex r))
  | ["raw", r] => do pure (.raw (← parseHex r))
  | _ => none

def step (line : String) : String :=
  match words line with
  | "mk" :: rest =>
    match parseArgs rest with
    | some a =>
      match mk a with
      | .ok r => s!"ok {hexOrDash (encode r)} {showReq r}"
      | .error _ => "err"
    | none => "bad-op"
  | ["dec", h] =>
    match parseHex h with
    | some b => let r := decode b; s!"{showReq r} | {hexOrDash (encode r)}"
    | none => "bad-op"
  | _ => "bad-op"

def main : IO Unit := loopLines step
