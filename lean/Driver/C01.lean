import Gallia.Lib.Proto
import Gallia.Model.UdsReq
import Gallia.Model.UdsClientApi
/-
  line-protocol driver over the UDS request model (C01)
    mk <kind> <args…>   ->  `err` | `ok <pdu hex> <request>`
    dec <hex>           ->  `<request> | <hex of encode (decode b)>`
    methods             ->  names of the methods `Call` has a constructor for (UDSClient service methods, then ECU helpers after `|`)
    sig <method>        ->  one `name|default|type` per parameter (default: `req`, `bool:0`, `bytes:-`, `int:0`, `none`)
    call <method> <args…> ->  `err` | `ok <pdu hex> <request>`   (`denote`; `_` = argument left out, `none` = Python None,
                            `s:<int>` scalar for an int-or-sequence parameter, `h:<hex>` bytes for a bytes-or-int parameter)
    ctor <method>       ->  `<class> <ctor parameter>=<method parameter> …` of the construction site of the method (`-` = none)
    xmit <hex> <block_length> <max_block_length|_>  ->  `err` | the PDUs of ECU.transmit_data, comma separated
    seq leave_session   ->  the PDUs of ECU.leave_session (all replies positive), comma separated
  request / args text: tokens separated by blanks; bytes as hex (`-` = empty); integer lists `a,b,c` (`-` = empty);
  groups `a:b:c,…`; absent optional = `none`; booleans 0/1.
-/
open Gallia Gallia.Proto Gallia.UdsReq Gallia.UdsClientApi

def b01 (b : Bool) : String := if b then "1" else "0"

def showList (xs : List String) : String := if xs.isEmpty then "-" else ",".intercalate xs

def showReq : Req → String
  | .dsc ty sup => s!"dsc {ty} {b01 sup}"
  | .ecuReset ty sup => s!"ecuReset {ty} {b01 sup}"
  | .requestSeed l r sup => s!"requestSeed {l} {hexOrDash r} {b01 sup}"
  | .sendKey l k sup => s!"sendKey {l} {hexOrDash k} {b01 sup}"
  | .commCtrl c m sup => s!"commCtrl {c} {m} {b01 sup}"
  | .testerPresent sup => s!"testerPresent {b01 sup}"
  | .controlDTC t r sup => s!"controlDTC {t} {hexOrDash r} {b01 sup}"
  | .rdbi ds => s!"rdbi {showList (ds.map toString)}"
  | .rmba a s f => s!"rmba {a} {s} {f}"
  | .defineById d gs sup => s!"defineById {d} {showList (gs.map fun g => s!"{g.1}:{g.2.1}:{g.2.2}")} {b01 sup}"
  | .defineByMem d f gs sup => s!"defineByMem {d} {f} {showList (gs.map fun g => s!"{g.1}:{g.2}")} {b01 sup}"
  | .clearDDDI d sup => s!"clearDDDI {showOptNat d} {b01 sup}"
  | .wdbi d r => s!"wdbi {d} {hexOrDash r}"
  | .wmba a s f r => s!"wmba {a} {s} {f} {hexOrDash r}"
  | .clearDTC g => s!"clearDTC {g}"
  | .dtcByMask sf m sup => s!"dtcByMask {sf} {m} {b01 sup}"
  | .dtcPlain sf sup => s!"dtcPlain {sf} {b01 sup}"
  | .dtcExtByNumber d n sup => s!"dtcExtByNumber {d} {n} {b01 sup}"
  | .iocbi d o m => s!"iocbi {d} {hexOrDash o} {hexOrDash m}"
  | .routine sf r rec sup => s!"routine {sf} {r} {hexOrDash rec} {b01 sup}"
  | .reqDownload a s c e f => s!"reqDownload {a} {s} {c} {e} {f}"
  | .reqUpload a s c e f => s!"reqUpload {a} {s} {c} {e} {f}"
  | .transferData c r => s!"transferData {c} {hexOrDash r}"
  | .transferExit r => s!"transferExit {hexOrDash r}"
  | .raw b => s!"raw {hexOrDash b}"

def pBool (s : String) : Option Bool := if s == "1" then some true else if s == "0" then some false else none
def pInt (s : String) : Option Int := s.toInt?
def pOptInt (s : String) : Option (Option Int) := if s == "none" then some none else (s.toInt?).map some
def pInts (s : String) : Option (List Int) := if s == "-" then some [] else (s.splitOn ",").mapM (·.toInt?)

def parseArgs : List String → Option Args
  | ["dsc", t, s] => do pure (.dsc (← pInt t) (← pBool s))
  | ["ecuReset", t, s] => do pure (.ecuReset (← pInt t) (← pBool s))
  | ["requestSeed", l, r, s] => do pure (.requestSeed (← pInt l) (← parseHex r) (← pBool s))
  | ["sendKey", l, r, s] => do pure (.sendKey (← pInt l) (← parseHex r) (← pBool s))
  | ["commCtrl", c, m, s] => do pure (.commCtrl (← pInt c) (← pInt m) (← pBool s))
  | ["testerPresent", s] => do pure (.testerPresent (← pBool s))
  | ["controlDTC", t, r, s] => do pure (.controlDTC (← pInt t) (← parseHex r) (← pBool s))
  | ["rdbi", ds] => do pure (.rdbi (← pInts ds))
  | ["rmba", a, s, f] => do pure (.rmba (← pInt a) (← pInt s) (← pOptInt f))
  | ["defineById", d, a, b, c, s] => do pure (.defineById (← pInt d) (← pInts a) (← pInts b) (← pInts c) (← pBool s))
  | ["defineByMem", d, a, b, f, s] => do pure (.defineByMem (← pInt d) (← pInts a) (← pInts b) (← pOptInt f) (← pBool s))
  | ["clearDDDI", d, s] => do pure (.clearDDDI (← pOptInt d) (← pBool s))
  | ["wdbi", d, r] => do pure (.wdbi (← pInt d) (← parseHex r))
  | ["wmba", a, r, s, f] => do pure (.wmba (← pInt a) (← parseHex r) (← pOptInt s) (← pOptInt f))
  | ["clearDTC", g] => do pure (.clearDTC (← pInt g))
  | ["dtcByMask", sf, m, s] => do pure (.dtcByMask (← sf.toNat?) (← pInt m) (← pBool s))
  | ["dtcPlain", sf, s] => do pure (.dtcPlain (← sf.toNat?) (← pBool s))
  | ["dtcExtByNumber", d, n, s] => do pure (.dtcExtByNumber (← pInt d) (← pInt n) (← pBool s))
  | ["dtcExtByNumberB", d, n, s] => do pure (.dtcExtByNumberB (← parseHex d) (← pInt n) (← pBool s))
  | ["iocbi", d, o, m] => do pure (.iocbi (← pInt d) (← parseHex o) (← parseHex m))
  | ["iocbiConv", p, d, m] => do pure (.iocbiConv (← p.toNat?) (← pInt d) (← parseHex m))
  | ["iocbiShortTerm", d, st, m] => do pure (.iocbiShortTerm (← pInt d) (← parseHex st) (← parseHex m))
  | ["routine", sf, r, rec, s] => do pure (.routine (← sf.toNat?) (← pInt r) (← parseHex rec) (← pBool s))
  | ["reqDownload", a, s, c, e, f] => do pure (.reqDownload (← pInt a) (← pInt s) (← pInt c) (← pInt e) (← pOptInt f))
  | ["reqUpload", a, s, c, e, f] => do pure (.reqUpload (← pInt a) (← pInt s) (← pInt c) (← pInt e) (← pOptInt f))
  | ["transferData", c, r] => do pure (.transferData (← pInt c) (← parseHex r))
  | ["transferExit", r] => do pure (.transferExit (← parseHex r))
  | ["raw", r] => do pure (.raw (← parseHex r))
  | _ => none


/-! ### the service-method layer -/

def lastComponent (s : String) : String := (s.splitOn ".").getLastD s

def methodName (m : Method) : String :=
  let n := lastComponent (toString (repr m))
  if n.startsWith "priv_" then (n.drop 4).toString else n

def paramName (p : P) : String := lastComponent (toString (repr p))

def showVal : Val → String
  | .int i => s!"int:{i}"
  | .bytes b => s!"bytes:{hexOrDash b}"
  | .bool b => s!"bool:{b01 b}"
  | .none => "none"
  | .ints l => s!"ints:{showList (l.map toString)}"

/-- generator hints: the documented type / range of every parameter, in signature order -/
def tyOf : Method → List String
  | .send_raw => ["b"]
  | .diagnostic_session_control => ["i7", "bool"]
  | .ecu_reset => ["i7", "bool"]
  | .security_access_request_seed => ["i7odd", "b", "bool"]
  | .security_access_send_key => ["i7even", "b1", "bool"]
  | .communication_control => ["i7", "i8", "bool"]
  | .tester_present => ["bool"]
  | .control_dtc_setting => ["i7", "b", "bool"]
  | .read_data_by_identifier => ["il16"]
  | .read_memory_by_address => ["addr", "size", "alfid"]
  | .write_data_by_identifier => ["i16", "b1"]
  | .write_memory_by_address => ["addr", "b1", "osize", "alfid"]
  | .clear_diagnostic_information => ["i24"]
  | .read_dtc_information_report_number_of_dtc_by_status_mask => ["i8", "bool"]
  | .read_dtc_information_report_dtc_by_status_mask => ["i8", "bool"]
  | .read_dtc_information_report_mirror_memory_dtc_by_status_mask => ["i8", "bool"]
  | .read_dtc_information_report_number_of_mirror_memory_dtc_by_status_mask => ["i8", "bool"]
  | .read_dtc_information_report_number_of_emissions_related_obd_dtc_by_status_mask => ["i8", "bool"]
  | .read_dtc_information_report_emissions_related_obd_dtc_by_status_mask => ["i8", "bool"]
  | .report_dtc_extended_data_record_by_dtc_number => ["boi24", "i8", "bool"]
  | .input_output_control_by_identifier => ["i16", "b1", "b"]
  | .input_output_control_by_identifier_return_control_to_ecu => ["i16", "b"]
  | .input_output_control_by_identifier_reset_to_default => ["i16", "b"]
  | .input_output_control_by_identifier_freeze_current_state => ["i16", "b"]
  | .input_output_control_by_identifier_short_term_adjustment => ["i16", "b1", "b"]
  | .routine_control_start_routine => ["i16", "b", "bool"]
  | .routine_control_stop_routine => ["i16", "b", "bool"]
  | .routine_control_request_routine_results => ["i16", "b", "bool"]
  | .request_download => ["addr", "size", "i4", "i4", "alfid"]
  | .request_upload => ["addr", "size", "i4", "i4", "alfid"]
  | .transfer_data => ["i8", "b"]
  | .request_transfer_exit => ["b"]
  | .define_by_identifier => ["i16", "il16", "il8", "il8", "bool"]
  | .define_by_memory_address => ["i16", "iladdr", "ilsize", "alfid", "bool"]
  | .clear_dynamically_defined_data_identifier => ["oi16", "bool"]
  | .ping => []
  | .read_session => []
  | .set_session => ["i7", "bool"]
  | .read_dtc => []
  | .clear_dtc => []
  | .read_vin => []
  | .refresh_state => ["bool"]
  | _ => []

def pOptB (s : String) : Option (Option Bytes) := if s == "_" then some none else (parseHex s).map some
def pOptBool (s : String) : Option (Option Bool) := if s == "_" then some none else (pBool s).map some
def pOmitInt (s : String) : Option (Option Int) := if s == "_" then some none else (s.toInt?).map some
def pOOInt (s : String) : Option (Option (Option Int)) := if s == "_" then some none else (pOptInt s).map some
def pIntOrList (s : String) : Option IntOrList :=
  if s.startsWith "s:" then ((s.drop 2).toString.toInt?).map .one else (pInts s).map .many
def pBytesOrInt (s : String) : Option BytesOrInt :=
  if s.startsWith "h:" then (parseHex (s.drop 2).toString).map .bytes else (s.toInt?).map .int

def parseCall : List String → Option Call
  | ["send_raw", a0] => do pure (.send_raw (← parseHex a0))
  | ["diagnostic_session_control", a0, a1] => do pure (.diagnostic_session_control (← pInt a0) (← pOptBool a1))
  | ["ecu_reset", a0, a1] => do pure (.ecu_reset (← pInt a0) (← pOptBool a1))
  | ["security_access_request_seed", a0, a1, a2] => do pure (.security_access_request_seed (← pInt a0) (← pOptB a1) (← pOptBool a2))
  | ["security_access_send_key", a0, a1, a2] => do pure (.security_access_send_key (← pInt a0) (← parseHex a1) (← pOptBool a2))
  | ["communication_control", a0, a1, a2] => do pure (.communication_control (← pInt a0) (← pInt a1) (← pOptBool a2))
  | ["tester_present", a0] => do pure (.tester_present (← pOptBool a0))
  | ["control_dtc_setting", a0, a1, a2] => do pure (.control_dtc_setting (← pInt a0) (← pOptB a1) (← pOptBool a2))
  | ["read_data_by_identifier", a0] => do pure (.read_data_by_identifier (← pIntOrList a0))
  | ["read_memory_by_address", a0, a1, a2] => do pure (.read_memory_by_address (← pInt a0) (← pInt a1) (← pOOInt a2))
  | ["write_data_by_identifier", a0, a1] => do pure (.write_data_by_identifier (← pInt a0) (← parseHex a1))
  | ["write_memory_by_address", a0, a1, a2, a3] => do pure (.write_memory_by_address (← pInt a0) (← parseHex a1) (← pOOInt a2) (← pOOInt a3))
  | ["clear_diagnostic_information", a0] => do pure (.clear_diagnostic_information (← pInt a0))
  | ["read_dtc_information_report_number_of_dtc_by_status_mask", a0, a1] => do pure (.read_dtc_information_report_number_of_dtc_by_status_mask (← pInt a0) (← pOptBool a1))
  | ["read_dtc_information_report_dtc_by_status_mask", a0, a1] => do pure (.read_dtc_information_report_dtc_by_status_mask (← pInt a0) (← pOptBool a1))
  | ["read_dtc_information_report_mirror_memory_dtc_by_status_mask", a0, a1] => do pure (.read_dtc_information_report_mirror_memory_dtc_by_status_mask (← pInt a0) (← pOptBool a1))
  | ["read_dtc_information_report_number_of_mirror_memory_dtc_by_status_mask", a0, a1] => do pure (.read_dtc_information_report_number_of_mirror_memory_dtc_by_status_mask (← pInt a0) (← pOptBool a1))
  | ["read_dtc_information_report_number_of_emissions_related_obd_dtc_by_status_mask", a0, a1] => do pure (.read_dtc_information_report_number_of_emissions_related_obd_dtc_by_status_mask (← pInt a0) (← pOptBool a1))
  | ["read_dtc_information_report_emissions_related_obd_dtc_by_status_mask", a0, a1] => do pure (.read_dtc_information_report_emissions_related_obd_dtc_by_status_mask (← pInt a0) (← pOptBool a1))
  | ["report_dtc_extended_data_record_by_dtc_number", a0, a1, a2] => do pure (.report_dtc_extended_data_record_by_dtc_number (← pBytesOrInt a0) (← pInt a1) (← pOptBool a2))
  | ["input_output_control_by_identifier", a0, a1, a2] => do pure (.input_output_control_by_identifier (← pInt a0) (← parseHex a1) (← pOptB a2))
  | ["input_output_control_by_identifier_return_control_to_ecu", a0, a1] => do pure (.input_output_control_by_identifier_return_control_to_ecu (← pInt a0) (← pOptB a1))
  | ["input_output_control_by_identifier_reset_to_default", a0, a1] => do pure (.input_output_control_by_identifier_reset_to_default (← pInt a0) (← pOptB a1))
  | ["input_output_control_by_identifier_freeze_current_state", a0, a1] => do pure (.input_output_control_by_identifier_freeze_current_state (← pInt a0) (← pOptB a1))
  | ["input_output_control_by_identifier_short_term_adjustment", a0, a1, a2] => do pure (.input_output_control_by_identifier_short_term_adjustment (← pInt a0) (← parseHex a1) (← pOptB a2))
  | ["routine_control_start_routine", a0, a1, a2] => do pure (.routine_control_start_routine (← pInt a0) (← pOptB a1) (← pOptBool a2))
  | ["routine_control_stop_routine", a0, a1, a2] => do pure (.routine_control_stop_routine (← pInt a0) (← pOptB a1) (← pOptBool a2))
  | ["routine_control_request_routine_results", a0, a1, a2] => do pure (.routine_control_request_routine_results (← pInt a0) (← pOptB a1) (← pOptBool a2))
  | ["request_download", a0, a1, a2, a3, a4] => do pure (.request_download (← pInt a0) (← pInt a1) (← pOmitInt a2) (← pOmitInt a3) (← pOOInt a4))
  | ["request_upload", a0, a1, a2, a3, a4] => do pure (.request_upload (← pInt a0) (← pInt a1) (← pOmitInt a2) (← pOmitInt a3) (← pOOInt a4))
  | ["transfer_data", a0, a1] => do pure (.transfer_data (← pInt a0) (← pOptB a1))
  | ["request_transfer_exit", a0] => do pure (.request_transfer_exit (← pOptB a0))
  | ["define_by_identifier", a0, a1, a2, a3, a4] => do pure (.define_by_identifier (← pInt a0) (← pIntOrList a1) (← pIntOrList a2) (← pIntOrList a3) (← pOptBool a4))
  | ["define_by_memory_address", a0, a1, a2, a3, a4] => do pure (.define_by_memory_address (← pInt a0) (← pIntOrList a1) (← pIntOrList a2) (← pOOInt a3) (← pOptBool a4))
  | ["clear_dynamically_defined_data_identifier", a0, a1] => do pure (.clear_dynamically_defined_data_identifier (← pOptInt a0) (← pOptBool a1))
  | ["ping"] => some .ping
  | ["read_session"] => some .read_session
  | ["set_session", a0, a1] => do pure (.set_session (← pInt a0) (← pOptBool a1))
  | ["read_dtc"] => some .read_dtc
  | ["clear_dtc"] => some .clear_dtc
  | ["read_vin"] => some .read_vin
  | ["refresh_state", a0] => do pure (.refresh_state (← pOptBool a0))
  | _ => none

def clientMethods : List Method := wireTable.map (·.1)
def ecuMethods : List Method := [.ping, .read_session, .set_session, .read_dtc, .clear_dtc, .read_vin, .refresh_state]

def showSig (m : Method) : String :=
  match sigs.find? (fun s => s.method = m) with
  | none => "unknown-method"
  | some sg =>
    let tys := tyOf m
    let items := (List.range sg.params.length).map fun i =>
      match sg.params[i]? with
      | some p => s!"{paramName p.name}|{match p.dflt with | none => "req" | some v => showVal v}|{tys.getD i "?"}"
      | none => "?"
    if items.isEmpty then "-" else " ".intercalate items

def clsName (c : Cls) : String := lastComponent (toString (repr c))

def showCtor (m : Method) : String :=
  match ctorSites.find? (fun s => s.fn = m) with
  | none => "-"
  | some site =>
    let items := site.args.map fun a =>
      s!"{paramName a.1}={match a.2 with | .param p => paramName p | .const v => "const:" ++ showVal v | .expr _ => "expr"}"
    " ".intercalate (clsName site.cls :: items)

def showPdus (rs : List (Except Refusal Bytes)) : String :=
  if rs.any (fun r => match r with | .error _ => true | .ok _ => false) then "err"
  else ",".intercalate (rs.map fun r => match r with | .ok b => hexOrDash b | .error _ => "err")

def allMethods : List Method := clientMethods ++ ecuMethods ++ [.transmit_data, .leave_session, .check_and_set_session,
  .priv_tester_present, .priv_wait_for_ecu_endless_loop, .priv_tester_present_worker]

def findMethod (name : String) : Option Method := allMethods.find? (fun m => methodName m == name)

def step (line : String) : String :=
  match words line with
  | "mk" :: rest =>
    match parseArgs rest with
    | some a =>
      match mk a with
      | .ok r => s!"ok {hexOrDash (encode r)} {showReq r}"
      | .error _ => "err"
    | none => "bad-op"
  | ["dec", h] =>
    match parseHex h with
    | some b => let r := decode b; s!"{showReq r} | {hexOrDash (encode r)}"
    | none => "bad-op"
  | ["methods"] => " ".intercalate (clientMethods.map methodName) ++ " | " ++ " ".intercalate (ecuMethods.map methodName)
  | ["sig", m] =>
    match findMethod m with
    | some m => showSig m
    | none => "unknown-method"
  | ["ctor", m] =>
    match findMethod m with
    | some m => showCtor m
    | none => "unknown-method"
  | "call" :: rest =>
    match parseCall rest with
    | some c =>
      match denote c with
      | .ok r => s!"ok {hexOrDash (encode r)} {showReq r}"
      | .error _ => "err"
    | none => "bad-op"
  | ["xmit", d, bl, mbl] =>
    match parseHex d, bl.toInt?, pOmitInt mbl with
    | some d, some bl, some mbl =>
      match transmitCalls d bl mbl with
      | .ok cs => showPdus (cs.map bytesOf)
      | .error _ => "err"
    | _, _, _ => "bad-op"
  | ["seq", "leave_session"] => showPdus (leaveSessionCalls.map bytesOf)
  | _ => "bad-op"

def main : IO Unit := loopLines step
