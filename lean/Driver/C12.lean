import Gallia.Lib.Proto
import Gallia.Model.Replay
import Gallia.Model.ReplayServe
open Gallia Gallia.Proto Gallia.Replay

def parseOptHex (s : String) : Option (Option Bytes) := if s == "N" then some none else (parseHex s).map some

def parseInt? (s : String) : Option Int :=
  match s.toList with
  | '-' :: r => (String.ofList r).toNat?.map fun n => -(n : Int)
  | _ => s.toNat?.map fun n => (n : Int)

def parseRow (s : String) : Option Row :=
  match s.splitOn ":" with
  | [id, sel, sess, sec, req, resp] => do
    let sec ← (if sec == "n" then some none else (parseInt? sec).map some)
    pure ⟨← id.toNat?, sel == "1", ⟨← sess.toNat?, sec⟩, ← parseHex req, ← parseOptHex resp⟩
  | _ => none

def parseExch (s : String) : Option Exch :=
  match s.splitOn ":" with
  | [req, resp] => do pure ⟨← parseHex req, ← parseOptHex resp⟩
  | _ => none

def parseList {α} (f : String → Option α) (sep : String) (s : String) : Option (List α) :=
  if s == "-" then some [] else ((s.splitOn sep).filter (· ≠ "")).mapM f

def showOpt : Option Bytes → String
  | none => "N"
  | some b => hexOrDash b

def showSt (s : St) : String := s!"{s.session}/{match s.sec with | none => "n" | some x => toString x}"

def showKind : Kind → String
  | .dsc t => s!"dsc{t}" | .sa t => s!"sa{t}" | .reset => "reset" | .f186 s => s!"f186:{s}" | .other => "other"

def hexStr (s : String) : Option String := do
  if s == "-" then pure "" else
  let bs ← parseHex s
  pure (String.ofList (bs.map fun b => Char.ofNat b.toNat))

/-- `z` | `n<int>` | `s<hex of the ASCII text>` | `j<hex of the JSON text>` -/
def parseJVal (s : String) : Option JVal :=
  match s.toList with
  | ['z'] => some .null
  | 'n' :: '-' :: r => (String.ofList r).toNat?.map fun n => .num (-(n : Int))
  | 'n' :: r => (String.ofList r).toNat?.map fun n => .num n
  | 's' :: r => (hexStr (String.ofList r)).map .str
  | 'j' :: r => (hexStr (String.ofList r)).map .json
  | _ => none

def parseKV (s : String) : Option (String × JVal) :=
  match s.splitOn "=" with
  | [k, v] => do pure (← hexStr k, ← parseJVal v)
  | _ => none

def parseOptName (s : String) : Option (Option String) := if s == "-" then some none else (hexStr s).map some

/-- `<name|->/<k=v,k=v|->`  (`-` for the properties: no property selector; `+` : the empty dictionary) -/
def parseSel (s : String) : Option Selector :=
  match s.splitOn "/" with
  | [n, ps] => do
    let n ← parseOptName n
    let ps ← (if ps == "-" then some none else if ps == "+" then some (some []) else (parseList parseKV "," ps).map some)
    pure ⟨n, ps⟩
  | _ => none

/-- a JSON column: `~` SQL NULL, `+` the empty object, else `k=v,...` -/
def parseCol (s : String) : Option (Option (List (String × JVal))) :=
  if s == "~" then some none else if s == "+" then some (some []) else (parseList parseKV "," s).map some

/-- `<runid>/<name|->/<properties_pre: k=v,...|+|~>[/<properties_post>]`: the run as the WHERE clause sees it (`RunCols.info`) -/
def parseRun (s : String) : Option (Nat × RunInfo) :=
  match s.splitOn "/" with
  | [i, n, ps] => do
    pure (← i.toNat?, (RunCols.mk (← parseOptName n) (← parseCol ps) none).info)
  | [i, n, ps, post] => do
    pure (← i.toNat?, (RunCols.mk (← parseOptName n) (← parseCol ps) (← parseCol post)).info)
  | _ => none

def showJVal : JVal → String
  | .null => "z"
  | .num n => s!"n{n}"
  | .str t => "s" ++ Gallia.hexStr t.toUTF8.toList
  | .json t => "j" ++ Gallia.hexStr t.toUTF8.toList

def showCol : Option (List (String × JVal)) → String
  | none => "~"
  | some [] => "+"
  | some kvs => ",".intercalate (kvs.map fun kv => s!"{Gallia.hexStr kv.1.toUTF8.toList}={showJVal kv.2}")

/-- `pre:<col>` | `post:<col>` : `insert_scan_run_properties_pre` / `complete_scan_run` -/
def parseRunCall (s : String) : Option RunCall :=
  match s.splitOn ":" with
  | ["pre", c] => do
    let c ← parseCol c
    c.map RunCall.insertPre
  | ["post", c] => do
    let c ← parseCol c
    c.map RunCall.complete
  | _ => none

def parseDbRow (runs : List (Nat × RunInfo)) (s : String) : Option DbRow :=
  match s.splitOn ":" with
  | [id, run, sess, sec, req, resp] => do
    let sec ← (if sec == "n" then some none else (parseInt? sec).map some)
    let rid ← run.toNat?
    let ri ← (runs.find? (·.1 == rid)).map (·.2)
    pure ⟨← id.toNat?, ri, St.toJson ⟨← sess.toNat?, sec⟩, ← parseHex req, ← parseOptHex resp⟩
  | _ => none

def parseObj (s : String) : Option JObj := if s == "+" then some [] else parseList parseKV "," s

/-- `<id>:<runid>:<k=v,...|+>:<req>:<resp|N>` : a row with its JSON state object -/
def parseJRow (runs : List (Nat × RunInfo)) (s : String) : Option DbRow :=
  match s.splitOn ":" with
  | [id, run, st, req, resp] => do
    let rid ← run.toNat?
    let ri ← (runs.find? (·.1 == rid)).map (·.2)
    pure ⟨← id.toNat?, ri, ← parseObj st, ← parseHex req, ← parseOptHex resp⟩
  | _ => none

/-- `<gap in ms>~<request hex>` -/
def parseGapReq (s : String) : Option (Nat × Bytes) :=
  match s.splitOn "~" with
  | [g, q] => do pure (← g.toNat?, ← parseHex q)
  | _ => none

def showOut : Out → String
  | .silence => "N"
  | .reply b => hexOrDash b
  | .raised => "EXC"

def showLast : Option Nat → String
  | none => "-1"
  | some l => toString l

/-- replies with the server's state and cursor after every request: `<out>~<session>/<level>@<last_response>` -/
def serveTrace (b : Behavior) (sel : Selector) (xs : JObj) (db : List DbRow) : Srv → List (Nat × Bytes) → List String
  | _, [] => []
  | s, (gap, q) :: qs =>
    let (s', o) := serveStep b Defaults.unused sel xs db s gap q
    s!"{showOut o}~{showSt s'.st}@{showLast s'.last}" :: serveTrace b sel xs db s' qs

def step (line : String) : String :=
  match line.splitOn "|" with
  | [head, tail] =>
    match words head, words tail with
    | ["replaydb", sel, runs, rows], [reqs] =>
      match parseSel sel, parseList parseRun ";" runs with
      | some sel, some runs =>
        match parseList (parseDbRow runs) ";" rows, parseList parseHex "," reqs with
        | some db, some reqs =>
          ",".intercalate ((replayDb sel db reqs).map showOpt) ++ " sel=" ++
            "".intercalate (runs.map fun r => if selects sel r.2 then "1" else "0")
        | _, _ => "bad-op"
      | _, _ => "bad-op"
    | ["serve", sel, xs, runs, rows], [reqs] =>
      match parseSel sel, parseList parseRun ";" runs, parseObj xs with
      | some sel, some runs, some xs =>
        match parseList (parseJRow runs) ";" rows, parseList parseGapReq "," reqs with
        | some db, some reqs => ",".intercalate (serveTrace Behavior.db sel xs db {} reqs)
        | _, _ => "bad-op"
      | _, _, _ => "bad-op"
    | ["replay", rows], [reqs] =>
      match parseList parseRow ";" rows, parseList parseHex "," reqs with
      | some rows, some reqs => ",".intercalate ((replayAll rows {} reqs).map showOpt)
      | _, _ => "bad-op"
    | _, _ => "bad-op"
  | [single] =>
    match words single with
    | ["kind", b] =>
      match parseHex b with
      | some b =>
        let r := parseRecorded b
        s!"{showKind (classify b)} {showKind r.kind} {match r with | .typed _ => "typed" | .raw _ => "raw"} {hexOrDash r.pdu} {hexOrDash (reqKey b)}"
      | none => "bad-op"
    | ["runcols", sel, calls] =>
      match parseSel sel, parseList parseRunCall ";" calls with
      | some sel, some calls =>
        let rc := RunCols.after none calls
        s!"{showCol rc.pre}/{showCol rc.post} sel={if selects sel rc.info then 1 else 0}"
      | _, _ => "bad-op"
    | ["statematch", srv, row] =>
      match parseObj srv, parseObj row with
      | some srv, some row =>
        s!"{if stateMatch srv row then 1 else 0} {match decodeSt row with | some st => showSt st | none => "none"}"
      | _, _ => "bad-op"
    | ["agree", ex] =>
      match parseList parseExch ";" ex with
      | some h =>
        let a := if decide (Agree h) then "1" else "0"
        let kinds := h.map fun x => match x.resp with | some b => showKind (classify b) | none => "none"
        let fin := h.foldl (fun st x => srvNext st x.resp) St.default
        s!"{a} final={showSt fin} client={",".intercalate ((clientStates St.default h).map showSt)} server={",".intercalate ((serverStates St.default h).map showSt)} kinds={",".intercalate kinds}"
      | none => "bad-op"
    | _ => "bad-op"
  | _ => "bad-op"

def main : IO Unit := loopLines step
