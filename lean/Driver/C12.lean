import Gallia.Lib.Proto
import Gallia.Model.Replay
open Gallia Gallia.Proto Gallia.Replay

def parseOptHex (s : String) : Option (Option Bytes) := if s == "N" then some none else (parseHex s).map some

def parseRow (s : String) : Option Row :=
  match s.splitOn ":" with
  | [id, sel, sess, sec, req, resp] => do
    let sec ← (if sec == "n" then some none else sec.toNat?.map some)
    pure ⟨← id.toNat?, sel == "1", ⟨← sess.toNat?, sec⟩, ← parseHex req, ← parseOptHex resp⟩
  | _ => none

def parseExch (s : String) : Option Exch :=
  match s.splitOn ":" with
  | [req, resp] => do pure ⟨← parseHex req, ← parseOptHex resp⟩
  | _ => none

def parseList {α} (f : String → Option α) (sep : String) (s : String) : Option (List α) :=
  if s == "-" then some [] else ((s.splitOn sep).filter (· ≠ "")).mapM f

def showOpt : Option Bytes → String
  | none => "N"
  | some b => hexOrDash b

def showSt (s : St) : String := s!"{s.session}/{match s.sec with | none => "n" | some x => toString x}"

def showKind : Kind → String
  | .dsc t => s!"dsc{t}" | .sa t => s!"sa{t}" | .reset => "reset" | .f186 s => s!"f186:{s}" | .other => "other"

def step (line : String) : String :=
  match line.splitOn "|" with
  | [head, tail] =>
    match words head, words tail with
    | ["replay", rows], [reqs] =>
      match parseList parseRow ";" rows, parseList parseHex "," reqs with
      | some rows, some reqs => ",".intercalate ((replayAll rows {} reqs).map showOpt)
      | _, _ => "bad-op"
    | _, _ => "bad-op"
  | [single] =>
    match words single with
    | ["agree", ex] =>
      match parseList parseExch ";" ex with
      | some h =>
        let a := if decide (Agree h) then "1" else "0"
        let kinds := h.map fun x => match x.resp with | some b => showKind (classify b) | none => "none"
        s!"{a} client={",".intercalate ((clientStates St.default h).map showSt)} server={",".intercalate ((serverStates St.default h).map showSt)} kinds={",".intercalate kinds}"
      | none => "bad-op"
    | _ => "bad-op"
  | _ => "bad-op"

def main : IO Unit := loopLines step
