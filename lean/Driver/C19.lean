import Gallia.Lib.Proto
import Gallia.Model.Lines
import Gallia.Model.LinesExec
open Gallia Gallia.Proto Gallia.Lines

/-- handler used on both sides of the server-loop correspondence: stateful (request counter),
    suppresses the reply when the first byte is a multiple of 4 -/
def testHandler (n : Nat) (m : Bytes) : Nat × Option Bytes :=
  match m with
  | [] => (n + 1, some [UInt8.ofNat (n % 256)])
  | b :: _ => if b.toNat % 4 == 0 then (n + 1, none) else (n + 1, some (m.reverse ++ [UInt8.ofNat (n % 256)]))

/-- the same handler behind the REAL `UDSServerTransport.handle_request`: the empty request raises (IndexError in
    `respond`), a request starting with 0xEE raises (scripted), first byte a multiple of 4 -> no reply -/
def testHandlerX (n : Nat) (m : Bytes) : Nat × HRes :=
  match m with
  | [] => (n + 1, .raised)
  | b :: _ =>
    if b == 0xEE then (n + 1, .raised)
    else if b.toNat % 4 == 0 then (n + 1, .silent)
    else (n + 1, .reply (m.reverse ++ [UInt8.ofNat (n % 256)]))

structure St where
  c : Client := {}
  stalled : Bool := false    -- write side under flow control (`fstep`)
  s : Srv Nat := { st := 0 }

def showRes : ReadRes → String
  | .msg m => s!"msg {hexOrDash m}"
  | .eos => "eos"
  | .pending => "pending"
  | .bad => "bad"

def showEnd : SrvEnd → String
  | .waiting => "waiting"
  | .eofClean => "eof"
  | .eofTail => "eof-tail"
  | .undecodable => "undecodable"
  | .handlerRaised => "raised"

def showObs : Obs → String
  | .ok => "ok"
  | .res r => showRes r
  | .wrote n => s!"wrote {n}"
  | .closed f => s!"closed {if f then 1 else 0}"

def showFObs : FObs → String
  | .base o => showObs o
  | .ok => "ok"
  | .wtimeout => "write-timeout"

def sizesOf (s : String) : List Nat := ((parseHex s).getD []).map (·.toNat)

def step (s : St) (line : String) : St × String :=
  match words line with
  | ["reset"] => ({}, "ok")
  | ["feed", h] => match parseHex h with
    | some b => ({ s with c := (cstep s.c (.feed b)).1 }, "ok")
    | none => (s, "bad-op")
  | ["eof"] => ({ s with c := (cstep s.c .eof).1 }, "ok")
  | ["read"] =>
    let (c, o) := cstep s.c .read
    ({ s with c := c }, showObs o)
  | ["stall"] => ({ s with stalled := (fstep ⟨s.c, s.stalled⟩ .stall).1.stalled }, "ok")
  | ["resume"] => ({ s with stalled := (fstep ⟨s.c, s.stalled⟩ .resume).1.stalled }, "ok")
  | ["write", h] => match parseHex h with
    | some b =>
      let (f, o) := fstep ⟨s.c, s.stalled⟩ (.base (.write b))
      ({ s with c := f.c }, s!"{showFObs o} {hexOrDash (f.c.out.drop s.c.out.length)}")
    | none => (s, "bad-op")
  | ["request", h] => match parseHex h with
    | some b =>
      let (f, o) := fstep ⟨s.c, s.stalled⟩ (.base (.request b))
      ({ s with c := f.c }, s!"{hexOrDash (f.c.out.drop s.c.out.length)} {showFObs o}")
    | none => (s, "bad-op")
  | ["close"] =>
    let (c, o) := cstep s.c .close
    ({ s with c := c }, showObs o)
  | ["out"] => (s, hexOrDash s.c.out)
  | ["buf"] => (s, hexOrDash s.c.buf)
  | ["enc", h] => match parseHex h with
    | some b => (s, hexOrDash (enc b))
    | none => (s, "bad-op")
  | ["serve", h] => match parseHex h with
    | some b =>
      let (n, out, err, left) := serve testHandler (b.length + 1) 0 b
      (s, s!"{hexOrDash out} {if err then 1 else 0} {hexOrDash left} {n}")
    | none => (s, "bad-op")
  | ["sfeed", h] => match parseHex h with
    | some b => ({ s with s := srvFeed testHandlerX s.s b }, "ok")
    | none => (s, "bad-op")
  | ["seof"] => ({ s with s := srvEof testHandlerX s.s }, "ok")
  | ["sstate"] => (s, s!"{hexOrDash s.s.out} {showEnd s.s.fin} {hexOrDash s.s.buf} {s.s.st}")
  | ["xchg", k1, k2, ms] =>
    match (ms.splitOn ",").mapM parseHex with
    | some msgs =>
      let obs := exchange testHandlerX 0 msgs (cutBy (sizesOf k1)) (cutBy (sizesOf k2)) (msgs.length + 1)
      (s, ";".intercalate (obs.map showObs))
    | none => (s, "bad-op")
  | _ => (s, "bad-op")

def main : IO Unit := loopState ({} : St) step
