import Gallia.Lib.Proto
import Gallia.Model.Lines
open Gallia Gallia.Proto Gallia.Lines

structure St where
  buf : Bytes := []
  eof : Bool := false

/-- handler used on both sides of the server-loop correspondence: stateful (request counter),
    suppresses the reply when the first byte is a multiple of 4 -/
def testHandler (n : Nat) (m : Bytes) : Nat × Option Bytes :=
  match m with
  | [] => (n + 1, some [UInt8.ofNat (n % 256)])
  | b :: _ => if b.toNat % 4 == 0 then (n + 1, none) else (n + 1, some (m.reverse ++ [UInt8.ofNat (n % 256)]))

def showRes : ReadRes → String
  | .msg m => s!"msg {hexOrDash m}"
  | .eos => "eos"
  | .pending => "pending"
  | .bad => "bad"

def step (s : St) (line : String) : St × String :=
  match words line with
  | ["reset"] => ({}, "ok")
  | ["feed", h] => match parseHex h with
    | some b => ({ s with buf := s.buf ++ b }, "ok")
    | none => (s, "bad-op")
  | ["eof"] => ({ s with eof := true }, "ok")
  | ["read"] =>
    let (r, rest) := readLine s.buf s.eof
    ({ s with buf := rest }, showRes r)
  | ["buf"] => (s, hexOrDash s.buf)
  | ["enc", h] => match parseHex h with
    | some b => (s, hexOrDash (enc b))
    | none => (s, "bad-op")
  | ["serve", h] => match parseHex h with
    | some b =>
      let (n, out, err, left) := serve testHandler (b.length + 1) 0 b
      (s, s!"{hexOrDash out} {if err then 1 else 0} {hexOrDash left} {n}")
    | none => (s, "bad-op")
  | _ => (s, "bad-op")

def main : IO Unit := loopState ({} : St) step
