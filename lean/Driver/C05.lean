import Gallia.Lib.Proto
import Gallia.Model.ClientConc
open Gallia Gallia.Proto Gallia.ClientConc

def parseEv (s : String) : Option Event :=
  match s.splitOn ":" with
  | ["want", t] => t.toNat?.map .want
  | ["got", t] => t.toNat?.map .got
  | ["rel", t] => t.toNat?.map .rel
  | ["unwait", t] => t.toNat?.map .unwait
  | ["ended", t] => t.toNat?.map .ended
  | ["w", t] => t.toNat?.map (.op · .write)
  | ["r", t] => t.toNat?.map (.op · .read)
  | ["c", t] => t.toNat?.map (.op · .reconnect)
  | _ => none

/-- `accept <ev> <ev> ...` -> `ok holder=<h> waiters=<..>` | `rejected <index>` -/
def step' (line : String) : String :=
  match words line with
  | "accept" :: evs =>
    match evs.mapM parseEv with
    | none => "bad-op"
    | some es =>
      match firstRejected Sys.init es 0 with
      | some i => s!"rejected {i}"
      | none =>
        match accept Sys.init es with
        | some s => s!"ok holder={showOptNat s.holder} waiters={",".intercalate (s.waiters.map toString)}"
        | none => "rejected ?"
  | _ => "bad-op"

def main : IO Unit := loopLines step'
