import Gallia.Lib.Proto
import Gallia.Model.ClientConc
import Gallia.Model.ClientMulti
import Gallia.Model.TransportReconnect
import Gallia.Spec.Reply
open Gallia Gallia.Proto Gallia.ClientConc Gallia.Client Gallia.ClientIO Gallia.ClientMulti

/-
  Line protocol of the C05 model driver.

    accept <ev> <ev> ...                 lock-discipline acceptor (`Model/ClientConc.lean`), events `want:t got:t rel:t
                                         unwait:t ended:t w:t r:t c:t`   -> `ok holder=<h> waiters=<..>` | `rejected <index>`

  Multi-task model (`Model/ClientMulti.lean`), stateful within a batch:

    reset
    task <tid> <born 0|1> <loop 0|1> <round> <round> ...
        round:  R/<request hex>/<clientTimeout|none>/<clientMaxRetry>/<reqTimeout|none>/<reqMaxRetry|none>/<reads>/<writes>/<reconnects>
                W/<interval>/<clientTimeout|none>/<reads>/<writes>          one pass of the tester-present worker
                C/<o|C|T|O>      UDSClient.reconnect()          S/<ms>   asyncio.sleep outside the lock
                A/<w>            start_cyclic_tester_present    Z/<w>    stop_cyclic_tester_present
        reads: `,`-separated items `t` TimeoutError, `c` ConnectionError, `e` end of stream, or the message in hex (its
        class against the request is computed by the model: `classify`); `-` = none; further reads time out.
        writes: letters o ok, T TimeoutError, C ConnectionError; reconnects: o ok, C, T, O; further ones succeed.
        -> `ok <outcome of round 0>;<outcome of round 1>;...`   (`-` for rounds that are not requests)
    sched <choice> ...      r:<t>:<label> task t takes its next step, which must be <label>
                            (want got rel w r c s<ms> spawn<w> stop<w> join<w>); x:<t> cancellation delivered to t; d:<hex> message delivered
        -> `ok holder=<h> waiters=<..> inbox=<n> | <tid>=<phase>:<aborted>:<round>:<reads> ...`
         | `disabled <index> <choice>` | `label <index> <choice> model=<label>`
    foreign <request hex> <reply hex>   -> genuine | foreign | undecodable | other   (`Spec/Reply.lean` on the request bytes)
    trc <timeout ms|none> <connect ms> <default o|C|T|O> <outcomes o|C|T|O ...|->   `BaseTransport.reconnect(timeout)` against a target whose k-th
                                        connection attempt ends as scripted (`Model/TransportReconnect.lean`)
        -> `<connected|C|T|O|deadline> <completed attempts> <elapsed ms>`
-/

def parseEv (s : String) : Option Event :=
  match s.splitOn ":" with
  | ["want", t] => t.toNat?.map .want
  | ["got", t] => t.toNat?.map .got
  | ["rel", t] => t.toNat?.map .rel
  | ["unwait", t] => t.toNat?.map .unwait
  | ["ended", t] => t.toNat?.map .ended
  | ["w", t] => t.toNat?.map (.op · .write)
  | ["r", t] => t.toNat?.map (.op · .read)
  | ["c", t] => t.toNat?.map (.op · .reconnect)
  | _ => none

def acceptLine (evs : List String) : String :=
  match evs.mapM parseEv with
  | none => "bad-op"
  | some es =>
    match firstRejected Sys.init es 0 with
    | some i => s!"rejected {i}"
    | none =>
      match accept Sys.init es with
      | some s => s!"ok holder={showOptNat s.holder} waiters={",".intercalate (s.waiters.map toString)}"
      | none => "rejected ?"

/-! ### multi-task model -/

def parseOptNat (s : String) : Option (Option Nat) :=
  if s == "none" then some none else s.toNat?.map some

inductive RdItem | t | c | e | msg (b : Bytes)

def parseRdItem (s : String) : Option RdItem :=
  if s == "t" then some .t else if s == "c" then some .c else if s == "e" then some .e else (unhexStr s).map .msg

def parseReads (s : String) : Option (Array RdItem) :=
  if s == "-" then some #[] else (s.splitOn ",").foldl (fun acc it => match acc, parseRdItem it with
    | some a, some x => some (a.push x)
    | _, _ => none) (some #[])

def rdEv (r : UdsReq.Req) : RdItem → Ev
  | .t => .timeout
  | .c => .connErr
  | .e => .empty
  | .msg b => classify r b

def wevOfChar : Char → Option WEv
  | 'o' => some .ok | 'T' => some .timeout | 'C' => some .connErr | _ => none

def rcevOfChar : Char → Option RcEv
  | 'o' => some .ok | 'C' => some (.fail .connErr) | 'T' => some (.fail .timeout) | 'O' => some (.fail .osErr) | _ => none

def parseLetters {α} (f : Char → Option α) (s : String) : Option (Array α) :=
  if s == "-" then some #[] else s.toList.foldl (fun acc ch => match acc, f ch with
    | some a, some x => some (a.push x)
    | _, _ => none) (some #[])

def mkScript (r : UdsReq.Req) (rd : Array RdItem) (wr : Array WEv) (rc : Array RcEv) : Script :=
  ⟨fun j => wr.getD j .ok, fun k => (rd[k]?.map (rdEv r)).getD .timeout, fun m => rc.getD m .ok⟩

def showOut : Out → String
  | .reply k => s!"reply:{k}"
  | .missing c => s!"missing:{if c then 1 else 0}"
  | .illegal k => s!"illegal:{k}"
  | .stuck => "stuck"
  | .connEscaped k => s!"escaped:{k}"

def showRcFault : RcFault → String | .connErr => "C" | .timeout => "T" | .osErr => "O"

def showOutX : OutX → String
  | .base o => showOut o
  | .reconnectFailed m e => s!"rcfail:{m}:{showRcFault e}"

/-- a parsed round and the outcome to print for it -/
def parseRound (s : String) : Option (Round × String) :=
  match s.splitOn "/" with
  | ["R", req, ct, cm, rt, rm, rds, wrs, rcs] =>
    match unhexStr req, parseOptNat ct, cm.toNat?, parseOptNat rt, parseOptNat rm, parseReads rds,
        parseLetters wevOfChar wrs, parseLetters rcevOfChar rcs with
    | some rb, some ct, some cm, some rt, some rm, some rd, some wr, some rc =>
      let r := UdsReq.decode rb
      let c := resolveX ct cm rt rm 0 Limits.std
      let io := mkScript r rd wr rc
      some (Round.request c r io, showOutX (requestX c io).out)
    | _, _, _, _, _, _, _, _ => none
  | ["W", iv, ct, rds, wrs] =>
    match iv.toNat?, parseOptNat ct, parseReads rds, parseLetters wevOfChar wrs with
    | some iv, some ct, some rd, some wr =>
      let r := UdsReq.Req.testerPresent false
      let c := resolveX ct 0 none (some 0) 0 Limits.std
      let io := mkScript r rd wr #[]
      some (Round.worker iv c io, showOutX (requestX (workerCfg c) io).out)
    | _, _, _, _ => none
  | ["C", res] => match res.toList with
    | [ch] => (rcevOfChar ch).map fun r => (Round.reconnect r, "-")
    | _ => none
  | ["S", d] => d.toNat?.map fun d => (Round.sleep d, "-")
  | ["A", w] => w.toNat?.map fun w => (Round.startWorker w, "-")
  | ["Z", w] => w.toNat?.map fun w => (Round.stopWorker w, "-")
  | _ => none

structure DState where
  progs : List (Tid × Prog) := []
  born : List Tid := []

def DState.P (d : DState) : Progs := fun t =>
  match d.progs.find? (·.1 == t) with
  | some (_, p) => p
  | none => Prog.seq []

def labelOf : Act → String
  | .acquire => "want"
  | .release => "rel"
  | .io (.wr ..) => "w"
  | .io (.rd ..) => "r"
  | .io (.sl d) => s!"s{d}"
  | .io (.rc _) => "c"
  | .spawn w => s!"spawn{w}"
  | .stop w => s!"stop{w}"
  | .join w => s!"join{w}"

def nextLabel (s : MSys) (t : Tid) : String :=
  let ts := s.tasks t
  match ts.phase with
  | .waiting => "got"
  | .unborn => "unborn"
  | .done => "done"
  | _ => match ts.todo with
    | a :: _ => labelOf a
    | [] => "next"

def parseChoice (s : String) : Option (Choice × Option String) :=
  match s.splitOn ":" with
  | ["r", t, l] => t.toNat?.map fun t => (.run t, some l)
  | ["x", t] => t.toNat?.map fun t => (.cancel t, none)
  | ["d", h] => (unhexStr h).map fun b => (.deliver b, none)
  | _ => none

def showPhase : Phase → String
  | .unborn => "unborn" | .idle => "idle" | .waiting => "waiting" | .holding => "holding" | .done => "done"

def showTask (s : MSys) (t : Tid) : String :=
  let ts := s.tasks t
  let rs := ",".intercalate (ts.reads.map fun (n, k, b) => s!"{n}.{k}.{hexOrDash b}")
  s!"{t}={showPhase ts.phase}:{if ts.aborted then 1 else 0}:{ts.round}:{if rs.isEmpty then "-" else rs}"

partial def runSched (P : Progs) (tids : List Tid) (s : MSys) (cs : List String) (i : Nat) : String :=
  match cs with
  | [] =>
    let lk := s!"holder={showOptNat s.lock.holder} waiters={",".intercalate (s.lock.waiters.map toString)} inbox={s.inbox.length}"
    s!"ok {lk} | {" ".intercalate (tids.map (showTask s))}"
  | c :: rest =>
    match parseChoice c with
    | none => "bad-op"
    | some (ch, lab) =>
      let labOk := match ch, lab with
        | .run t, some l => if nextLabel s t == l then none else some (nextLabel s t)
        | _, _ => none
      match labOk with
      | some m => s!"label {i} {c} model={m}"
      | none =>
        match mstep P s ch with
        | none => s!"disabled {i} {c}"
        | some s' => runSched P tids s' rest (i + 1)

def classOf (q b : Bytes) : String :=
  let r := UdsReq.decode q
  if Reply.genuineB r b then "genuine" else if Reply.foreignB r b then "foreign"
  else if Reply.undecodableB r b then "undecodable" else "other"

def connResOf : Char → Option TransportReconnect.ConnRes
  | 'o' => some .ok | 'C' => some .refused | 'T' => some .timedOut | 'O' => some .osError | _ => none

def showRcOut : TransportReconnect.RcOut → String
  | .connected => "connected" | .deadline => "deadline"
  | .error .refused => "C" | .error .timedOut => "T" | .error .osError => "O" | .error .ok => "?"

def trcLine (tmo c dflt outs : String) : String :=
  let t : Option (Option Nat) := if tmo == "none" then some none else tmo.toNat?.map some
  let os := if outs == "-" then some [] else outs.toList.mapM connResOf
  match t, c.toNat?, dflt.toList.head?.bind connResOf, os with
  | some t, some c, some d, some os =>
    let r := TransportReconnect.reconnect (fun k => os.getD k d) c t
    s!"{showRcOut r.out} {r.attempts} {r.elapsed}"
  | _, _, _, _ => "bad-op"

def stepD (d : DState) (line : String) : DState × String :=
  match words line with
  | "accept" :: evs => (d, acceptLine evs)
  | ["reset"] => ({}, "ok")
  | "task" :: tid :: born :: loop :: rounds =>
    match tid.toNat?, rounds.mapM parseRound with
    | some t, some rs =>
      let rl := rs.map (·.1)
      let p : Prog := if loop == "1" then
          ⟨fun n => rl.getD n (rl.getLast?.getD (Round.sleep 0)), none⟩
        else Prog.seq rl
      ({ progs := (t, p) :: d.progs, born := if born == "1" then t :: d.born else d.born },
        "ok " ++ ";".intercalate (rs.map (·.2)))
    | _, _ => (d, "bad-op")
  | "sched" :: cs =>
    let P := d.P
    let tids := (d.progs.map (·.1)).reverse
    (d, runSched P tids (MSys.init P (fun t => d.born.contains t)) cs 0)
  | ["trc", tmo, c, dflt, outs] => (d, trcLine tmo c dflt outs)
  | ["foreign", q, b] =>
    match unhexStr q, unhexStr b with
    | some q, some b => (d, classOf q b)
    | _, _ => (d, "bad-op")
  | _ => (d, "bad-op")

def main : IO Unit := loopState ({} : DState) stepD
