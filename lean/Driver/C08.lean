import Gallia.Lib.Proto
import Gallia.Model.Loss
import Gallia.Model.LossSys
import Gallia.Model.LossPend
open Gallia Gallia.Proto Gallia.Loss

/-
  Line protocol of the C08 model driver (times in ms).

    T <tr> <prehex> <cut> <delta|none> <restart> <lostAt> <t0> <tmo|none>
        transport level: connection #0 is lost as described; at t0 `request_unsafe(22 f1 90, tmo)`; then close() twice;
        then reconnect().
        -> <result> <t_end> <close> <rc> <t_rc> <conns>
    C <tr> <prehex> <cut> <delta|none> <restart> <lostAt> <t0> <tmo|none> <maxRetry> <gap>
        client level: at t0 `request(22 f1 90)` with the client's timeout / max_retry; `gap` ms after it ended the same
        request again.
        -> <out1> <t1> <out2> <t2> <conns> <sent>

    S <tr> <maxRetry> <event>*
        whole execution (Model/LossSys.lean); events: D:<hex> deliver, X:<cut> cut, U up, N down, V:<hex>|V:none serve,
        A:1|A:0 routing activation answered / lost, T:<ms> advance, R:<hex>:<tmo|none> request, Q:<tmo|none> transport read, C close, K reconnect
        -> one token per client call (req:<out>:<t_end>:<conns> | closed:<t> | rc:<res>:<t_end>:<conns>), then
           `wire` <conn>@<t>:<hex>,... and `refused` <n>

    P <doipShared|doipSep|hsfz> <n> <D> <L|none> <diag|frame>:<tmo|none>*
        k pending readers (Model/LossPend.lean): n messages delivered at D, the connection lost at L (none: silent peer)
        -> one token per reader: data:<j>@<t> | timeout@<t> | conn@<t> | blocked

  tr: tcp-lines | unix-lines | doip | hsfz;  cut: eof | reset | silence
-/

def req : Bytes := [0x22, 0xF1, 0x90]
def reply : Reply := fun idx => [0x62, 0xF1, 0x90, UInt8.ofNat idx]

def cls (d : Bytes) : Client.Ev :=
  match d with
  | [0x7F, _, 0x78] => .pending
  | [0x7F, _, 0x21] => .busy
  | 0x7F :: _ => .negFinal
  | 0x62 :: 0xF1 :: 0x90 :: _ => .posFinal
  | _ => .mismatch

def doipCfg : Doip.Cfg := { src := 0x0E00, tgt := 0x001D, ver := 2 }
def hsfzCfg : Hsfz.Cfg := { src := 0xF4, dst := 0x10, ackTimeout := 1000 }

def parseCut : String → Option Cut
  | "eof" => some .eof | "reset" => some .reset | "silence" => some .silence | _ => none

def parseOptNat (s : String) : Option (Option Nat) :=
  if s == "none" then some none else s.toNat?.map some

def showRes : PRes → String
  | .data d => s!"data:{hexOrDash d}"
  | .wrote => "wrote"
  | .timeout => "timeout"
  | .connErr => "conn"
  | .eos => "eos"
  | .badLine => "badline"
  | .badFd => "badfd"
  | .blocked => "blocked"

def showOut : Out → String
  | .reply d => s!"reply:{hexOrDash d}"
  | .missing c => s!"missing:{if c then 1 else 0}"
  | .illegal d => s!"illegal:{hexOrDash d}"
  | .stuck => "stuck"
  | .rcRefused => "rc-refused"
  | .rcTimeout => "rc-timeout"
  | .blocked => "blocked"
  | .other r => s!"other:{showRes r}"

def showSent (l : List (Nat × Nat)) : String :=
  if l.isEmpty then "-" else ",".intercalate (l.map fun p => s!"{p.1}@{p.2}")

def runT {Q : Type} (P : Proto Q) (sc : Scn) (lostAt t0 : Nat) (tmo : Option Nat) : String :=
  let w0 := { World.init P sc lostAt with now := t0 }
  let (r, w1) := wRequest P sc reply w0 req tmo
  match r with
  | .blocked => s!"blocked {t0} - - - {w1.conns}"
  | _ =>
    let w2 := wClose (wClose w1)
    let cl := if w2.tclosed then "closed" else "open"
    match wReconnect P sc w2 with
    | .ok w3 => s!"{showRes r} {w1.now} {cl} ok {w3.now} {w3.conns}"
    | .refused w3 => s!"{showRes r} {w1.now} {cl} refused {w3.now} {w3.conns}"
    | .timedOut w3 => s!"{showRes r} {w1.now} {cl} timedout {w3.now} {w3.conns}"

def runC {Q : Type} (P : Proto Q) (sc : Scn) (lostAt t0 : Nat) (tmo : Option Nat) (maxRetry gap : Nat) : String :=
  let c : CCfg := { maxRetry, tmo, lim := Client.Limits.std }
  let w0 := { World.init P sc lostAt with now := t0 }
  let (o1, w1) := lossRun P sc reply cls c req w0
  match o1 with
  | .blocked => s!"blocked ? - - {w1.conns} {showSent w1.sent}"
  | _ =>
    let (o2, w2) := lossRun P sc reply cls c req { w1 with now := w1.now + gap }
    match o2 with
    | .blocked => s!"{showOut o1} {w1.now} blocked - {w2.conns} {showSent w2.sent}"
    | _ => s!"{showOut o1} {w1.now} {showOut o2} {w2.now} {w2.conns} {showSent w2.sent}"

def withProto (tr : String) (k : {Q : Type} → Proto Q → String) : String :=
  match tr with
  | "tcp-lines" | "unix-lines" => k linesProto
  | "doip" => k (doipProto doipCfg)
  | "hsfz" => k (hsfzProto hsfzCfg)
  | _ => "bad-op"

open Gallia.LossSys in
def parseSEv (tok : String) : Option SEv :=
  match tok.splitOn ":" with
  | ["D", h] => (parseHex h).map fun b => .peer (.deliver b)
  | ["X", c] => (parseCut c).map fun k => .peer (.cut k)
  | ["U"] => some (.peer .up)
  | ["N"] => some (.peer .down)
  | ["V", "none"] => some (.peer (.serve none))
  | ["V", h] => (parseHex h).map fun b => .peer (.serve (some b))
  | ["A", "1"] => some (.peer (.ra true))
  | ["A", "0"] => some (.peer (.ra false))
  | ["T", n] => n.toNat?.map fun ms => .peer (.advance ms)
  | ["R", h, t] => match parseHex h, parseOptNat t with
    | some d, some tmo => some (.request d tmo)
    | _, _ => none
  | ["Q", t] => (parseOptNat t).map fun tmo => .read tmo
  | ["C"] => some .close
  | ["K"] => some .reconnect
  | _ => none

open Gallia.LossSys in
def showObs : Obs → String
  | .req o _ _ t1 n => s!"req:{showOut o}:{t1}:{n}"
  | .rd r _ _ t1 => s!"rd:{showRes r}:{t1}"
  | .closed t => s!"closed:{t}"
  | .rc r _ t1 n => s!"rc:{match r with | .ok => "ok" | .refused => "refused" | .timedOut => "timedout"}:{t1}:{n}"

/-- classification for whole executions: negative responses are exactly three bytes and name the request's service -/
def clsS (d : Bytes) : Client.Ev :=
  match d with
  | [0x7F, 0x22, 0x78] => .pending
  | [0x7F, 0x22, 0x21] => .busy
  | [0x7F, 0x22, _] => .negFinal
  | 0x7F :: _ => .malformed
  | 0x62 :: 0xF1 :: 0x90 :: _ => .posFinal
  | _ => .mismatch

open Gallia.LossSys in
def runS {Q : Type} (P : SProto Q) (mr : Nat) (evs : List SEv) : String :=
  let c : LossSys.CCfg := { maxRetry := mr, lim := Client.Limits.std }
  let (s, obs) := LossSys.run P clsS c (evs.length + 1) (Sys.init P) evs []
  let wire := if s.wire.isEmpty then "-" else ",".intercalate (s.wire.map fun w => s!"{w.1}@{w.2.1}:{hexOrDash w.2.2}")
  joinSp (obs.map showObs ++ ["wire", wire, "refused", toString s.refusals, "conns", toString s.nconn, "ties", toString s.ties])

open Gallia.LossSys in
open Gallia.LossSys in
def stepS (tr : String) (mr : String) (toks : List String) : String :=
  match mr.toNat?, toks.mapM parseSEv with
  | some mr, some evs =>
    (match tr with
    | "tcp-lines" | "unix-lines" => runS linesS mr evs
    | "doip" => runS (doipS doipCfg) mr evs
    | "hsfz" => runS (hsfzS hsfzCfg) mr evs
    | _ => "bad-op")
  | _, _ => "bad-op"

open Gallia.LossPend in
def parseRd (tok : String) : Option Rd :=
  match tok.splitOn ":" with
  | ["diag", t] => (parseOptNat t).map fun tmo => ⟨.diag, tmo⟩
  | ["frame", t] => (parseOptNat t).map fun tmo => ⟨.frame, tmo⟩
  | _ => none

open Gallia.LossPend in
def showPend (o : Outc) : String :=
  match o.res with
  | .data i => s!"data:{i}@{o.t}"
  | .timeout => s!"timeout@{o.t}"
  | .conn => s!"conn@{o.t}"
  | .blocked => "blocked"

open Gallia.LossPend in
def stepP (fl n d l : String) (toks : List String) : String :=
  let fl? : Option Flavor := match fl with
    | "doipShared" => some .doipShared | "doipSep" => some .doipSep | "hsfz" => some .hsfz | _ => none
  match fl?, n.toNat?, d.toNat?, parseOptNat l, toks.mapM parseRd with
  | some fl, some n, some d, some l, some rs => joinSp ((outcomes fl n d l 0 rs).map fun p => showPend p.2)
  | _, _, _, _, _ => "bad-op"

def step (line : String) : String :=
  match words line with
  | "P" :: fl :: n :: d :: l :: toks => stepP fl n d l toks
  | "S" :: tr :: mr :: toks => stepS tr mr toks
  | ["T", tr, pre, cut, delta, restart, lostAt, t0, tmo] =>
    match parseHex pre, parseCut cut, parseOptNat delta, restart.toNat?, lostAt.toNat?, t0.toNat?, parseOptNat tmo with
    | some pre, some cut, some delta, some restart, some lostAt, some t0, some tmo =>
      withProto tr fun P => runT P { pre, cut, delta, restart } lostAt t0 tmo
    | _, _, _, _, _, _, _ => "bad-op"
  | ["C", tr, pre, cut, delta, restart, lostAt, t0, tmo, mr, gap] =>
    match parseHex pre, parseCut cut, parseOptNat delta, restart.toNat?, lostAt.toNat?, t0.toNat?, parseOptNat tmo,
          mr.toNat?, gap.toNat? with
    | some pre, some cut, some delta, some restart, some lostAt, some t0, some tmo, some mr, some gap =>
      withProto tr fun P => runC P { pre, cut, delta, restart } lostAt t0 tmo mr gap
    | _, _, _, _, _, _, _, _, _ => "bad-op"
  | _ => "bad-op"

def main : IO Unit := loopLines step
