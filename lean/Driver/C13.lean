import Gallia.Lib.Proto
import Gallia.Model.Server
import Gallia.Spec.IsoDefault
import Gallia.Model.VEcuHist
open Gallia Gallia.Proto Gallia.Server Gallia.IsoDefault

/-
  line protocol
    model <spec>       spec = `-` | sess:entry,entry;sess:...   entry = sid=N | sid=- | sid=sf.sf.sf   (decimal)
    reset              state := session 1, locked, no seed
    state <session> <level|none> <none|t:seedhex>
    req <mask> <dt> <raw> <pduhex> <handler>
    sreq <session> <level|none> <none|t:seedhex> <mask> <dt> <raw> <pduhex> <handler>   (state, then req)
        dt      ticks of 0.25 s since the last handled request (> 40: inactivity reset)
        mask    nine characters 0/1 in the order of `Sw.all`
        handler `none` | kind:pduhex  (neg dsc sa reset tp other) - what the real respond_after_default returned
    ->  `ok <session> <level> <seed memory> <reply hex|none> hc=<0|1> iso=<...>` | `crash <kind> hc=0 iso=-`
        hc: the model reached respond_after_default; iso: the specification's verdict (all switches on,
        non-empty request, active session offered), `-` otherwise
    creq <session> <level|none> <none|t:seedhex> <lastActive> <mask> <start> <stop> <pduhex> <bools> <byte> <paylen> <payhex> <dtccount> <dtcs>
        the CONCRETE server (`VEcu.vecuHandleSE`: rule chain + typed handlers of RandomUDSServer + update_state; the raw
        bit computed by C01's parser model, no handler record): state and `last_time_active` before the request, the two
        clock reads of handle_request (all in ticks of 0.25 s), request bytes, the recorded oracle of the handler call
        (fields as in Driver/C14.lean)
    ->  `ok <session> <level> <seed memory> <reply hex|none> la=<last_time_active>` | `crash <kind> <state> la=<...>`
-/

structure St where
  model : Model := ⟨[], fun _ => none⟩
  assoc : List (Sess × List (Sid × Option (List SubFn))) := []
  st : SrvState := SrvState.init

def parseEntry (s : String) : Option (Sid × Option (List SubFn)) :=
  match s.splitOn "=" with
  | [a, b] => do
    let sid ← a.toNat?
    if b == "N" then pure (sid, none)
    else if b == "-" then pure (sid, some [])
    else
      let sfs ← (b.splitOn ".").mapM String.toNat?
      pure (sid, some sfs)
  | _ => none

def parseSession (s : String) : Option (Sess × List (Sid × Option (List SubFn))) :=
  match s.splitOn ":" with
  | [a, b] => do
    let sess ← a.toNat?
    let es ← if b == "" then pure [] else (b.splitOn ",").mapM parseEntry
    pure (sess, es)
  | _ => none

def parseModel (s : String) : Option (List (Sess × List (Sid × Option (List SubFn)))) :=
  if s == "-" then some [] else (s.splitOn ";").mapM parseSession

def parseMask (s : String) : Option Behavior :=
  let cs := s.toList
  if cs.length != 9 || cs.any (fun c => c != '0' && c != '1') then none
  else some (fun i => match (Sw.all.zip cs).find? (fun p => p.1 == i) with
    | some (_, c) => c == '1'
    | none => true)

def parseResp (s : String) : Option (Option Resp) :=
  if s == "none" then some none else
  match s.splitOn ":" with
  | [k, hx] => do
    let p ← parseHex hx
    match k with
    | "neg" => match p with
      | [_, a, b] => pure (some (.neg a.toNat b.toNat))
      | _ => none
    | "dsc" => match p with
      | _ :: t :: rec => pure (some (.dsc t.toNat rec))
      | _ => none
    | "sa" => match p with
      | _ :: t :: seed => pure (some (.sa t.toNat seed))
      | _ => none
    | "reset" => pure (some (.reset p))
    | "tp" => pure (some .tp)
    | "other" => pure (some (.other p))
    | _ => none
  | _ => none

def showLevel : Option Int → String
  | none => "none"
  | some i => toString i

def showSeed : Option (Nat × Bytes) → String
  | none => "none"
  | some (t, s) => s!"{t}:{hexOrDash s}"

def showState (s : SrvState) : String := s!"{s.session} {showLevel s.level} {showSeed s.lastSA}"

def showReply : Option Resp → String
  | none => "none"
  | some x => hexOrDash x.pdu

def parseLevel (s : String) : Option (Option Int) :=
  if s == "none" then some none else (s.toInt?).map some

def parseSeed (s : String) : Option (Option (Nat × Bytes)) :=
  if s == "none" then some none else
  match s.splitOn ":" with
  | [a, b] => do
    let t ← a.toNat?
    let bs ← parseHex b
    pure (some (t, bs))
  | _ => none

def isAllOn (b : Behavior) : Bool := Sw.all.all b

def doReq (s : St) (mask idle raw hx hd : String) : St × String :=
  match parseMask mask, parseHex hx, parseResp hd with
  | some b, some pdu, some rec =>
    let r : Req := ⟨pdu, raw == "1"⟩
    let seed : Bytes := match rec with
      | some (.sa _ sd) => sd
      | _ => []
    let h : Handler := rndHandler (fun _ _ => rec) (fun _ _ => seed)
    let dt := idle.toNat?.getD 0
    let st0 := if dt > idleLimit then s.st.reset else s.st
    let hc := !pdu.isEmpty && runChain b s.model st0 r chain == .pass
    let iso :=
      if isAllOn b && !pdu.isEmpty && (s.model.get st0.session).isSome then
        let (st', reply) := isoDefault s.model h st0 r
        s!"{showState st'} {showReply reply}"
      else "-"
    match handleAt b s.model h ⟨s.st, 0⟩ dt r with
    | (ts', .ok _ reply) =>
      ({ s with st := ts'.st }, s!"ok {showState ts'.st} {showReply reply} hc={if hc then 1 else 0} iso={iso}")
    | (ts', .crash c) =>
      ({ s with st := ts'.st }, s!"crash {match c with | .assertion => "assertion" | .index => "index"} {showState ts'.st} hc=0 iso={iso}")
  | _, _, _ => (s, "bad-op")

def parseBools (s : String) : Option (List Bool) :=
  if s == "-" then some [] else
  s.toList.mapM (fun c => if c == '1' then some true else if c == '0' then some false else none)

def parseDtc (s : String) : Option (Fin 16777216 × UInt8) :=
  match s.splitOn ":" with
  | [a, b] => do
    let d ← a.toNat?
    let v ← b.toNat?
    if h : d < 16777216 then
      if v < 256 then pure (⟨d, h⟩, UInt8.ofNat v) else none
    else none
  | _ => none

def parseDtcs (s : String) : Option (List (Fin 16777216 × UInt8)) :=
  if s == "-" then some [] else (s.splitOn ",").mapM parseDtc

def parseOrc (bools byte paylen payhex dtccount dtcs : String) : Option VEcu.Orc := do
  let bs ← parseBools bools
  let b ← byte.toNat?
  if b ≥ 256 then none
  let pl ← paylen.toNat?
  let pay ← parseHex payhex
  let dc ← dtccount.toNat?
  let ds ← parseDtcs dtcs
  pure { bools := bs, byte := UInt8.ofNat b, payLen := pl, payload := pay, dtcCount := dc, dtcs := ds }

def doCReq (s : St) (st : SrvState) (la : Nat) (b : Behavior) (start stop : Nat) (pdu : Bytes) (o : VEcu.Orc) : String :=
  match VEcu.vecuHandleSE b s.model ⟨st, la⟩ ⟨start, stop, pdu, o⟩ with
  | (ts', .ok _ reply) => s!"ok {showState ts'.st} {showReply reply} la={ts'.lastActive}"
  | (ts', .crash c) =>
    s!"crash {match c with | .assertion => "assertion" | .index => "index"} {showState ts'.st} la={ts'.lastActive}"

def step (s : St) (line : String) : St × String :=
  match words line with
  | ["model", spec] => match parseModel spec with
    | some a => ({ s with model := Model.ofAssoc a, assoc := a }, "ok")
    | none => (s, "bad-op")
  | ["reset"] => ({ s with st := SrvState.init }, "ok")
  | ["state", a, b, c] => match a.toNat?, parseLevel b, parseSeed c with
    | some sess, some lv, some sd => ({ s with st := ⟨sess, lv, sd⟩ }, "ok")
    | _, _, _ => (s, "bad-op")
  | ["req", mask, idle, raw, hx, hd] => doReq s mask idle raw hx hd
  | ["sreq", a, b, c, mask, idle, raw, hx, hd] =>
    match a.toNat?, parseLevel b, parseSeed c with
    | some sess, some lv, some sd => doReq { s with st := ⟨sess, lv, sd⟩ } mask idle raw hx hd
    | _, _, _ => (s, "bad-op")
  | ["creq", a, b, c, la, mask, start, stop, hx, bools, byte, paylen, payhex, dtccount, dtcs] =>
    match a.toNat?, parseLevel b, parseSeed c, la.toNat?, parseMask mask, start.toNat?, stop.toNat?, parseHex hx,
      parseOrc bools byte paylen payhex dtccount dtcs with
    | some sess, some lv, some sd, some la, some bh, some t0, some t1, some pdu, some o =>
      (s, doCReq s ⟨sess, lv, sd⟩ la bh t0 t1 pdu o)
    | _, _, _, _, _, _, _, _, _ => (s, "bad-op")
  | _ => (s, "bad-op")

def main : IO Unit := loopState ({} : St) step
