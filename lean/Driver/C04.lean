import Gallia.Lib.Proto
import Gallia.Model.Client
open Gallia Gallia.Proto Gallia.Client

/-
  Line protocol of the C04 model driver.

    run <clientTimeout> <clientMaxRetry> <reqTimeout|none> <reqMaxRetry|none> <lat> <script> <pad>

  times in ms; `script` is a comma separated list of event letters with optional repeat count
  (`p*119,P`), `-` for the empty script; `pad` is the event every read after the script produces.
  Letters: t timeout, c connErr, e empty, b busy, p pending, m mismatch, f malformed, n negFinal, P posFinal.

  Reply:  <outcome> <writes> <reads> <reconnects> <elapsed> <readsBound> <elapsedBound> <maxNT> <trace>
  outcome: reply:k | missing:0 | missing:1 | illegal:k | stuck | escaped:k
  trace:   `w`  `r<k>:<tmo>:<dur>`  `s<d>`  `c`   joined by `,`
-/

def evOfChar : Char → Option Ev
  | 't' => some .timeout | 'c' => some .connErr | 'e' => some .empty | 'b' => some .busy
  | 'p' => some .pending | 'm' => some .mismatch | 'f' => some .malformed | 'n' => some .negFinal
  | 'P' => some .posFinal | _ => none

def parseItem (it : String) : Option (List Ev) :=
  match it.splitOn "*" with
  | [l] => match l.toList with
    | [ch] => (evOfChar ch).map ([·])
    | _ => none
  | [l, n] => match l.toList, n.toNat? with
    | [ch], some cnt => (evOfChar ch).map (List.replicate cnt)
    | _, _ => none
  | _ => none

def parseScript (s : String) : Option (Array Ev) :=
  if s == "-" then some #[] else
  (s.splitOn ",").foldl (fun acc it => match acc, parseItem it with
    | some a, some evs => some (a ++ evs.toArray)
    | _, _ => none) (some #[])

def parseOptNat (s : String) : Option (Option Nat) :=
  if s == "none" then some none else s.toNat?.map some

def showOut : Out → String
  | .reply k => s!"reply:{k}"
  | .missing c => s!"missing:{if c then 1 else 0}"
  | .illegal k => s!"illegal:{k}"
  | .stuck => "stuck"
  | .connEscaped k => s!"escaped:{k}"

def showOp : Op → String
  | .wr => "w"
  | .rd k t d => s!"r{k}:{t}:{d}"
  | .sl d => s!"s{d}"
  | .rc => "c"

def step (line : String) : String :=
  match words line with
  | ["run", ct, cm, rt, rm, lat, scr, pad] =>
    match ct.toNat?, cm.toNat?, parseOptNat rt, parseOptNat rm, lat.toNat?, parseScript scr, pad.toList with
    | some ct, some cm, some rt, some rm, some lat, some arr, [pc] =>
      match evOfChar pc with
      | some padEv =>
        let c := resolve ct cm rt rm lat Limits.std
        let s : Nat → Ev := fun k => arr.getD k padEv
        let r := run c s
        let tr := if r.trace.isEmpty then "-" else ",".intercalate (r.trace.map showOp)
        s!"{showOut r.out} {r.writes} {r.reads} {r.reconnects} {r.elapsed} {readsBound c} {elapsedBound c} {maxNT c} {tr}"
      | none => "bad-op"
    | _, _, _, _, _, _, _ => "bad-op"
  | ["limits"] =>
    let l := Limits.std
    s!"{l.maxPending} {l.waiting} {l.floor} {l.retryWait} {l.base}"
  | _ => "bad-op"

def main : IO Unit := loopLines step
