import Gallia.Lib.Proto
import Gallia.Model.ClientIO
import Gallia.Model.ClientSession
open Gallia Gallia.Proto Gallia.Client Gallia.ClientIO

/-
  Line protocol of the C04 model driver.

    run <clientTimeout> <clientMaxRetry> <reqTimeout|none> <reqMaxRetry|none> <lat> <script> <pad>

  times in ms; `script` is a comma separated list of event letters with optional repeat count
  (`p*119,P`), `-` for the empty script; `pad` is the event every read after the script produces.
  Letters: t timeout, c connErr, e empty, b busy, p pending, m mismatch, f malformed, n negFinal, P posFinal.

  Reply:  <outcome> <writes> <reads> <reconnects> <elapsed> <readsBound> <elapsedBound> <maxNT> <trace>
  outcome: reply:k | missing:0 | missing:1 | illegal:k | stuck | escaped:k
  trace:   `w`  `r<k>:<tmo>:<dur>`  `s<d>`  `c`   joined by `,`

  Widened model (`Model/ClientIO.lean`, one `UDSClient.request()`):

    runx <clientTimeout|none> <clientMaxRetry> <reqTimeout|none> <reqMaxRetry|none> <lat> <reads> <pad> <writes> <wpad> <reconnects> <rpad>

  `writes`: what the j-th transport.write() does, letters o ok, T TimeoutError, C ConnectionError;
  `reconnects`: what the m-th reconnect_unsafe() does, letters o ok, C ConnectionError, T TimeoutError, O OSError.

  Reply:  <outcome> <writes> <writesOk> <reads> <reconnects> <elapsed> <readsBound> <elapsedBound> <maxNT> <trace>
  outcome: as above | rcfail:<m>:<C|T|O>
  trace:   `L` acquire, `U` release, `w:<tmo>:<o|T|C>:<dur>`, `r<k>:<tmo>:<dur>`, `s<d>`, `c:<o|C|T|O>`

    readtmo <selfTimeout|none> <arg|none>      -> the timeout `UDSClient._read` hands to transport.read

  Sessions (`Model/ClientSession.lean`, `runSession`):

    session <step> <step> ...     a step is the seven words of a `run` line after `run`

  Reply:  `<outcome>:<writes>:<reads>:<elapsed>` per request, joined by `|`
-/

def evOfChar : Char → Option Ev
  | 't' => some .timeout | 'c' => some .connErr | 'e' => some .empty | 'b' => some .busy
  | 'p' => some .pending | 'm' => some .mismatch | 'f' => some .malformed | 'n' => some .negFinal
  | 'P' => some .posFinal | _ => none

def parseItem (it : String) : Option (List Ev) :=
  match it.splitOn "*" with
  | [l] => match l.toList with
    | [ch] => (evOfChar ch).map ([·])
    | _ => none
  | [l, n] => match l.toList, n.toNat? with
    | [ch], some cnt => (evOfChar ch).map (List.replicate cnt)
    | _, _ => none
  | _ => none

def parseScript (s : String) : Option (Array Ev) :=
  if s == "-" then some #[] else
  (s.splitOn ",").foldl (fun acc it => match acc, parseItem it with
    | some a, some evs => some (a ++ evs.toArray)
    | _, _ => none) (some #[])

def parseOptNat (s : String) : Option (Option Nat) :=
  if s == "none" then some none else s.toNat?.map some

def showOut : Out → String
  | .reply k => s!"reply:{k}"
  | .missing c => s!"missing:{if c then 1 else 0}"
  | .illegal k => s!"illegal:{k}"
  | .stuck => "stuck"
  | .connEscaped k => s!"escaped:{k}"

def showOp : Op → String
  | .wr => "w"
  | .rd k t d => s!"r{k}:{t}:{d}"
  | .sl d => s!"s{d}"
  | .rc => "c"

def wevOfChar : Char → Option WEv
  | 'o' => some .ok | 'T' => some .timeout | 'C' => some .connErr | _ => none

def rcevOfChar : Char → Option RcEv
  | 'o' => some .ok | 'C' => some (.fail .connErr) | 'T' => some (.fail .timeout) | 'O' => some (.fail .osErr) | _ => none

/-- a comma separated list of letters with optional repeat counts -/
def parseLetters {α} (f : Char → Option α) (s : String) : Option (Array α) :=
  if s == "-" then some #[] else
  (s.splitOn ",").foldl (fun acc it => match acc with
    | none => none
    | some a =>
      match it.splitOn "*" with
      | [l] => match l.toList with
        | [ch] => (f ch).map a.push
        | _ => none
      | [l, n] => match l.toList, n.toNat? with
        | [ch], some cnt => (f ch).map (fun x => a ++ (List.replicate cnt x).toArray)
        | _, _ => none
      | _ => none) (some #[])

def showWEv : WEv → String | .ok => "o" | .timeout => "T" | .connErr => "C"
def showRcFault : RcFault → String | .connErr => "C" | .timeout => "T" | .osErr => "O"
def showRcEv : RcEv → String | .ok => "o" | .fail e => showRcFault e

def showOutX : OutX → String
  | .base o => showOut o
  | .reconnectFailed m e => s!"rcfail:{m}:{showRcFault e}"

def showOpX : OpX → String
  | .wr t r d => s!"w:{showOptNat t}:{showWEv r}:{d}"
  | .rd k t d => s!"r{k}:{showOptNat t}:{d}"
  | .sl d => s!"s{d}"
  | .rc r => s!"c:{showRcEv r}"

def showReqOp : ReqOp → String
  | .acquire => "L"
  | .release => "U"
  | .io o => showOpX o

def one {α} (f : Char → Option α) (s : String) : Option α :=
  match s.toList with
  | [ch] => f ch
  | _ => none

def stepX (ct cm rt rm lat scr pad wscr wpad rscr rpad : String) : String :=
  match parseOptNat ct, cm.toNat?, parseOptNat rt, parseOptNat rm, lat.toNat? with
  | some ct, some cm, some rt, some rm, some lat =>
    match parseScript scr, one evOfChar pad, parseLetters wevOfChar wscr, one wevOfChar wpad,
        parseLetters rcevOfChar rscr, one rcevOfChar rpad with
    | some rd, some rdPad, some wr, some wrPad, some rc, some rcPad =>
      let c := resolveX ct cm rt rm lat Limits.std
      let io : Script := ⟨fun j => wr.getD j wrPad, fun k => rd.getD k rdPad, fun m => rc.getD m rcPad⟩
      let r := runX c io
      let q := requestX c io
      let tr := ",".intercalate (q.trace.map showReqOp)
      s!"{showOutX q.out} {r.writes} {r.writesOk} {r.reads} {r.reconnects} {r.elapsed} {readsBound c.base} {elapsedBound c.base} {maxNTX c} {tr}"
    | _, _, _, _, _, _ => "bad-op"
  | _, _, _, _, _ => "bad-op"

/-- one step of a `session` line: seven words as in `run` -/
def parseStep : List String → Option Step
  | [ct, cm, rt, rm, lat, scr, pad] =>
    match ct.toNat?, cm.toNat?, parseOptNat rt, parseOptNat rm, lat.toNat?, parseScript scr, one evOfChar pad with
    | some ct, some cm, some rt, some rm, some lat, some arr, some padEv =>
      some (resolve ct cm rt rm lat Limits.std, fun k => arr.getD k padEv)
    | _, _, _, _, _, _, _ => none
  | _ => none

def parseSteps (fuel : Nat) (ws : List String) : Option (List Step) :=
  match fuel, ws with
  | _, [] => some []
  | 0, _ => none
  | fuel + 1, ws =>
    match parseStep (ws.take 7), parseSteps fuel (ws.drop 7) with
    | some st, some rest => some (st :: rest)
    | _, _ => none

/-- `session <step> <step> ...` (7 words per step, as in `run`): the results of `runSession`, one `out:writes:reads:elapsed`
    per request, joined by `|` -/
def stepSession (ws : List String) : String :=
  match parseSteps ws.length ws with
  | some steps =>
    let rs := runSession steps
    if rs.isEmpty then "-" else
    "|".intercalate (rs.map fun r => s!"{showOut r.out}:{r.writes}:{r.reads}:{r.elapsed}")
  | none => "bad-op"

def step (line : String) : String :=
  match words line with
  | "session" :: ws => stepSession ws
  | ["runx", ct, cm, rt, rm, lat, scr, pad, wscr, wpad, rscr, rpad] => stepX ct cm rt rm lat scr pad wscr wpad rscr rpad
  | ["readtmo", st, arg] =>
    match parseOptNat st, parseOptNat arg with
    | some st, some arg => showOptNat (readTmo st arg)
    | _, _ => "bad-op"
  | ["run", ct, cm, rt, rm, lat, scr, pad] =>
    match ct.toNat?, cm.toNat?, parseOptNat rt, parseOptNat rm, lat.toNat?, parseScript scr, pad.toList with
    | some ct, some cm, some rt, some rm, some lat, some arr, [pc] =>
      match evOfChar pc with
      | some padEv =>
        let c := resolve ct cm rt rm lat Limits.std
        let s : Nat → Ev := fun k => arr.getD k padEv
        let r := run c s
        let tr := if r.trace.isEmpty then "-" else ",".intercalate (r.trace.map showOp)
        s!"{showOut r.out} {r.writes} {r.reads} {r.reconnects} {r.elapsed} {readsBound c} {elapsedBound c} {maxNT c} {tr}"
      | none => "bad-op"
    | _, _, _, _, _, _, _ => "bad-op"
  | ["limits"] =>
    let l := Limits.std
    s!"{l.maxPending} {l.waiting} {l.floor} {l.retryWait} {l.base}"
  | _ => "bad-op"

def main : IO Unit := loopLines step
