import Gallia.Lib.Proto
import Gallia.Model.Scans
open Gallia Gallia.Proto Gallia.Scans

/-
  Line protocol (one case per line):

    svc <sessions> <check 0|1> <response ids 0|1> <skip> <reset level|none> <hooks> | <wire answers>
    id  <sessions> <start> <end> <payload hex|-> <service> <check n|none> <skip> <skip-not-supported 0|1> <default max_retry> <hooks> | <wire answers>

  sessions: `none`, `-` (empty list) or `a,b,c`; skip: `-` or `k:*;k:a,b`; hooks: `-` or `level/pre/post;...` with
  pre / post = `-` or comma separated hex requests; wire answers, one per transmission, in order:
  `[<k>*]p<hex>`, `[<k>*]n<code>`, `[<k>*]t` (silence), `[<k>*]g` (unparsable reply), k ResponsePending frames first.
  The model runs `serviceScan` / `identScan` on the real client loop (`clientEcu`) over the scripted wire ECU.
-/

def parseNatList (s : String) : Option (List Nat) :=
  if s == "-" || s == "" then some [] else (s.splitOn ",").mapM (·.toNat?)

def parseSessions (s : String) : Option (Option (List Nat)) :=
  if s == "none" then some none else (parseNatList s).map some

def parseSkipEntry (s : String) : Option (Nat × Option (List Nat)) :=
  match s.splitOn ":" with
  | [k, v] => do
    let k ← k.toNat?
    if v == "*" then pure (k, none) else do
      let ids ← parseNatList v
      pure (k, some ids)
  | _ => none

def parseSkip (s : String) : Option Skip :=
  if s == "-" then some [] else ((s.splitOn ";").filter (· ≠ "")).mapM parseSkipEntry

def parseHexList (s : String) : Option (List Bytes) :=
  if s == "-" || s == "" then some [] else (s.splitOn ",").mapM parseHex

def parseHookEntry (s : String) : Option (Nat × List Bytes × List Bytes) :=
  match s.splitOn "/" with
  | [k, pre, post] => do pure (← k.toNat?, ← parseHexList pre, ← parseHexList post)
  | _ => none

def mkHooks (es : List (Nat × List Bytes × List Bytes)) : Hooks where
  pre k := ((es.find? (·.1 == k)).map (·.2.1)).getD []
  post k := ((es.find? (·.1 == k)).map (·.2.2)).getD []

def parseHooks (s : String) : Option (List (Nat × List Bytes × List Bytes)) :=
  if s == "-" then some [] else ((s.splitOn ";").filter (· ≠ "")).mapM parseHookEntry

def parseFinal (s : String) : Option WMsg :=
  match s.toList with
  | 'p' :: rest => (parseHex (String.ofList rest)).map WMsg.pos
  | 'n' :: rest => (String.ofList rest).toNat?.map WMsg.neg
  | ['t'] => some .silent
  | ['g'] => some .garbage
  | _ => none

def parseWAns (s : String) : Option WAns :=
  match s.splitOn "*" with
  | [f] => (parseFinal f).map fun m => ⟨0, m⟩
  | [k, f] => do pure ⟨← k.toNat?, ← parseFinal f⟩
  | _ => none

def showReqs (log : List Bytes) : String :=
  if log.isEmpty then "-" else ",".intercalate (log.reverse.map hexOrDash)

def showPairs (ps : List (Nat × Nat)) : String :=
  if ps.isEmpty then "-" else ",".intercalate (ps.map fun (a, b) => s!"{a}:{b}")

def showCounts (ps : List (Nat × IdCount)) : String :=
  if ps.isEmpty then "-" else ";".intercalate (ps.map fun (s, c) => s!"{s}:{c.positive}/{c.abnormal}/{c.timeouts}")

def bit (s : String) : Option Bool := if s == "1" then some true else if s == "0" then some false else none

def tail (st : Scripted) : String := s!"reqs={showReqs st.log} left={st.answers.length}"

def runSvc (args : List String) (answers : List WAns) : Option String := do
  match args with
  | [sess, chk, rid, skip, reset, hooks] =>
    let cfg : SvcCfg := { sessions := ← parseSessions sess, checkSession := ← bit chk, scanResponseIds := ← bit rid,
                          skip := ← parseSkip skip,
                          reset := ← (if reset == "none" then some none else reset.toNat?.map some),
                          hooks := mkHooks (← parseHooks hooks) }
    match serviceScan (clientEcu scriptedEcu svcRetry) cfg { answers := answers } with
    | (st, .ok r) => pure s!"ok result={showPairs r.result} clean={if r.clean then 1 else 0} abort={showPairs r.aborted} {tail st}"
    | (st, .raised w) => pure s!"raised {w} {tail st}"
  | _ => none

def runId (args : List String) (answers : List WAns) : Option String := do
  match args with
  | [sess, start, stop, payload, service, chk, skip, sns, dflt, hooks] =>
    let hs ← parseHooks hooks
    let cfg : IdCfg := { sessions := ← parseSessions sess, start := ← start.toNat?, stop := ← stop.toNat?,
                         payload := ← parseHex payload, service := ← service.toNat?,
                         checkSession := ← (if chk == "none" then some none else chk.toNat?.map some),
                         skip := ← parseSkip skip, skipNotSupported := ← bit sns, hooks := mkHooks hs }
    let hookPdus := hs.flatMap fun e => e.2.1 ++ e.2.2
    match identScan (clientEcu scriptedEcu (idRetry (← dflt.toNat?) hookPdus)) cfg { answers := answers } with
    | (st, .ok r) => pure s!"ok per={showCounts r.perSession} clean={if r.clean then 1 else 0} {tail st}"
    | (st, .raised w) => pure s!"raised {w} {tail st}"
  | _ => none

def step (line : String) : String :=
  match line.splitOn "|" with
  | [head, tl] =>
    match (words tl).mapM parseWAns with
    | none => "bad-answers"
    | some answers =>
      match words head with
      | "svc" :: args => (runSvc args answers).getD "bad-op"
      | "id" :: args => (runId args answers).getD "bad-op"
      | _ => "bad-op"
  | _ => "bad-op"

def main : IO Unit := loopLines step
