import Gallia.Lib.Proto
import Gallia.Model.Scans
open Gallia Gallia.Proto Gallia.Scans

def parseNatList (s : String) : Option (List Nat) :=
  if s == "-" || s == "" then some [] else (s.splitOn ",").mapM (·.toNat?)

def parseSessions (s : String) : Option (Option (List Nat)) :=
  if s == "none" then some none else (parseNatList s).map some

def parseSkipEntry (s : String) : Option (Nat × Option (List Nat)) :=
  match s.splitOn ":" with
  | [k, v] => do
    let k ← k.toNat?
    if v == "*" then pure (k, none) else do
      let ids ← parseNatList v
      pure (k, some ids)
  | _ => none

def parseSkip (s : String) : Option Skip :=
  if s == "-" then some [] else ((s.splitOn ";").filter (· ≠ "")).mapM parseSkipEntry

def parseAns (s : String) : Option Ans :=
  match s.toList with
  | 'p' :: rest => (parseHex (String.ofList rest)).map Ans.pos
  | 'n' :: rest => (String.ofList rest).toNat?.map Ans.neg
  | ['t'] => some .timeout
  | ['i'] => some .illegal
  | _ => none

def showReqs (log : List Bytes) : String :=
  if log.isEmpty then "-" else ",".intercalate (log.reverse.map hexOrDash)

def showPairs (ps : List (Nat × Nat)) : String :=
  if ps.isEmpty then "-" else ",".intercalate (ps.map fun (a, b) => s!"{a}:{b}")

def showCounts (ps : List (Nat × IdCount)) : String :=
  if ps.isEmpty then "-" else ";".intercalate (ps.map fun (s, c) => s!"{s}:{c.positive}/{c.abnormal}/{c.timeouts}")

def bit (s : String) : Option Bool := if s == "1" then some true else if s == "0" then some false else none

def runSvc (args : List String) (answers : List Ans) : Option String := do
  match args with
  | [sess, chk, rid, skip] =>
    let cfg : SvcCfg := { sessions := ← parseSessions sess, checkSession := ← bit chk, scanResponseIds := ← bit rid, skip := ← parseSkip skip }
    -- the scripted ECU logs requests in its state; on `raised` the state is lost, so re-run on a logging wrapper
    match serviceScan scriptedEcu cfg { answers := answers } with
    | .ok r => pure s!"ok result={showPairs r.result} clean={if r.clean then 1 else 0} reqs={showReqs r.state.log} left={r.state.answers.length}"
    | .raised w => pure s!"raised {w}"
  | _ => none

def runId (args : List String) (answers : List Ans) : Option String := do
  match args with
  | [sess, start, stop, payload, service, chk, skip, sns] =>
    let cfg : IdCfg := { sessions := ← parseSessions sess, start := ← start.toNat?, stop := ← stop.toNat?,
                         payload := ← parseHex payload, service := ← service.toNat?,
                         checkSession := ← (if chk == "none" then some none else chk.toNat?.map some),
                         skip := ← parseSkip skip, skipNotSupported := ← bit sns }
    match identScan scriptedEcu cfg { answers := answers } with
    | .ok r => pure s!"ok per={showCounts r.perSession} clean={if r.clean then 1 else 0} reqs={showReqs r.state.log} left={r.state.answers.length}"
    | .raised w => pure s!"raised {w}"
  | _ => none

def step (line : String) : String :=
  match line.splitOn "|" with
  | [head, tail] =>
    match (words tail).mapM parseAns with
    | none => "bad-answers"
    | some answers =>
      match words head with
      | "svc" :: args => (runSvc args answers).getD "bad-op"
      | "id" :: args => (runId args answers).getD "bad-op"
      | _ => "bad-op"
  | _ => "bad-op"

def main : IO Unit := loopLines step
