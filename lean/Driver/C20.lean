import Gallia.Lib.Proto
import Gallia.Model.ParseTransport
open Gallia Gallia.Proto Gallia.Parse

/-! line protocol: every user string travels as hex of its UTF-8 bytes (`-` = empty) -/

def strOfHex (h : String) : Option Str := do
  let bs ← parseHex h
  let s ← String.fromUTF8? (ByteArray.mk bs.toArray)
  pure s.toList

def hexOfStr (s : Str) : String := hexOrDash (String.ofList s).toUTF8.toList

def showNats (l : List Nat) : String := if l.isEmpty then "[]" else ",".intercalate (l.map toString)

def showOptN : Option Nat → String
  | none => "none"
  | some n => toString n

def show2d (l : List (Nat × Option (List Nat))) : String :=
  if l.isEmpty then "{}" else
  ";".intercalate (l.map fun (k, v) => s!"{k}:" ++ (match v with | none => "all" | some xs => showNats xs))

def parseOptNat (s : String) : Option (Option Nat) :=
  if s == "none" then some none else s.toNat?.map some

/-- `khex=vhex,khex=vhex` or `none` -/
def parseArgs (s : String) : Option Args :=
  if s == "none" then some [] else
  (s.splitOn ",").mapM fun kv =>
    match kv.splitOn "=" with
    | [k, v] => match strOfHex k, strOfHex v with
      | some k, some v => some (k, v)
      | _, _ => none
    | _ => none

def showArgs (a : Args) : String :=
  if a.isEmpty then "none" else ",".intercalate (a.map fun (k, v) => hexOfStr k ++ "=" ++ hexOfStr v)

def bit (s : String) : Bool := s == "1"

/-- `base.upper.plus.usP.zeros.mask.wsL.wsR` -/
def parseSp (s : String) : Option Spelling :=
  match s.splitOn "." with
  | [b, up, pl, usp, z, m, l, r] =>
    let base? : Option Base := match b with
      | "d" => some .dec | "x" => some .hex | "o" => some .oct | "b" => some .bin | _ => none
    match base?, z.toNat?, strOfHex l, strOfHex r with
    | some base, some zeros, some wsL, some wsR =>
      some { base, upper := bit up, plus := bit pl, usP := bit usp, zeros,
             us := if m == "-" then [] else m.toList.map (· == '1'), wsL, wsR }
    | _, _, _, _ => none
  | _ => none

/-- `o/N/SP` or `r/A/B/SPA/SPB` -/
def parseElemSpec (s : String) : Option (Elem × ElemSp) :=
  match s.splitOn "/" with
  | ["o", n, sp] => match n.toNat?, parseSp sp with
    | some n, some sp => some (.one n, .one sp)
    | _, _ => none
  | ["r", a, b, sa, sb] => match a.toNat?, b.toNat?, parseSp sa, parseSp sb with
    | some a, some b, some sa, some sb => some (.range a b, .range sa sb)
    | _, _, _, _ => none
  | _ => none

/-- comma separated element specs, `e` for the empty list -/
def parseElemsSpec (s : String) : Option SpElems :=
  if s == "e" then some [] else (s.splitOn ",").mapM parseElemSpec

/-- `;`-separated items, each `OUTER` or `OUTER|INNER` -/
def parseItemsSpec (s : String) : Option (List ItemR) :=
  (s.splitOn ";").mapM fun it =>
    match it.splitOn "|" with
    | [o] => (parseElemsSpec o).map (⟨·, none⟩)
    | [o, i] => match parseElemsSpec o, parseElemsSpec i with
      | some o, some i => some ⟨o, some i⟩
      | _, _ => none
    | _ => none

def showOptI : Option Int → String
  | none => "dflt"
  | some z => toString z

def showOptB : Option Bool → String
  | none => "dflt"
  | some b => if b then "true" else "false"

def showUri (u : Uri) : String :=
  let host := match u.host with | none => "none" | some h => hexOfStr h
  let port := match u.port with | none => "err" | some p => showOptN p
  s!"{hexOfStr u.scheme} {host} {port} {showArgs u.args} {hexOfStr u.path}"

def orErr (o : Option String) : String := o.getD "err"

def showFVal : Option FVal → String
  | none => "dflt"
  | some (.int z) => toString z
  | some (.bool b) => if b then "true" else "false"

def showCfg : Option (List (Str × Option FVal)) → String
  | none => "err"
  | some l => if l.isEmpty then "nocfg" else " ".intercalate (l.map fun (k, v) => String.ofList k ++ "=" ++ showFVal v)

def showErr : ConnErr → String
  | .unknownScheme => "unknown-scheme" | .wrongScheme => "wrong-scheme" | .noHost => "no-host"
  | .badPort => "bad-port" | .badConfig => "bad-config"

def showSoVal : SoVal → String
  | .block bs => hexOrDash bs
  | .int n => s!"i{n}"

def showSock (p : SockPlan) : String :=
  let so := if p.opts.isEmpty then "-" else ",".intercalate (p.opts.map fun (l, o, v) => s!"{l}:{o}:{showSoVal v}")
  let b := match p.bind with
    | none => "range"
    | some none => "if"
    | some (some (rx, tx)) => s!"{rx}:{tx}"
  s!"so={so} bind={b}"

def step (line : String) : String :=
  match words line with
  | ["int", h] => orErr do
      let s ← strOfHex h
      pure (match autoIntL s with | some z => s!"some {z}" | none => "none")
  | ["spell", sp, z] => orErr do
      let sp ← parseSp sp
      let z ← z.toInt?
      pure (hexOfStr (spell sp z))
  | ["unravel", h] => orErr do
      let s ← strOfHex h
      pure (match unravel s with | some l => showNats l | none => "err")
  | ["pranges", h] => orErr do
      let s ← strOfHex h
      pure (match processRanges s with | some l => showNats l | none => "err")
  | ["unravel2d", h] => orErr do
      let s ← strOfHex h
      pure (match unravel2d s with | some l => show2d l | none => "err")
  | ["render", spec] => orErr do
      let es ← parseElemsSpec spec
      pure (hexOfStr (render es))
  | ["denote", spec] => orErr do
      let es ← parseElemsSpec spec
      pure (showNats (denote (elemsOf es)))
  | ["render2d", spec] => orErr do
      let rs ← parseItemsSpec spec
      pure (hexOfStr (render2d rs))
  | ["denote2d", spec] => orErr do
      let rs ← parseItemsSpec spec
      pure (show2d (denote2d (rs.map ItemR.item)))
  | ["split", h, d] => orErr do
      let s ← strOfHex h
      let d ← parseOptNat d
      pure (match splitHostPort s d with
        | some (host, p) => s!"{hexOfStr host} {showOptN p}"
        | none => "err")
  | ["join", h, p] => orErr do
      let s ← strOfHex h
      let p ← p.toNat?
      pure (hexOfStr (joinHostPort s p))
  | ["fromparts", sch, h, p, args] => orErr do
      let sch ← strOfHex sch
      let h ← strOfHex h
      let p ← parseOptNat p
      let args ← parseArgs args
      pure (hexOfStr (fromParts sch h p args))
  | ["parse", h] => orErr do
      let s ← strOfHex h
      pure (match parseUri s with | some u => showUri u | none => "err")
  | ["config", "doip", args] => orErr do
      let args ← parseArgs args
      pure (match doipConfig args with
        | some c => s!"src={c.src} tgt={c.tgt} act={showOptI c.act} ver={showOptI c.ver}"
        | none => "err")
  | ["config", "hsfz", args] => orErr do
      let args ← parseArgs args
      pure (match hsfzConfig args with
        | some c => s!"src={c.src} dst={c.dst} ack={showOptI c.ack}"
        | none => "err")
  | ["config", "isotp", args] => orErr do
      let args ← parseArgs args
      pure (match isotpConfig args with
        | some c => s!"src={c.src} dst={c.dst} ext={showOptB c.isExtended} fd={showOptB c.isFd} " ++
            s!"ft={showOptI c.frameTxtime} ea={showOptI c.extAddress} ra={showOptI c.rxExtAddress} " ++
            s!"tp={showOptI c.txPadding} rp={showOptI c.rxPadding} dl={showOptI c.txDl}"
        | none => "err")
  | ["quoteplus", h] => orErr do
      let s ← strOfHex h
      pure (hexOfStr (quotePlus s))
  | ["unquoteplus", h] => orErr do
      let s ← strOfHex h
      pure (hexOfStr (unquotePlus s))
  | ["quoteb", h] => orErr do
      let bs ← parseHex h
      pure (hexOfStr (quoteB bs))
  | ["unquoteb", h] => orErr do
      let s ← strOfHex h
      pure (hexOrDash (unquoteB s))
  | ["utf8dec", h] => orErr do
      let bs ← parseHex h
      pure (hexOfStr (utf8Dec bs))
  | ["utf8", h] => orErr do
      let s ← strOfHex h
      pure (hexOrDash (utf8Str s))
  | ["qsflat", h] => orErr do
      let s ← strOfHex h
      pure (showArgs (qsFlat s))
  | ["toscript", z, h] => orErr do
      let z ← z.toNat?
      let s ← strOfHex h
      pure (hexOfStr (toScript z s))
  | ["chars", cp] => orErr do
      let n ← cp.toNat?
      let c := Char.ofNat n
      pure s!"{if isSpaceStr c then 1 else 0} {if isWsInt c then 1 else 0} {match uniDigit c with | some d => toString d | none => "-"}"
  | ["laxint", h] => orErr do
      let s ← strOfHex h
      pure (match plainInt s with | some z => s!"some {z}" | none => "none")
  | ["bool", h] => orErr do
      let s ← strOfHex h
      pure (match boolVal s with | some b => (if b then "true" else "false") | none => "none")
  | ["cfg", sch, args] => orErr do
      let sch ← strOfHex sch
      let args ← parseArgs args
      let t ← transportOf sch
      pure (showCfg (cfgOf t.fields args))
  | ["connect", sch, h] => orErr do
      let sch ← strOfHex sch
      let s ← strOfHex h
      let t ← transportOf sch
      pure (match parseUri s with
        | none => "err:parse"
        | some u => match connectPlan t u with
          | .error e => "err:" ++ showErr e
          | .ok p =>
            let host := match p.host with | none => "none" | some x => hexOfStr x
            let path := match p.path with | none => "none" | some x => hexOfStr x
            s!"host={host} port={showOptN p.port} path={path} {showCfg (some p.cfg)}")
  | ["sock", sch, h] => orErr do
      let sch ← strOfHex sch
      let s ← strOfHex h
      let t ← transportOf sch
      pure (match parseUri s with
        | none => "noplan"
        | some u => match connectPlan t u with
          | .error _ => "noplan"
          | .ok p =>
            if t.scheme = isotpT.scheme then
              (match isotpConfig u.args with
               | none => "noplan"
               | some c => showSock (isotpSock c))
            else if t.scheme = canRawT.scheme then
              showSock (canRawSock (match (p.cfg.find? (·.1 = kIsFd)).bind (·.2) with | some (.bool b) => some b | _ => none))
            else "none")
  | _ => "bad-op"

def main : IO Unit := loopLines step
