import Gallia.Lib.Proto
import Gallia.Model.Penlog
open Gallia Gallia.Proto Gallia.Penlog

/-
  Line protocol (one reply line per request line):
    reset                                   -> ok
    rec <module> <host> <data> <datetime> <prio> <tags> <line> <stack> <levelno> <levelname> <func>
                                            -> <hex of the line with prefix> <hex of the line without prefix>
    len <pfx>                               -> number of records in the offset table
    offs <pfx>                              -> the offset table
    sel <pfx> <mode> <arg> <prio>           -> indices yielded + whether every yielded line parses back to the stored record
    esc <str>                               -> hex of the JSON string literal
    unesc <hex>                             -> text of a JSON string literal (or `bad`)
    prio <hex>                              -> priority of a raw line
    lvl <n> / tolvl <p>                     -> level mapping
  text tokens: `s` + comma separated decimal code points; `n` = None; tags: `n` or `t` + `;`-separated texts
-/

structure St where
  rs : Array Rec := #[]
  fileT : Bs := []
  fileF : Bs := []

def parseCps (t : String) : Option Str :=
  if t.isEmpty then some [] else (t.splitOn ",").mapM String.toNat?

def parseStrTok (t : String) : Option Str :=
  if t.startsWith "s" then parseCps (t.drop 1).toString else none

def parseOptStrTok (t : String) : Option (Option Str) :=
  if t == "n" then some none else (parseStrTok t).map some

def parseTagsTok (t : String) : Option (Option (List Str)) :=
  if t == "n" then some none
  else if t == "t" then some (some [])
  else if t.startsWith "t" then ((t.drop 1).toString.splitOn ";").mapM parseStrTok |>.map some
  else none

def bsToBytes (b : Bs) : Bytes := b.map UInt8.ofNat

def hexBs (b : Bs) : String := hexOrDash (bsToBytes b)

def showNats (l : List Nat) : String := if l.isEmpty then "-" else ",".intercalate (l.map toString)

def parseMode (m : String) (arg : Nat) : Option Mode :=
  match m with
  | "forward" => some .forward
  | "reverse" => some .reverse
  | "offset" => some (.offset arg)
  | "tail" => some (.tail arg)
  | "head" => some (.head arg)
  | _ => none

def step (s : St) (line : String) : St × String :=
  match words line with
  | ["reset"] => ({}, "ok")
  | ["rec", mo, ho, da, dt, pr, tg, li, sk, ln, lname, fn] =>
    match parseStrTok mo, parseStrTok ho, parseStrTok da, parseStrTok dt, pr.toNat?, parseTagsTok tg,
          parseStrTok li, parseOptStrTok sk, ln.toNat?, parseStrTok lname, parseStrTok fn with
    | some module, some host, some data, some datetime, some prio, some tags, some line, some stacktrace,
      some levelNo, some levelName, some funcName =>
      let r : Rec := { module, host, data, datetime, prio, tags, line, stacktrace, levelNo, levelName, funcName }
      let lt := writeLine true r
      let lf := writeLine false r
      ({ rs := s.rs.push r, fileT := s.fileT ++ lt, fileF := s.fileF ++ lf }, s!"{hexBs lt} {hexBs lf}")
    | _, _, _, _, _, _, _, _, _, _, _ => (s, "bad-op")
  | ["len", pfx] => (s, toString (len (if pfx == "1" then s.fileT else s.fileF)))
  | ["offs", pfx] => (s, showNats (offsets (if pfx == "1" then s.fileT else s.fileF)))
  | ["sel", pfx, m, arg, pr] =>
    match arg.toNat?, pr.toNat? with
    | some a, some p =>
      match parseMode m a with
      | some mode =>
        let file := if pfx == "1" then s.fileT else s.fileF
        let idx := selectFast file mode p
        let recs := recordsFast file mode p
        let ok := recs == idx.map (fun i => s.rs[i]?)
        (s, s!"{showNats idx} {if ok then "ok" else "bad"}")
      | none => (s, "bad-op")
    | _, _ => (s, "bad-op")
  | ["esc", t] => match parseStrTok t with
    | some str => (s, hexBs (jsonStr str))
    | none => (s, "bad-op")
  | ["unesc", h] => match parseHex h with
    | some b => match parseStr (b.map (·.toNat)) with
      | some (str, []) => (s, "s" ++ ",".intercalate (str.map toString))
      | _ => (s, "bad")
    | none => (s, "bad-op")
  | ["prio", h] => match parseHex h with
    | some b => (s, showOptNat (linePrio (b.map (·.toNat))))
    | none => (s, "bad-op")
  | ["lvl", n] => match n.toNat? with
    | some l => (s, showOptNat (fromLevel l))
    | none => (s, "bad-op")
  | ["tolvl", n] => match n.toNat? with
    | some p => (s, showOptNat (toLevel p))
    | none => (s, "bad-op")
  | _ => (s, "bad-op")

def main : IO Unit := loopState ({} : St) step
