import Gallia.Lib.Proto
import Gallia.Model.PenlogHr
import Gallia.Model.PenlogGate
open Gallia Gallia.Proto Gallia.Penlog

/-
  Line protocol (one reply line per request line):
    reset                                   -> ok
    rec <module> <host> <data> <datetime> <prio> <tags> <line> <stack> <levelno> <levelname> <func>
                                            -> <hex of the line with prefix> <hex of the line without prefix>
    len <pfx>                               -> number of records in the offset table
    offs <pfx>                              -> the offset table
    sel <pfx> <mode> <arg> <prio>           -> indices yielded + whether every yielded line parses back to the stored record
    esc <str>                               -> hex of the JSON string literal
    unesc <hex>                             -> text of a JSON string literal (or `bad`)
    prio <hex>                              -> priority of a raw line
    lvl <n> / tolvl <p>                     -> level mapping
    gate <console> <filelv> <depth>:<lv>,...  -> `k` + one digit per logged record: 1 = it reaches the file
    conlvl <verbose> / filelvl <t|f|n> <verbose|n>   -> get_log_level / get_file_log_level
    logrec <name> <msg> <levelno> <levelname> <Y> <Mo> <D> <H> <Mi> <S> <us> <off|n> <path> <lineno> <func> <tags> <exc|n> <stack|n> <host>
                                            -> like `rec`, for the record as `QueueHandler.prepare` + `_JSONFormatter.format` make it
    jsonfmt <same arguments>                -> hex of the JSON object `_JSONFormatter.format` returns (no queue), state unchanged
    show <i>                                -> stored record i as `parse_json` reads it back (canonical form + printed text)
    readobj <k> <key> <val> ...             -> `parse_json` on a JSON object given as members
    iso <Y> <Mo> <D> <H> <Mi> <S> <us> <off|n> / fromiso <str>   -> isoformat / fromisoformat
    pyint <str> / fromstr <str>             -> int(str) / PenlogPriority.from_str(str)
    argv <str>*                             -> the plan `hr` derives from an argument vector
    suffix <path>                           -> decompressor, Path.suffix, Path.name
    fs clear | fs <path> missing|dir | fs <path> log <pfx> <plain|zst|gz> <file|fifo> | fs <path> raw <hex> <file|fifo>
    stdin log <pfx> | stdin raw <hex>
    dec <zst|gz> <hex raw> <hex out|none>   -> what the trusted decompressor returns for these bytes
    loads <hex body> undecodable|invalid|nonobject|obj <k> <key> <val> ...   -> what json.loads returns for this line body
    hr <cut|-> <str>*  /  hrv <cut|-> <str>*  -> exit status, exception class, emitted records (fingerprints / canonical)
  text tokens: `s` + comma separated decimal code points; `n` = None; tags: `n` or `t` + `;`-separated texts
-/

structure St where
  rs : Array Rec := #[]
  fileT : Bs := []
  fileF : Bs := []
  fs : List (Str × Node) := []
  stdin : Bs := []
  ovLoads : List (Bs × LoadRes) := []
  ovZ : List (Bs × Option Bs) := []
  ovG : List (Bs × Option Bs) := []

def parseCps (t : String) : Option Str :=
  if t.isEmpty then some [] else (t.splitOn ",").mapM String.toNat?

def parseStrTok (t : String) : Option Str :=
  if t.startsWith "s" then parseCps (t.drop 1).toString else none

def parseOptStrTok (t : String) : Option (Option Str) :=
  if t == "n" then some none else (parseStrTok t).map some

def parseTagsTok (t : String) : Option (Option (List Str)) :=
  if t == "n" then some none
  else if t == "t" then some (some [])
  else if t.startsWith "t" then ((t.drop 1).toString.splitOn ";").mapM parseStrTok |>.map some
  else none

def bsToBytes (b : Bs) : Bytes := b.map UInt8.ofNat

def hexBs (b : Bs) : String := hexOrDash (bsToBytes b)

def showNats (l : List Nat) : String := if l.isEmpty then "-" else ",".intercalate (l.map toString)

def parseMode (m : String) (arg : Nat) : Option Mode :=
  match m with
  | "forward" => some .forward
  | "reverse" => some .reverse
  | "offset" => some (.offset arg)
  | "tail" => some (.tail arg)
  | "head" => some (.head arg)
  | _ => none


/-! ### C17 extension: schema, `hr`, containers -/

def showStrTok (s : Str) : String := "s" ++ ",".intercalate (s.map toString)

def parseJValTok (t : String) : Option JVal :=
  if t == "n" then some .null
  else if t == "T" then some (.bool true)
  else if t == "F" then some (.bool false)
  else if t.startsWith "i" then (t.drop 1).toString.toInt?.map .int
  else if t.startsWith "f" then (t.drop 1).toString.toInt?.map .flt
  else if t.startsWith "s" then (parseStrTok t).map .str
  else if t == "l" then some (.strs [])
  else if t.startsWith "l" then ((t.drop 1).toString.splitOn ";").mapM parseStrTok |>.map .strs
  else if t.startsWith "o" then (t.drop 1).toString.toNat?.map .other
  else none

def showJVal : JVal → String
  | .null => "n"
  | .bool true => "T"
  | .bool false => "F"
  | .int i => s!"i{i}"
  | .flt i => s!"f{i}"
  | .str s => showStrTok s
  | .strs l => "l" ++ ";".intercalate (l.map showStrTok)
  | .other k => s!"o{k}"

def showOff : Option Int → String
  | none => "n"
  | some o => toString o

def showDT (d : DT) : String :=
  s!"{d.year}-{d.month}-{d.day}-{d.hour}-{d.minute}-{d.second}-{d.micro}-{showOff d.off}"

def errName : Err → String
  | .unicode => "UnicodeDecodeError"
  | .json => "JSONDecodeError"
  | .key => "KeyError"
  | .value => "ValueError"
  | .type => "TypeError"
  | .index => "IndexError"
  | .zstd => "ZstdError"
  | .gzip => "GzipError"
  | .unmodelled => "unmodelled"

def canonRec (r : PRec) : String :=
  s!"m={showJVal r.module}|h={showJVal r.host}|d={showJVal r.data}|t={showDT r.datetime}|p={r.priority}|g={showJVal r.tags}|l={showJVal r.line}|k={showJVal r.stacktrace}|no={showJVal r.levelNo}|na={showJVal r.levelName}|fn={showJVal r.funcName}"

def canonShown (x : Shown) : String := canonRec x.1 ++ "|x=" ++ showStrTok x.2

def fingerprint (s : String) : Nat :=
  s.toList.foldl (fun h c => (h * 1000003 + c.toNat) % 2305843009213693951) 7

def parseDTToks (y mo d h mi sc us off : String) : Option DT :=
  match y.toNat?, mo.toNat?, d.toNat?, h.toNat?, mi.toNat?, sc.toNat?, us.toNat? with
  | some y, some mo, some d, some h, some mi, some sc, some us =>
    let o : Option (Option Int) := if off == "n" then some none else off.toInt?.map some
    o.map (fun o => { year := y, month := mo, day := d, hour := h, minute := mi, second := sc, micro := us, off := o })
  | _, _, _, _, _, _, _ => none

def parseLogRec (a : List String) : Option (LogRec × Str) :=
  match a with
  | [name, msg, lno, lname, y, mo, d, h, mi, sc, us, off, path, lineno, func, tags, exc, stack, host] =>
    match parseStrTok name, parseStrTok msg, lno.toNat?, parseStrTok lname, parseDTToks y mo d h mi sc us off,
          parseStrTok path, lineno.toNat?, parseStrTok func, parseTagsTok tags, parseOptStrTok exc, parseOptStrTok stack,
          parseStrTok host with
    | some name, some msg, some levelno, some levelname, some created, some pathname, some lineno, some funcName,
      some tags, some excText, some stackInfo, some host =>
      some ({ name, msg, levelno, levelname, created, pathname, lineno, funcName, tags, excText, stackInfo }, host)
    | _, _, _, _, _, _, _, _, _, _, _, _ => none
  | _ => none

def parseMembers : Nat → List String → Option (JObj × List String)
  | 0, rest => some ([], rest)
  | k + 1, key :: val :: rest =>
    match parseStrTok key, parseJValTok val, parseMembers k rest with
    | some ks, some v, some (o, r) => some ((ks, v) :: o, r)
    | _, _, _ => none
  | _, _ => none

def parseLoadRes (a : List String) : Option LoadRes :=
  match a with
  | ["undecodable"] => some .undecodable
  | ["invalid"] => some .invalid
  | ["nonobject"] => some .nonObject
  | "obj" :: k :: rest =>
    match k.toNat? with
    | some k => match parseMembers k rest with
      | some (o, []) => some (.object o)
      | _ => none
    | none => none
  | _ => none

def magicZ : Bs := [0x28, 0xB5, 0x2F, 0xFD]
def magicG : Bs := [0x1F, 0x8B]

/-- a stand-in codec satisfying the round-trip contract: the magic number followed by the data -/
def toyEnc (k : Kind) (x : Bs) : Bs :=
  match k with
  | .plain => x
  | .zst => magicZ ++ x
  | .gz => magicG ++ x

def toyDec (magic : Bs) (raw : Bs) : Option Bs :=
  if raw.isEmpty then some [] else if magic.isPrefixOf raw then some (raw.drop magic.length) else none

def envOf (s : St) : Env :=
  { loads := fun b => match s.ovLoads.lookup b with
      | some r => r
      | none => loadsWriter b
    zstDec := fun raw => match s.ovZ.lookup raw with
      | some r => r
      | none => toyDec magicZ raw
    gzDec := fun raw => match s.ovG.lookup raw with
      | some r => r
      | none => toyDec magicG raw }

def fsOf (s : St) (path : Str) : Node := (s.fs.lookup path).getD .missing

def parseKind (t : String) : Option Kind :=
  match t with
  | "plain" => some .plain
  | "zst" => some .zst
  | "gz" => some .gz
  | _ => none

def showKind : Kind → String
  | .plain => "plain"
  | .zst => "zst"
  | .gz => "gz"

def hexToBs (h : String) : Option Bs := (parseHex h).map (fun b => b.map (·.toNat))

def showMode : HrMode → String
  | .forward => "forward"
  | .reverse => "reverse"
  | .head => "head"
  | .tail => "tail"

def showColor : Color → String
  | .auto => "auto"
  | .always => "always"
  | .never => "never"

/-- `hrRun` with the offset table built once per file -/
def hrRunFast (E : Env) (fs : Str → Node) (stdin : Bs) (argv : List Str) : List Shown × Exit :=
  match hrPlan argv with
  | .usage => ([], .code 2)
  | .help => ([], .code 0)
  | .plan p => hrFilesW (hrOneFast E p) E fs stdin p.files

def showExit (e : Exit) : String :=
  match e with
  | .code n => s!"{n} -"
  | .raised c => s!"{e.status} {errName c}"

def runHr (s : St) (verbose : Bool) (cut : String) (toks : List String) : String :=
  match toks.mapM parseStrTok with
  | none => "bad-op"
  | some argv =>
    let r := hrRunFast (envOf s) (fsOf s) s.stdin argv
    let r := match cut.toNat? with
      | some k => pipeCut k r
      | none => r
    let recs := if verbose then r.1.map canonShown else r.1.map (fun x => toString (fingerprint (canonShown x)))
    s!"{showExit r.2} {r.1.length} {if recs.isEmpty then "-" else " ".intercalate recs}"

def stepExt (s : St) (ws : List String) : Option (St × String) :=
  match ws with
  | "logrec" :: a =>
    match parseLogRec a with
    | some (lr, host) =>
      match formatRec host (queuePrepare lr) with
      | some r =>
        let lt := writeLine true r
        let lf := writeLine false r
        some ({ s with rs := s.rs.push r, fileT := s.fileT ++ lt, fileF := s.fileF ++ lf }, s!"{hexBs lt} {hexBs lf}")
      | none => some (s, "bad-level")
    | none => some (s, "bad-op")
  | "jsonfmt" :: a =>
    match parseLogRec a with
    | some (lr, host) =>
      match formatRec host lr with
      | some r => some (s, hexBs (json r))
      | none => some (s, "bad-level")
    | none => some (s, "bad-op")
  | ["show", i] =>
    match i.toNat? with
    | some i =>
      match s.rs[i]? with
      | some r =>
        match readObj (recObj r) with
        | .ok pr => match fmtRec pr with
          | .ok t => some (s, "ok " ++ canonShown (pr, t))
          | .error e => some (s, "ok " ++ canonRec pr ++ "|xerr=" ++ errName e)
        | .error e => some (s, "err " ++ errName e)
      | none => some (s, "bad-op")
    | none => some (s, "bad-op")
  | "readobj" :: k :: rest =>
    match k.toNat? with
    | some k =>
      match parseMembers k rest with
      | some (o, []) =>
        match readObj o with
        | .ok pr => match fmtRec pr with
          | .ok t => some (s, "ok " ++ canonShown (pr, t))
          | .error e => some (s, "ok " ++ canonRec pr ++ "|xerr=" ++ errName e)
        | .error e => some (s, "err " ++ errName e)
      | _ => some (s, "bad-op")
    | none => some (s, "bad-op")
  | ["iso", y, mo, d, h, mi, sc, us, off] =>
    match parseDTToks y mo d h mi sc us off with
    | some dt => some (s, showStrTok (isoformat dt))
    | none => some (s, "bad-op")
  | ["fromiso", t] =>
    match parseStrTok t with
    | some str => match parseIso str with
      | .ok d => some (s, "ok " ++ showDT d)
      | .bad => some (s, "bad")
      | .unmodelled => some (s, "unmodelled")
    | none => some (s, "bad-op")
  | ["pyint", t] =>
    match parseStrTok t with
    | some str => some (s, match pyInt str with | some i => toString i | none => "none")
    | none => some (s, "bad-op")
  | ["fromstr", t] =>
    match parseStrTok t with
    | some str => some (s, showOptNat (fromStr str))
    | none => some (s, "bad-op")
  | "argv" :: toks =>
    match toks.mapM parseStrTok with
    | some argv =>
      match hrPlan argv with
      | .usage => some (s, "usage")
      | .help => some (s, "help")
      | .plan p =>
        some (s, s!"plan {showMode p.mode} {p.n} {p.prio} {showColor p.color} {" ".intercalate (p.files.map showStrTok)}")
    | none => some (s, "bad-op")
  | ["suffix", t] =>
    match parseStrTok t with
    | some path => some (s, s!"{showKind (detect path)} {showStrTok (pySuffix (pyName path))} {showStrTok (pyName path)}")
    | none => some (s, "bad-op")
  | ["fs", "clear"] => some ({ s with fs := [], stdin := [], ovLoads := [], ovZ := [], ovG := [] }, "ok")
  | ["fs", path, "missing"] =>
    match parseStrTok path with
    | some p => some ({ s with fs := (p, .missing) :: s.fs }, "ok")
    | none => some (s, "bad-op")
  | ["fs", path, "dir"] =>
    match parseStrTok path with
    | some p => some ({ s with fs := (p, .dir) :: s.fs }, "ok")
    | none => some (s, "bad-op")
  | ["fs", path, "log", pfx, kind, node] =>
    match parseStrTok path, parseKind kind with
    | some p, some k =>
      let raw := toyEnc k (if pfx == "1" then s.fileT else s.fileF)
      some ({ s with fs := (p, if node == "fifo" then .fifo raw else .file raw) :: s.fs }, "ok")
    | _, _ => some (s, "bad-op")
  | ["fs", path, "raw", hex, node] =>
    match parseStrTok path, hexToBs hex with
    | some p, some raw => some ({ s with fs := (p, if node == "fifo" then .fifo raw else .file raw) :: s.fs }, "ok")
    | _, _ => some (s, "bad-op")
  | ["stdin", "log", pfx] => some ({ s with stdin := if pfx == "1" then s.fileT else s.fileF }, "ok")
  | ["stdin", "raw", hex] =>
    match hexToBs hex with
    | some raw => some ({ s with stdin := raw }, "ok")
    | none => some (s, "bad-op")
  | ["dec", kind, hraw, hout] =>
    match hexToBs hraw, (if hout == "none" then some none else (hexToBs hout).map some) with
    | some raw, some out =>
      if kind == "zst" then some ({ s with ovZ := (raw, out) :: s.ovZ }, "ok")
      else if kind == "gz" then some ({ s with ovG := (raw, out) :: s.ovG }, "ok")
      else some (s, "bad-op")
    | _, _ => some (s, "bad-op")
  | "loads" :: hbody :: rest =>
    match hexToBs hbody, parseLoadRes rest with
    | some body, some r => some ({ s with ovLoads := (body, r) :: s.ovLoads }, "ok")
    | _, _ => some (s, "bad-op")
  | "hr" :: cut :: toks => some (s, runHr s false cut toks)
  | "hrv" :: cut :: toks => some (s, runHr s true cut toks)
  | _ => none
def step (s : St) (line : String) : St × String :=
  match stepExt s (words line) with
  | some r => r
  | none =>
  match words line with
  | ["reset"] => ({}, "ok")
  | ["rec", mo, ho, da, dt, pr, tg, li, sk, ln, lname, fn] =>
    match parseStrTok mo, parseStrTok ho, parseStrTok da, parseStrTok dt, pr.toNat?, parseTagsTok tg,
          parseStrTok li, parseOptStrTok sk, ln.toNat?, parseStrTok lname, parseStrTok fn with
    | some module, some host, some data, some datetime, some prio, some tags, some line, some stacktrace,
      some levelNo, some levelName, some funcName =>
      let r : Rec := { module, host, data, datetime, prio, tags, line, stacktrace, levelNo, levelName, funcName }
      let lt := writeLine true r
      let lf := writeLine false r
      ({ rs := s.rs.push r, fileT := s.fileT ++ lt, fileF := s.fileF ++ lf }, s!"{hexBs lt} {hexBs lf}")
    | _, _, _, _, _, _, _, _, _, _, _ => (s, "bad-op")
  | ["len", pfx] => (s, toString (len (if pfx == "1" then s.fileT else s.fileF)))
  | ["offs", pfx] => (s, showNats (offsets (if pfx == "1" then s.fileT else s.fileF)))
  | ["sel", pfx, m, arg, pr] =>
    match arg.toNat?, pr.toNat? with
    | some a, some p =>
      match parseMode m a with
      | some mode =>
        let file := if pfx == "1" then s.fileT else s.fileF
        let idx := selectFast file mode p
        let recs := recordsFast file mode p
        let ok := recs == idx.map (fun i => s.rs[i]?)
        (s, s!"{showNats idx} {if ok then "ok" else "bad"}")
      | none => (s, "bad-op")
    | _, _ => (s, "bad-op")
  | ["esc", t] => match parseStrTok t with
    | some str => (s, hexBs (jsonStr str))
    | none => (s, "bad-op")
  | ["unesc", h] => match parseHex h with
    | some b => match parseStr (b.map (·.toNat)) with
      | some (str, []) => (s, "s" ++ ",".intercalate (str.map toString))
      | _ => (s, "bad")
    | none => (s, "bad-op")
  | ["prio", h] => match parseHex h with
    | some b => (s, showOptNat (linePrio (b.map (·.toNat))))
    | none => (s, "bad-op")
  | ["gate", c, f, recs] =>
    let parsed := (if recs == "-" then [] else recs.splitOn ",").map (fun t => match t.splitOn ":" with
      | [d, l] => match d.toNat?, l.toNat? with
        | some d, some l => some (d, l)
        | _, _ => none
      | _ => none)
    match c.toNat?, f.toNat? with
    | some c, some f =>
      if parsed.any Option.isNone then (s, "bad-op")
      else (s, "k" ++ String.join ((fileFlags c f (parsed.filterMap id)).map (fun b => if b then "1" else "0")))
    | _, _ => (s, "bad-op")
  | ["conlvl", v] => match v.toNat? with
    | some v => (s, toString (consoleLevelOf v))
    | none => (s, "bad-op")
  | ["filelvl", t, v] =>
    let tl : Option Bool := if t == "t" then some true else if t == "f" then some false else none
    (s, toString (fileLevelOf tl v.toNat?))
  | ["lvl", n] => match n.toNat? with
    | some l => (s, showOptNat (fromLevel l))
    | none => (s, "bad-op")
  | ["tolvl", n] => match n.toNat? with
    | some p => (s, showOptNat (toLevel p))
    | none => (s, "bad-op")
  | _ => (s, "bad-op")

def main : IO Unit := loopState ({} : St) step
