import Gallia.Lib.Proto
import Gallia.Model.DbLog
open Gallia Gallia.Proto Gallia.DbLog

/-
  line protocol
    reset
    ex <req> <ret|rexc|exc|cancel> <reply|-> <exc|-> <analyze 0/1> <implicit 0/1> <dSend> <dRecv>   -> ok
    run <schedule>     schedule over p g c r x k  (prod get commit retry cancel cancelIn); prints
                       "<performed> | row;row;..." with the rows left after disconnect
    spec <n>           rows the specification demands for the first n exchanges of the program
    upd <session> <sec|none> <reply>   -> "<session> <sec|none>"  (ECU.update_state)
    shape <prefix-notation>            -> 1 / 0  (attribute value of this shape can be logged)
-/

structure St where
  prog : List Exchange := []

def showOptInt : Option Int → String
  | none => "none"
  | some n => toString n

def showOptBytes : Option Bytes → String
  | none => "null"
  | some b => hexOrDash b

def showMode : Mode → String
  | .implicit => "implicit" | .explicit => "explicit" | .emphasized => "emphasized"

def showRow (r : Row) : String :=
  s!"{showMode r.mode},{r.state.session},{showOptInt r.state.sec},{hexOrDash r.req},{r.sendT},{showOptBytes r.resp},{showOptNat r.recvT},{showOptBytes r.exc}"

def showRows (rs : List Row) : String := if rs.isEmpty then "[]" else ";".intercalate (rs.map showRow)

def parseChoice : Char → Option Choice
  | 'p' => some .prod | 'g' => some .get | 'c' => some .commit | 'r' => some .retry
  | 'x' => some .cancel | 'k' => some .cancelIn | _ => none

def parseOutcome (kind : String) (reply exc : Bytes) : Option Outcome :=
  match kind with
  | "ret" => some (.ret reply)
  | "rexc" => some (.respExc reply exc)
  | "exc" => some (.exc exc)
  | "cancel" => some .cancelled
  | _ => none

def parseShape : Nat → List Char → Option (Shape × List Char)
  | 0, _ => none
  | fuel+1, cs =>
    match cs with
    | 'i' :: r => some (.int, r)
    | 'b' :: r => some (.bool, r)
    | 'n' :: r => some (.null, r)
    | 's' :: r => some (.str, r)
    | 'f' :: r => some (.float, r)
    | 'y' :: r => some (.bytes, r)
    | 'E' :: r => some (.enum, r)
    | 'L' :: r => (parseShape fuel r).map fun (e, r') => (.list e, r')
    | 'O' :: r => (parseShape fuel r).map fun (e, r') => (.opt e, r')
    | 'P' :: r => match parseShape fuel r with
      | some (a, r') => (parseShape fuel r').map fun (b, r'') => (.pair a b, r'')
      | none => none
    | 'D' :: r => match parseShape fuel r with
      | some (a, r') => (parseShape fuel r').map fun (b, r'') => (.dict a b, r'')
      | none => none
    | _ => none

def parseInt? (s : String) : Option Int :=
  if s.startsWith "-" then (s.drop 1).toNat?.map fun n => -(n : Int) else s.toNat?.map fun n => (n : Int)

def step' (s : St) (line : String) : St × String :=
  match words line with
  | ["reset"] => ({}, "ok")
  | ["ex", req, kind, reply, exc, an, im, d1, d2] =>
    match parseHex req, parseHex reply, parseHex exc, d1.toNat?, d2.toNat? with
    | some rq, some rp, some ex, some a, some b =>
      match parseOutcome kind rp ex with
      | some o => ({ s with prog := s.prog ++ [{ req := rq, out := o, analyze := an == "1", implicitOn := im == "1",
                                                   dSend := a, dRecv := b }] }, "ok")
      | none => (s, "bad-op")
    | _, _, _, _, _ => (s, "bad-op")
  | ["run", sched] =>
    match sched.toList.mapM parseChoice with
    | some cs =>
      let fin := exec (Sys.init s.prog) cs
      (s, s!"{fin.done.length} | {showRows (afterDisconnect fin)}")
    | none => (s, "bad-op")
  | ["run"] =>
    let fin := exec (Sys.init s.prog) []
    (s, s!"{fin.done.length} | {showRows (afterDisconnect fin)}")
  | ["spec", n] =>
    match n.toNat? with
    | some k => (s, showRows (specRows .init 0 (s.prog.take k)))
    | none => (s, "bad-op")
  | ["upd", sess, sec, reply] =>
    match sess.toNat?, parseHex reply with
    | some n, some rp =>
      let sec? : Option (Option Int) := if sec == "none" then some none else (parseInt? sec).map some
      match sec? with
      | some sc =>
        let st := updateState ⟨n, sc⟩ rp
        (s, s!"{st.session} {showOptInt st.sec}")
      | none => (s, "bad-op")
    | _, _ => (s, "bad-op")
  | ["shape", sh] =>
    match parseShape (sh.length + 1) sh.toList with
    | some (x, []) => (s, if x.attrOk then "1" else "0")
    | _ => (s, "bad-op")
  | _ => (s, "bad-op")

def main : IO Unit := loopState ({} : St) step'
