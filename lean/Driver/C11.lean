import Gallia.Lib.Proto
import Gallia.Model.DbLog
import Gallia.Model.DbTables
open Gallia Gallia.Proto Gallia.DbLog Gallia.DbTables

/-
  line protocol
    reset
    ex <req> <ret|rexc|exc|cancel> <reply|-> <exc|-> <analyze 0/1> <implicit 0/1> <dSend> <dRecv>   -> ok
    run <schedule>     schedule over p g c r f x k  (prod get commit retry commitFail cancel cancelIn); prints
                       "<performed> | row;row;..." with the rows left after disconnect
    mreset <n>         n producer tasks with empty programs
    mex <task> <req> <ret|rexc|exc|cancel> <reply|-> <exc|-> <analyze 0/1> <implicit 0/1>        -> ok
    mrun <ev,ev,...>   events: t<d> tick, c<i> call, f<i> finish, x<i> cancelTask, g / w / r / q writer get / commit /
                       retry / commitFail; prints "<calls> | rows | wire | retries" (wire = task:req,... in grant order)
    lflag <events>     0/1 scanner.implicit_logging = False/True, o database opened, e ECU object created, a stored value applied,
                       r request; prints for every request <flag used><flag asked for>
    treset             empty database, empty program
    top <op> [arg]     op in runMeta scanRun discoveryRun discoveryResult sessionTransition scanResult completeRunMeta
                       propertiesPre completeScanRun
    trun <ev,ev,...> [interrupted]   events: R one step of the run task, R<n>, R* (to the end), K<n> (until the run task waits in its (n+1)-th awaited statement), X cancel, g e E c C writer
                       get / execOk / execFail / commitOk / commitFail, W* writer drains; then disconnect (or the interrupted
                       one); prints the tables, keeps them as the initial database of the next program (a later run on the file)
    spec <n>           rows the specification demands for the first n exchanges of the program
    upd <session> <sec|none> <reply>   -> "<session> <sec|none>"  (ECU.update_state)
    shape <prefix-notation>            -> 1 / 0  (attribute value of this shape can be logged)
    stored <wire>                      -> request bytes the row of a request with these wire bytes holds (storedRequest)
-/

structure St where
  prog : List Exchange := []
  mprogs : List (List Exchange) := []
  tables : Tables := Tables.empty
  tprog : List Op := []

def showOptInt : Option Int → String
  | none => "none"
  | some n => toString n

def showOptBytes : Option Bytes → String
  | none => "null"
  | some b => hexOrDash b

def showMode : Mode → String
  | .implicit => "implicit" | .explicit => "explicit" | .emphasized => "emphasized"

def showRow (r : Row) : String :=
  s!"{showMode r.mode},{r.state.session},{showOptInt r.state.sec},{hexOrDash r.req},{r.sendT},{showOptBytes r.resp},{showOptNat r.recvT},{showOptBytes r.exc}"

def showRows (rs : List Row) : String := if rs.isEmpty then "[]" else ";".intercalate (rs.map showRow)

def parseChoice : Char → Option Choice
  | 'p' => some .prod | 'g' => some .get | 'c' => some .commit | 'r' => some .retry
  | 'x' => some .cancel | 'k' => some .cancelIn | 'f' => some .commitFail | _ => none

def parseOutcome (kind : String) (reply exc : Bytes) : Option Outcome :=
  match kind with
  | "ret" => some (.ret reply)
  | "rexc" => some (.respExc reply exc)
  | "exc" => some (.exc exc)
  | "cancel" => some .cancelled
  | _ => none

def parseShape : Nat → List Char → Option (Shape × List Char)
  | 0, _ => none
  | fuel+1, cs =>
    match cs with
    | 'i' :: r => some (.int, r)
    | 'b' :: r => some (.bool, r)
    | 'n' :: r => some (.null, r)
    | 's' :: r => some (.str, r)
    | 'f' :: r => some (.float, r)
    | 'y' :: r => some (.bytes, r)
    | 'E' :: r => some (.enum, r)
    | 'L' :: r => (parseShape fuel r).map fun (e, r') => (.list e, r')
    | 'O' :: r => (parseShape fuel r).map fun (e, r') => (.opt e, r')
    | 'P' :: r => match parseShape fuel r with
      | some (a, r') => (parseShape fuel r').map fun (b, r'') => (.pair a b, r'')
      | none => none
    | 'D' :: r => match parseShape fuel r with
      | some (a, r') => (parseShape fuel r').map fun (b, r'') => (.dict a b, r'')
      | none => none
    | _ => none

def parseMEvent (t : String) : Option MChoice :=
  match t.toList with
  | ['g'] => some (.w .get)
  | ['w'] => some (.w .commit)
  | ['r'] => some (.w .retry)
  | ['q'] => some (.w .commitFail)
  | 't' :: r => (String.ofList r).toNat?.map .tick
  | 'c' :: r => (String.ofList r).toNat?.map .call
  | 'f' :: r => (String.ofList r).toNat?.map .finish
  | 'x' :: r => (String.ofList r).toNat?.map .cancelTask
  | _ => none

def showWire (w : List (Nat × Bytes)) : String :=
  if w.isEmpty then "[]" else ",".intercalate (w.map fun (i, b) => s!"{i}:{hexOrDash b}")

def showCalls (cs : List Call) : String :=
  if cs.isEmpty then "[]" else ",".intercalate (cs.map fun c => s!"{c.task}:{if c.granted then 1 else 0}")

def parseOp (name : String) (arg : Option Nat) : Option Op :=
  match name, arg with
  | "runMeta", _ => some .runMeta
  | "scanRun", some u => some (.scanRun u)
  | "discoveryRun", _ => some .discoveryRun
  | "discoveryResult", some u => some (.discoveryResult u)
  | "sessionTransition", some d => some (.sessionTransition d)
  | "scanResult", some p => some (.scanResult p)
  | "completeRunMeta", _ => some .completeRunMeta
  | "propertiesPre", _ => some .propertiesPre
  | "completeScanRun", _ => some .completeScanRun
  | _, _ => none

def runToEnd : Nat → TSys → TSys
  | 0, s => s
  | fuel+1, s => if s.stopped || (s.cur.isEmpty && s.todo.isEmpty) then s else runToEnd fuel (tstep s .run)

/-- the run task goes on until `n` awaited steps (statements / commits) have completed and it is suspended in the next one -/
def runAwaits : Nat → Nat → TSys → TSys
  | 0, _, s => s
  | fuel+1, n, s =>
    if s.stopped then s else
    match s.cur with
    | [] => if s.todo.isEmpty then s else runAwaits fuel n (tstep s .run)
    | .enqueue _ :: _ => runAwaits fuel n (tstep s .run)
    | _ :: _ => if n = 0 then s else runAwaits fuel (n - 1) (tstep s .run)

def drainWriter : Nat → TSys → TSys
  | 0, s => s
  | fuel+1, s =>
    if s.inflight.isNone && s.queue.isEmpty then s
    else drainWriter fuel (tstep (tstep (tstep s .get) .execOk) .commitOk)

def tEvent (s : TSys) (t : String) : Option TSys :=
  match t.toList with
  | ['R'] => some (tstep s .run)
  | ['R', '*'] => some (runToEnd (4 * (s.todo.length + 1) + 8) s)
  | 'R' :: r => (String.ofList r).toNat?.map fun n => (List.replicate n TChoice.run).foldl tstep s
  | 'K' :: r => (String.ofList r).toNat?.map fun n => runAwaits (4 * (s.todo.length + 1) + n + 8) n s
  | ['X'] => some (tstep s .cancel)
  | ['g'] => some (tstep s .get)
  | ['e'] => some (tstep s .execOk)
  | ['E'] => some (tstep s .execFail)
  | ['c'] => some (tstep s .commitOk)
  | ['C'] => some (tstep s .commitFail)
  | ['W', '*'] => some (drainWriter (s.queue.length + 2) s)
  | _ => none

def showNats (xs : List Nat) : String := ",".intercalate (xs.map toString)

def showTables (t : Tables) : String :=
  let on : Option Nat → String := fun o => match o with | some n => toString n | none => "null"
  "rm=" ++ showNats t.runMeta ++
  "|ad=" ++ ",".intercalate (t.address.map fun (i, u) => s!"{i}:{u}") ++
  "|sr=" ++ ",".intercalate (t.scanRun.map fun (i, a, m) => s!"{i}:{on a}:{m}") ++
  "|dr=" ++ ",".intercalate (t.discoveryRun.map fun (i, m) => s!"{i}:{m}") ++
  "|dres=" ++ ",".intercalate (t.discoveryResult.map fun (i, r, a) => s!"{i}:{r}:{a}") ++
  "|res=" ++ ",".intercalate (t.scanResult.map fun (i, r, p) => s!"{i}:{r}:{p}") ++
  "|st=" ++ ",".intercalate (t.sessionTransition.map fun (r, d) => s!"{r}:{d}")

def parseInt? (s : String) : Option Int :=
  if s.startsWith "-" then (s.drop 1).toNat?.map fun n => -(n : Int) else s.toNat?.map fun n => (n : Int)

def step' (s : St) (line : String) : St × String :=
  match words line with
  | ["reset"] => ({}, "ok")
  | ["ex", req, kind, reply, exc, an, im, d1, d2] =>
    match parseHex req, parseHex reply, parseHex exc, d1.toNat?, d2.toNat? with
    | some rq, some rp, some ex, some a, some b =>
      match parseOutcome kind rp ex with
      | some o => ({ s with prog := s.prog ++ [{ req := rq, out := o, analyze := an == "1", implicitOn := im == "1",
                                                   dSend := a, dRecv := b }] }, "ok")
      | none => (s, "bad-op")
    | _, _, _, _, _ => (s, "bad-op")
  | ["run", sched] =>
    match sched.toList.mapM parseChoice with
    | some cs =>
      let fin := exec (Sys.init s.prog) cs
      (s, s!"{fin.done.length} | {showRows (afterDisconnect fin)}")
    | none => (s, "bad-op")
  | ["run"] =>
    let fin := exec (Sys.init s.prog) []
    (s, s!"{fin.done.length} | {showRows (afterDisconnect fin)}")
  | ["mreset", n] =>
    match n.toNat? with
    | some k => ({ s with mprogs := List.replicate k [] }, "ok")
    | none => (s, "bad-op")
  | ["mex", task, req, kind, reply, exc, an, im] =>
    match task.toNat?, parseHex req, parseHex reply, parseHex exc with
    | some i, some rq, some rp, some ex =>
      match parseOutcome kind rp ex, s.mprogs[i]? with
      | some o, some p =>
        ({ s with mprogs := s.mprogs.set i (p ++ [{ req := rq, out := o, analyze := an == "1", implicitOn := im == "1",
                                                       dSend := 0, dRecv := 0 }]) }, "ok")
      | _, _ => (s, "bad-op")
    | _, _, _, _ => (s, "bad-op")
  | ["mrun", evs] =>
    match (evs.splitOn ",").mapM parseMEvent with
    | some cs =>
      let fin := mexec (MSys.init s.mprogs) cs
      (s, s!"{showCalls fin.calls} | {showRows (afterDisconnectM fin)} | {showWire fin.wire} | {fin.retries}")
    | none => (s, "bad-op")
  | ["mrun"] =>
    let fin := mexec (MSys.init s.mprogs) []
    (s, s!"{showCalls fin.calls} | {showRows (afterDisconnectM fin)} | {showWire fin.wire} | {fin.retries}")
  | ["treset"] => ({ s with tables := Tables.empty, tprog := [] }, "ok")
  | ["top", name] =>
    match parseOp name none with
    | some op => ({ s with tprog := s.tprog ++ [op] }, "ok")
    | none => (s, "bad-op")
  | ["top", name, arg] =>
    match parseOp name arg.toNat? with
    | some op => ({ s with tprog := s.tprog ++ [op] }, "ok")
    | none => (s, "bad-op")
  | "trun" :: evs :: rest =>
    let toks := if evs == "-" then [] else evs.splitOn ","
    match toks.foldlM tEvent (TSys.init s.tables s.tprog) with
    | some fin =>
      let interrupted := rest == ["interrupted"]
      let t := if interrupted then afterInterruptedDisconnectT fin else afterDisconnectT fin
      ({ s with tables := t, tprog := [] },
       s!"{showTables t}|performed={fin.performed.length}|refused={fin.refused}|retries={fin.retries}|dead={if fin.writerDead then 1 else 0}|fk={if t.fkCheck then 1 else 0}|fkc={if fin.committed.fkCheck then 1 else 0}")
    | none => (s, "bad-op")
  | ["lflag", evs] =>
    let ev? : List (Option LEvent) := evs.toList.map fun c =>
      match c with
      | '0' => some (.set false) | '1' => some (.set true) | 'o' => some .openDb | 'e' => some .createEcu
      | 'a' => some .apply | 'r' => some .request | _ => none
    match ev?.mapM id with
    | some es =>
      (s, if (flagsAt Flag.init es).isEmpty then "-" else
        ",".intercalate ((flagsAt Flag.init es).map fun (u, w) => s!"{if u then 1 else 0}{if w then 1 else 0}"))
    | none => (s, "bad-op")
  | ["spec", n] =>
    match n.toNat? with
    | some k => (s, showRows (specRows .init 0 (s.prog.take k)))
    | none => (s, "bad-op")
  | ["upd", sess, sec, reply] =>
    match sess.toNat?, parseHex reply with
    | some n, some rp =>
      let sec? : Option (Option Int) := if sec == "none" then some none else (parseInt? sec).map some
      match sec? with
      | some sc =>
        let st := updateState ⟨n, sc⟩ rp
        (s, s!"{st.session} {showOptInt st.sec}")
      | none => (s, "bad-op")
    | _, _ => (s, "bad-op")
  | ["stored", wire] =>
    match parseHex wire with
    | some b => (s, hexOrDash (storedRequest b))
    | none => (s, "bad-op")
  | ["shape", sh] =>
    match parseShape (sh.length + 1) sh.toList with
    | some (x, []) => (s, if x.attrOk then "1" else "0")
    | _ => (s, "bad-op")
  | _ => (s, "bad-op")

def main : IO Unit := loopState ({} : St) step'
