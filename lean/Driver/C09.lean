import Gallia.Lib.Proto
import Gallia.Model.SessionScan
import Gallia.Model.SessionScanS
import Gallia.Model.SessionDb
open Gallia Gallia.Proto Gallia.SessionScan

/-
  line protocol (one case per line, fields separated by single spaces):
    scan d=<n> skip=<csv|-> th=<0|1> rs=<n|-> hk=<0|1> mr=<n> rst=<p|s|n<dec>> g=<edges|-> [gh=<edges|->]
         [hp=<csv of 2-byte hook PDUs as numbers|->] [hq=<csv|->] [boot=<n>]
    scans <the fields of scan> fam=<graph|s3|locked> pb=<ping budget> [s3ms=<ms>] [s3n=<requests>] [lk=<a>b,...>] [pn=<n>]
          [fl=<s|b|-,...>] [dl=<ms,...>] [rec=<n,...>: length of the sessionParameterRecord, not part of the model]
      the same scanner against a stateful ECU (Model/SessionScanS.lean): graph ECU, S3 timer, security-locked edges; wrapped
      into ResponsePending frames (`(session + request code) % (pn + 1)` of them) and a script of sporadic faults
      (s = no answer, b = busyRepeatRequest, - = handled)
      gh: the ECU's answers to a hooked attempt (default: the same graph); hp / hq: requests of set_session_pre /
      set_session_post of the ECU class; boot: pings left unanswered after an accepted reset
    dbreset                          an empty database (Model/SessionDb.lean); answers `ok`
    dbscan <the fields of scan>      the scan run into the driver's database under the next run id (`nextRun`); answers
                                     `run=<id> mine=<rows of this run read back: s@a.b;...|-> others=<number of rows of other runs>`
    spec d=<n> skip=<csv|-> g=<edges|-> [gh=.. hk=.. hp=..] rep=<s@a.b.c;...|->   (evaluated on the effective graph `edge`)
  edges: `a>b:p` (positive) `a>b:s` (silent) `a>b:n<dec>` (NRC) `a>b:i<0|1><kind>` (a reply the client refuses; 1 = the
         ECU switched session), comma separated; absent = NRC 0x12
  fl: `i` = a refused reply instead of handling the request, `g` = the request is handled and the reply garbled
-/

def parseAns (s : String) : Option Ans :=
  if s == "p" then some .pos
  else if s == "s" then some .silent
  else if s.startsWith "n" then (s.drop 1).toNat?.map .nrc
  else if s.startsWith "i1" then some (.illegal true)    -- `i<switched><kind of refused reply>`: the kind is the harness' business
  else if s.startsWith "i0" then some (.illegal false)
  else none

def parseCsv (s : String) : List Nat :=
  if s == "-" then [] else (s.splitOn ",").filterMap (·.toNat?)

def parseDots (s : String) : List Nat :=
  if s == "-" then [] else (s.splitOn ".").filterMap (·.toNat?)

/-- edge table as a 128 x 128 array, default `nrc 0x12` -/
def parseGraph (s : String) : Array Ans := Id.run do
  let mut t : Array Ans := Array.replicate (128 * 128) (.nrc NRC_SFNS)
  if s == "-" then return t
  for e in s.splitOn "," do
    match e.splitOn ":" with
    | [ab, a] =>
      match ab.splitOn ">", parseAns a with
      | [x, y], some ans =>
        match x.toNat?, y.toNat? with
        | some p, some u => if p < 128 ∧ u < 128 then t := t.set! (p * 128 + u) ans
        | _, _ => pure ()
      | _, _ => pure ()
    | _ => pure ()
  return t

def graphFn (t : Array Ans) : Sess → Sess → Ans :=
  fun p u => if p < 128 ∧ u < 128 then t.getD (p * 128 + u) (.nrc NRC_SFNS) else .nrc NRC_SFNS

def field (kv : List (String × String)) (k : String) : String :=
  match kv.find? (·.1 == k) with
  | some (_, v) => v
  | none => "-"

def parseKv (ws : List String) : List (String × String) :=
  ws.filterMap fun w => match w.splitOn "=" with
    | [k, v] => some (k, v)
    | _ => none

def hex2 (n : Nat) : String :=
  let d := fun (x : Nat) => "0123456789abcdef".toList.getD x '?'
  String.ofList [d ((n / 16) % 16), d (n % 16)]

def showReq (r : Req) : String :=
  let pdu := match r.kind with
    | .recover => "10" ++ hex2 r.target
    | .probe => "10" ++ hex2 r.target
    | .reset => "11" ++ hex2 r.target
    | .ping => "3e00"
    | .hook => hex2 (r.target / 256) ++ hex2 r.target
  s!"{pdu}@{r.cur}"

def csv (xs : List Nat) : String := if xs.isEmpty then "-" else ",".intercalate (xs.map toString)
def dots (xs : List Nat) : String := if xs.isEmpty then "-" else ".".intercalate (xs.map toString)
def semi (xs : List String) : String := if xs.isEmpty then "-" else ";".intercalate xs

def mkCfg (kv : List (String × String)) : Cfg :=
  { depth := (field kv "d").toNat?.getD 0
    skip := parseCsv (field kv "skip")
    thorough := field kv "th" == "1"
    reset := (field kv "rs").toNat?
    hooks := field kv "hk" == "1"
    maxRetry := (field kv "mr").toNat?.getD 0
    preHook := parseCsv (field kv "hp")
    postHook := parseCsv (field kv "hq") }

def runScan (kv : List (String × String)) : String :=
  let c := mkCfg kv
  let t := parseGraph (field kv "g")
  let ra := (parseAns (field kv "rst")).getD .pos
  let th := if field kv "gh" == "-" then t else parseGraph (field kv "gh")
  let boot := (field kv "boot").toNat?.getD 0
  let E : Ecu := { g := graphFn t, rst := fun _ => ra, gh := graphFn th, boot := fun _ => boot }
  let st := scan c E
  let tr := (transitions st).map fun (s, stack) => s!"{s}@{dots stack}"
  let ng := (negReported st).map fun (s, stack, code) => s!"{s}@{dots stack}@{code}"
  let ps := st.pos.map fun (s, stack) => s!"{s}@{dots stack}"
  let probesOk := st.reqs.all fun r => r.kind != .probe || r.cur == r.top
  s!"exit={exitCode st} end={ending st} result={csv (result st)} trans={semi tr} neg={semi ng} pos={semi ps} cur={st.cur} track={if probesOk then 1 else 0} reqs={",".intercalate (st.reqs.reverse.map showReq)}"

def runSpec (kv : List (String × String)) : String :=
  let d := (field kv "d").toNat?.getD 0
  let skip := parseCsv (field kv "skip")
  let t := parseGraph (field kv "g")
  let th := if field kv "gh" == "-" then t else parseGraph (field kv "gh")
  let g := edge (mkCfg kv) { g := graphFn t, rst := fun _ => .pos, gh := graphFn th }
  let rep := if field kv "rep" == "-" then [] else (field kv "rep").splitOn ";"
  let bad := rep.filter fun e => match e.splitOn "@" with
    | [s, st] =>
      match s.toNat? with
      | some s =>
        let stack := parseDots st
        !(decide (ValidPath g (stack ++ [s])) && stack.head? == some 1 && decide (stack.length ≤ d)
          && (stack.drop 1 ++ [s]).all (fun x => !skip.contains x))
      | none => true
    | _ => true
  s!"reach={csv (reachSet g skip d)} ident={csv (identSet g skip d)} bad={semi bad}"

def wireCode : Wire → Nat
  | .dsc u => u
  | .reset l => l
  | .ping => 0
  | .hook h => h

def parseLocked (s : String) : List (Nat × Nat) :=
  if s == "-" then [] else (s.splitOn ",").filterMap fun e => match e.splitOn ">" with
    | [a, b] => match a.toNat?, b.toNat? with
      | some x, some y => some (x, y)
      | _, _ => none
    | _ => none

def parseFaults (s : String) : List (Option Ans) :=
  if s == "-" then [] else (s.splitOn ",").map fun e =>
    if e == "s" then some .silent else if e == "b" then some (.nrc NRC_BUSY)
    else if e == "i" then some (.illegal false) else if e == "g" then some (.illegal true) else none

def showS {σ} (L : Link σ) (x : StS σ) : String :=
  let st := x.toSt L
  let tr := (transitions st).map fun (s, stack) => s!"{s}@{dots stack}"
  let ng := (negReported st).map fun (s, stack, code) => s!"{s}@{dots stack}@{code}"
  let probesOk := st.reqs.all fun r => r.kind != .probe || r.cur == r.top
  s!"exit={exitCode st} end={ending st} result={csv (result st)} trans={semi tr} neg={semi ng} cur={st.cur} client={x.client} track={if probesOk then 1 else 0} reqs={",".intercalate (st.reqs.reverse.map showReq)}"

/-- `dl=`: ms between the last ResponsePending frame and the positive reply of a session change, picked by
    `(3 * session + target) % length` -/
def gapOf {σ} (O : Oracle σ) (dl : List Nat) (s : σ) (w : Wire) : Nat :=
  match w with
  | .dsc u => if dl.isEmpty then 0 else dl.getD ((O.sessionOf s * 3 + u) % dl.length) 0
  | _ => 0

def runWrapped {σ} (c : CfgS) (O : Oracle σ) (e : σ) (pn : Nat) (fl : List (Option Ans)) (dl : List Nat := []) : String :=
  let O1 := withSlowPending O (fun s w => (O.sessionOf s + wireCode w) % (pn + 1)) (gapOf O dl)
  let L := linkOf (withFaults O1)
  showS L (scanS c L (e, fl))

def runScanS (kv : List (String × String)) : String :=
  let c0 := mkCfg kv
  let c : CfgS := { toCfg := c0, pingBudget := (field kv "pb").toNat?.getD 2 }
  let t := parseGraph (field kv "g")
  let ra := (parseAns (field kv "rst")).getD .pos
  let th := if field kv "gh" == "-" then t else parseGraph (field kv "gh")
  let boot := (field kv "boot").toNat?.getD 0
  let E : Ecu := { g := graphFn t, rst := fun _ => ra, gh := graphFn th, boot := fun _ => boot }
  let pn := (field kv "pn").toNat?.getD 0
  let fl := parseFaults (field kv "fl")
  let dl := if field kv "dl" == "-" || field kv "dl" == "" then [] else ((field kv "dl").splitOn ",").filterMap String.toNat?
  match field kv "fam" with
  | "s3" =>
    runWrapped c (s3Oracle E { s3Ms := (field kv "s3ms").toNat?.getD 0, maxReqs := (field kv "s3n").toNat?.getD 0 }) (1, 0) pn fl dl
  | "locked" =>
    let lk := parseLocked (field kv "lk")
    runWrapped c (lockedOracle E (fun p u => lk.contains (p, u))) (1, false) pn fl dl
  | _ => runWrapped c (graphOracle c0 E) {} pn fl dl

def step (line : String) : String :=
  match words line with
  | "scan" :: rest => runScan (parseKv rest)
  | "scans" :: rest => runScanS (parseKv rest)
  | "spec" :: rest => runSpec (parseKv rest)
  | _ => "bad-op"

/-- the scan of a `scan` line run into the database `db` -/
def runDbScan (db : Table) (kv : List (String × String)) : Table × String :=
  let c := mkCfg kv
  let t := parseGraph (field kv "g")
  let ra := (parseAns (field kv "rst")).getD .pos
  let th := if field kv "gh" == "-" then t else parseGraph (field kv "gh")
  let boot := (field kv "boot").toNat?.getD 0
  let E : Ecu := { g := graphFn t, rst := fun _ => ra, gh := graphFn th, boot := fun _ => boot }
  let run := nextRun db
  let db2 := scanIntoDb c E db run
  let mine := (rowsOf db2 run).map fun (s, stack) => s!"{s}@{dots stack}"
  let others := (db2.filter fun r => r.run != run).length
  (db2, s!"run={run} mine={semi mine} others={others}")

def stepDb (db : Table) (line : String) : Table × String :=
  match words line with
  | "dbreset" :: _ => ([], "ok")
  | "dbscan" :: rest => runDbScan db (parseKv rest)
  | _ => (db, step line)

def main : IO Unit := loopState ([] : Table) stepDb
