import Gallia.Lib.Proto
import Gallia.Model.UdsMatch
import Gallia.Spec.Reply
import Gallia.Model.ClientMatch
import Gallia.Model.UdsHelpers
import Gallia.Gen.C03Tables
open Gallia Gallia.Proto Gallia.UdsReq Gallia.UdsResp Gallia.UdsMatch

/-
  Line protocol of the C03 model driver (byte strings as lower-case hex, `-` = empty):
    p <request pdu> <reply>          ->  <outcome> <class>
          outcome = acc:<ResponseClass> | mismatch | malformed      (`parsePdu reply (.raw request)`)
          class   = G | F | U | -  (Genuine / Foreign / UndecodableSameService of Spec/Reply.lean; `-` = none, `?` = several)
    m <raw 0|1> <request pdu> <reply> ->  1 | 0 | -     `matches x q` for the decoded reply (`-` = undecodable);
                                                         q = the request parsed from its bytes, or the opaque raw request
    r <request pdu> <reply>          ->  1 | 0         `rawPosMatches reply (.raw request)` (RawPositiveResponse.matches)
    c <k> <qk|g> <rdid> <qdid>       ->  1 | 0         `convMatches`
    echo <sid>                       ->  <n> | none    `echoLen`
    s <maxRetry> <request pdu> <f1,f2,…> -> <result> reads=<n> writes=<n> ev=<e1,e2,…>
          `ClientMatch.request` in the world where read #k returns frame fk (hex; `-` = b"", `T` = TimeoutError,
          `C` = ConnectionError; silence after the last), writes and reconnects succeed, client timeout 1 s, no latency;
          result = ret:<k>:<ResponseClass>:<1 iff trigger_request is the request> | refused:<k>:mismatch|malformed |
                   missing:<0|1> | stuck | connEscaped:<k> | reconnectFailed | internal;  ev = `classifyRd` of the frames read
    k <request pdu> <frame>          ->  the event `classifyRead` gives the frame
    h <n|c|p> <code>                 ->  <svc><sub><id> <raise>   the three `suggests_*` helpers (1/0 each) and `raise_for_error`
          on n: NegativeResponse(3E, code) bound to a request, c: the bare code (raise: `-`), p: a positive response
    hu <code>                        ->  <raise>   `raise_for_error` on a NegativeResponse without trigger_request
-/
open Gallia.Client Gallia.ClientIO Gallia.ClientMatch Gallia.UdsHelpers in
def showEv : Ev → String
  | .timeout => "timeout" | .connErr => "connErr" | .empty => "empty" | .busy => "busy" | .pending => "pending"
  | .mismatch => "mismatch" | .malformed => "malformed" | .negFinal => "negFinal" | .posFinal => "posFinal"

open Gallia.ClientMatch in
def parseFrame (t : String) : Option Rd :=
  if t == "T" then some .timeout else if t == "C" then some .connErr else (parseHex t).map .data

open Gallia.ClientMatch in
def worldOf (fs : List Rd) : World := ⟨fun _ => .ok, fun k => fs.getD k .timeout, fun _ => .ok⟩

open Gallia.ClientMatch in
def showResult (w : World) : Result → String
  | .returned k _ _ =>
    let b := match w.rd k with | .data b => b | _ => []
    s!"ret:{k}:{className b}"
  | .refused k .mismatch => s!"refused:{k}:mismatch"
  | .refused k .malformed => s!"refused:{k}:malformed"
  | .missing c => s!"missing:{if c then 1 else 0}"
  | .stuck => "stuck"
  | .connEscaped k => s!"connEscaped:{k}"
  | .reconnectFailed .. => "reconnectFailed"
  | .internal => "internal"

open Gallia.UdsHelpers in
def showRaise : Raise → String
  | .returns => "returns" | .valueError => "ValueError" | .keyError => "KeyError"
  | .raises cls code => s!"raises:{cls}:{code}"

open Gallia.Client Gallia.ClientIO Gallia.ClientMatch in
def streamStep (mr : Nat) (qb : Bytes) (fs : List Rd) : String :=
  let r : Req := .raw qb
  let w := worldOf fs
  let c : CfgX := resolveX (some 1000) mr none none 0 Limits.std
  let res := request c r w
  let n := reads c r w
  let shown := match res with
    | .returned k _ q => s!"ret:{k}:{className (match w.rd k with | .data b => b | _ => [])}:{if q == r then 1 else 0}"
    | other => showResult w other
  let evs := (List.range n).map (fun k => showEv (classifyRd r (w.rd k)))
  s!"{shown} reads={n} writes={writes c r w} ev={",".intercalate evs}"

def showOutcome (b : Bytes) : Outcome → String
  | .accepted _ => s!"acc:{className b}"
  | .mismatch => "mismatch"
  | .malformed => "malformed"

def showClass (r : Req) (b : Bytes) : String :=
  match Reply.genuineB r b, Reply.foreignB r b, Reply.undecodableB r b with
  | true, false, false => "G"
  | false, true, false => "F"
  | false, false, true => "U"
  | false, false, false => "-"
  | _, _, _ => "?"

def b01 (x : Bool) : String := if x then "1" else "0"

def step (line : String) : String :=
  match words line with
  | ["p", q, h] =>
    match parseHex q, parseHex h with
    | some qb, some b => s!"{showOutcome b (parsePdu b (.raw qb))} {showClass (.raw qb) b}"
    | _, _ => "bad-op"
  | ["m", raw, q, h] =>
    match parseHex q, parseHex h with
    | some qb, some b =>
      match decodeResp b with
      | .ok x => b01 («matches» x (if raw == "1" then .raw qb else decode qb))
      | .error _ => "-"
    | _, _ => "bad-op"
  | ["r", q, h] =>
    match parseHex q, parseHex h with
    | some qb, some b => b01 (rawPosMatches b (.raw qb))
    | _, _ => "bad-op"
  | ["c", k, qk, rdid, qdid] =>
    match k.toNat?, rdid.toNat?, qdid.toNat? with
    | some k, some rd, some qd => b01 (convMatches k rd (if qk == "g" then none else qk.toNat?) qd)
    | _, _, _ => "bad-op"
  | ["s", mr, q, fs] =>
    match mr.toNat?, parseHex q, (if fs == "[]" then some [] else (fs.splitOn ",").mapM parseFrame) with
    | some mr, some qb, some frames => streamStep mr qb frames
    | _, _, _ => "bad-op"
  | ["k", q, f] =>
    match parseHex q, parseHex f with
    | some qb, some b => showEv (Gallia.ClientMatch.classifyRead (.raw qb) b)
    | _, _ => "bad-op"
  | ["h", kind, code] =>
    match code.toNat? with
    | some c =>
      let arg : Option Gallia.UdsHelpers.Arg :=
        if kind == "n" then some (.resp (.neg 0x3E (UInt8.ofNat c))) else if kind == "c" then some (.code c)
        else if kind == "p" then some (.resp .testerPresent) else none
      match arg with
      | none => "bad-op"
      | some a =>
        let flags := b01 (Gallia.UdsHelpers.suggestsService a) ++ b01 (Gallia.UdsHelpers.suggestsSubFunction a) ++ b01 (Gallia.UdsHelpers.suggestsIdentifier a)
        let rz := match a with
          | .resp x => showRaise (Gallia.UdsHelpers.raiseForError Gallia.Gen.C03Tables.exceptionTable (some (.testerPresent false)) x)
          | .code _ => "-"
        s!"{flags} {rz}"
    | none => "bad-op"
  | ["hu", code] =>
    match code.toNat? with
    | some c => showRaise (Gallia.UdsHelpers.raiseForError Gallia.Gen.C03Tables.exceptionTable none (.neg 0x3E (UInt8.ofNat c)))
    | none => "bad-op"
  | ["echo", s] =>
    match s.toNat? with
    | some n => showOptNat (echoLen n)
    | none => "bad-op"
  | _ => "bad-op"

def main : IO Unit := loopLines step
