import Gallia.Lib.Proto
import Gallia.Model.UdsMatch
import Gallia.Spec.Reply
open Gallia Gallia.Proto Gallia.UdsReq Gallia.UdsResp Gallia.UdsMatch

/-
  Line protocol of the C03 model driver (byte strings as lower-case hex, `-` = empty):
    p <request pdu> <reply>          ->  <outcome> <class>
          outcome = acc:<ResponseClass> | mismatch | malformed      (`parsePdu reply (.raw request)`)
          class   = G | F | U | -  (Genuine / Foreign / UndecodableSameService of Spec/Reply.lean; `-` = none, `?` = several)
    m <raw 0|1> <request pdu> <reply> ->  1 | 0 | -     `matches x q` for the decoded reply (`-` = undecodable);
                                                         q = the request parsed from its bytes, or the opaque raw request
    r <request pdu> <reply>          ->  1 | 0         `rawPosMatches reply (.raw request)` (RawPositiveResponse.matches)
    c <k> <qk|g> <rdid> <qdid>       ->  1 | 0         `convMatches`
    echo <sid>                       ->  <n> | none    `echoLen`
-/

def showOutcome (b : Bytes) : Outcome → String
  | .accepted _ => s!"acc:{className b}"
  | .mismatch => "mismatch"
  | .malformed => "malformed"

def showClass (r : Req) (b : Bytes) : String :=
  match Reply.genuineB r b, Reply.foreignB r b, Reply.undecodableB r b with
  | true, false, false => "G"
  | false, true, false => "F"
  | false, false, true => "U"
  | false, false, false => "-"
  | _, _, _ => "?"

def b01 (x : Bool) : String := if x then "1" else "0"

def step (line : String) : String :=
  match words line with
  | ["p", q, h] =>
    match parseHex q, parseHex h with
    | some qb, some b => s!"{showOutcome b (parsePdu b (.raw qb))} {showClass (.raw qb) b}"
    | _, _ => "bad-op"
  | ["m", raw, q, h] =>
    match parseHex q, parseHex h with
    | some qb, some b =>
      match decodeResp b with
      | .ok x => b01 («matches» x (if raw == "1" then .raw qb else decode qb))
      | .error _ => "-"
    | _, _ => "bad-op"
  | ["r", q, h] =>
    match parseHex q, parseHex h with
    | some qb, some b => b01 (rawPosMatches b (.raw qb))
    | _, _ => "bad-op"
  | ["c", k, qk, rdid, qdid] =>
    match k.toNat?, rdid.toNat?, qdid.toNat? with
    | some k, some rd, some qd => b01 (convMatches k rd (if qk == "g" then none else qk.toNat?) qd)
    | _, _, _ => "bad-op"
  | ["echo", s] =>
    match s.toNat? with
    | some n => showOptNat (echoLen n)
    | none => "bad-op"
  | _ => "bad-op"

def main : IO Unit := loopLines step
