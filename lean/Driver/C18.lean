import Gallia.Lib.Proto
import Gallia.Model.Config
open Gallia Gallia.Proto Gallia.Config

/-
  line protocol (tokens separated by single spaces, text travels as hex of its UTF-8 bytes):
    eff <field> <cli> <env> <file> <dflt>   -> ok <src> <val> | rej <src> <msg> | missing
    xd <env> <file>                         -> <src> | none            (stage 1 only: extra default)
    rt <field> <val>                        -> <json> <ok <val> | err <msg>>
  field : <kind>[/opt][/const=<val>]
  kind  : bool int autoInt text opaque hexBytes ranges ranges2d autoInts enum:NAME=VAL,... choice:a,b,...
  raw   : - | s:<hex> | i:<int> | b:0|1 | L:<atom>,<atom>... | F | o:<hex>:0|1
  val   : none | i:<int> | b:0|1 | t:<hex> | x:<hex> | l:<int>,... | m:<k>=<int>+<int>..;<k>=-;...
-/

def hexToStr (h : String) : Option Str :=
  if h == "" then some [] else
  match unhexStr h with
  | some bs => (String.fromUTF8? (ByteArray.mk bs.toArray)).map (·.toList)
  | none => none

def strToHex (s : Str) : String := hexStr (String.ofList s).toUTF8.data.toList

def parseIntTok (s : String) : Option Int := s.toInt?

def parseAtom (t : String) : Option Atom :=
  if t.startsWith "s:" then (hexToStr (t.drop 2).toString).map Atom.str
  else if t.startsWith "i:" then (parseIntTok (t.drop 2).toString).map Atom.int
  else none

def parseRaw (t : String) : Option (Option Raw) :=
  if t == "-" then some none
  else if t == "F" then some (some .flag)
  else if t == "b:0" then some (some (.bool false))
  else if t == "b:1" then some (some (.bool true))
  else if t.startsWith "L:" then
    let body := (t.drop 2).toString
    if body == "" then some (some (.list []))
    else (allSome ((body.splitOn ",").map parseAtom)).map (fun xs => some (.list xs))
  else if t.startsWith "o:" then
    match (t.drop 2).toString.splitOn ":" with
    | [h, ok] => (hexToStr h).map (fun s => some (.opq s (ok == "1")))
    | _ => none
  else (parseAtom t).map (fun a => some (.atom a))

def parseInts (sep : String) (s : String) : Option (List Int) :=
  if s == "" then some [] else allSome ((s.splitOn sep).map parseIntTok)

def parseVal (t : String) : Option Val :=
  if t == "none" then some .none
  else if t == "b:0" then some (.bool false)
  else if t == "b:1" then some (.bool true)
  else if t.startsWith "i:" then (parseIntTok (t.drop 2).toString).map Val.int
  else if t.startsWith "t:" then (hexToStr (t.drop 2).toString).map Val.text
  else if t.startsWith "x:" then (parseHex (if t.length == 2 then "-" else (t.drop 2).toString)).map Val.bytes
  else if t.startsWith "l:" then (parseInts "," (t.drop 2).toString).map Val.ints
  else if t.startsWith "m:" then
    let body := (t.drop 2).toString
    if body == "" then some (.map []) else
    (allSome ((body.splitOn ";").map (fun e =>
      match e.splitOn "=" with
      | [k, v] => match parseIntTok k with
        | some ki => if v == "-" then some (ki, none) else (parseInts "+" v).map (fun l => (ki, some l))
        | none => none
      | _ => none))).map Val.map
  else none

def showInts (sep : String) (l : List Int) : String := sep.intercalate (l.map toString)

def showVal : Val → String
  | .none => "none"
  | .int i => s!"i:{i}"
  | .bool b => if b then "b:1" else "b:0"
  | .text s => "t:" ++ strToHex s
  | .bytes b => "x:" ++ hexStr b
  | .ints l => "l:" ++ showInts "," l
  | .map m => "m:" ++ ";".intercalate (m.map (fun (k, v) =>
      s!"{k}=" ++ (match v with | none => "-" | some l => showInts "+" l)))

def showJ : J → String
  | .null => "null"
  | .num i => s!"n:{i}"
  | .bool b => if b then "b:1" else "b:0"
  | .str s => "s:" ++ strToHex s
  | .arr l => "a:" ++ showInts "," l
  | .obj m => "o:" ++ ";".intercalate (m.map (fun (k, v) =>
      String.ofList k ++ "=" ++ (match v with | none => "-" | some l => showInts "+" l)))

def parseKind (t : String) : Option Kind :=
  match t with
  | "bool" => some .bool
  | "int" => some .int
  | "autoInt" => some .autoInt
  | "text" => some .text
  | "opaque" => some .opaque
  | "hexBytes" => some .hexBytes
  | "ranges" => some .ranges
  | "ranges2d" => some .ranges2d
  | "autoInts" => some .autoInts
  | _ =>
    if t.startsWith "enum:" then
      (allSome (((t.drop 5).toString.splitOn ",").map (fun e =>
        match e.splitOn "=" with
        | [n, v] => (parseIntTok v).map (fun i => (n.toList, i))
        | _ => none))).map Kind.enum
    else if t.startsWith "choice:" then some (.choice (((t.drop 7).toString.splitOn ",").map (·.toList)))
    else none

def parseField (t : String) : Option Field :=
  match t.splitOn "/" with
  | [] => none
  | k :: mods =>
    match parseKind k with
    | none => none
    | some kind =>
      mods.foldl (fun acc m => acc.bind (fun f =>
        if m == "opt" then some { f with optional := true }
        else if m.startsWith "const=" then (parseVal (m.drop 6).toString).map (fun v => { f with const := some v })
        else none)) (some { kind := kind })

def showSrc : Source → String
  | .cli => "cli" | .env => "env" | .file => "file" | .dflt => "default"

def showMsg (m : Msg) : String := (reprStr m).replace "Gallia.Config.Msg." ""

def step (line : String) : String :=
  match words line with
  | ["eff", f, c, e, fl, d] =>
    match parseField f, parseRaw c, parseRaw e, parseRaw fl with
    | some fld, some cli, some env, some file =>
      let dflt? : Option (Option Val) := if d == "-" then some none else (parseVal d).map some
      match dflt? with
      | some dflt =>
        match effective fld cli env file dflt with
        | .ok s v => s!"ok {showSrc s} {showVal v}"
        | .rejected s m => s!"rej {showSrc s} {showMsg m}"
        | .missing => "missing"
      | none => "bad-op"
    | _, _, _, _ => "bad-op"
  | ["xd", e, fl] =>
    match parseRaw e, parseRaw fl with
    | some env, some file => match extraDefault env file with
      | some (s, _) => showSrc s
      | none => "none"
    | _, _ => "bad-op"
  | ["rt", f, v] =>
    match parseField f, parseVal v with
    | some fld, some val =>
      let j := dump val
      let r := match load fld j with | .ok v' => s!"ok {showVal v'}" | .error m => s!"err {showMsg m}"
      s!"{showJ j} {r}"
    | _, _ => "bad-op"
  | _ => "bad-op"

def main : IO Unit := loopLines step
