import Gallia.Lib.Proto
import Gallia.Model.Config
open Gallia Gallia.Proto Gallia.Config

/-
  line protocol (tokens separated by single spaces, text travels as hex of its UTF-8 bytes):
    eff <field> <cli> <env> <file> <dflt>   -> ok <src> <val> | rej <src> <msg> | missing
    xd <env> <file>                         -> <src> | none            (stage 1 only: extra default)
    rt <field> <val>                        -> <json> <ok <val> | err <msg>>
    rs (<hexname> <field> <val>)*           -> ok | err <hexname> <msg> | differs      (reload (store cfg) against cfg)
    lax <hex> / hexint <hex>                -> <int> | none                           (pydantic lax int, int(x, 16))
    gv <tree> <hexkey>                      -> none | <tree>                          (Config.get_value)
    key <sect> <hexname>                    -> <hexkey | -> <hex env name>            (gallia.toml key, GALLIA_<NAME>)
    tmpl <hexkey>=<leaf | ->|...            -> <tree> <pf:0|1>                        (template document, keys prefix-free?)
    disc <chain> <env> <xdg> <xdgToml> <homeToml> <extra>  -> <found> <candidates>    (search_config)
    opt <field> <sect> <hexname> <conf:0|1> <cli> <env> <tree> <dflt>   -> as eff     (one option through all layers)
  field : <kind>[/opt][/pos][/const=<val>]
  kind  : bool int autoInt hexInt text opaque hexBytes ranges ranges2d autoInts dict tuples:N enum:NAME=VAL,...
          enums:NAME=VAL,... choice:a,b,...
  raw   : - | s:<hex> | i:<int> | b:0|1 | L:<atom>,<atom>... | F | o:<hex>:0|1
  val   : none | i:<int> | b:0|1 | t:<hex> | x:<hex> | l:<int>,... | m:<k>=<int>+<int>..;<k>=-;... | T:<int>+<int>/... | d:<tree>
  tree  : {<hexkey>=<tree>;...} | <leaf>
  leaf  : n | b0 | b1 | i<int> | s<hex> | f<hex> | a[<atom>,...] | A[<int>+<int>/...] | o<hex>
  sect  : - (none) | S:<hex>
  chain : one item per directory, working directory first, separated by commas: g|- then t|-    env : u | e | m
-/

def hexToStr (h : String) : Option Str :=
  if h == "" || h == "-" then some [] else
  match unhexStr h with
  | some bs => (String.fromUTF8? (ByteArray.mk bs.toArray)).map (·.toList)
  | none => none

def strToHex (s : Str) : String := hexStr (String.ofList s).toUTF8.data.toList

def parseIntTok (s : String) : Option Int := s.toInt?

def parseAtom (t : String) : Option Atom :=
  if t.startsWith "s:" then (hexToStr (t.drop 2).toString).map Atom.str
  else if t.startsWith "i:" then (parseIntTok (t.drop 2).toString).map Atom.int
  else none

def parseRaw (t : String) : Option (Option Raw) :=
  if t == "-" then some none
  else if t == "F" then some (some .flag)
  else if t == "b:0" then some (some (.bool false))
  else if t == "b:1" then some (some (.bool true))
  else if t.startsWith "L:" then
    let body := (t.drop 2).toString
    if body == "" then some (some (.list []))
    else (allSome ((body.splitOn ",").map parseAtom)).map (fun xs => some (.list xs))
  else if t.startsWith "o:" then
    match (t.drop 2).toString.splitOn ":" with
    | [h, ok] => (hexToStr h).map (fun s => some (.opq s (ok == "1")))
    | _ => none
  else (parseAtom t).map (fun a => some (.atom a))

def parseInts (sep : String) (s : String) : Option (List Int) :=
  if s == "" then some [] else allSome ((s.splitOn sep).map parseIntTok)

/-! trees -/

def showInts (sep : String) (l : List Int) : String := sep.intercalate (l.map toString)

def isTokEnd (c : Char) : Bool := c == ';' || c == '}' || c == '=' || c == '|'

def parseIntLists (s : String) : Option (List (List Int)) :=
  if s == "" then some [] else allSome ((s.splitOn "/").map (parseInts "+"))

def parseLeafTok (t : String) : Option Leaf :=
  if t == "n" then some .null
  else if t == "b0" then some (.bool false)
  else if t == "b1" then some (.bool true)
  else if t.startsWith "i" then (parseIntTok (t.drop 1).toString).map Leaf.int
  else if t.startsWith "s" then (hexToStr (t.drop 1).toString).map Leaf.str
  else if t.startsWith "f" then (hexToStr (t.drop 1).toString).map Leaf.flt
  else if t.startsWith "o" then (hexToStr (t.drop 1).toString).map Leaf.other
  else if t.startsWith "a[" && t.endsWith "]" then
    let body := ((t.drop 2).toString.dropEnd 1).toString
    if body == "" then some (.arr []) else (allSome ((body.splitOn ",").map parseAtom)).map Leaf.arr
  else if t.startsWith "A[" && t.endsWith "]" then
    (parseIntLists ((t.drop 2).toString.dropEnd 1).toString).map Leaf.arrs
  else none

mutual
partial def parseTreeC (cs : List Char) : Option (Tree × List Char) :=
  match cs with
  | '{' :: rest => parseEntries rest
  | _ =>
    let tok := cs.takeWhile (fun c => !isTokEnd c)
    (parseLeafTok (String.ofList tok)).map (fun l => (Tree.leaf l, cs.drop tok.length))
partial def parseEntries (cs : List Char) : Option (Tree × List Char) :=
  match cs with
  | '}' :: rest => some (.nil, rest)
  | ';' :: rest => parseEntries rest
  | _ =>
    let k := cs.takeWhile (fun c => !isTokEnd c)
    match cs.drop k.length, hexToStr (String.ofList k) with
    | '=' :: rest, some key =>
      match parseTreeC rest with
      | some (v, rest2) => match parseEntries rest2 with
        | some (more, rest3) => some (.cons key v more, rest3)
        | none => none
      | none => none
    | _, _ => none
end

def parseTreeTok (t : String) : Option Tree :=
  match parseTreeC t.toList with
  | some (tr, []) => some tr
  | _ => none

def showAtom : Atom → String
  | .str s => "s:" ++ strToHex s
  | .int i => s!"i:{i}"

def showIntLists (l : List (List Int)) : String := "/".intercalate (l.map (showInts "+"))

def showLeaf : Leaf → String
  | .null => "n"
  | .bool b => if b then "b1" else "b0"
  | .int i => s!"i{i}"
  | .str s => "s" ++ strToHex s
  | .flt s => "f" ++ strToHex s
  | .other s => "o" ++ strToHex s
  | .arr l => "a[" ++ ",".intercalate (l.map showAtom) ++ "]"
  | .arrs l => "A[" ++ showIntLists l ++ "]"

partial def showTree : Tree → String
  | .leaf l => showLeaf l
  | t =>
    let rec entries : Tree → List String
      | .cons k v r => (strToHex k ++ "=" ++ showTree v) :: entries r
      | _ => []
    "{" ++ ";".intercalate (entries t) ++ "}"

def parseVal (t : String) : Option Val :=
  if t == "none" then some .none
  else if t == "b:0" then some (.bool false)
  else if t == "b:1" then some (.bool true)
  else if t.startsWith "i:" then (parseIntTok (t.drop 2).toString).map Val.int
  else if t.startsWith "t:" then (hexToStr (t.drop 2).toString).map Val.text
  else if t.startsWith "x:" then (parseHex (if t.length == 2 then "-" else (t.drop 2).toString)).map Val.bytes
  else if t.startsWith "l:" then (parseInts "," (t.drop 2).toString).map Val.ints
  else if t.startsWith "T:" then (parseIntLists (t.drop 2).toString).map Val.tuples
  else if t.startsWith "d:" then (parseTreeTok (t.drop 2).toString).map Val.dict
  else if t.startsWith "m:" then
    let body := (t.drop 2).toString
    if body == "" then some (.map []) else
    (allSome ((body.splitOn ";").map (fun e =>
      match e.splitOn "=" with
      | [k, v] => match parseIntTok k with
        | some ki => if v == "-" then some (ki, none) else (parseInts "+" v).map (fun l => (ki, some l))
        | none => none
      | _ => none))).map Val.map
  else none

def showVal : Val → String
  | .none => "none"
  | .int i => s!"i:{i}"
  | .bool b => if b then "b:1" else "b:0"
  | .text s => "t:" ++ strToHex s
  | .bytes b => "x:" ++ hexStr b
  | .ints l => "l:" ++ showInts "," l
  | .map m => "m:" ++ ";".intercalate (m.map (fun (k, v) =>
      s!"{k}=" ++ (match v with | none => "-" | some l => showInts "+" l)))
  | .tuples l => "T:" ++ showIntLists l
  | .dict t => "d:" ++ showTree t

def showJ : J → String
  | .null => "null"
  | .num i => s!"n:{i}"
  | .bool b => if b then "b:1" else "b:0"
  | .str s => "s:" ++ strToHex s
  | .arr l => "a:" ++ showInts "," l
  | .obj m => "o:" ++ ";".intercalate (m.map (fun (k, v) =>
      String.ofList k ++ "=" ++ (match v with | none => "-" | some l => showInts "+" l)))
  | .arrs l => "A:" ++ showIntLists l
  | .tree t => "d:" ++ showTree t

def parseKind (t : String) : Option Kind :=
  match t with
  | "bool" => some .bool
  | "int" => some .int
  | "autoInt" => some .autoInt
  | "text" => some .text
  | "opaque" => some .opaque
  | "hexBytes" => some .hexBytes
  | "ranges" => some .ranges
  | "ranges2d" => some .ranges2d
  | "autoInts" => some .autoInts
  | "hexInt" => some .hexInt
  | "dict" => some .dict
  | _ =>
    let members (s : String) : Option (List (Str × Int)) :=
      allSome ((s.splitOn ",").map (fun e =>
        match e.splitOn "=" with
        | [n, v] => (parseIntTok v).map (fun i => (n.toList, i))
        | _ => none))
    if t.startsWith "enum:" then (members (t.drop 5).toString).map Kind.enum
    else if t.startsWith "enums:" then (members (t.drop 6).toString).map Kind.enums
    else if t.startsWith "tuples:" then (t.drop 7).toString.toNat?.map Kind.tuples
    else if t.startsWith "choice:" then some (.choice (((t.drop 7).toString.splitOn ",").map (·.toList)))
    else none

def parseField (t : String) : Option Field :=
  match t.splitOn "/" with
  | [] => none
  | k :: mods =>
    match parseKind k with
    | none => none
    | some kind =>
      mods.foldl (fun acc m => acc.bind (fun f =>
        if m == "opt" then some { f with optional := true }
        else if m == "pos" then some { f with positional := true }
        else if m.startsWith "const=" then (parseVal (m.drop 6).toString).map (fun v => { f with const := some v })
        else none)) (some { kind := kind })

def showSrc : Source → String
  | .cli => "cli" | .env => "env" | .file => "file" | .dflt => "default"

def showMsg (m : Msg) : String := (reprStr m).replace "Gallia.Config.Msg." ""

def showOutcome : Outcome → String
  | .ok s v => s!"ok {showSrc s} {showVal v}"
  | .rejected s m => s!"rej {showSrc s} {showMsg m}"
  | .missing => "missing"

def parseDflt (d : String) : Option (Option Val) := if d == "-" then some none else (parseVal d).map some

def parseSect (t : String) : Option (Option Str) :=
  if t == "-" then some none
  else if t.startsWith "S:" then (hexToStr (t.drop 2).toString).map some
  else none

def parseCfg : List String → Option (List (Str × Field × Val))
  | [] => some []
  | n :: f :: v :: rest =>
    match hexToStr n, parseField f, parseVal v, parseCfg rest with
    | some n, some f, some v, some more => some ((n, f, v) :: more)
    | _, _, _, _ => none
  | _ => none

def parseChain (t : String) : Option (List Dir) :=
  if t == "" then some [] else
  allSome ((t.splitOn ",").map (fun d =>
    match d.toList with
    | [g, m] => if (g == 'g' || g == '-') && (m == 't' || m == '-') then some { hasGit := g == 'g', hasToml := m == 't' } else none
    | _ => none))

def showPlace : Place → String
  | .env => "env" | .up n => s!"up:{n}" | .user => "user" | .extra i => s!"extra:{i}"

def step (line : String) : String :=
  match words line with
  | ["eff", f, c, e, fl, d] =>
    match parseField f, parseRaw c, parseRaw e, parseRaw fl, parseDflt d with
    | some fld, some cli, some env, some file, some dflt =>
      let extra := extraDefault env file
      let all := match effective fld cli env file dflt, argValue cli (offered fld extra) with
        | .rejected _ _, some (_, r) => " " ++ ",".intercalate ((blamedAll fld.kind r extra).map showSrc)
        | _, _ => ""
      showOutcome (effective fld cli env file dflt) ++ all
    | _, _, _, _, _ => "bad-op"
  | ["opt", f, sc, n, conf, c, e, tr, d] =>
    match parseField f, parseSect sc, hexToStr n, parseRaw c, parseRaw e, parseTreeTok tr, parseDflt d with
    | some fld, some sect, some name, some cli, some env, some doc, some dflt =>
      let decl : OptDecl := { name := name, field := fld, sect := sect, configurable := conf == "1" }
      -- the environment holds at most the variable of this option, with the text of `env`
      let environ : Str → Option Str := fun v =>
        if v == envName name then (match env with | some (.atom (.str s)) => some s | _ => none) else none
      showOutcome (resolveOption decl cli environ doc dflt)
    | _, _, _, _, _, _, _ => "bad-op"
  | "rs" :: rest =>
    match parseCfg rest with
    | some cfg =>
      let vals := cfg.map (fun (n, _, v) => (n, v))
      let schema := cfg.map (fun (n, f, _) => (n, f, (none : Option Val)))
      match reload schema (store vals) with
      | .ok again => if again == vals then "ok" else "differs"
      | .error (n, m) => s!"err {strToHex n} {showMsg m}"
    | none => "bad-op"
  | ["lax", h] => match hexToStr h with
    | some s => (match parseLaxInt s with | some i => toString i | none => "none")
    | none => "bad-op"
  | ["hexint", h] => match hexToStr h with
    | some s => (match parseHexInt s with | some i => toString i | none => "none")
    | none => "bad-op"
  | ["gv", tr, k] =>
    match parseTreeTok tr, hexToStr k with
    | some doc, some key => (match getValue doc key with | some t => showTree t | none => "none")
    | _, _ => "bad-op"
  | ["key", sc, n] =>
    match parseSect sc, hexToStr n with
    | some sect, some name =>
      (match configKey sect name with | some k => strToHex k | none => "-") ++ " " ++ strToHex (envName name)
    | _, _ => "bad-op"
  | ["tmpl", reg] =>
    let entries := if reg == "-" then some [] else allSome ((reg.splitOn "|").map (fun e =>
      match e.splitOn "=" with
      | k :: v0 :: more =>
        let v := "=".intercalate (v0 :: more)
        match hexToStr k with
        | some key => if v == "-" then some (splitOn '.' key, none) else (parseTreeTok v).map (fun l => (splitOn '.' key, some l))
        | none => none
      | _ => none))
    match entries with
    | some es => showTree (templateDoc es) ++ (if prefixFree (templateKeys es) then " pf:1" else " pf:0")
    | none => "bad-op"
  | ["disc", ch, ev, xs, xt, ht, ex] =>
    let envFile : Option EnvFile := match ev with | "u" => some .unset | "e" => some .existing | "m" => some .missing | _ => none
    match parseChain ch, envFile with
    | some chain, some envFile =>
      let w : World := { chain := chain, envFile := envFile, xdgSet := xs == "1", xdgToml := xt == "1", homeToml := ht == "1",
                         extra := if ex == "-" then [] else ex.toList.map (· == '1') }
      let r := match search w with | .file p => "file " ++ showPlace p | .nothing => "nothing" | .notFound => "notfound"
      r ++ " " ++ ",".intercalate ((candidates w).map showPlace)
    | _, _ => "bad-op"
  | ["xd", e, fl] =>
    match parseRaw e, parseRaw fl with
    | some env, some file => match extraDefault env file with
      | some (s, _) => showSrc s
      | none => "none"
    | _, _ => "bad-op"
  | ["rt", f, v] =>
    match parseField f, parseVal v with
    | some fld, some val =>
      let j := dump val
      let r := match load fld j with | .ok v' => s!"ok {showVal v'}" | .error m => s!"err {showMsg m}"
      s!"{showJ j} {r}"
    | _, _ => "bad-op"
  | _ => "bad-op"

def main : IO Unit := loopLines step
