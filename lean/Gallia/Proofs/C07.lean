import Gallia.Model.Hsfz
import Gallia.Gen.C07Hsfz
/-
  C07 — HSFZ: frames are demultiplexed correctly under any segmentation and interleaving.
-/
namespace Gallia.C07
open Gallia Gallia.Framing Gallia.Hsfz

/-! ### agreement of the regenerated tables with the model -/

theorem status_agrees : Gen.C07Hsfz.status = statusTable := by decide

end Gallia.C07
