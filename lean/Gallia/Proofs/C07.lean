import Gallia.Proofs.Lemmas.HsfzSys
import Gallia.Proofs.Lemmas.HsfzOrder
import Gallia.Proofs.Lemmas.HsfzRun
import Gallia.Proofs.Lemmas.HsfzSysExec
import Gallia.Proofs.Lemmas.HsfzSysTrace
import Gallia.Gen.C07Hsfz
/-
  C07 — HSFZ: frames are demultiplexed correctly under any segmentation and interleaving.
  Property theorems only; helper lemmas are in `Proofs/Lemmas/Hsfz.lean` and `Proofs/Lemmas/HsfzSys.lean`.

  The model (`Model/Hsfz.lean`) follows `src/gallia/transports/hsfz.py`.  `settle cfg yields` is the schedule of the
  event loop between two external events; every theorem about it holds for an *arbitrary* predicate `yields`, i.e.
  for every interleaving of the reader task and the blocked consumer at frame granularity.
-/
namespace Gallia.C07
open Gallia Gallia.Framing Gallia.Hsfz

/-! ### agreement of the tables regenerated from hsfz.py with the model -/

theorem status_agrees : Gen.C07Hsfz.status = statusTable := by decide

/-- struct formats: sizes computed from the format strings and by `struct.calcsize` equal the model's lengths -/
theorem formats_agree :
    fmtSize Gen.C07Hsfz.headerFmt = headerLen ∧ Gen.C07Hsfz.headerFmtSize = headerLen ∧
    fmtSize Gen.C07Hsfz.addrFmt = addrLen ∧ Gen.C07Hsfz.addrFmtSize = addrLen ∧
    fmtSize Gen.C07Hsfz.aliveAddrFmt = aliveBodyLen ∧ Gen.C07Hsfz.aliveAddrFmtSize = aliveBodyLen ∧
    Gen.C07Hsfz.headerFmt = "!IH" ∧ Gen.C07Hsfz.addrFmt = "!BB" ∧ Gen.C07Hsfz.aliveAddrFmt = "!H" := by decide

/-- the literals of `_read_frame`, `_read_ack`, `write_diag_request`, `send_alive_msg` -/
theorem literals_agree :
    Gen.C07Hsfz.headerLen = headerLen ∧ Gen.C07Hsfz.shortThreshold = addrLen ∧ Gen.C07Hsfz.addrLen = addrLen ∧
    Gen.C07Hsfz.dataLenSub = addrLen ∧ Gen.C07Hsfz.echoLen = echoLen ∧ Gen.C07Hsfz.writeLenExtra = addrLen ∧
    Gen.C07Hsfz.writeCWord = cwData ∧ Gen.C07Hsfz.aliveLen = aliveBodyLen ∧ Gen.C07Hsfz.aliveCWord = cwAlive ∧
    Gen.C07Hsfz.aliveUsesWith = false ∧
    Gen.C07Hsfz.defaultAckTimeoutMs = 1000 ∧ Gen.C07Hsfz.ackTimeoutDivisor = 1000 ∧ Gen.C07Hsfz.defaultPort = 6801 := by
  decide

/-- the read queue of hsfz.py is unbounded.  The model relies on it twice: the reader task's `await put()` never
    suspends (`settle` parses every complete frame whatever the queue holds - alive checks behind any backlog are
    answered), and the `put_nowait` re-queue of the frames an ack wait skipped never raises (`clientRun` puts all of
    them back).  What a capacity does: `bounded_queue_starves_alive_check`. -/
theorem queues_unbounded : Gen.C07Hsfz.queueCaps = [("HSFZConnection.self._read_queue", 0)] := by decide

/-- the comparisons made by the two consumers are the ones of `ackMatches` / `dataMatches` -/
theorem compares_agree :
    Gen.C07Hsfz.ackCompares =
      [("hdr.CWord", "NotEq", "HSFZStatus.Ack"), ("prev_data[:5]", "NotEq", "data"),
       ("req_hdr.src_addr", "NotEq", "self.src_addr"), ("req_hdr.dst_addr", "NotEq", "self.dst_addr")] ∧
    Gen.C07Hsfz.readCompares =
      [("hdr.CWord", "NotEq", "HSFZStatus.Data"), ("req_hdr.src_addr", "NotEq", "self.dst_addr"),
       ("req_hdr.dst_addr", "NotEq", "self.src_addr")] := by decide

/-- which arm of `match hdr.CWord` a control word selects -/
def armKind (arms : List (Int × String)) (cw : Nat) : String :=
  match arms.find? (fun p => p.1 == (cw : Int) || p.1 == -1) with
  | some p => p.2
  | none => "none"

def dispKind : Disp → String
  | .alive => "alive"
  | .enq (.frame ..) => "frame"
  | .enq (.word _) => "word"
  | .drop => "drop"

/-- the arms of `_read_worker` are the cases of `dispatch`, for every control word -/
theorem worker_arms_agree (cw : Nat) (s t : UInt8) (d : Bytes) :
    armKind Gen.C07Hsfz.workerArms cw = dispKind (dispatch (.full cw s t d)) := by
  by_cases h18 : cw = 18
  · subst h18; simp [armKind, Gen.C07Hsfz.workerArms, dispatch, Wire.cw, cwAlive, dispKind]
  by_cases h2 : cw = 2
  · subst h2; simp [armKind, Gen.C07Hsfz.workerArms, dispatch, Wire.cw, cwAlive, cwAck, dispKind]
  by_cases h1 : cw = 1
  · subst h1; simp [armKind, Gen.C07Hsfz.workerArms, dispatch, Wire.cw, cwAlive, cwAck, cwData, dispKind]
  have e1 : ((18 : Int) == (cw : Int)) = false := by simp; omega
  have e2 : ((2 : Int) == (cw : Int)) = false := by simp; omega
  have e3 : ((1 : Int) == (cw : Int)) = false := by simp; omega
  simp [armKind, Gen.C07Hsfz.workerArms, List.find?, e1, e2, e3, dispatch, Wire.cw, cwAlive, cwAck, cwData, h18, h2, h1,
    dispKind]

/-! ### framing: any segmentation of the TCP stream -/

/-- every segmentation of the byte stream (every split, also inside the 6-byte header, every coalescing) yields
    the same frames and the same buffered tail as the unsegmented stream -/
theorem frames_any_segmentation (chunks : List Bytes) :
    chunks.foldl (feed hsfzCutter) ([], []) =
      ((parseAll hsfzCutter chunks.flatten).1, (parseAll hsfzCutter chunks.flatten).2) := by
  have := feed_chunks hsfzCutter chunks [] [] (by simp [hsfzCutter, cutWire])
  simpa using this

/-- ... and for a stream of encoded frames (short ones included) followed by an incomplete tail these are exactly
    the frames that were sent, however the stream was cut -/
theorem frames_exact (ws : List Wire) (tail : Bytes) (hok : ∀ w ∈ ws, w.ok) (ht : cutWire tail = none)
    (chunks : List Bytes) (h : chunks.flatten = (ws.map encodeWire).flatten ++ tail) :
    chunks.foldl (feed hsfzCutter) ([], []) = (ws, tail) := by
  rw [frames_any_segmentation, h]
  have := parseAll_encodeAll hsfzCutter encodeWire Wire.ok
    (fun w rest hw => by simpa [hsfzCutter] using cutWire_encode w rest hw) ws tail hok (by simpa [hsfzCutter] using ht)
  rw [this]

/-- a frame with `Len < 2` is consumed completely: the frames before and after it are cut exactly as without it,
    and a short data / ack frame leaves nothing in the queue (the stream is never desynchronised) -/
theorem short_frames_consumed (cw : Nat) (d : Bytes) (hs : (Wire.short cw d).ok)
    (ws1 ws2 : List Wire) (h1 : ∀ w ∈ ws1, w.ok) (h2 : ∀ w ∈ ws2, w.ok) (tail : Bytes) (ht : cutWire tail = none) :
    parseAll hsfzCutter ((ws1.map encodeWire).flatten ++ encodeWire (.short cw d) ++ (ws2.map encodeWire).flatten ++ tail)
      = (ws1 ++ .short cw d :: ws2, tail) ∧
    (cw = cwData ∨ cw = cwAck → items (ws1 ++ .short cw d :: ws2) = items ws1 ++ items ws2) := by
  constructor
  · have := parseAll_encodeAll hsfzCutter encodeWire Wire.ok
      (fun w rest hw => by simpa [hsfzCutter] using cutWire_encode w rest hw) (ws1 ++ .short cw d :: ws2) tail
      (by
        intro w hw
        rcases List.mem_append.mp hw with hw | hw
        · exact h1 w hw
        · rcases List.mem_cons.mp hw with rfl | hw
          · exact hs
          · exact h2 w hw)
      (by simpa [hsfzCutter] using ht)
    simpa [List.append_assoc] using this
  · intro hcw
    rw [items_append, items_cons, dispatch_short_drop cw d hcw]; simp [Disp.toItems]

/-- the stream continues right behind a short frame -/
theorem short_frame_cut (cw : Nat) (d rest : Bytes) (hs : (Wire.short cw d).ok) :
    cutWire (encodeWire (.short cw d) ++ rest) = some (.short cw d, rest) := cutWire_encode _ rest hs

/-! ### reads -/

theorem dataMatches_iff (cfg : Cfg) (x : Item) :
    dataMatches cfg x = true ↔ ∃ d, x = .frame cwData cfg.dst cfg.src d := by
  cases x with
  | word cw => simp [dataMatches]
  | frame cw s t d =>
    simp only [dataMatches, Bool.and_eq_true, beq_iff_eq, Item.frame.injEq]
    constructor
    · rintro ⟨⟨h1, h2⟩, h3⟩; exact ⟨d, h1, h2, h3, rfl⟩
    · rintro ⟨d', h1, h2, h3, _⟩; exact ⟨⟨h1, h2⟩, h3⟩

theorem ackMatches_iff (cfg : Cfg) (prev : Bytes) (x : Item) :
    ackMatches cfg prev x = true ↔ x = .frame cwAck cfg.src cfg.dst (prev.take echoLen) := by
  cases x with
  | word cw => simp [ackMatches]
  | frame cw s t d =>
    simp only [ackMatches, Bool.and_eq_true, beq_iff_eq, Item.frame.injEq]
    constructor
    · rintro ⟨⟨⟨h1, h2⟩, h3⟩, h4⟩; exact ⟨h1, h2, h3, h4⟩
    · rintro ⟨h1, h2, h3, h4⟩; exact ⟨⟨⟨h1, h2⟩, h3⟩, h4⟩

/-- a read delivers the payload of the first queued data frame from the ECU to the tester, unmodified, provided no
    bare control word is queued in front of it; the frames it skipped (other pairs, stale acks) and the frames behind
    it all stay queued (the skipped ones are re-appended at the tail: behind the end-of-stream marker once the reader
    task has ended) -/
theorem readDiag_delivers (cfg : Cfg) (s : Sys) (sk : List Item) (c : Option Nat) (pre post : List Item) (d : Bytes)
    (hcl : s.client = .reading sk c) (hq : s.queue = pre ++ .frame cwData cfg.dst cfg.src d :: post)
    (hpre : Clean (dataMatches cfg) pre) :
    clientRun cfg s =
      { s with queue := if s.eof then post else post ++ (sk ++ pre),
               behind := if s.eof then s.behind ++ (sk ++ pre) else s.behind }.finish (.data d) ∧
    (post ++ (sk ++ pre)).Perm (sk ++ (pre ++ post)) := by
  constructor
  · have hs := scan_hit (dataMatches cfg) sk pre (.frame cwData cfg.dst cfg.src d) post hpre rfl
      ((dataMatches_iff cfg _).mpr ⟨d, rfl⟩)
    rw [← hq] at hs
    rw [clientRun_read_hit cfg hcl hs]; rfl
  · have : (post ++ (sk ++ pre)).Perm ((sk ++ pre) ++ post) := List.perm_append_comm
    simpa [List.append_assoc] using this

/-- conversely, whatever a read returns is the payload of a queued ECU -> tester data frame with nothing but
    non-matching frames in front of it -/
theorem readDiag_only_matching (cfg : Cfg) (s : Sys) (sk : List Item) (c : Option Nat) (d : Bytes)
    (hcl : s.client = .reading sk c) (h : (clientRun cfg s).done = s.done ++ [(s.now, .data d)]) :
    ∃ pre post, s.queue = pre ++ .frame cwData cfg.dst cfg.src d :: post ∧ Clean (dataMatches cfg) pre := by
  cases hs : scan (dataMatches cfg) sk s.queue with
  | more sk' => rw [clientRun_read_more cfg hcl hs] at h; simp at h
  | err cw rest sk' => rw [clientRun_read_err cfg hcl hs] at h; simp [Sys.finish] at h
  | hit x rest sk' =>
    obtain ⟨pre, e, _, hc, _, hm⟩ := scan_hit_inv hs
    obtain ⟨d', rfl⟩ := (dataMatches_iff cfg x).mp hm
    rw [clientRun_read_hit cfg hcl hs] at h
    simp [Sys.finish, Item.payload] at h
    subst h
    exact ⟨pre, rest, e, hc⟩

/-- a read that finds no matching frame blocks, having consumed nothing it could deliver later: what it holds and
    re-queues on success contains no ECU -> tester data frame -/
theorem read_blocks_keeps_nothing_deliverable (cfg : Cfg) (s : Sys) (sk' : List Item)
    (hs : scan (dataMatches cfg) [] s.queue = .more sk') : dataOf cfg sk' = [] := by
  obtain ⟨e, hc⟩ := scan_more_inv hs
  subst e
  simp only [dataOf, List.nil_append, List.map_eq_nil_iff, List.filter_eq_nil_iff]
  intro x hx; simp [(hc x hx).2]

/-- **whole executions.**  For every configuration, every schedule of reader task and consumer, and every
    operation script — any segmentation of the byte stream, frames injected before / during / after writes and reads,
    any ack and caller timeouts, error words, end of stream — the payloads handed out by reads so far, followed by
    the ECU -> tester payloads still held by a blocked consumer, queued, or complete in the receive buffer, are
    exactly the payloads of the ECU -> tester data frames of the stream, in stream order: nothing is lost,
    duplicated, invented or reordered (in particular not by the ack wait, however it ends) -/
theorem reads_account_for_every_frame (cfg : Cfg) (yields : Wire → Bool) (ops : List Op) :
    delivered (exec cfg yields {} ops).done ++
      dataOf cfg (held (exec cfg yields {} ops).client ++
        ((exec cfg yields {} ops).queue ++ items (parseAll hsfzCutter (exec cfg yields {} ops).buf).1)) =
    dataOf cfg (items (parseAll hsfzCutter (fedBytes ops)).1) := by
  obtain ⟨_, h⟩ := exec_arrived cfg yields ops {} (WF_idle cfg _ rfl rfl)
  have := h []
  simpa [arrived, held] using this

/-- hence reads deliver, in order, a prefix of the ECU -> tester payloads of the stream -/
theorem reads_in_arrival_order (cfg : Cfg) (yields : Wire → Bool) (ops : List Op) :
    delivered (exec cfg yields {} ops).done <+: dataOf cfg (items (parseAll hsfzCutter (fedBytes ops)).1) :=
  ⟨_, reads_account_for_every_frame cfg yields ops⟩

/-! ### write and ack -/

/-- **for every schedule** of reader task and waiting writer: the pending write completes (now, with the request's
    length) iff the frames on their way — queued or complete in the receive buffer — hold an ack with control word 2,
    the tester's address pair and the first five request bytes, preceded only by frames that are not such an ack
    (in particular by no bare error control word) -/
theorem write_completes_iff_acked (cfg : Cfg) (yields : Wire → Bool) (s : Sys) (prev : Bytes) (sk : List Item)
    (a : Nat) (c : Option Nat) (ho : (s.closed || s.eof) = false) (hcl : s.client = .ackWait prev sk a c) :
    (settle cfg yields s).done = s.done ++ [(s.now, .wrote prev.length)] ↔
    ∃ pre post, pend s = pre ++ .frame cwAck cfg.src cfg.dst (prev.take echoLen) :: post ∧
      Clean (ackMatches cfg prev) pre := by
  have key := settle_ackWait cfg yields s prev sk a c ho hcl
  constructor
  · intro h
    cases hs : scan (ackMatches cfg prev) sk (pend s) with
    | more sk' => rw [hs] at key; rw [key.2.2.1] at h; simp at h
    | err cw rest sk' => rw [hs] at key; rw [key.2.1] at h; simp at h
    | hit x rest sk' =>
      obtain ⟨pre, e, _, hc, _, hm⟩ := scan_hit_inv hs
      rw [(ackMatches_iff cfg prev x).mp hm] at e
      exact ⟨pre, rest, e, hc⟩
  · rintro ⟨pre, post, e, hc⟩
    have hs := scan_hit (ackMatches cfg prev) sk pre _ post hc rfl ((ackMatches_iff cfg prev _).mpr rfl)
    rw [← e] at hs
    rw [hs] at key
    exact key.2.1

/-- without such an ack nothing completes: the writer keeps waiting (holding every frame it has seen, in order)
    or, when a bare control word comes first, fails with a connection error on a closed connection -/
theorem write_waits_or_fails (cfg : Cfg) (yields : Wire → Bool) (s : Sys) (prev : Bytes) (sk : List Item)
    (a : Nat) (c : Option Nat) (ho : (s.closed || s.eof) = false) (hcl : s.client = .ackWait prev sk a c) :
    (Clean (ackMatches cfg prev) (pend s) →
      (settle cfg yields s).client = .ackWait prev (sk ++ pend s) a c ∧ (settle cfg yields s).done = s.done ∧
      (settle cfg yields s).queue = []) ∧
    (∀ pre cw post, pend s = pre ++ .word cw :: post → Clean (ackMatches cfg prev) pre →
      (settle cfg yields s).done = s.done ++ [(s.now, .errWord cw)] ∧ (settle cfg yields s).closed = true) := by
  have key := settle_ackWait cfg yields s prev sk a c ho hcl
  constructor
  · intro hc
    rw [scan_more _ sk _ hc] at key
    exact ⟨key.1, key.2.2.1, key.2.1⟩
  · intro pre cw post e hc
    rw [e, scan_err _ sk pre cw post hc] at key
    exact ⟨key.2.1, key.2.2⟩

/-- the ack timeout: when time reaches the deadline and the write is still waiting, it fails *at* the deadline with
    "no ack", the connection is closed, and the frames it had skipped are back in the queue in arrival order;
    before the deadline nothing happens -/
theorem write_fails_at_ack_timeout (cfg : Cfg) (yields : Wire → Bool) (s : Sys) (prev : Bytes) (sk : List Item)
    (a dt : Nat) (hcl : s.client = .ackWait prev sk a none) :
    (a ≤ s.now + dt →
      execOp cfg yields s (.advance dt) =
        { s with now := s.now + dt, closed := true, queue := sk ++ s.queue, client := .idle,
                 done := s.done ++ [(a, .noAck)] }) ∧
    (s.now + dt < a → execOp cfg yields s (.advance dt) = { s with now := s.now + dt }) := by
  constructor
  · intro h; simp [execOp, fire, hcl, h, Sys.finish]
  · intro h
    have : ¬ a ≤ s.now + dt := by omega
    simp [execOp, fire, hcl, this]

/-- the caller's own (shorter) timeout ends the wait with a timeout instead, leaves the connection open and puts
    the skipped frames back in front of the queue -/
theorem write_caller_timeout (cfg : Cfg) (yields : Wire → Bool) (s : Sys) (prev : Bytes) (sk : List Item)
    (a ct dt : Nat) (hcl : s.client = .ackWait prev sk a (some ct)) (h1 : ct ≤ a) (h2 : ct ≤ s.now + dt) :
    execOp cfg yields s (.advance dt) =
      { s with now := s.now + dt, queue := sk ++ s.queue, client := .idle, done := s.done ++ [(ct, .timeout)] } := by
  simp [execOp, fire, hcl, h1, h2, Sys.finish]

/-- **write outcomes over whole executions.**  At any point of any execution (`ops0`) with the client idle, the
    connection open and the stream alive, a write starts; `ops` is any continuation of gateway bytes (any
    segmentation) and passing time - what can happen while the one client task is blocked in the write; `rest` is
    whatever happens afterwards.  `seen` = the items queued when the request goes out, followed by those the byte
    stream delivers strictly before the write's deadline `d` (the ack timeout, or the caller's earlier timeout).
    Then, for every schedule:

    * the write ends with the *first* item of `seen` that decides its wait, at the instant that item is queued: an ack
      with control word 2, the tester's address pair and the first five request bytes completes it (`wrote len`), a bare
      control word fails it with that word and closes the connection;
    * if there is none and time has reached `d`, it ends *exactly at* `d`: with the caller's `TimeoutError` when `d` is
      the caller's timeout, with "no ack" and the connection closed for good when `d` is the ack timeout - an ack
      arriving at `d` or later is too late for it (and finds the connection closed);
    * if there is none and time has not reached `d`, it is still blocked, holding every item seen, in order.

    The per-`settle` statement `write_completes_iff_acked` is the one-event instance. -/
theorem hsfz_write_outcomes (cfg : Cfg) (yields : Wire → Bool) (ops0 : List Op) (data : Bytes) (tmo : Option Nat)
    (ops rest : List Op)
    (hidle : (exec cfg yields {} ops0).client = .idle) (hopen : (exec cfg yields {} ops0).closed = false)
    (hlive : (exec cfg yields {} ops0).eof = false) (htmo : tmo ≠ some 0) (hack : 0 < cfg.ackTimeout)
    (hsafe : gatewayOnly ops)
    (s : Sys) (hs : s = exec cfg yields {} ops0) (d : Nat) (byCaller : Bool)
    (hd : (d, byCaller) = ackExpiry (s.now + cfg.ackTimeout) (tmo.map (s.now + ·)))
    (seen : List (Nat × Item))
    (hseen : seen = s.queue.map (fun x => (s.now, x)) ++ (hlog s.buf s.now ops).filter (fun e => decide (e.1 < d)))
    (S : Sys) (hS : S = exec cfg yields {} (ops0 ++ .write data tmo :: ops)) :
    (∀ t x, seen.find? (fun e => decides (ackMatches cfg data) e.2) = some (t, x) →
      ∃ more, (exec cfg yields S rest).done = s.done ++ (t, ackResult data x) :: more ∧
        (x.isFrame = false → (exec cfg yields S rest).closed = true)) ∧
    (seen.find? (fun e => decides (ackMatches cfg data) e.2) = none → d ≤ hnow s.now ops →
      ∃ more, (exec cfg yields S rest).done = s.done ++ (d, if byCaller then .timeout else .noAck) :: more ∧
        (byCaller = false → (exec cfg yields S rest).closed = true)) ∧
    (seen.find? (fun e => decides (ackMatches cfg data) e.2) = none → hnow s.now ops < d →
      S.client = .ackWait data (s.queue ++ (hlog s.buf s.now ops).map (·.2)) (s.now + cfg.ackTimeout)
        (tmo.map (s.now + ·)) ∧ S.done = s.done ∧ (S.closed || S.eof) = false) := by
  subst hs hseen
  have hinv := exec_hinv cfg yields ops0 {} HInv_init
  have hS' : S = exec cfg yields (execOp cfg yields (exec cfg yields {} ops0) (.write data tmo)) ops := by
    rw [hS]; simp [exec]
  obtain ⟨a, b, c⟩ := write_run cfg yields _ hinv hidle hopen hlive data tmo htmo hack ops hsafe d byCaller hd
  rw [hS']
  exact ⟨fun t x h => a t x h rest, fun h hle => b h hle rest, c⟩

/-- a write completes iff the item that decided its wait is an ack: `ackResult` is `wrote len` exactly for a frame
    (which `decides` only lets through when it is the matching ack), and an error result otherwise -/
theorem hsfz_write_result (cfg : Cfg) (data : Bytes) (x : Item) (h : decides (ackMatches cfg data) x = true) :
    (ackResult data x = .wrote data.length ↔ x = .frame cwAck cfg.src cfg.dst (data.take echoLen)) ∧
    (∀ cw, x = .word cw → ackResult data x = .errWord cw) := by
  cases x with
  | word cw => simp [ackResult]
  | frame cw s t d =>
    have hm : ackMatches cfg data (.frame cw s t d) = true := by simpa [decides, Item.isFrame] using h
    have := (ackMatches_iff cfg data _).mp hm
    simp [ackResult, this]

/-- what a write puts on the wire: header(Len = len + 2, control word 1), tester, ECU, request -/
theorem write_bytes (cfg : Cfg) (yields : Wire → Bool) (s : Sys) (data : Bytes) (t : Option Nat)
    (hi : s.client = .idle) (ho : s.closed = false) :
    (execOp cfg yields s (.write data t)).out =
      s.out ++ [(s.now, toBE (data.length + 2) 4 ++ [0, 1] ++ [cfg.src, cfg.dst] ++ data)] := by
  simp [execOp, hi, ho, isIdle, requestBytes, encodeWire, header, cwData, toBE]

/-! ### frames skipped by the ack wait -/

/-- when the ack is found, every frame the wait has skipped is back in the queue, in arrival order and in front of
    the frames that arrived behind the ack: the queue is the arrival sequence with just the ack removed -/
theorem skipped_stay_available (cfg : Cfg) (s : Sys) (prev : Bytes) (sk : List Item) (a : Nat) (c : Option Nat)
    (pre post : List Item) (hcl : s.client = .ackWait prev sk a c)
    (hq : s.queue = pre ++ .frame cwAck cfg.src cfg.dst (prev.take echoLen) :: post)
    (hpre : Clean (ackMatches cfg prev) pre) :
    clientRun cfg s = { s with queue := (sk ++ pre) ++ post }.finish (.wrote prev.length) ∧
    dataOf cfg ((sk ++ pre) ++ post) = dataOf cfg (sk ++ s.queue) := by
  constructor
  · have hs := scan_hit (ackMatches cfg prev) sk pre _ post hpre rfl ((ackMatches_iff cfg prev _).mpr rfl)
    rw [← hq] at hs
    rw [clientRun_ack_hit cfg hcl hs]
  · rw [hq]
    simp [dataOf, List.filter_append, dataMatches, cwAck, cwData]

/-- later reads therefore deliver the skipped data frames before the later ones: arrival order -/
theorem order_after_ack (cfg : Cfg) (sk pre post : List Item) :
    dataOf cfg ((sk ++ pre) ++ post) = dataOf cfg (sk ++ pre) ++ dataOf cfg post := by
  simp [dataOf, List.filter_append]

/-- the requeue discipline of the unrepaired code (skipped frames appended at the tail) delivers in arrival order
    iff the two groups commute — and it does not for `[data A, ack, data B]` in one segment: B is read before A -/
theorem tail_requeue_order_iff (cfg : Cfg) (skipped rest : List Item) :
    dataOf cfg (requeueTail rest skipped) = dataOf cfg (skipped ++ rest) ↔
    dataOf cfg rest ++ dataOf cfg skipped = dataOf cfg skipped ++ dataOf cfg rest := by
  simp [dataOf, requeueTail, List.filter_append]

theorem tail_requeue_reorders :
    let cfg : Cfg := ⟨0xf4, 0x10, 1000⟩
    let A := Item.frame cwData 0x10 0xf4 [0xaa]
    let B := Item.frame cwData 0x10 0xf4 [0xbb]
    dataOf cfg (requeueTail [B] [A]) = [[0xbb], [0xaa]] ∧ dataOf cfg ([A] ++ [B]) = [[0xaa], [0xbb]] := by
  decide

/-! ### alive check -/

/-- the reply: Len = 2, control word 0x12, the tester address in two bytes -/
theorem alive_reply_bytes (cfg : Cfg) : aliveReply cfg = [0, 0, 0, 2, 0, 0x12, 0, cfg.src] := by
  simp [aliveReply, header, toBE, cwAlive]

/-- an alive check at the head of the receive buffer is answered by the reader task itself, as the first thing that
    happens and at the current time — whatever the client is doing (idle, blocked in a read, or holding the write
    mutex while waiting for an ack), for every schedule, also for alive checks shorter or longer than usual -/
theorem alive_immediate (cfg : Cfg) (yields : Wire → Bool) (s : Sys) (ho : (s.closed || s.eof) = false)
    (w : Wire) (rest : Bytes) (hc : cutWire s.buf = some (w, rest)) (hw : w.cw = cwAlive) :
    ∃ more, (settle cfg yields s).out = s.out ++ (s.now, aliveReply cfg) :: more := by
  rw [settle_some cfg yields s ho hc]
  split
  · obtain ⟨m, hm⟩ := settle_out_prefix cfg yields (clientRun cfg (deliver cfg { s with buf := rest } w))
    rw [hm, clientRun_out, deliver_out]
    exact ⟨m, by simp [hw]⟩
  · obtain ⟨m, hm⟩ := settle_out_prefix cfg yields (deliver cfg { s with buf := rest } w)
    rw [hm, deliver_out]
    exact ⟨m, by simp [hw]⟩

/-- the reply does not depend on the client state at all: replacing it changes nothing in what the reader writes
    for that frame (no mutex is involved) -/
theorem alive_reply_ignores_client (cfg : Cfg) (s : Sys) (w : Wire) (cl : Client) :
    (deliver cfg { s with client := cl } w).out = (deliver cfg s w).out := by
  simp [deliver_out]

/-- why `queues_unbounded` is an obligation: with a read queue of capacity 2, three data frames of another tester
    followed by an alive check, arriving while the client is idle, leave the reader task suspended in `put()` with the
    alive check unread and unanswered; the unbounded queue of the code answers it at once.  And a write that skipped
    three frames before its ack puts three frames back: more than such a queue could take (`put_nowait` would raise
    `QueueFull`). -/
theorem bounded_queue_starves_alive_check :
    let cfg : Cfg := ⟨0xf4, 0x10, 1000⟩
    let burst := encodeWire (.full cwData 0x10 0xf5 [1]) ++ encodeWire (.full cwData 0x10 0xf5 [2]) ++
      encodeWire (.full cwData 0x10 0xf5 [3])
    (settleBounded 2 cfg (asyncioYields true) { buf := burst ++ encodeWire (.full cwAlive 0 0 []) }).out = [] ∧
    (settle cfg (asyncioYields true) { buf := burst ++ encodeWire (.full cwAlive 0 0 []) }).out = [(0, aliveReply cfg)] ∧
    (exec cfg (asyncioYields true) {}
      [.write [0x3e, 0x00] none, .feed (burst ++ encodeWire (.full cwAck 0xf4 0x10 [0x3e, 0x00]))]).queue.length = 3 := by
  decide +kernel

/-! ### error control words -/

/-- every control word other than data, ack and alive check — with or without address header, any length — is
    queued as a bare control word -/
theorem other_words_queued (w : Wire) (h1 : w.cw ≠ cwAlive) (h2 : w.cw ≠ cwAck) (h3 : w.cw ≠ cwData) :
    dispatch w = .enq (.word w.cw) := by
  simp [dispatch, h1, h2, h3]

/-- a bare control word reaching a blocked read surfaces as a connection error and closes the connection -/
theorem error_word_closes_read (cfg : Cfg) (s : Sys) (sk : List Item) (c : Option Nat) (pre post : List Item)
    (cw : Nat) (hcl : s.client = .reading sk c) (hq : s.queue = pre ++ .word cw :: post)
    (hpre : Clean (dataMatches cfg) pre) :
    (clientRun cfg s).closed = true ∧ (clientRun cfg s).client = .idle ∧
    (clientRun cfg s).done = s.done ++ [(s.now, .errWord cw)] := by
  have hs := scan_err (dataMatches cfg) sk pre cw post hpre
  rw [← hq] at hs
  rw [clientRun_read_err cfg hcl hs]; simp [Sys.finish]

/-- ... and the same for a write waiting for its ack -/
theorem error_word_closes_write (cfg : Cfg) (s : Sys) (prev : Bytes) (sk : List Item) (a : Nat) (c : Option Nat)
    (pre post : List Item) (cw : Nat) (hcl : s.client = .ackWait prev sk a c)
    (hq : s.queue = pre ++ .word cw :: post) (hpre : Clean (ackMatches cfg prev) pre) :
    (clientRun cfg s).closed = true ∧ (clientRun cfg s).client = .idle ∧
    (clientRun cfg s).done = s.done ++ [(s.now, .errWord cw)] := by
  have hs := scan_err (ackMatches cfg prev) sk pre cw post hpre
  rw [← hq] at hs
  rw [clientRun_ack_err cfg hcl hs]; simp [Sys.finish]

/-- on a closed connection a read fails at once (EBADFD), a write fails at once and writes nothing, and arriving
    bytes are not looked at any more -/
theorem closed_connection_refuses (cfg : Cfg) (yields : Wire → Bool) (s : Sys) (hc : s.closed = true)
    (hi : s.client = .idle) (t : Option Nat) (data chunk : Bytes) :
    execOp cfg yields s (.read t) = { s with done := s.done ++ [(s.now, .badFd)] } ∧
    execOp cfg yields s (.write data t) = { s with done := s.done ++ [(s.now, .connReset)] } ∧
    execOp cfg yields s (.feed chunk) = { s with buf := s.buf ++ chunk } := by
  refine ⟨by simp [execOp, hi, hc, isIdle], by simp [execOp, hi, hc, isIdle], ?_⟩
  simp only [execOp]
  rw [settle_stopped]; simp [hc]

/-! ### whole executions of one connection, from before `connect()` to after `close()` (`Model/HsfzSys.lean`)

  An execution is an arbitrary list of events `ops : List HsfzSys.Op` - bytes arriving in any segmentation (also before
  `connect`), `connect`, client calls (write / read, each with the caller's timeout), `close`, end of stream, time
  passing - run from the initial state `{}`; `yields` is an arbitrary schedule of reader task and blocked consumer; the
  ack timeout is the one of the URI (`HsfzSys.cfgOfUri`).  `HsfzSys.fedBytes ops` is the whole byte stream the gateway
  sent.  Every statement below holds for every `ops` and every `yields`. -/

section WholeExecutions

/-- the URI's `ack_timeout` default and the unit conversion are those of the code -/
theorem uri_defaults_agree :
    HsfzSys.defaultAckMs = Gen.C07Hsfz.defaultAckTimeoutMs ∧ Gen.C07Hsfz.ackTimeoutDivisor = 1000 ∧
    (∀ a b, (HsfzSys.cfgOfUri a b none).ackTimeout = 1000) ∧ (∀ a b t, (HsfzSys.cfgOfUri a b (some t)).ackTimeout = t) := by
  refine ⟨by decide, by decide, fun _ _ => rfl, fun _ _ _ => rfl⟩

/-- **reads account for every data frame.**  For every event list and schedule: the payloads handed out by reads so
    far, followed by the ECU -> tester payloads still on their way - held by the blocked consumer, queued, complete in
    the receive buffer (of a connection closed meanwhile, or not yet connected) - are exactly the payloads of the
    ECU -> tester data frames of the byte stream, in stream order: each delivered at most once, none lost, invented or
    reordered, whatever else is interleaved and however the calls end.  `reads_account_for_every_frame` is the
    instance for event lists that start with `connect` and never `close`. -/
theorem hsfz_reads_account (cfg : Cfg) (yields : Wire → Bool) (ops : List HsfzSys.Op) :
    delivered (HsfzSys.exec cfg yields {} ops).core.done ++
      dataOf cfg (held (HsfzSys.exec cfg yields {} ops).core.client ++
        ((HsfzSys.exec cfg yields {} ops).core.queue ++
          items (parseAll hsfzCutter ((HsfzSys.exec cfg yields {} ops).core.buf ++ (HsfzSys.exec cfg yields {} ops).pre)).1)) =
      dataOf cfg (items (parseAll hsfzCutter (HsfzSys.fedBytes ops)).1) ∧
    delivered (HsfzSys.exec cfg yields {} ops).core.done <+:
      dataOf cfg (items (parseAll hsfzCutter (HsfzSys.fedBytes ops)).1) := by
  have h := (HsfzSys.exec_core_conserved cfg yields (WF cfg) (arrived cfg)
    (fun c o hc => execOp_arrived cfg yields c o hc)
    (fun c hc _ => ⟨⟨fun sk cc h => hc.1 sk cc h, hc.2⟩, fun _ => rfl⟩) ops {} (WF_idle cfg _ rfl rfl)
    (fun h => by cases h)).2 []
  have h1 : delivered (HsfzSys.exec cfg yields {} ops).core.done ++
      dataOf cfg (held (HsfzSys.exec cfg yields {} ops).core.client ++
        ((HsfzSys.exec cfg yields {} ops).core.queue ++
          items (parseAll hsfzCutter ((HsfzSys.exec cfg yields {} ops).core.buf ++ (HsfzSys.exec cfg yields {} ops).pre)).1)) =
      dataOf cfg (items (parseAll hsfzCutter (HsfzSys.fedBytes ops)).1) := by
    simpa [arrived, held] using h
  exact ⟨h1, ⟨_, h1⟩⟩

/-- **a closed connection never has a blocked call.**  In every state of every execution: a closed connection
    (client `close()`, ack timeout, error control word) has no pending call; an open connection whose stream is
    alive has parsed every complete frame; a blocked call has drained the queue and its connection is open -/
theorem hsfz_closed_never_blocks (cfg : Cfg) (yields : Wire → Bool) (ops : List HsfzSys.Op) :
    ((HsfzSys.exec cfg yields {} ops).core.closed = true → (HsfzSys.exec cfg yields {} ops).core.client = .idle) ∧
    (((HsfzSys.exec cfg yields {} ops).core.closed || (HsfzSys.exec cfg yields {} ops).core.eof) = false →
      cutWire (HsfzSys.exec cfg yields {} ops).core.buf = none) ∧
    ((HsfzSys.exec cfg yields {} ops).core.client ≠ .idle →
      (HsfzSys.exec cfg yields {} ops).core.queue = [] ∧ (HsfzSys.exec cfg yields {} ops).core.closed = false) := by
  have h := HsfzSys.exec_hinv cfg yields ops {} HInv_init
  refine ⟨fun hc => ?_, h.quiet, fun hb => ?_⟩
  · by_cases hi : (HsfzSys.exec cfg yields {} ops).core.client = .idle
    · exact hi
    · have := (h.busy hi).1; simp [hc] at this
  · obtain ⟨a, b⟩ := h.busy hb
    refine ⟨b, ?_⟩
    cases hcc : (HsfzSys.exec cfg yields {} ops).core.closed <;> simp_all

/-- **write outcomes over whole executions of the system.**  At any point of any execution (`ops0`: any events, `close`
    and `connect` included) with the connection established, the client idle, the connection open and the stream alive,
    a write starts; `ops` is any continuation of gateway bytes and passing time (what can happen while the one client
    task is blocked), `rest` any events afterwards.  `seen` = what is queued when the request goes out, followed by the
    items the stream delivers strictly before the write's deadline `d` = the ack timeout of the URI or the caller's
    earlier timeout.  For every schedule: the write ends with the *first* deciding item of `seen` (an ack with control
    word 2, the tester's address pair and the first five request bytes completes it; a bare control word fails it and
    closes the connection) at the instant that item is queued; without one it ends *exactly at* `d` - with the
    caller's `TimeoutError`, or with "no ack" and the connection closed; before `d` it is still blocked holding
    everything seen.  `hsfz_write_outcomes` is this statement for executions that never `close`. -/
theorem hsfz_write_outcomes_sys (cfg : Cfg) (yields : Wire → Bool) (ops0 : List HsfzSys.Op) (data : Bytes)
    (tmo : Option Nat) (ops rest : List HsfzSys.Op)
    (s : HsfzSys.Sys) (hs : s = HsfzSys.exec cfg yields {} ops0)
    (hconn : s.connected = true) (hidle : s.core.client = .idle) (hopen : s.core.closed = false)
    (hlive : s.core.eof = false) (htmo : tmo ≠ some 0) (hack : 0 < cfg.ackTimeout)
    (hsafe : HsfzSys.gatewayOnly ops) (d : Nat) (byCaller : Bool)
    (hd : (d, byCaller) = ackExpiry (s.core.now + cfg.ackTimeout) (tmo.map (s.core.now + ·)))
    (seen : List (Nat × Item))
    (hseen : seen = s.core.queue.map (fun x => (s.core.now, x)) ++
      (hlog s.core.buf s.core.now (HsfzSys.lowerOps ops)).filter (fun e => decide (e.1 < d)))
    (S : HsfzSys.Sys) (hS : S = HsfzSys.exec cfg yields {} (ops0 ++ .write data tmo :: ops)) :
    (∀ t x, seen.find? (fun e => decides (ackMatches cfg data) e.2) = some (t, x) →
      ∃ more, (HsfzSys.exec cfg yields S rest).core.done = s.core.done ++ (t, ackResult data x) :: more ∧
        (x.isFrame = false → (HsfzSys.exec cfg yields S rest).core.closed = true)) ∧
    (seen.find? (fun e => decides (ackMatches cfg data) e.2) = none → d ≤ hnow s.core.now (HsfzSys.lowerOps ops) →
      ∃ more, (HsfzSys.exec cfg yields S rest).core.done =
          s.core.done ++ (d, if byCaller then .timeout else .noAck) :: more ∧
        (byCaller = false → (HsfzSys.exec cfg yields S rest).core.closed = true)) ∧
    (seen.find? (fun e => decides (ackMatches cfg data) e.2) = none → hnow s.core.now (HsfzSys.lowerOps ops) < d →
      S.core.client = .ackWait data (s.core.queue ++ (hlog s.core.buf s.core.now (HsfzSys.lowerOps ops)).map (·.2))
        (s.core.now + cfg.ackTimeout) (tmo.map (s.core.now + ·)) ∧ S.core.done = s.core.done ∧
      (S.core.closed || S.core.eof) = false) := by
  subst hseen
  have hinv : HInv s.core := by rw [hs]; exact HsfzSys.exec_hinv cfg yields ops0 {} HInv_init
  have hw : (HsfzSys.execOp cfg yields s (.write data tmo)).core = execOp cfg yields s.core (.write data tmo) ∧
      (HsfzSys.execOp cfg yields s (.write data tmo)).connected = true := by
    simp [HsfzSys.execOp, hconn]
  have hS' : S.core = exec cfg yields (execOp cfg yields s.core (.write data tmo)) (HsfzSys.lowerOps ops) := by
    rw [hS, HsfzSys.exec_append, ← hs]
    have : HsfzSys.exec cfg yields s (.write data tmo :: ops) =
        HsfzSys.exec cfg yields (HsfzSys.execOp cfg yields s (.write data tmo)) ops := by simp [HsfzSys.exec]
    rw [this, (HsfzSys.exec_gateway cfg yields ops _ hw.2 hsafe).1, hw.1]
  obtain ⟨a, b, c⟩ := write_run cfg yields s.core hinv hidle hopen hlive data tmo htmo hack (HsfzSys.lowerOps ops)
    (HsfzSys.lowerOps_gatewayOnly ops hsafe) d byCaller hd
  obtain ⟨m2, hm2⟩ := HsfzSys.exec_done_ext cfg yields rest S
  refine ⟨fun t x h => ?_, fun h hle => ?_, fun h hlt => ?_⟩
  · obtain ⟨more, e1, e2⟩ := a t x h []
    replace e1 : S.core.done = s.core.done ++ (t, ackResult data x) :: more := by rw [hS']; exact e1
    replace e2 : x.isFrame = false → S.core.closed = true := by rw [hS']; exact e2
    refine ⟨more ++ m2, by rw [hm2, e1]; simp, fun hx => HsfzSys.exec_closed_mono cfg yields rest S (e2 hx)⟩
  · obtain ⟨more, e1, e2⟩ := b h hle []
    replace e1 : S.core.done = s.core.done ++ (d, if byCaller then .timeout else .noAck) :: more := by
      rw [hS']; exact e1
    replace e2 : byCaller = false → S.core.closed = true := by rw [hS']; exact e2
    refine ⟨more ++ m2, by rw [hm2, e1]; simp, fun hx => HsfzSys.exec_closed_mono cfg yields rest S (e2 hx)⟩
  · have := c h hlt
    rw [← hS'] at this
    exact this

/-- **a control word received while the tester is idle fails the next write.**  At any point of any whole execution
    (connection established, client idle - between two calls -, open, stream alive) let the read queue hold a bare
    control word `cw` (any word other than data / ack / alive check, queued by the reader task: `other_words_queued`)
    behind frames `pre` none of which is the ack of the request (data frames, foreign frames, stale acks).  Then the next
    write of `data` - whatever the gateway sends while it waits (`ops`: acks, answers, time; a gateway that goes on
    acknowledging included), whatever happens afterwards (`rest`), for every schedule - ends at the instant it starts
    with the connection error of that word, and the connection is closed: the word is neither skipped nor lost. -/
theorem hsfz_idle_error_word_fails_next_write (cfg : Cfg) (yields : Wire → Bool) (ops0 : List HsfzSys.Op) (data : Bytes)
    (tmo : Option Nat) (ops rest : List HsfzSys.Op)
    (s : HsfzSys.Sys) (hs : s = HsfzSys.exec cfg yields {} ops0)
    (hconn : s.connected = true) (hidle : s.core.client = .idle) (hopen : s.core.closed = false)
    (hlive : s.core.eof = false) (htmo : tmo ≠ some 0) (hack : 0 < cfg.ackTimeout)
    (hsafe : HsfzSys.gatewayOnly ops)
    (pre post : List Item) (cw : Nat) (hq : s.core.queue = pre ++ .word cw :: post)
    (hpre : Clean (ackMatches cfg data) pre) :
    ∃ more,
      (HsfzSys.exec cfg yields (HsfzSys.exec cfg yields {} (ops0 ++ .write data tmo :: ops)) rest).core.done =
        s.core.done ++ (s.core.now, .errWord cw) :: more ∧
      (HsfzSys.exec cfg yields (HsfzSys.exec cfg yields {} (ops0 ++ .write data tmo :: ops)) rest).core.closed = true := by
  have hnone : (pre.map (fun x => (s.core.now, x))).find? (fun e => decides (ackMatches cfg data) e.2) = none := by
    rw [List.find?_eq_none]
    intro e he
    obtain ⟨y, hy, rfl⟩ := List.mem_map.mp he
    have := hpre y hy
    simp [decides, this.1, this.2]
  have h := (hsfz_write_outcomes_sys cfg yields ops0 data tmo ops rest s hs hconn hidle hopen hlive htmo hack hsafe
    (ackExpiry (s.core.now + cfg.ackTimeout) (tmo.map (s.core.now + ·))).1
    (ackExpiry (s.core.now + cfg.ackTimeout) (tmo.map (s.core.now + ·))).2 rfl _ rfl _ rfl).1 s.core.now (.word cw)
    (by rw [hq, List.map_append, List.append_assoc, List.find?_append, hnone]; simp [decides, Item.isFrame])
  obtain ⟨more, h1, h2⟩ := h
  exact ⟨more, by simpa [ackResult] using h1, h2 rfl⟩

/-- not vacuous: an ordinary exchange; then - tester idle - a late data frame and the control word 0x42 (empty body)
    arrive; the late frame is read; the next request is acked and answered by the gateway as usual, yet it fails at
    once with that word, the connection is closed and the read behind it is refused -/
example :
    let cfg := HsfzSys.cfgOfUri 0xf4 0x10 none
    let ack := encodeWire (.full cwAck 0xf4 0x10 [0x3e, 0x00])
    let ops0 : List HsfzSys.Op :=
      [.connect, .write [0x3e, 0x00] none, .advance 7, .feed (ack ++ encodeWire (.full cwData 0x10 0xf4 [0x7e, 0x00])),
       .read (some 40), .advance 5,
       .feed (encodeWire (.full cwData 0x10 0xf4 [0x7f, 0x10, 0x21]) ++ encodeWire (.short 0x42 [])), .advance 200]
    let s := HsfzSys.exec cfg (asyncioYields true) {} ops0
    let ops : List HsfzSys.Op := [.advance 7, .feed (ack ++ encodeWire (.full cwData 0x10 0xf4 [0x7e, 0x00]))]
    s.connected = true ∧ s.core.client = .idle ∧ s.core.closed = false ∧ s.core.eof = false ∧
    s.core.queue = [.frame cwData 0x10 0xf4 [0x7f, 0x10, 0x21]] ++ .word 0x42 :: [] ∧ HsfzSys.gatewayOnly ops ∧
    (HsfzSys.exec cfg (asyncioYields true) {} (ops0 ++ .write [0x3e, 0x00] none :: ops ++ [.read (some 40)])).core.done =
      [(7, .wrote 2), (7, .data [0x7e, 0x00]), (212, .errWord 0x42), (219, .badFd)] := by
  refine ⟨by decide +kernel, by decide +kernel, by decide +kernel, by decide +kernel, by decide +kernel, ?_, by decide +kernel⟩
  simp [HsfzSys.gatewayOnly]

/-- **frames with `Len < 2` never desynchronise the stream.**  For every event list and schedule the frames the reader
    task has handled (its own trace), followed by the frames still complete in the receive buffer (connection closed
    meanwhile / stream ended / not yet connected), are exactly the frames of the byte stream, in order - short frames
    (no address header, any control word) are handled as one frame each and the frames behind them are cut as without
    them (`short_frames_consumed` gives the right-hand side for a stream of encoded frames).  On an established, open
    connection whose stream is alive every frame received has been handled. -/
theorem hsfz_short_frames_consumed (cfg : Cfg) (yields : Wire → Bool) (ops : List HsfzSys.Op) :
    HsfzSys.rxWires (HsfzSys.exec cfg yields {} ops).tr ++
        (parseAll hsfzCutter ((HsfzSys.exec cfg yields {} ops).core.buf ++ (HsfzSys.exec cfg yields {} ops).pre)).1 =
      (parseAll hsfzCutter (HsfzSys.fedBytes ops)).1 ∧
    ((HsfzSys.exec cfg yields {} ops).connected = true →
      ((HsfzSys.exec cfg yields {} ops).core.closed || (HsfzSys.exec cfg yields {} ops).core.eof) = false →
      HsfzSys.rxWires (HsfzSys.exec cfg yields {} ops).tr = (parseAll hsfzCutter (HsfzSys.fedBytes ops)).1) := by
  have h := (HsfzSys.exec_trace cfg yields ops {} (fun h => by cases h)).1 []
  have h1 : HsfzSys.rxWires (HsfzSys.exec cfg yields {} ops).tr ++
        (parseAll hsfzCutter ((HsfzSys.exec cfg yields {} ops).core.buf ++ (HsfzSys.exec cfg yields {} ops).pre)).1 =
      (parseAll hsfzCutter (HsfzSys.fedBytes ops)).1 := by
    simpa [HsfzSys.rxAll, HsfzSys.rxWires] using h
  refine ⟨h1, fun hc ho => ?_⟩
  have hp := HsfzSys.exec_preOk cfg yields ops {} (fun h => by cases h) hc
  have hq := (HsfzSys.exec_hinv cfg yields ops {} HInv_init).quiet ho
  rw [← h1, hp, List.append_nil, parseAll_none hsfzCutter (by simpa [hsfzCutter] using hq)]
  simp

/-- **alive checks are always answered** (whole-execution part on the reader task's own trace; the remaining link -
    that the replies among the bytes written are, one each and in order, those of the trace with the instants of the
    events that completed the requests - is proved per reader-task run: `alive_immediate`).
    For every event list and schedule: every alive check the reader task has handled is followed by its reply before
    the next frame is handled, and the handled frames are all the stream's frames (`hsfz_short_frames_consumed`), so on
    an open connection every alive check received has been answered; the reply is written by the reader-task step
    itself (`deliver`) at the current instant, carries the tester address in two bytes, and does not depend on the
    client's phase (idle, waiting for an ack and holding the write mutex, blocked in a read). -/
theorem hsfz_alive_always_answered_partial (cfg : Cfg) (yields : Wire → Bool) (ops : List HsfzSys.Op) :
    HsfzSys.answered (HsfzSys.exec cfg yields {} ops).tr = true ∧
    (∀ (c : Sys) (cl : Client) (w : Wire), w.cw = cwAlive →
      (deliver cfg { c with client := cl } w).out = c.out ++ [(c.now, [0, 0, 0, 2, 0, 0x12, 0, cfg.src])]) := by
  refine ⟨(HsfzSys.exec_trace cfg yields ops {} (fun h => by cases h)).2 rfl, fun c cl w hw => ?_⟩
  rw [deliver_out, alive_reply_bytes]; simp [hw]

/-- **closed is final and fails fast** (with `hsfz_write_outcomes_sys` / `error_word_closes_read` /
    `error_word_closes_write`: a control word other than data / ack / alive surfaces as a connection error to the call
    that dequeues it and closes the connection).  Once an execution has closed the connection - by an error control
    word, the ack timeout or the client's `close()` - whatever follows (`more`): it stays closed, no call is pending,
    and a read / write issued then ends at the instant it starts (EBADFD / ConnectionResetError) and writes nothing -/
theorem hsfz_error_word_closes_partial (cfg : Cfg) (yields : Wire → Bool) (ops more : List HsfzSys.Op)
    (hc : (HsfzSys.exec cfg yields {} ops).core.closed = true) (t : Option Nat) (data : Bytes) :
    (HsfzSys.exec cfg yields {} (ops ++ more)).core.closed = true ∧
    (HsfzSys.exec cfg yields {} (ops ++ more)).core.client = .idle ∧
    execOp cfg yields (HsfzSys.exec cfg yields {} (ops ++ more)).core (.read t) =
      { (HsfzSys.exec cfg yields {} (ops ++ more)).core with
        done := (HsfzSys.exec cfg yields {} (ops ++ more)).core.done ++ [((HsfzSys.exec cfg yields {} (ops ++ more)).core.now, .badFd)] } ∧
    execOp cfg yields (HsfzSys.exec cfg yields {} (ops ++ more)).core (.write data t) =
      { (HsfzSys.exec cfg yields {} (ops ++ more)).core with
        done := (HsfzSys.exec cfg yields {} (ops ++ more)).core.done ++ [((HsfzSys.exec cfg yields {} (ops ++ more)).core.now, .connReset)] } := by
  have h1 : (HsfzSys.exec cfg yields {} (ops ++ more)).core.closed = true := by
    rw [HsfzSys.exec_append]; exact HsfzSys.exec_closed_mono cfg yields more _ hc
  have h2 := (hsfz_closed_never_blocks cfg yields (ops ++ more)).1 h1
  obtain ⟨a, b, _⟩ := closed_connection_refuses cfg yields _ h1 h2 t data []
  exact ⟨h1, h2, a, b⟩

/-- the hypotheses and shapes above are inhabited: bytes before `connect()` (a data frame, an alive check, a short
    frame), a write acked behind a foreign frame, a read, `close()`, then calls on the closed connection -/
example :
    let cfg := HsfzSys.cfgOfUri 0xf4 0x10 none
    let pre := encodeWire (.full cwData 0x10 0xf4 [0x62]) ++ encodeWire (.full cwAlive 0 0 []) ++ encodeWire (.short cwData [0xaa])
    let S := HsfzSys.exec cfg (asyncioYields true) {}
      [.feed pre, .connect, .write [0x3e, 0x00] none, .advance 7,
       .feed (encodeWire (.full cwData 0x10 0xf5 [1]) ++ encodeWire (.full cwAck 0xf4 0x10 [0x3e, 0x00])), .read (some 40),
       .close, .read none, .write [1] none]
    S.core.done = [(7, .wrote 2), (7, .data [0x62]), (7, .badFd), (7, .connReset)] ∧ S.core.closed = true ∧
    (HsfzSys.rxWires S.tr).length = 5 ∧ S.core.out.length = 2 := by
  decide +kernel

end WholeExecutions

/-! ### non-vacuity -/

/-- the hypotheses of `write_completes_iff_acked` are satisfiable: a write of `3e 00` is waiting while
    `[data A, ack, data B]` is on its way; it completes -/
example :
    let cfg : Cfg := ⟨0xf4, 0x10, 1000⟩
    let A := Item.frame cwData 0x10 0xf4 [0xaa]
    let B := Item.frame cwData 0x10 0xf4 [0xbb]
    let s : Sys := { queue := [A, .frame cwAck 0xf4 0x10 [0x3e, 0x00], B], client := .ackWait [0x3e, 0x00] [] 1000 none }
    (settle cfg (fun w => w.cw == cwAlive) s).done = [(0, .wrote 2)] := by
  intro cfg A B s
  have h := (write_completes_iff_acked cfg (fun w => w.cw == cwAlive) s [0x3e, 0x00] [] 1000 none rfl rfl).mpr
    ⟨[A], [B], by rw [pend_none s (by decide)]; rfl, by
      intro y hy
      simp only [List.mem_singleton] at hy
      subst hy; decide⟩
  exact h

/-- `hsfz_write_outcomes` is not vacuous: two writes one after the other, the ack of the first arrives 5 ms after its
    ack timeout; the first write has failed with "no ack" exactly at the deadline and closed the connection, the late
    ack is not even parsed, the second write is refused at once.  With a caller timeout of 300 ms instead, the first
    write ends with `TimeoutError`, the connection stays open, and its late ack - which echoes the same five bytes -
    is what the second write (same request) sees first -/
example :
    let cfg : Cfg := ⟨0xf4, 0x10, 1000⟩
    let ack := encodeWire (.full cwAck 0xf4 0x10 [0x3e, 0x00])
    (exec cfg (asyncioYields true) {} [.write [0x3e, 0x00] none, .advance 1005, .feed ack, .write [0x3e, 0x00] none]).done =
      [(1000, .noAck), (1005, .connReset)] ∧
    (exec cfg (asyncioYields true) {} [.write [0x3e, 0x00] (some 300), .advance 400, .feed ack, .write [0x3e, 0x00] none]).done =
      [(300, .timeout), (400, .wrote 2)] ∧
    gatewayOnly [.advance 1005, .feed ack] := by
  decide +kernel

/-- ... and afterwards the skipped frame A is queued in front of B (`skipped_stay_available`) -/
example :
    let cfg : Cfg := ⟨0xf4, 0x10, 1000⟩
    let A := Item.frame cwData 0x10 0xf4 [0xaa]
    let B := Item.frame cwData 0x10 0xf4 [0xbb]
    let s : Sys := { queue := [A, .frame cwAck 0xf4 0x10 [0x3e, 0x00], B], client := .ackWait [0x3e, 0x00] [] 1000 none }
    (clientRun cfg s).queue = [A, B] ∧ dataOf cfg (clientRun cfg s).queue = [[0xaa], [0xbb]] := by
  decide

end Gallia.C07
