import Gallia.Proofs.Lemmas.DoipOps
import Gallia.Proofs.Lemmas.DoipSysCalls
import Gallia.Proofs.Lemmas.DoipSysAlive
import Gallia.Proofs.Lemmas.DoipSerial
import Gallia.Gen.C06Doip
/-
  C06 — DoIP: frames are demultiplexed correctly under any segmentation and interleaving.
  Property theorems only; helper lemmas are in `Proofs/Lemmas/Doip*.lean`.

  Reading of the model (see `Model/Doip.lean`): the reader task is a transducer from timed chunks to timed events
  (`Reader.run`); `timeline s arr` are the events of the chunks `arr` arriving during one client call; `visible d tl`
  are the frames queued strictly before instant `d`; `NoDeath tl` says the reader task does not meet a frame it
  cannot unpack (that case is modelled and tied to the code, but it is C08's subject).
-/
namespace Gallia.C06
open Gallia Gallia.Framing Gallia.Doip Gallia.DoipFifo

/-! ### tables regenerated from the code -/

/-- payload types, timing parameters and special codes used by the model are those of the code -/
theorem tables_agree :
    Gen.C06Doip.PayloadTypes_GenericDoIPHeaderNACK = ptHdrNack ∧
    Gen.C06Doip.PayloadTypes_RoutingActivationRequest = ptRaReq ∧
    Gen.C06Doip.PayloadTypes_RoutingActivationResponse = ptRaRes ∧
    Gen.C06Doip.PayloadTypes_AliveCheckRequest = ptAliveReq ∧
    Gen.C06Doip.PayloadTypes_AliveCheckResponse = ptAliveRes ∧
    Gen.C06Doip.PayloadTypes_DiagnosticMessage = ptDiag ∧
    Gen.C06Doip.PayloadTypes_DiagnosticMessagePositiveAcknowledgement = ptAckPos ∧
    Gen.C06Doip.PayloadTypes_DiagnosticMessageNegativeAcknowledgement = ptAckNeg ∧
    Gen.C06Doip.readFrameDispatch = [ptHdrNack, ptRaRes, ptAliveReq, ptDiag, ptAckPos, ptAckNeg] ∧
    Gen.C06Doip.workerAnswers = ptAliveReq ∧
    Gen.C06Doip.wrDiagType = ptDiag ∧ Gen.C06Doip.wrRaType = ptRaReq ∧ Gen.C06Doip.wrAliveType = ptAliveRes ∧
    Gen.C06Doip.wrRaLength = 7 ∧ Gen.C06Doip.wrAliveLength = 2 ∧
    Gen.C06Doip.ackWaitMs = ackTimeoutMs ∧ Gen.C06Doip.raWaitMs = raTimeoutMs ∧
    Gen.C06Doip.TimingAndCommunicationParameters_DiagnosticMessageMessageAckTimeout = ackTimeoutMs ∧
    Gen.C06Doip.TimingAndCommunicationParameters_RoutingActivationResponseTimeout = raTimeoutMs ∧
    Gen.C06Doip.TimingAndCommunicationParameters_TCPAliveCheckTimeout = aliveCheckMs ∧
    Gen.C06Doip.raAccepted = raSuccess.toNat ∧
    Gen.C06Doip.RoutingActivationResponseCodes_Success = raSuccess.toNat ∧
    Gen.C06Doip.nackTolerated = nackTargetUnreachable.toNat ∧
    Gen.C06Doip.DiagnosticMessageNegativeAckCodes_TargetUnreachable = nackTargetUnreachable.toNat ∧
    Gen.C06Doip.DiagnosticMessagePositiveAckCodes = [("Success", 0)] := by
  decide

/-- the `struct` formats of the codec have the field widths the model lays out -/
theorem formats_agree :
    Gen.C06Doip.fmtGenericHeaderPack = [1, 1, 2, 4] ∧ Gen.C06Doip.fmtGenericHeaderUnpack = [1, 1, 2, 4] ∧
    Gen.C06Doip.fmtRoutingActivationRequest = [2, 1, 4] ∧ Gen.C06Doip.fmtRoutingActivationResponse = [2, 2, 1, 4] ∧
    Gen.C06Doip.fmtDiagnosticMessagePack = [2, 2] ∧ Gen.C06Doip.fmtDiagnosticMessageUnpack = [2, 2] ∧
    Gen.C06Doip.fmtAckPosUnpack = [2, 2, 1] ∧ Gen.C06Doip.fmtAckNegUnpack = [2, 2, 1] ∧
    Gen.C06Doip.fmtAliveCheckResponse = [2] ∧ Gen.C06Doip.fmtHeaderNack = [1] := by
  decide

/-- the codes carried by the raised errors (`IntEnum._missing_`) agree with the code for all 256 byte values -/
theorem error_codes_agree :
    (∀ n, n < 256 → (nackName (UInt8.ofNat n)).toNat = Gen.C06Doip.nackNameTable.getD n 0) ∧
    (∀ n, n < 256 → (racName (UInt8.ofNat n)).toNat = Gen.C06Doip.racNameTable.getD n 0) := by
  constructor <;> decide +kernel

/-- every payload type `_read_frame` does not dispatch on is dropped by the model (for all of 0..65535, hence for
    all other members of `PayloadTypes`) -/
theorem unknown_types_dropped (v : UInt8) (pt : Nat) (pl : Bytes) (h : pt ∉ Gen.C06Doip.readFrameDispatch) :
    classify (.frame v pt pl) = .drop := by
  have h' : pt ≠ 0 ∧ pt ≠ 6 ∧ pt ≠ 7 ∧ pt ≠ 32769 ∧ pt ≠ 32770 ∧ pt ≠ 32771 := by
    simpa [Gen.C06Doip.readFrameDispatch] using h
  obtain ⟨h0, h1, h2, h3, h4, h5⟩ := h'
  simp [classify, ptHdrNack, ptRaRes, ptAliveReq, ptDiag, ptAckPos, ptAckNeg, h0, h1, h2, h3, h4, h5]

/-- every `asyncio.Queue` of doip.py is unbounded.  The model relies on it twice: the reader task's `await put()`
    never suspends (`DoipSys.settle` parses every complete frame whatever the queue holds, hence
    `doip_alive_always_answered`), and the `put_nowait` re-queue of skipped frames never raises (`requeueFront` is
    total, hence `doip_reads_account_for_every_frame`).  What a capacity does: `bounded_queue_starves_alive_check`. -/
theorem queues_unbounded :
    Gen.C06Doip.queueCaps =
      [("DoIPConnection.self._diagnostic_message_queue", 0), ("DoIPConnection.self._read_queue", 0)] := by
  decide

/-! ### connection set-up -/

/-- the routing activation request: version, inverse version, payload type 0x0005, length 7, the configured
    source address, the configured activation type (all 256), four reserved zero bytes -/
theorem activation_bytes (c : Cfg) (atype : UInt8) :
    connectBytes c atype =
      [c.ver, c.ver ^^^ 0xFF, 0x00, 0x05, 0x00, 0x00, 0x00, 0x07] ++ toBE c.src 2 ++ [atype, 0, 0, 0, 0] := by
  simp [connectBytes, raReq, header, ptRaReq, toBE]

/-- ... a gateway decoding it reads back exactly the configured values -/
theorem activation_fields (c : Cfg) (atype : UInt8) (hs : c.src < 65536) :
    (connectBytes c atype).length = 15 ∧
    (connectBytes c atype)[0]? = some c.ver ∧
    fromBE (((connectBytes c atype).drop 8).take 2) = c.src ∧
    (connectBytes c atype)[10]? = some atype := by
  rw [activation_bytes]
  refine ⟨by simp, by simp, ?_, by simp [toBE_two]⟩
  simp [toBE_two, fromBE_two_toBE _ hs]

/-- it is the first thing a connection attempt writes, at the instant the attempt starts -/
theorem activation_sent_first (c : Cfg) (atype : UInt8) (tmo : Nat) (arr : List (Nat × Bytes)) :
    (opConnect c atype tmo arr).2.2.out.head? = some (0, connectBytes c atype) := by
  obtain ⟨tl, h⟩ := opConnect_out c atype tmo arr
  simp [h, connectBytes]

/-- the connection is usable iff the first routing activation response that arrives within the routing
    activation time (and the caller's timeout) carries the success code; whatever else the gateway sends before
    it (alive checks, foreign frames) does not matter -/
theorem usable_iff_success (c : Cfg) (atype : UInt8) (tmo : Nat) (arr : List (Nat × Bytes))
    (hd : NoDeath (timeline {} arr)) :
    (opConnect c atype tmo arr).1 = .ok ↔
      ∃ pre s t post, visible (min tmo raTimeoutMs) (timeline {} arr) = pre ++ Frame.rar s t raSuccess :: post ∧
        ∀ y ∈ pre, isRar y = false := by
  rw [(opConnect_res c atype tmo arr hd).1]
  unfold waitRef
  cases hs : findSplit isRar (visible (min tmo raTimeoutMs) (timeline {} arr)) with
  | none =>
    constructor
    · intro h; by_cases ht : tmo ≤ raTimeoutMs <;> simp [connRes, ht] at h
    · rintro ⟨pre, s, t, post, e, hpre⟩
      rw [e, findSplit_complete isRar pre post _ rfl hpre] at hs; cases hs
  | some r =>
    obtain ⟨pre, f, post⟩ := r
    obtain ⟨e1, e2, e3⟩ := findSplit_sound isRar hs
    obtain ⟨s, t, code, rfl⟩ := (isRar_iff f).mp e2
    constructor
    · intro h
      have : code = raSuccess := by
        by_cases hc : code = raSuccess
        · exact hc
        · simp [connRes, hc] at h
      exact ⟨pre, s, t, post, this ▸ e1, e3⟩
    · rintro ⟨pre', s', t', post', e, hpre⟩
      rw [e, findSplit_complete isRar pre' post' _ rfl hpre] at hs
      simp only [Option.some.injEq, Prod.mk.injEq, Frame.rar.injEq] at hs
      obtain ⟨_, ⟨_, _, rfl⟩, _⟩ := hs
      simp [connRes]

/-- and a connection attempt never takes longer than the routing activation time -/
theorem connect_bounded (c : Cfg) (atype : UInt8) (tmo : Nat) (arr : List (Nat × Bytes))
    (hd : NoDeath (timeline {} arr)) : (opConnect c atype tmo arr).2.1 ≤ raTimeoutMs :=
  Nat.le_trans (opConnect_res c atype tmo arr hd).2 (Nat.min_le_right _ _)

/-! ### framing: any segmentation of the TCP stream -/

/-- every segmentation of the byte stream (every split, every coalescing) yields the same frames and the same
    buffered tail as the unsegmented stream -/
theorem frames_any_segmentation (chunks : List Bytes) :
    chunks.foldl (feed doipCutter) ([], []) =
      ((parseAll doipCutter chunks.flatten).1, (parseAll doipCutter chunks.flatten).2) := by
  have := feed_chunks doipCutter chunks [] [] (by simp [doipCutter, cut])
  simpa using this

/-- the frames a gateway sends (any version byte, any mix of kinds, payloads up to the 32-bit length field) followed
    by an incomplete frame are queued exactly as sent, in order; the incomplete tail stays buffered -/
theorem frames_exact (v : UInt8) (fs : List Frame) (tail : Bytes)
    (hw : ∀ f ∈ fs, f.wf ∧ f.payload.length < 4294967296) (ht : cut tail = none) :
    (parseAll doipCutter ((fs.map (encFrame v)).flatten ++ tail)).1.map classify = fs.map Item.q ∧
    (parseAll doipCutter ((fs.map (encFrame v)).flatten ++ tail)).2 = tail := by
  let enc : Raw → Bytes := fun r => match r with
    | .frame v pt pl => header v pt pl.length ++ pl
    | .bad => []
  have key := parseAll_encodeAll doipCutter enc
    (fun r => ∃ pt pl, r = .frame v pt pl ∧ pt < 65536 ∧ pl.length < 4294967296)
    (by
      rintro r rest ⟨pt, pl, rfl, h1, h2⟩
      exact cut_header v pt pl rest h1 h2)
    (fs.map fun f => Raw.frame v f.ptype f.payload) tail
    (by
      intro r hr
      simp only [List.mem_map] at hr
      obtain ⟨f, hf, rfl⟩ := hr
      exact ⟨_, _, rfl, ptype_lt f, (hw f hf).2⟩)
    ht
  have e : (fs.map fun f => Raw.frame v f.ptype f.payload).map enc = fs.map (encFrame v) := by
    simp [List.map_map, Function.comp_def, enc, encFrame]
  rw [e] at key
  rw [key]
  refine ⟨?_, rfl⟩
  simp only [List.map_map]
  apply List.map_congr_left
  intro f hf
  exact classify_enc v f (hw f hf).1

/-- the reader task, in any state between two frames, under any two segmentations of the same byte stream:
    the same frames are queued in the same order, the same number of alive checks is answered, and it ends (on a
    frame it cannot unpack) in the one case iff in the other -/
theorem reader_any_segmentation (r : Reader) (hr : r.dead = false) (hbuf : cut r.buf = none)
    (xs ys : List (Nat × Bytes)) (h : (xs.map (·.2)).flatten = (ys.map (·.2)).flatten) :
    allFrames (r.run xs).2 = allFrames (r.run ys).2 ∧
    replyCount (r.run xs).2 = replyCount (r.run ys).2 ∧
    (r.run xs).1.dead = (r.run ys).1.dead := by
  obtain ⟨a1, a2, a3, _⟩ := run_spec r hr hbuf xs
  obtain ⟨b1, b2, b3, _⟩ := run_spec r hr hbuf ys
  rw [a1, a2, a3, b1, b2, b3, h]
  exact ⟨rfl, rfl, rfl⟩

/-- so what ends up on the read queue does not depend on how TCP cut the stream: two segmentations of the same
    bytes (arriving at whatever instants) leave the same queue -/
theorem queue_any_segmentation (c : Cfg) (s : St) (xs ys : List (Nat × Bytes)) (hc : s.closed = false)
    (hr : s.rd.dead = false) (hbuf : cut s.rd.buf = none)
    (h : (xs.map (·.2)).flatten = (ys.map (·.2)).flatten)
    (hdx : NoDeath (timeline s xs)) (hdy : NoDeath (timeline s ys)) :
    (opIdle c s xs).2.2.queue = (opIdle c s ys).2.2.queue := by
  rw [(opIdle_spec c s xs hc hdx).2.2, (opIdle_spec c s ys hc hdy).2.2]
  have e : ∀ zs : List (Nat × Bytes), (shift s.now zs).map (·.2) = zs.map (·.2) := by
    intro zs; simp [shift, List.map_map, Function.comp_def]
  have := (reader_any_segmentation s.rd hr hbuf (shift s.now xs) (shift s.now ys) (by rw [e, e, h])).1
  unfold timeline
  rw [this]

/-! ### demultiplexing -/

/-- one read on a queue: it delivers the first queued diagnostic message from the configured target to the
    configured source, and the queue afterwards is the queue before with exactly that frame removed -/
theorem readDiag_delivers (c : Cfg) (q q' : List Frame) (f : Frame) :
    takeFront (isDiagFor c) q = some (f, q') ↔
      ∃ pre post, q = pre ++ f :: post ∧ isDiagFor c f = true ∧ (∀ y ∈ pre, isDiagFor c y = false) ∧
        q' = pre ++ post := by
  unfold takeFront
  constructor
  · intro h
    cases hs : findSplit (isDiagFor c) q with
    | none => simp [hs] at h
    | some r =>
      obtain ⟨pre, x, post⟩ := r
      simp only [hs, Option.some.injEq, Prod.mk.injEq] at h
      obtain ⟨rfl, rfl⟩ := h
      obtain ⟨e1, e2, e3⟩ := findSplit_sound _ hs
      exact ⟨pre, post, e1, e2, e3, rfl⟩
  · rintro ⟨pre, post, rfl, h1, h2, rfl⟩
    rw [findSplit_complete _ pre post f h1 h2]; rfl

/-- a read finds nothing iff no such diagnostic message is queued -/
theorem readDiag_none (c : Cfg) (q : List Frame) :
    takeFront (isDiagFor c) q = none ↔ ∀ y ∈ q, isDiagFor c y = false := by
  rw [takeFront_none_iff, List.filter_eq_nil_iff]; simp

/-- successive reads deliver the matching diagnostic messages in queue (= arrival) order, unmodified, and leave
    every other frame queued in its order -/
theorem read_sequence_in_order (c : Cfg) (n : Nat) (q : List Frame) :
    (takeN (takeFront (isDiagFor c)) n q).1.map Frame.userData = (diags c q).take n ∧
    (takeN (takeFront (isDiagFor c)) n q).2.filter (fun f => !isDiagFor c f) =
      q.filter (fun f => !isDiagFor c f) := by
  refine ⟨by rw [takeN_front]; simp [diags, List.map_take], ?_⟩
  exact takeN_front_rest _ _ (by intro x hx; simp [hx]) n q

/-- waiting for an acknowledgement does not disturb the order of the queued diagnostic messages -/
theorem ack_wait_keeps_diag_order (c : Cfg) (data : Bytes) (q q' : List Frame) (f : Frame)
    (h : takeFront (ackMatch c data) q = some (f, q')) : diags c q' = diags c q := by
  have hf : ackMatch c data f = true := by
    unfold takeFront at h
    cases hs : findSplit (ackMatch c data) q with
    | none => simp [hs] at h
    | some r =>
      obtain ⟨pre, x, post⟩ := r
      simp only [hs, Option.some.injEq, Prod.mk.injEq] at h
      obtain ⟨rfl, _⟩ := h
      exact (findSplit_sound _ hs).2.1
  unfold diags
  rw [takeFront_filter_other _ _ h (ackMatch_not_diag c data f hf)]

/-- `DoIPTransport.read` while frames arrive (any chunking, any foreign frames, alive checks in between): it returns
    the user data of the first diagnostic message of the configured pair among what is queued and what arrives
    before its timeout; if there is none it times out at its deadline -/
theorem read_delivers (c : Cfg) (s : St) (tmo : Nat) (arr : List (Nat × Bytes)) (hc : s.closed = false)
    (hd : NoDeath (timeline s arr)) :
    (∀ pre f post, s.queue ++ visible (s.now + tmo) (timeline s arr) = pre ++ f :: post →
      isDiagFor c f = true → (∀ y ∈ pre, isDiagFor c y = false) → (opRead c s tmo arr).1 = .msg f.userData) ∧
    ((∀ y ∈ s.queue ++ visible (s.now + tmo) (timeline s arr), isDiagFor c y = false) →
      (opRead c s tmo arr).1 = .timeout) ∧
    (opRead c s tmo arr).2.1 ≤ s.now + tmo := by
  obtain ⟨h1, _, _, _⟩ := opRead_spec c s tmo arr hc hd
  refine ⟨?_, ?_, opRead_time c s tmo arr⟩
  · intro pre f post e hf hpre
    rw [h1, e]; unfold waitRef
    rw [findSplit_complete _ pre post f hf hpre]; rfl
  · intro hall
    rw [h1]; unfold waitRef
    rw [(findSplit_none_iff _ _).mpr hall]; rfl

/-- ... and the frames other than the delivered one are not lost: after the call the queue holds everything that
    was queued or arrived, in arrival order, minus exactly the delivered frame (also when the read timed out) -/
theorem nothing_lost_reading (c : Cfg) (s : St) (tmo : Nat) (arr : List (Nat × Bytes)) (hc : s.closed = false)
    (hd : NoDeath (timeline s arr)) :
    (∃ pre f post, s.queue ++ allFrames (timeline s arr) = pre ++ f :: post ∧ isDiagFor c f = true ∧
        (∀ y ∈ pre, isDiagFor c y = false) ∧ (opRead c s tmo arr).1 = .msg f.userData ∧
        (opRead c s tmo arr).2.2.queue = pre ++ post) ∨
    ((opRead c s tmo arr).1 = .timeout ∧ (opRead c s tmo arr).2.2.queue = s.queue ++ allFrames (timeline s arr)) := by
  obtain ⟨h1, _, _, h4⟩ := opRead_spec c s tmo arr hc hd
  unfold QueueAfter at h4
  unfold waitRef at h1 h4
  cases hs : findSplit (isDiagFor c) (s.queue ++ visible (s.now + tmo) (timeline s arr)) with
  | none =>
    rw [hs] at h1 h4
    exact Or.inr ⟨h1, h4⟩
  | some r =>
    obtain ⟨p1, f, p2⟩ := r
    rw [hs] at h1 h4
    obtain ⟨pre, post, e1, e2, e3, e4⟩ := h4
    exact Or.inl ⟨pre, f, post, e1, e2, e3, h1, e4⟩

/-- hence reads deliver in arrival order across calls: the delivered payload is the head of the diagnostic payloads
    queued-or-arriving, and what stays queued is their tail (all of them when the read timed out) -/
theorem read_in_arrival_order (c : Cfg) (s : St) (tmo : Nat) (arr : List (Nat × Bytes)) (hc : s.closed = false)
    (hd : NoDeath (timeline s arr)) :
    (∃ d, (opRead c s tmo arr).1 = .msg d ∧
        diags c (s.queue ++ allFrames (timeline s arr)) = d :: diags c (opRead c s tmo arr).2.2.queue) ∨
    ((opRead c s tmo arr).1 = .timeout ∧
        diags c (opRead c s tmo arr).2.2.queue = diags c (s.queue ++ allFrames (timeline s arr))) := by
  rcases nothing_lost_reading c s tmo arr hc hd with ⟨pre, f, post, e1, e2, e3, e4, e5⟩ | ⟨h1, h2⟩
  · refine Or.inl ⟨f.userData, e4, ?_⟩
    have hp : pre.filter (isDiagFor c) = [] := by
      rw [List.filter_eq_nil_iff]; intro y hy; simp [e3 y hy]
    rw [e1, e5]
    simp [diags, List.filter_append, hp, e2]
  · exact Or.inr ⟨h1, by rw [h2]⟩

/-! ### what the pinned tree did: skipped frames re-appended at the tail -/

/-- concrete witness: with `[diag A, ack, diag B]` queued, the acknowledgement wait of the pinned tree leaves
    `[B, A]` and the next two reads return B then A; the front discipline leaves `[A, B]` -/
theorem tail_requeue_reorders :
    takeTail (ackMatch ⟨0x0E00, 0x1D, 2⟩ [0x3E, 0x00])
        [.diag 0x1D 0x0E00 [0xAA], .ackPos 0x1D 0x0E00 [], .diag 0x1D 0x0E00 [0xBB]] =
      some (.ackPos 0x1D 0x0E00 [], [.diag 0x1D 0x0E00 [0xBB], .diag 0x1D 0x0E00 [0xAA]]) ∧
    (takeN (takeFront (isDiagFor ⟨0x0E00, 0x1D, 2⟩)) 2
        [.diag 0x1D 0x0E00 [0xBB], .diag 0x1D 0x0E00 [0xAA]]).1.map Frame.userData = [[0xBB], [0xAA]] ∧
    takeFront (ackMatch ⟨0x0E00, 0x1D, 2⟩ [0x3E, 0x00])
        [.diag 0x1D 0x0E00 [0xAA], .ackPos 0x1D 0x0E00 [], .diag 0x1D 0x0E00 [0xBB]] =
      some (.ackPos 0x1D 0x0E00 [], [.diag 0x1D 0x0E00 [0xAA], .diag 0x1D 0x0E00 [0xBB]]) := by
  decide

/-- exactly when the tail discipline keeps the order of the frames `r` selects (for pairwise distinct ones): iff
    the consumer skipped none of them or none of them was queued behind the frame it took -/
theorem tail_requeue_order_iff (p r : Frame → Bool) (q pre post : List Frame) (x : Frame)
    (hs : findSplit p q = some (pre, x, post)) (hx : r x = false) (hn : (q.filter r).Nodup) :
    (requeueTail pre post).filter r = q.filter r ↔ pre.filter r = [] ∨ post.filter r = [] := by
  obtain ⟨h1, h2⟩ := takeTail_filter_other p r hs hx
  rw [h1, h2]
  constructor
  · intro h
    exact append_comm_nodup (h1 ▸ hn) h
  · rintro (h | h) <;> simp [h]

/-! ### write -/

/-- `DoIPTransport.write` (caller timeout above the acknowledgement time; at a tie the caller's timer, armed first,
    wins: `write_caller_timeout`) completes iff the first frame that
    passes the acknowledgement test - among what is queued and what arrives within the acknowledgement time - is a
    positive acknowledgement or a `TargetUnreachable` negative one; otherwise it fails with a connection error
    (`DoIPNegativeAckError` is a `BrokenPipeError`) no later than the acknowledgement time, and when no
    acknowledgement shows up at all the connection is closed exactly at that time -/
theorem write_completes_iff_acked (c : Cfg) (s : St) (data : Bytes) (tmo : Nat) (arr : List (Nat × Bytes))
    (hc : s.closed = false) (hd : NoDeath (timeline s arr)) (htmo : ackTimeoutMs < tmo) :
    ((opWrite c s data tmo arr).1 = .ok ↔
      ∃ pre f post, s.queue ++ visible (s.now + ackTimeoutMs) (timeline s arr) = pre ++ f :: post ∧
        (∀ y ∈ pre, ackMatch c data y = false) ∧ ackMatch c data f = true ∧ accepted f = true) ∧
    ((opWrite c s data tmo arr).1 ≠ .ok →
      ((opWrite c s data tmo arr).1 = .conn ∨ ∃ code, (opWrite c s data tmo arr).1 = .nack code)) ∧
    (opWrite c s data tmo arr).2.1 ≤ s.now + ackTimeoutMs ∧
    ((∀ y ∈ s.queue ++ visible (s.now + ackTimeoutMs) (timeline s arr), ackMatch c data y = false) →
      (opWrite c s data tmo arr).1 = .conn ∧ (opWrite c s data tmo arr).2.2.closed = true) := by
  obtain ⟨h1, h2, h3, _⟩ := opWrite_spec c s data tmo arr hc hd
  have hm : min tmo ackTimeoutMs = ackTimeoutMs := Nat.min_eq_right (Nat.le_of_lt htmo)
  rw [hm] at h1 h2 h3
  have hnt : ¬ tmo ≤ ackTimeoutMs := by omega
  unfold waitRef at h1 h3
  cases hs : findSplit (ackMatch c data) (s.queue ++ visible (s.now + ackTimeoutMs) (timeline s arr)) with
  | none =>
    rw [hs] at h1 h3
    have hres : (opWrite c s data tmo arr).1 = .conn := by rw [h1]; simp [writeRes, hnt]
    refine ⟨?_, fun _ => Or.inl hres, h2, fun _ => ⟨hres, h3.mpr ⟨rfl, hnt⟩⟩⟩
    constructor
    · intro h; rw [hres] at h; cases h
    · rintro ⟨pre, f, post, e, hpre, hf, _⟩
      rw [e, findSplit_complete _ pre post f hf hpre] at hs; cases hs
  | some r =>
    obtain ⟨pre, f, post⟩ := r
    rw [hs] at h1 h3
    obtain ⟨e1, e2, e3⟩ := findSplit_sound _ hs
    obtain ⟨w1, w2⟩ := writeRes_got c data tmo f e2
    refine ⟨?_, ?_, h2, ?_⟩
    · rw [h1, w1]
      constructor
      · intro ha; exact ⟨pre, f, post, e1, e3, e2, ha⟩
      · rintro ⟨pre', f', post', e, hpre, hf, ha⟩
        rw [e, findSplit_complete _ pre' post' f' hf hpre] at hs
        simp only [Option.some.injEq, Prod.mk.injEq] at hs
        obtain ⟨_, rfl, _⟩ := hs
        exact ha
    · intro hne
      rw [h1] at hne ⊢
      cases ha : accepted f with
      | true => exact absurd (w1.mpr ha) hne
      | false => exact Or.inr (w2 ha)
    · intro hall
      have := hall f (by rw [e1]; simp)
      rw [e2] at this; cases this

/-- a write given up by the caller's own timeout (not above the acknowledgement time): reported as a timeout, the connection stays open and
    every frame skipped meanwhile is still queued, in arrival order -/
theorem write_caller_timeout (c : Cfg) (s : St) (data : Bytes) (tmo : Nat) (arr : List (Nat × Bytes))
    (hc : s.closed = false) (hd : NoDeath (timeline s arr)) (ht : tmo ≤ ackTimeoutMs)
    (hall : ∀ y ∈ s.queue ++ visible (s.now + tmo) (timeline s arr), ackMatch c data y = false) :
    (opWrite c s data tmo arr).1 = .timeout ∧ (opWrite c s data tmo arr).2.2.closed = false ∧
    (opWrite c s data tmo arr).2.2.queue = s.queue ++ allFrames (timeline s arr) := by
  obtain ⟨h1, _, h3, h4⟩ := opWrite_spec c s data tmo arr hc hd
  have hm : min tmo ackTimeoutMs = tmo := Nat.min_eq_left ht
  rw [hm] at h1 h3 h4
  have hw : waitRef (ackMatch c data) (s.queue ++ visible (s.now + tmo) (timeline s arr)) = .timeout := by
    unfold waitRef; rw [(findSplit_none_iff _ _).mpr hall]
  rw [hw] at h1 h3 h4
  have hopen : (opWrite c s data tmo arr).2.2.closed = false := by
    cases hcl : (opWrite c s data tmo arr).2.2.closed with
    | false => rfl
    | true => exact absurd ht (h3.mp hcl).2
  refine ⟨by rw [h1]; simp [writeRes, ht], hopen, ?_⟩
  exact (h4 hopen).2

/-- a write never disturbs the diagnostic messages: whatever was queued or arrives during it stays queued in
    arrival order, whether the write completed or was refused by a negative acknowledgement -/
theorem write_keeps_diag_order (c : Cfg) (s : St) (data : Bytes) (tmo : Nat) (arr : List (Nat × Bytes))
    (hc : s.closed = false) (hd : NoDeath (timeline s arr))
    (hopen : (opWrite c s data tmo arr).2.2.closed = false) :
    diags c (opWrite c s data tmo arr).2.2.queue = diags c (s.queue ++ allFrames (timeline s arr)) := by
  obtain ⟨_, _, _, h4⟩ := opWrite_spec c s data tmo arr hc hd
  obtain ⟨_, hq⟩ := h4 hopen
  unfold QueueAfter at hq
  generalize waitRef (ackMatch c data) _ = r at hq
  cases r with
  | got f =>
    obtain ⟨pre, post, e1, e2, _, e4⟩ := hq
    have hf := ackMatch_not_diag c data f e2
    rw [e1, e4]
    simp [diags, List.filter_append, hf]
  | timeout => rw [hq]
  | conn => exact hq.elim

/-! ### alive check -/

/-- every alive-check request that is complete in the stream is answered by the reader task: one response per
    request, whatever the segmentation, each stamped with the arrival time of a chunk (the one completing it) -/
theorem alive_one_reply_per_request (r : Reader) (hr : r.dead = false) (hbuf : cut r.buf = none)
    (chunks : List (Nat × Bytes)) :
    replyCount (r.run chunks).2 = aliveCount (itemsOf r.buf (chunks.map (·.2)).flatten) ∧
    ∀ e ∈ (r.run chunks).2, ∃ ch ∈ chunks, e.t = ch.1 :=
  ⟨(run_spec r hr hbuf chunks).2.1, run_times r chunks⟩

/-- ... while the client is blocked in a read (the connection mutex is held by `read_frame`): the bytes written
    during the call are exactly the alive-check responses of its timeline, each at its arrival instant -/
theorem alive_answered_reading (c : Cfg) (s : St) (tmo : Nat) (arr : List (Nat × Bytes)) (hc : s.closed = false)
    (hd : NoDeath (timeline s arr)) :
    (opRead c s tmo arr).2.2.out = s.out ++ outOf c (timeline s arr) :=
  (opRead_spec c s tmo arr hc hd).2.2.1

/-- ... while the client writes and waits for its acknowledgement (the mutex is held by `write_request_raw`):
    the request bytes, then exactly the alive-check responses of the timeline -/
theorem alive_answered_writing (c : Cfg) (s : St) (data : Bytes) (tmo : Nat) (arr : List (Nat × Bytes))
    (hc : s.closed = false) (hd : NoDeath (timeline s arr))
    (hopen : (opWrite c s data tmo arr).2.2.closed = false) :
    (opWrite c s data tmo arr).2.2.out = s.out ++ (s.now, diagReq c data) :: outOf c (timeline s arr) :=
  ((opWrite_spec c s data tmo arr hc hd).2.2.2 hopen).1

/-- ... while the client is idle -/
theorem alive_answered_idle (c : Cfg) (s : St) (arr : List (Nat × Bytes)) (hc : s.closed = false)
    (hd : NoDeath (timeline s arr)) :
    (opIdle c s arr).2.2.out = s.out ++ outOf c (timeline s arr) :=
  (opIdle_spec c s arr hc hd).2.1

/-- the alive-check response carries the configured source address -/
theorem alive_response_bytes (c : Cfg) :
    aliveResp c = [c.ver, c.ver ^^^ 0xFF, 0x00, 0x08, 0x00, 0x00, 0x00, 0x02] ++ toBE c.src 2 := by
  simp [aliveResp, header, ptAliveRes, toBE]

/-! ### message sizes

  DoIP frames carry a 32-bit payload length: nothing in the framing, the classification or the matching rules of the
  consumers depends on how long the user data is (the 4095 byte limit of ISO-TP does not exist here). -/

/-- **a diagnostic message of any length is delivered unmodified, a fully / partially echoed acknowledgement of a
    request of any length is accepted.**  `data`, `req` are arbitrary byte lists; the only bound is the one of the wire
    format (payload length field of 32 bits).  For every segmentation `chunks` of the stream "foreign frames `pre`,
    the diagnostic message target -> source with user data `data`, frames `post`, an incomplete tail": the reader
    queues exactly these frames, a read on that queue delivers `data` itself and leaves `pre ++ post`; and the
    acknowledgement wait of a request `req` accepts the positive (and the negative) acknowledgement echoing any
    prefix of `req` - none (`k = 0`), some, all of it. -/
theorem doip_delivers_any_length (c : Cfg) (v : UInt8) (data req : Bytes) (pre post : List Frame) (tail : Bytes)
    (hs : c.src < 65536) (ht : c.tgt < 65536) (hlen : data.length + 4 < 4294967296)
    (hw : ∀ f ∈ pre ++ post, f.wf ∧ f.payload.length < 4294967296) (hpre : ∀ y ∈ pre, isDiagFor c y = false)
    (htail : cut tail = none) (chunks : List Bytes)
    (hch : chunks.flatten = ((pre ++ Frame.diag c.tgt c.src data :: post).map (encFrame v)).flatten ++ tail) :
    (chunks.foldl (feed doipCutter) ([], [])).1.map classify =
        (pre ++ Frame.diag c.tgt c.src data :: post).map Item.q ∧
      (chunks.foldl (feed doipCutter) ([], [])).2 = tail ∧
      takeFront (isDiagFor c) (pre ++ Frame.diag c.tgt c.src data :: post) =
        some (Frame.diag c.tgt c.src data, pre ++ post) ∧
      (Frame.diag c.tgt c.src data).userData = data ∧
      (∀ k code, ackMatch c req (.ackPos c.tgt c.src (req.take k)) = true ∧
        ackMatch c req (.ackNeg c.tgt c.src code (req.take k)) = true) := by
  have hall : ∀ f ∈ pre ++ Frame.diag c.tgt c.src data :: post, f.wf ∧ f.payload.length < 4294967296 := by
    intro f hf
    simp only [List.mem_append, List.mem_cons] at hf
    rcases hf with hf | rfl | hf
    · exact hw f (by simp [hf])
    · refine ⟨⟨ht, hs⟩, ?_⟩
      simp [Frame.payload, toBE]; omega
    · exact hw f (by simp [hf])
  have hfe := frames_exact v _ tail hall htail
  rw [frames_any_segmentation, hch]
  refine ⟨hfe.1, hfe.2, ?_, rfl, ?_⟩
  · rw [readDiag_delivers]
    exact ⟨pre, post, rfl, by simp [isDiagFor], hpre, rfl⟩
  · intro k code
    have e : req.take k = req.take (req.take k).length := by
      simp only [List.length_take]
      by_cases h : k ≤ req.length
      · rw [Nat.min_eq_left h]
      · rw [Nat.min_eq_right (by omega), List.take_of_length_le (by omega), List.take_of_length_le (Nat.le_refl _)]
    constructor <;> · simp only [ackMatch, beq_self_eq_true, Bool.true_and, Bool.or_eq_true, beq_iff_eq]
                      exact Or.inr e

/-- non-vacuity of `doip_delivers_any_length`: 5000 bytes of user data (beyond 4095) behind a foreign frame, the
    stream cut inside the first header and again inside the large payload, an incomplete header behind it: the
    hypotheses hold, so the read delivers the 5000 bytes and the fully echoed acknowledgement of a 5000 byte request
    is accepted -/
example :
    let c : Cfg := ⟨0x0E00, 0x1D, 2⟩
    let data : Bytes := List.replicate 5000 0x5A
    let stream := (([Frame.diag 0x1E 0x0E00 [0x7F]] ++ Frame.diag c.tgt c.src data :: []).map (encFrame 2)).flatten ++
      [2, 0xFD, 0x80]
    let r := [stream.take 5, (stream.drop 5).take 4100, (stream.drop 5).drop 4100].foldl (feed doipCutter) ([], [])
    r.1.map classify = [.q (.diag 0x1E 0x0E00 [0x7F]), .q (.diag 0x1D 0x0E00 data)] ∧ r.2 = [2, 0xFD, 0x80] ∧
      takeFront (isDiagFor c) [.diag 0x1E 0x0E00 [0x7F], .diag 0x1D 0x0E00 data] =
        some (.diag 0x1D 0x0E00 data, [.diag 0x1E 0x0E00 [0x7F]]) ∧
      ackMatch c data (.ackPos 0x1D 0x0E00 data) = true := by
  intro c data stream r
  have h := doip_delivers_any_length c 2 data data [.diag 0x1E 0x0E00 [0x7F]] [] [2, 0xFD, 0x80]
    (by decide) (by decide) (by simp only [data, List.length_replicate]; omega) (by simp [Frame.wf, Frame.payload, toBE]) (by simp [isDiagFor, c])
    (by simp [cut])
    [stream.take 5, (stream.drop 5).take 4100, (stream.drop 5).drop 4100]
    (by simp only [List.flatten_cons, List.flatten_nil, List.append_nil, List.take_append_drop]; rfl)
  refine ⟨h.1, h.2.1, h.2.2.1, ?_⟩
  have := (h.2.2.2.2 5000 0).1
  rwa [List.take_of_length_le (by simp only [data, List.length_replicate]; omega)] at this

/-! ### a second client task blocked in a read

  `read_frame` takes the connection mutex for every frame it waits for and `write_request_raw` holds it from the
  request to the acknowledgement, so the scan of a blocked reader (`isDiagFor`, skipped frames put back in front) and
  the acknowledgement wait of a writer (`ackMatch`, same) never consume the queue at the same time: they run one
  after the other, in the order the mutex is granted. -/

/-- **a blocked reader and a writer are serialised, and the order in which the mutex is granted does not matter.**
    On any queue `q` (frames in wire order): reader scan then acknowledgement wait gives the same message to the read,
    the same acknowledgement to the write and leaves the same queue as acknowledgement wait then reader scan - the
    first target->source message of `q`, the first matching acknowledgement of `q`, and `q` without these two in wire
    order (`readDiag_delivers`); if one of the two finds nothing, so it does in the other order. -/
theorem doip_blocked_reader_serialised (c : Cfg) (data : Bytes) (q : List Frame) :
    ((takeFront (isDiagFor c) q).bind fun y => (takeFront (ackMatch c data) y.2).map fun z => (y.1, z.1, z.2)) =
    ((takeFront (ackMatch c data) q).bind fun z => (takeFront (isDiagFor c) z.2).map fun y => (y.1, z.1, y.2)) := by
  apply serial_commute
  intro x hx
  cases h : ackMatch c data x with
  | false => rfl
  | true => rw [ackMatch_not_diag c data x h] at hx; cases hx

/-- non-vacuity, and what the mutex prevents: on the queue "foreign, acknowledgement, response, unsolicited" both
    serial orders hand the response `62 F1` to the read and the acknowledgement to the write and leave the rest in
    wire order; a reader scanning WITHOUT the mutex while the writer waits takes the acknowledgement off the queue as
    a skipped frame (`findSplit` returns it in the skipped prefix), so the writer's scan of what is left finds none -/
example :
    let c : Cfg := ⟨0x0E00, 0x1D, 2⟩
    let q : List Frame := [.diag 0x1E 0x0E00 [0x7F], .ackPos 0x1D 0x0E00 [], .diag 0x1D 0x0E00 [0x62, 0xF1],
      .diag 0x1D 0x0E00 [0x6A]]
    ((takeFront (isDiagFor c) q).bind fun y => (takeFront (ackMatch c [0x22, 0xF1]) y.2).map fun z => (y.1, z.1, z.2)) =
      some (.diag 0x1D 0x0E00 [0x62, 0xF1], .ackPos 0x1D 0x0E00 [], [.diag 0x1E 0x0E00 [0x7F], .diag 0x1D 0x0E00 [0x6A]]) ∧
    (findSplit (isDiagFor c) q).map (·.1) = some [.diag 0x1E 0x0E00 [0x7F], .ackPos 0x1D 0x0E00 []] ∧
    ((findSplit (isDiagFor c) q).bind fun s => takeFront (ackMatch c [0x22, 0xF1]) s.2.2) = none := by
  decide +kernel

/-! ### whole executions of one connection (`Model/DoipSys.lean`)

  An execution is an arbitrary list of events `ops : List Op` - bytes arriving in any segmentation, client calls
  (write / read / routing activation, each with the caller's timeout), `close`, end of stream, time passing - run
  from a fresh established connection `{}`; `yields` is an arbitrary schedule of reader task and blocked consumer.
  `fedBytes ops` is the whole byte stream the gateway sent; `pendItems [] (fedBytes ops)` what a reader makes of it
  when it arrives in one piece.  Every statement below holds for every `ops` and every `yields`. -/

section WholeExecutions
open Gallia.DoipSys

/-- **reads account for every diagnostic message.**  The payloads handed out by reads so far, followed by the
    payloads of the configured pair still on their way - held by the blocked consumer (frames skipped by a read, an
    acknowledgement wait or a routing activation wait included), queued, or complete in the receive buffer of a
    connection that was closed meanwhile - are exactly the payloads of the diagnostic messages from the configured
    target to the configured source in the byte stream, in stream order: nothing is lost, duplicated, invented or
    reordered, however the stream is cut, whatever else is interleaved, however the waits end (accepted, timer,
    connection closed).  While the connection is open nothing is left in the buffer: every complete frame has been
    parsed. -/
theorem doip_reads_account_for_every_frame (c : Cfg) (yields : Raw → Bool) (ops : List Op) :
    delivered (exec c yields {} ops).done ++
        diags c (avail (exec c yields {} ops) ++ pendQ (exec c yields {} ops) []) =
      diags c (qAll (pendItems [] (fedBytes ops))) ∧
    ((exec c yields {} ops).closed = false →
      delivered (exec c yields {} ops).done ++ diags c (avail (exec c yields {} ops)) =
        diags c (qAll (pendItems [] (fedBytes ops)))) := by
  have h := (exec_conserved c yields (acct_conserved c) ops {} (WF_idle c _ rfl)).2 []
  have h1 : delivered (exec c yields {} ops).done ++
      diags c (avail (exec c yields {} ops) ++ pendQ (exec c yields {} ops) []) =
      diags c (qAll (pendItems [] (fedBytes ops))) := by
    simpa [acct, avail, held, pendQ] using h
  refine ⟨h1, fun ho => ?_⟩
  have hq := (exec_inv c yields ops {} (Inv_init c)).quiet ho
  rw [← h1]
  simp [pendQ, pendItems_none hq]

/-- hence reads deliver, in order and each at most once, a prefix of the diagnostic messages of the stream -/
theorem doip_reads_in_arrival_order (c : Cfg) (yields : Raw → Bool) (ops : List Op) :
    delivered (exec c yields {} ops).done <+: diags c (qAll (pendItems [] (fedBytes ops))) :=
  ⟨_, (doip_reads_account_for_every_frame c yields ops).1⟩

/-- **write outcomes.**  At any point of any execution (`ops0`) with the client idle and the connection open, a write
    starts; `ops` is any continuation during which the reader task survives (reader death: `doip_closed_never_blocks`).
    `seen` = the frames queued when the request goes out, followed by those the byte stream delivers strictly before
    the write's deadline `d` (2 s acknowledgement time, or the caller's earlier timeout).  Then

    * the request `header ++ source ++ target ++ data` is written at the instant the write starts;
    * if `seen` holds a frame passing the acknowledgement test (configured address pair, echoed data empty or a
      prefix of the request), the write ends with the *first* such frame, at the instant that frame is queued:
      it completes iff the frame is a positive acknowledgement or a `TargetUnreachable` negative one, otherwise
      it is refused with that negative acknowledgement's code (a `BrokenPipeError`);
    * if not, and time has reached `d`: the write ends *exactly at* `d` - with the caller's `TimeoutError` when `d` is
      the caller's timeout, with a connection error and the connection closed (for good) when `d` is the
      acknowledgement time.  An acknowledgement arriving at `d` or later is too late for it;
    * if not, and time has not reached `d`: the write is still blocked, holding every frame seen, in order.  -/
theorem doip_write_outcomes (c : Cfg) (yields : Raw → Bool) (ops0 : List Op) (data : Bytes) (tmo : Option Nat)
    (ops : List Op) (hidle : (exec c yields {} ops0).client = .idle) (hopen : (exec c yields {} ops0).closed = false)
    (htmo : tmo ≠ some 0) (hsafe : rsafe (exec c yields {} ops0).buf ops)
    (s : Sys) (hs : s = exec c yields {} ops0) (e : Option (Nat × Bool))
    (he : e = expiry (some (s.now + ackTimeoutMs)) (tmo.map (s.now + ·)))
    (seen : List (Nat × Frame))
    (hseen : seen = s.queue.map (fun f => (s.now, f)) ++ (rlog s.buf s.now ops).filter (fun x => notDue e x.1))
    (S : Sys) (hS : S = exec c yields {} (ops0 ++ .write data tmo :: ops)) :
    (∃ more, S.out = s.out ++ (s.now, diagReq c data) :: more) ∧
    (∀ t f, seen.find? (fun x => ackMatch c data x.2) = some (t, f) →
      ∃ more, S.done = s.done ++ ⟨t, .ack data, (Want.ack data).result f⟩ :: more) ∧
    (seen.find? (fun x => ackMatch c data x.2) = none → ∀ d byCaller, e = some (d, byCaller) → d ≤ rnow s.now ops →
      (∃ more, S.done = s.done ++ ⟨d, .ack data, if byCaller then .timeout else .conn⟩ :: more) ∧
      (byCaller = false → S.closed = true)) ∧
    (seen.find? (fun x => ackMatch c data x.2) = none → notDue e (rnow s.now ops) = true →
      S.client = .waiting (.ack data) (s.queue ++ (rlog s.buf s.now ops).map (·.2)) (some (s.now + ackTimeoutMs))
        (tmo.map (s.now + ·)) ∧ S.done = s.done ∧ S.closed = false) := by
  subst hs he hseen
  have hinv := exec_inv c yields ops0 {} (Inv_init c)
  have hS' : S = exec c yields (startCall c (exec c yields {} ops0) (.ack data) (some (diagReq c data)) tmo) ops := by
    rw [hS, exec_append, exec_cons]; rfl
  obtain ⟨a, b, d⟩ := call_run c yields _ hinv hidle hopen (.ack data) (some (diagReq c data)) tmo htmo ops hsafe
  rw [hS']
  exact ⟨call_out c yields _ hinv hidle hopen (.ack data) _ tmo ops, a, b, d⟩

/-- which acknowledgements let a write complete: the result of a write that accepted `f` is success iff `f` is a
    positive acknowledgement or a `TargetUnreachable` negative one, and a refusal carrying the code otherwise -/
theorem doip_write_result (c : Cfg) (data : Bytes) (f : Frame) (h : ackMatch c data f = true) :
    ((Want.ack data).result f = .ok ↔ accepted f = true) ∧
    (accepted f = false → ∃ code, (Want.ack data).result f = .nack code) := by
  cases f with
  | ackPos s t p => simp [Want.result, accepted]
  | ackNeg s t code p => by_cases hc : code = nackTargetUnreachable <;> simp [Want.result, accepted, hc]
  | hdrNack _ => simp [ackMatch] at h
  | rar _ _ _ => simp [ackMatch] at h
  | diag _ _ _ => simp [ackMatch] at h

/-- **no acknowledgement serves two writes.**  The number of writes that ended by accepting an acknowledgement
    (completed or refused) plus the number of acknowledgements of the configured pair still on their way equals the
    number of such acknowledgements in the byte stream: each one is used at most once, none is invented -/
theorem doip_acks_used_once (c : Cfg) (yields : Raw → Bool) (ops : List Op) :
    acksUsed (exec c yields {} ops).done +
        (avail (exec c yields {} ops) ++ pendQ (exec c yields {} ops) []).countP (isAckFor c) =
      (qAll (pendItems [] (fedBytes ops))).countP (isAckFor c) := by
  have h := (exec_conserved c yields (ackBal_conserved c) ops {} (WF_idle c _ rfl)).2 []
  simpa [ackBal, avail, held, pendQ, acksUsed] using h

/-- the same machinery for reads: `seen` as above with the read's own timeout (no protocol timer); the read returns
    the user data of the first diagnostic message of the configured pair in `seen`, at the instant it is queued;
    otherwise it ends with the caller's `TimeoutError` exactly at its deadline and the connection stays open; a read
    without timeout stays blocked -/
theorem doip_read_outcomes (c : Cfg) (yields : Raw → Bool) (ops0 : List Op) (tmo : Option Nat)
    (ops : List Op) (hidle : (exec c yields {} ops0).client = .idle) (hopen : (exec c yields {} ops0).closed = false)
    (htmo : tmo ≠ some 0) (hsafe : rsafe (exec c yields {} ops0).buf ops)
    (s : Sys) (hs : s = exec c yields {} ops0) (e : Option (Nat × Bool))
    (he : e = expiry none (tmo.map (s.now + ·)))
    (seen : List (Nat × Frame))
    (hseen : seen = s.queue.map (fun f => (s.now, f)) ++ (rlog s.buf s.now ops).filter (fun x => notDue e x.1))
    (S : Sys) (hS : S = exec c yields {} (ops0 ++ .read tmo :: ops)) :
    (∀ t f, seen.find? (fun x => isDiagFor c x.2) = some (t, f) →
      ∃ more, S.done = s.done ++ ⟨t, .diag, .msg f.userData⟩ :: more) ∧
    (seen.find? (fun x => isDiagFor c x.2) = none → ∀ d, tmo.map (s.now + ·) = some d → d ≤ rnow s.now ops →
      ∃ more, S.done = s.done ++ ⟨d, .diag, .timeout⟩ :: more) ∧
    (seen.find? (fun x => isDiagFor c x.2) = none → notDue e (rnow s.now ops) = true →
      S.client = .waiting .diag (s.queue ++ (rlog s.buf s.now ops).map (·.2)) none (tmo.map (s.now + ·)) ∧
      S.done = s.done ∧ S.closed = false) := by
  subst hs he hseen
  have hinv := exec_inv c yields ops0 {} (Inv_init c)
  have hS' : S = exec c yields (startCall c (exec c yields {} ops0) .diag none tmo) ops := by
    rw [hS, exec_append, exec_cons]; rfl
  obtain ⟨a, b, d⟩ := call_run c yields _ hinv hidle hopen .diag none tmo htmo ops hsafe
  rw [hS']
  refine ⟨a, fun hn dd hd hle => ?_, d⟩
  have hex : expiry ((Want.diag).limit.map ((exec c yields {} ops0).now + ·))
      (tmo.map ((exec c yields {} ops0).now + ·)) = some (dd, true) := by
    cases tmo with
    | none => simp at hd
    | some t => simp only [Option.map_some, Option.some.injEq] at hd; simp [Want.limit, expiry, hd]
  exact (b hn dd true hex hle).1

/-- **every alive check is answered, whatever the client is doing.**  For every execution:
    * the alive-check responses written plus the alive-check requests complete in the buffer of a connection closed
      meanwhile are the alive-check requests of the byte stream - on an open connection: one response per request
      completely received, however the stream was cut;
    * the reader task has handled exactly the frames of the stream, in order (`rxItems`), every alive-check request is
      followed by its response before the next frame is handled (`answered`), and the responses written are those;
    * nothing of this looks at the client: not at its phase (idle, awaiting an acknowledgement, blocked in a read) and
      not at the connection mutex the last two hold (`Sys.mutexHeld`) - the statement is for all `ops` -/
theorem doip_alive_always_answered (c : Cfg) (yields : Raw → Bool) (ops : List Op) :
    (replies c (exec c yields {} ops).out).length + aliveReqs (pendItems (exec c yields {} ops).buf []) =
      aliveReqs (pendItems [] (fedBytes ops)) ∧
    ((exec c yields {} ops).closed = false →
      (replies c (exec c yields {} ops).out).length = aliveReqs (pendItems [] (fedBytes ops))) ∧
    rxItems (exec c yields {} ops).tr ++ pendItems (exec c yields {} ops).buf [] = pendItems [] (fedBytes ops) ∧
    answered (exec c yields {} ops).tr = true ∧
    (replies c (exec c yields {} ops).out).length = trReplies (exec c yields {} ops).tr := by
  have h1 := (exec_conserved c yields (aliveBal_conserved c) ops {} (WF_idle c _ rfl)).2 []
  have h1' : (replies c (exec c yields {} ops).out).length + aliveReqs (pendItems (exec c yields {} ops).buf []) =
      aliveReqs (pendItems [] (fedBytes ops)) := by
    simpa [aliveBal, replies] using h1
  have h2 := (exec_conserved c yields (rxAll_conserved c) ops {} (WF_idle c _ rfl)).2 []
  refine ⟨h1', fun ho => ?_, by simpa [rxAll, rxItems] using h2,
    exec_stable c yields (answered_stable c) ops {} (WF_idle c _ rfl) rfl,
    exec_stable c yields (replies_stable c) ops {} (WF_idle c _ rfl) rfl⟩
  have hq := (exec_inv c yields ops {} (Inv_init c)).quiet ho
  rw [← h1', pendItems_none hq]; simp [aliveReqs]

/-- **... at the instant the request is complete.**  Along any execution that leaves the connection open, the
    alive-check responses written are - one each, in order - stamped with the instants at which the requests became
    complete (`alog`: determined by the byte stream and the clock alone): zero virtual time between the last byte of a
    request and its response - in particular within the alive-check time (`aliveCheckMs`, 500 ms) - whether the client
    is idle, awaiting an acknowledgement or blocked in a read -/
theorem doip_alive_reply_times (c : Cfg) (yields : Raw → Bool) (ops : List Op)
    (hopen : (exec c yields {} ops).closed = false) :
    replies c (exec c yields {} ops).out = (alog [] 0 ops).map (fun t => (t, aliveResp c)) := by
  have := exec_reply_times c yields ops {} (Inv_init c) hopen
  simpa [replies] using this

/-- the reader's reply to one alive-check request does not depend on the client state at all: replacing it (another
    phase, mutex held or not) changes nothing in what the reader writes for that frame -/
theorem doip_alive_reply_ignores_client (c : Cfg) (s : Sys) (raw : Raw) (cl : Client) :
    (deliver c { s with client := cl } raw).out = (deliver c s raw).out ∧
    (classify raw = .alive → (deliver c s raw).out = s.out ++ [(s.now, aliveResp c)]) := by
  refine ⟨by simp [deliver_out], fun h => by simp [deliver_out, h]⟩

/-- **foreign frames.**  Frames no call ever accepts (diagnostic messages and acknowledgements of other address
    pairs, generic header negative acknowledgements) are never consumed: those still on their way are exactly the
    ones in the byte stream, in stream order - on an open connection all of them are queued or held for later reads.
    They never reach a read (`doip_reads_in_arrival_order`: what reads return are payloads of messages of the
    configured pair), and frames of unknown payload type are dropped without breaking the stream: the frames behind
    them are handled as usual (`doip_alive_always_answered`, third clause, with `unknown_types_dropped`) -/
theorem doip_foreign_preserved (c : Cfg) (yields : Raw → Bool) (ops : List Op) :
    (avail (exec c yields {} ops) ++ pendQ (exec c yields {} ops) []).filter (foreign c) =
      (qAll (pendItems [] (fedBytes ops))).filter (foreign c) ∧
    ((exec c yields {} ops).closed = false →
      (avail (exec c yields {} ops)).filter (foreign c) = (qAll (pendItems [] (fedBytes ops))).filter (foreign c)) := by
  have h := (exec_conserved c yields (foreign_conserved c) ops {} (WF_idle c _ rfl)).2 []
  have h1 : (avail (exec c yields {} ops) ++ pendQ (exec c yields {} ops) []).filter (foreign c) =
      (qAll (pendItems [] (fedBytes ops))).filter (foreign c) := by
    simpa [foreignOf, avail, held, pendQ] using h
  refine ⟨h1, fun ho => ?_⟩
  have hq := (exec_inv c yields ops {} (Inv_init c)).quiet ho
  rw [← h1]
  simp [pendQ, pendItems_none hq]

/-- **a closed connection never has a blocked call.**  In every state of every execution: when the connection is
    closed (client `close()`, acknowledgement timer, end of stream, a frame the reader task cannot unpack) no call is
    pending - a call blocked at that moment has been woken and has ended at that very instant (C08: `doip_death_wakes`);
    an open connection has parsed every complete frame; a blocked call has drained the queue -/
theorem doip_closed_never_blocks (c : Cfg) (yields : Raw → Bool) (ops : List Op) :
    ((exec c yields {} ops).closed = true → (exec c yields {} ops).client = .idle) ∧
    ((exec c yields {} ops).closed = false → cut (exec c yields {} ops).buf = none) ∧
    (∀ w sk p cl, (exec c yields {} ops).client = .waiting w sk p cl → (exec c yields {} ops).queue = []) := by
  have h := exec_inv c yields ops {} (Inv_init c)
  exact ⟨h.idleIfClosed, h.quiet, h.drained⟩

/-- **closed is final and fails fast.**  Once an execution has closed the connection, whatever follows (`more`):
    it stays closed, no call ever blocks, nothing is read from the stream, written to it or taken from the queue any
    more, and every later call ends at the instant it starts with a connection error -/
theorem doip_closed_fails_fast (c : Cfg) (yields : Raw → Bool) (ops more : List Op)
    (hc : (exec c yields {} ops).closed = true) :
    (exec c yields {} (ops ++ more)).closed = true ∧ (exec c yields {} (ops ++ more)).client = .idle ∧
    (exec c yields {} (ops ++ more)).out = (exec c yields {} ops).out ∧
    (exec c yields {} (ops ++ more)).queue = (exec c yields {} ops).queue ∧
    (exec c yields {} (ops ++ more)).tr = (exec c yields {} ops).tr ∧
    ∃ fails, (exec c yields {} (ops ++ more)).done = (exec c yields {} ops).done ++ fails ∧
      fails.map (·.w) = callsOf more ∧ ∀ e ∈ fails, e.res = .conn := by
  have hi := (exec_inv c yields ops {} (Inv_init c)).idleIfClosed hc
  rw [exec_append]
  obtain ⟨a1, a2, a3, a4, a5, _, m⟩ := closed_run c yields more _ hi hc
  exact ⟨a1, a2, a3, a4, a5, m⟩

/-- **reader death closes.**  A frame the reader task cannot unpack (wrong inverse version, payload shorter than its
    fixed fields, ...) that becomes complete on an open connection, or the end of the stream, closes the connection
    within the same event - so by `doip_closed_never_blocks` a call blocked at that moment ends at that instant, and
    by `doip_closed_fails_fast` every later call fails fast -/
theorem doip_reader_death_closes (c : Cfg) (yields : Raw → Bool) (ops : List Op) (chunk : Bytes)
    (hf : Item.fatal ∈ pendItems (exec c yields {} ops).buf chunk) :
    (exec c yields {} (ops ++ [.feed chunk])).closed = true ∧ (exec c yields {} (ops ++ [.eof])).closed = true := by
  constructor
  · rw [exec_append]
    cases ho : (exec c yields {} ops).closed with
    | true =>
      exact exec_closed c yields _ _ (exec_inv c yields ops {} (Inv_init c)) ho
    | false =>
      show (settle c yields { (exec c yields {} ops) with buf := (exec c yields {} ops).buf ++ chunk }).closed = true
      exact settle_fatal c yields _ ho (by simpa [pendItems] using hf)
  · rw [exec_append]
    show (execOp c yields (exec c yields {} ops) .eof).closed = true
    simp only [execOp]
    split
    · assumption
    · rw [clientRun_closed]

/-- what the model (and the code, see the correspondence) does with an acknowledgement that arrives after the caller
    gave up: a write with a 500 ms timeout ends with `TimeoutError` at 500 ms and leaves the connection open; its
    acknowledgement arrives at 800 ms and stays queued; the next write finds it first and completes at once - an
    acknowledgement carries nothing that ties it to one request except the optional echo.  An echo that is not a prefix
    of the new request is refused (second part). -/
theorem doip_stale_ack_serves_next_write :
    (exec ⟨0x0E00, 0x1D, 2⟩ (asyncioYields true) {}
      [.write [0x22, 0xF1, 0x90] (some 500), .advance 500, .advance 300,
       .feed (encFrame 2 (.ackPos 0x1D 0x0E00 [])), .advance 20, .write [0x3E, 0x00] none]).done =
      [⟨500, .ack [0x22, 0xF1, 0x90], .timeout⟩, ⟨820, .ack [0x3E, 0x00], .ok⟩] ∧
    (exec ⟨0x0E00, 0x1D, 2⟩ (asyncioYields true) {}
      [.write [0x22, 0xF1, 0x90] (some 500), .advance 500, .advance 300,
       .feed (encFrame 2 (.ackPos 0x1D 0x0E00 [0x22, 0xF1, 0x90])), .advance 20, .write [0x3E, 0x00] none,
       .advance 2000]).done =
      [⟨500, .ack [0x22, 0xF1, 0x90], .timeout⟩, ⟨2820, .ack [0x3E, 0x00], .conn⟩] := by
  decide +kernel

/-- non-vacuity of `doip_write_outcomes` / `doip_read_outcomes` and the shape of a whole execution: request at 0, an
    alive check, a foreign diagnostic message, the acknowledgement and the response arrive in two segments cut inside
    a header; the write completes at 340, the alive check is answered at 300 while the write holds the mutex, the
    read returns the response, the foreign frame stays queued; the continuation is safe for the reader -/
example :
    let c : Cfg := ⟨0x0E00, 0x1D, 2⟩
    let stream := header 2 ptAliveReq 0 ++ encFrame 2 (.diag 0x1E 0x0E00 [0x7F]) ++ encFrame 2 (.ackPos 0x1D 0x0E00 []) ++
      encFrame 2 (.diag 0x1D 0x0E00 [0x62, 0xF1])
    let ops : List Op := [.advance 300, .feed (stream.take 11), .advance 40, .feed (stream.drop 11), .read (some 200)]
    let S := exec c (asyncioYields true) {} (.write [0x22, 0xF1] none :: ops)
    S.done = [⟨340, .ack [0x22, 0xF1], .ok⟩, ⟨340, .diag, .msg [0x62, 0xF1]⟩] ∧
      S.queue = [.diag 0x1E 0x0E00 [0x7F]] ∧ S.out.map (·.1) = [0, 300] ∧ S.tr.length = 5 ∧
      rsafe [] ops ∧ (exec c (asyncioYields true) {} []).client = .idle ∧ S.closed = false ∧
      alog [] 0 (.write [0x22, 0xF1] none :: ops) = [300] := by
  decide +kernel

/-- an acknowledgement that arrives after the 2 s deadline: the write has ended at 2000 with a connection error, the
    connection is closed, the late acknowledgement is not even parsed, the next write fails at once -/
example :
    let c : Cfg := ⟨0x0E00, 0x1D, 2⟩
    let S := exec c (asyncioYields true) {}
      [.write [0x22, 0xF1] none, .advance 2001, .feed (encFrame 2 (.ackPos 0x1D 0x0E00 [])), .advance 9,
       .write [0x3E, 0x00] none]
    S.done = [⟨2000, .ack [0x22, 0xF1], .conn⟩, ⟨2010, .ack [0x3E, 0x00], .conn⟩] ∧ S.closed = true ∧
      S.queue = [] ∧ S.out.length = 1 := by
  decide +kernel

/-- why `queues_unbounded` is an obligation: with a read queue of capacity 2, three foreign diagnostic messages
    followed by an alive-check request, arriving while the client is idle, leave the reader task suspended in `put()`
    with the alive check unread and unanswered; the unbounded queue of the code answers it at once.  And a write that
    skipped three frames before its acknowledgement puts three frames back: more than such a queue could take
    (`put_nowait` would raise `QueueFull`). -/
theorem bounded_queue_starves_alive_check :
    let c : Cfg := ⟨0x0E00, 0x1D, 2⟩
    let burst := encFrame 2 (.diag 0x1E 0x0E00 [1]) ++ encFrame 2 (.diag 0x1E 0x0E00 [2]) ++
      encFrame 2 (.diag 0x1E 0x0E00 [3])
    (settleBounded 2 c (asyncioYields true) { buf := burst ++ header 2 ptAliveReq 0 }).out = [] ∧
    (settle c (asyncioYields true) { buf := burst ++ header 2 ptAliveReq 0 }).out = [(0, aliveResp c)] ∧
    (exec c (asyncioYields true) {} [.write [0x3E, 0x00] none, .feed (burst ++ encFrame 2 (.ackPos 0x1D 0x0E00 []))]).queue.length
      = 3 := by
  decide +kernel

end WholeExecutions

/-! ### non-vacuity -/

/-- an alive check between request and acknowledgement, a foreign diagnostic message and the response, split in
    the middle of a header: the write completes at the acknowledgement's arrival, the alive check is answered at
    its own arrival, the next read returns the response and the foreign frame stays queued -/
example :
    let c : Cfg := ⟨0x0E00, 0x1D, 2⟩
    let stream := header 2 ptAliveReq 0 ++ encFrame 2 (.diag 0x1E 0x0E00 [0x7F]) ++ encFrame 2 (.ackPos 0x1D 0x0E00 []) ++
      encFrame 2 (.diag 0x1D 0x0E00 [0x62, 0xF1])
    let w := opWrite c {} [0x22, 0xF1] 5000 [(300, stream.take 11), (340, stream.drop 11)]
    let r := opRead c w.2.2 200 []
    w.1 = .ok ∧ w.2.1 = 340 ∧ w.2.2.out.map (·.1) = [0, 300] ∧ r.1 = .msg [0x62, 0xF1] ∧
      r.2.2.queue = [.diag 0x1E 0x0E00 [0x7F]] := by
  decide +kernel

end Gallia.C06
