import Gallia.Model.Doip
import Gallia.Gen.C06Doip
namespace Gallia.C06
open Gallia Gallia.Doip

theorem tables_agree :
    Gen.C06Doip.PayloadTypes_DiagnosticMessage = ptDiag := by decide

end Gallia.C06
