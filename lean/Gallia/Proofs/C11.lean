import Gallia.Proofs.Lemmas.DbLog
import Gallia.Proofs.Lemmas.DbLogMulti
import Gallia.Proofs.Lemmas.DbTables
import Gallia.Gen.C11Tables
import Gallia.Proofs.C01
/-
  C11 — Every exchange is recorded once, in order and byte-exact, in the scan database.
  Property theorems only; helper lemmas are in `Proofs/Lemmas/DbLog.lean`.

  Shape of the argument: `specRows` is the specification (a plain fold over the history that threads the
  client-side ECU state and the clock).  The theorems of the first group say what that fold contains (one row per
  logged exchange, in order, exact bytes, pre-state, times, mode, nothing while implicit logging is off).  The
  theorems of the second group say that the concurrent system (producer, queue, single consumer, `disconnect`)
  leaves exactly `specRows` of the performed exchanges in the database — for every schedule and every
  cancellation point.
-/
namespace Gallia.C11
open Gallia Gallia.DbLog Gallia.DbTables

/-! ### what the specification fold contains -/

/-- exactly one row per exchange made while implicit logging is on — no more, no fewer -/
theorem one_row_per_logged_exchange (st : EcuState) (c : Nat) (h : List Exchange) :
    (specRows st c h).length = (h.filter (·.implicitOn)).length := by
  induction h generalizing st c with
  | nil => rfl
  | cons e es ih =>
    cases himp : e.implicitOn <;> simp [specRows, himp, ih] <;> omega

/-- in transmission order and byte-exact: request bytes, reply bytes (or NULL), exception (or NULL) and the
    implicit / emphasized mark of the i-th row are those of the i-th logged exchange -/
theorem row_bytes (st : EcuState) (c : Nat) (h : List Exchange) :
    (specRows st c h).map (fun r => (r.mode, r.req, r.resp, r.exc)) =
      (h.filter (·.implicitOn)).map
        (fun e => (if e.analyze then Mode.emphasized else Mode.implicit, e.req, e.out.response, e.out.exception)) := by
  induction h generalizing st c with
  | nil => rfl
  | cons e es ih =>
    cases himp : e.implicitOn <;> simp [specRows, himp, ih, mkRow]

/-- a reply is recorded exactly when a response object exists (returned, or carried by a mismatch / malformed
    error), an exception exactly when the call raised an `Exception`; a cancelled exchange has neither -/
theorem reply_and_exception_columns (o : Outcome) :
    (o.response.isSome ↔ (∃ r, o = .ret r) ∨ (∃ r x, o = .respExc r x)) ∧
    (o.exception.isSome ↔ (∃ r x, o = .respExc r x) ∨ (∃ x, o = .exc x)) := by
  cases o <;> simp [Outcome.response, Outcome.exception]

/-- the row of an exchange holds the client's view of the ECU state *before* that exchange: the fold of
    `update_state` over the replies of all earlier exchanges (logged or not), and its times are taken after them -/
theorem state_is_pre_state (st : EcuState) (c : Nat) (pre post : List Exchange) (e : Exchange)
    (himp : e.implicitOn = true) :
    specRows st c (pre ++ e :: post) =
      specRows st c pre ++
        mkRow (pre.foldl nextState st) (specClock c pre + e.dSend) (specClock c pre + e.dSend + e.dRecv) e ::
        specRows (nextState (pre.foldl nextState st) e) (specClock c pre + e.dSend + e.dRecv) post := by
  rw [specRows_append, ← specState_eq_foldl]
  simp [specRows, himp]

/-- the client-side state is driven by positive replies only: it can change only when the exchange carries a
    response object whose first byte is the positive response id of DiagnosticSessionControl, ECUReset,
    ReadDataByIdentifier or SecurityAccess — never on a timeout, connection error, cancellation or negative reply -/
theorem state_changes_only_on_positive_reply (st : EcuState) (e : Exchange) (hne : nextState st e ≠ st) :
    ∃ sid rest, e.out.response = some (sid :: rest) ∧ (sid = 0x50 ∨ sid = 0x51 ∨ sid = 0x62 ∨ sid = 0x67) := by
  unfold nextState at hne
  cases hr : e.out.response with
  | none => simp [hr] at hne
  | some r =>
    simp only [hr] at hne
    cases r with
    | nil => simp [updateState, classify] at hne
    | cons sid rest =>
      refine ⟨sid, rest, rfl, ?_⟩
      by_cases h1 : sid = 0x50; · exact Or.inl h1
      by_cases h2 : sid = 0x51; · exact Or.inr (Or.inl h2)
      by_cases h3 : sid = 0x62; · exact Or.inr (Or.inr (Or.inl h3))
      by_cases h4 : sid = 0x67; · exact Or.inr (Or.inr (Or.inr h4))
      exfalso; apply hne
      simp [updateState, classify, h1, h2, h3, h4]

/-- in particular a negative response never changes it -/
theorem negative_reply_keeps_state (st : EcuState) (rest : Bytes) : updateState st (0x7F :: rest) = st := by
  simp [updateState, classify]

/-- a positive DiagnosticSessionControl reply sets the session and clears the security level -/
theorem session_reply_sets_state (st : EcuState) (t : UInt8) (rest : Bytes) (ht : t.toNat ≤ 0x7F) :
    updateState st (0x50 :: t :: rest) = ⟨t.toNat, none⟩ := by
  simp [updateState, classify, dscMin, subFunctionMax, ht]

/-- reading back the active session (`22 F1 86` -> `62 F1 86 <record>`) when the reply reports the session the client
    already holds changes nothing - in particular the security level unlocked by an earlier sendKey reply is kept -/
theorem readback_same_session_keeps_state (st : EcuState) (b : UInt8) (rec : Bytes)
    (h : fromBE (b :: rec) = st.session) :
    updateState st (0x62 :: 0xF1 :: 0x86 :: b :: rec) = st := by
  have hd : fromBE [(0xF1 : UInt8), 0x86] = sessionDid := by decide
  simp [updateState, classify, rdbiMin, hd, h]

/-- ... and when it reports another session, that session is taken and the security level is dropped -/
theorem readback_other_session_resets (st : EcuState) (b : UInt8) (rec : Bytes)
    (h : fromBE (b :: rec) ≠ st.session) :
    updateState st (0x62 :: 0xF1 :: 0x86 :: b :: rec) = ⟨fromBE (b :: rec), none⟩ := by
  have hd : fromBE [(0xF1 : UInt8), 0x86] = sessionDid := by decide
  have h2 : st.session ≠ fromBE (b :: rec) := fun e => h e.symm
  simp [updateState, classify, rdbiMin, hd, h2]

/-- the history sendKey (level 1 unlocked) - session read-back reporting the same session - any further request:
    the rows of the read-back and of every request after it record the unlocked level -/
theorem level_survives_same_session_readback (st : EcuState) (c : Nat) (b : UInt8) (rec : Bytes) (e k r : Exchange)
    (hk : k.out.response = some [0x67, 0x02]) (hr : r.out.response = some (0x62 :: 0xF1 :: 0x86 :: b :: rec))
    (hs : fromBE (b :: rec) = st.session) (hki : k.implicitOn = true) (hri : r.implicitOn = true) (hei : e.implicitOn = true) :
    (specRows st c [k, r, e]).map (·.state) = [st, { st with sec := some 1 }, { st with sec := some 1 }] := by
  have h1 : nextState st k = { st with sec := some 1 } := by
    simp [nextState, hk, updateState, classify, secMin, subFunctionMax]
  have h2 : nextState { st with sec := some 1 } r = { st with sec := some 1 } := by
    simp only [nextState, hr]
    exact readback_same_session_keeps_state _ b rec hs
  simp [specRows, hki, hri, hei, mkRow, h1, h2]

example : (specRows ⟨3, none⟩ 0
    [⟨[0x27, 0x02, 0xDE], .ret [0x67, 0x02], false, true, 1, 1⟩, ⟨[0x22, 0xF1, 0x86], .ret [0x62, 0xF1, 0x86, 0x03], false, true, 1, 1⟩,
     ⟨[0x3E, 0x00], .ret [0x7E, 0x00], false, true, 1, 1⟩]).map (·.state) = [⟨3, none⟩, ⟨3, some 1⟩, ⟨3, some 1⟩] := by
  decide

/-- the request bytes of a row are the bytes on the wire, whatever they are: the request object that is logged is the
    dynamically parsed `request.pdu`, and its re-encoding is the input for *every* byte string - well-formed,
    truncated, over-long, odd-length, unknown service (rests on the round-trip gate of the dynamic parser, C01) -/
theorem stored_request_is_wire (wire : Bytes) : storedRequest wire = wire :=
  Gallia.C01.encode_decode wire

/-- both branches of the dynamic parser occur: a ReadDataByIdentifier request with a dangling byte is logged as an
    opaque raw request (and stored as sent), the well-formed one as a typed request -/
example : storedRequest [0x22, 0xF1, 0x90, 0xF1] = [0x22, 0xF1, 0x90, 0xF1] ∧
    (UdsReq.decode [0x22, 0xF1, 0x90, 0xF1]).isRaw = true ∧
    (UdsReq.decode [0x22, 0xF1, 0x90]).isRaw = false := by
  decide +kernel

/-- send time not after receive time, in every row that has a receive time -/
theorem send_le_recv (st : EcuState) (c : Nat) (h : List Exchange) :
    ∀ r ∈ specRows st c h, ∀ t, r.recvT = some t → r.sendT ≤ t := by
  induction h generalizing st c with
  | nil => simp [specRows]
  | cons e es ih =>
    intro r hr t ht
    simp only [specRows, List.mem_append] at hr
    rcases hr with hr | hr
    · split at hr
      · simp only [List.mem_singleton] at hr
        subst hr
        simp only [mkRow] at ht ⊢
        split at ht
        · simp at ht; omega
        · simp at ht
      · simp at hr
    · exact ih _ _ r hr t ht

/-- send times never decrease along the rows -/
theorem send_times_monotone (st : EcuState) (c : Nat) (h : List Exchange) :
    (specRows st c h).Pairwise (fun a b => a.sendT ≤ b.sendT) := by
  induction h generalizing st c with
  | nil => simp [specRows]
  | cons e es ih =>
    simp only [specRows]
    rw [List.pairwise_append]
    refine ⟨?_, ih _ _, ?_⟩
    · split <;> simp
    · intro a ha b hb
      have hb' := specRows_sendT_ge _ _ _ b hb
      split at ha
      · simp only [List.mem_singleton] at ha; subst ha; simp only [mkRow]; omega
      · simp at ha

/-- nothing is recorded while implicit logging is switched off ... -/
theorem nothing_when_implicit_off (st : EcuState) (c : Nat) (h : List Exchange)
    (hoff : ∀ e ∈ h, e.implicitOn = false) : specRows st c h = [] := by
  induction h generalizing st c with
  | nil => rfl
  | cons e es ih =>
    have h1 := hoff e (by simp)
    simp [specRows, h1, ih _ _ (fun x hx => hoff x (by simp [hx]))]

/-- ... while the client-side state is tracked all the same (so rows logged later still carry the right pre-state) -/
theorem state_tracked_when_off (st : EcuState) (h : List Exchange) :
    specState st (h.map fun e => { e with implicitOn := false }) = specState st h := by
  induction h generalizing st with
  | nil => rfl
  | cons e es ih => simp [specState, nextState, ih]

/-! ### the concurrent system leaves exactly these rows -/

/-- **exactly once and in order under every fault pattern, every interleaving, every cancellation point.**  Run the
    system from history `h` under *any* schedule of producer steps, consumer steps (`get`, `commit`), write failures of
    the consumer (`retry`: its `execute` raises `OperationalError`; `commitFail`: its `commit` does - any number of
    times, for any row) and a cancellation / failure of the run at any point - between two exchanges (`cancel`) or at an
    await inside one (`cancelIn`) - and then `disconnect()`: the database holds exactly the rows of the exchanges performed
    up to that point, once each, in order; and those exchanges are a prefix of `h` (followed, for `cancelIn`, by the
    interrupted exchange recorded without reply and exception). -/
theorem rows_eq_history_under_faults (h : List Exchange) (sched : List Choice) :
    afterDisconnect (exec (Sys.init h) sched) = specRows .init 0 (exec (Sys.init h) sched).done ∧
    PrefixOrCancelled h (exec (Sys.init h) sched).done := by
  refine ⟨?_, performed_prefix h sched⟩
  rw [afterDisconnect_eq]
  exact ((Inv.init h).exec sched).rows

/-- **no loss on cancellation, for every interleaving** (the schedules without write failures; corollary of
    `rows_eq_history_under_faults`, kept under its old name) -/
theorem no_loss_on_cancel (h : List Exchange) (sched : List Choice) (_hr : Choice.retry ∉ sched) :
    afterDisconnect (exec (Sys.init h) sched) = specRows .init 0 (exec (Sys.init h) sched).done ∧
    PrefixOrCancelled h (exec (Sys.init h) sched).done :=
  rows_eq_history_under_faults h sched

/-- with write failures at any point of the schedule: every performed exchange exactly once - no loss, no duplicate
    (corollary of `rows_eq_history_under_faults`, which also gives the order; kept under its old name) -/
theorem no_loss_with_retries (h : List Exchange) (sched : List Choice) :
    (afterDisconnect (exec (Sys.init h) sched)).Perm (specRows .init 0 (exec (Sys.init h) sched).done) ∧
    PrefixOrCancelled h (exec (Sys.init h) sched).done := by
  have := rows_eq_history_under_faults h sched
  exact ⟨this.1 ▸ List.Perm.refl _, this.2⟩

/-- when the producer got through the whole history - whatever the consumer did meanwhile, whichever of its writes failed
    how often - the database holds exactly one row per logged exchange of the history, in order -/
theorem rows_eq_history_any_faults (h : List Exchange) (sched : List Choice)
    (hall : (exec (Sys.init h) sched).todo = []) (hrun : (exec (Sys.init h) sched).stopped = false) :
    afterDisconnect (exec (Sys.init h) sched) = specRows .init 0 h := by
  have hp := ((Prog.init h).exec sched).1 hrun
  rw [hall, List.append_nil] at hp
  rw [(rows_eq_history_under_faults h sched).1, hp]

/-- when the producer got through the whole history (whatever the consumer did meanwhile), the database holds
    exactly one row per logged exchange of the history, in order -/
theorem rows_eq_history_any_schedule (h : List Exchange) (sched : List Choice) (_hr : Choice.retry ∉ sched)
    (hall : (exec (Sys.init h) sched).todo = []) (hrun : (exec (Sys.init h) sched).stopped = false) :
    afterDisconnect (exec (Sys.init h) sched) = specRows .init 0 h :=
  rows_eq_history_any_faults h sched hall hrun

/-- the canonical run (producer to the end, consumer idle until `disconnect`) -/
theorem rows_eq_history (h : List Exchange) : afterDisconnect (runAll h) = specRows .init 0 h := by
  have key : ∀ (s : Sys), s.stopped = false →
      (exec s (s.todo.map fun _ => Choice.prod)).todo = [] ∧ (exec s (s.todo.map fun _ => Choice.prod)).stopped = false := by
    intro s
    generalize ht : s.todo = t
    induction t generalizing s with
    | nil => intro hs; simp [exec, ht, hs]
    | cons e es ih =>
      intro hs
      simp only [List.map_cons, exec, List.foldl_cons]
      have h1 : (step s .prod).todo = es := by simp [step, hs, ht, logStep_todo]
      have h2 : (step s .prod).stopped = false := by simp [step, hs, ht, logStep_stopped]
      have := ih (step s .prod) h1 h2
      simpa [exec] using this
  have hk := key (Sys.init h) rfl
  have hs : (Sys.init h).todo = h := rfl
  rw [hs] at hk
  refine rows_eq_history_any_schedule h _ ?_ hk.1 hk.2
  simp

/-- **`join()` returns after any finite fault pattern.**  From any state of the writer with nothing in flight and a
    consistent `join()` counter: give every queued row its own number of failing `execute` attempts and failing `commit`
    attempts (`faults`, one pair per row); when the writer has worked through them the queue is empty, the counter is zero
    (`join()` returns), the table holds the old rows followed by the queued rows in queue order, once each, and the number of
    "Retrying" warnings is the number of injected failures. -/
theorem join_returns_after_finite_faults {α : Type} (w : Writer α) (hi : w.inflight = none) (hc : w.Counted)
    (faults : List (Nat × Nat)) (hl : faults.length = w.queue.length) :
    let w' := w.exec (faults.flatMap fun f => rowSched f.1 f.2)
    w'.unfinished = 0 ∧ w'.queue = [] ∧ w'.inflight = none ∧ w'.db = w.db ++ w.queue ∧
    w'.retries = w.retries + (faults.map fun f => f.1 + f.2).sum := by
  obtain ⟨h1, h2, h3, h4, h5⟩ := Writer.exec_drain w hi faults hl
  refine ⟨?_, h1, h2, h3, h5⟩
  rw [h4]
  unfold Writer.Counted at hc
  simp [hc, hi]

/-- ... and does not return while the writes keep failing (the `TODO` in `_executor_func` / `disconnect`): failed attempts
    never lower the counter `join()` waits for -/
theorem join_blocks_while_writes_fail {α : Type} (w : Writer α) (r : α) (hi : w.inflight = some r) (hc : w.Counted) (k m : Nat) :
    ((w.exec (List.replicate k .retry)).exec (List.replicate m .commitFail)).unfinished = w.unfinished ∧ 0 < w.unfinished := by
  constructor
  · rw [Writer.exec_retries w r hi k]
    rcases Nat.eq_zero_or_pos m with hm | hm
    · subst hm; simp [Writer.exec]
    · rw [Writer.exec_commitFails _ r (by simpa using hi) m hm]
  · unfold Writer.Counted at hc
    simp [hc, hi]

/-- `join()` returns (counter of unfinished tasks is zero) exactly when nothing is queued or in flight — under every
    schedule, write failures with re-queueing included -/
theorem join_waits_for_all (h : List Exchange) (sched : List Choice) :
    (exec (Sys.init h) sched).unfinished = 0 ↔
      (exec (Sys.init h) sched).queue = [] ∧ (exec (Sys.init h) sched).inflight = none := by
  have hc : Counted (exec (Sys.init h) sched) :=
    Counted.exec (by simp [Counted, Writer.Counted, Sys.init, Writer.empty]) sched
  unfold Counted Writer.Counted at hc
  rw [hc]
  cases hq : (exec (Sys.init h) sched).queue <;> cases hi : (exec (Sys.init h) sched).inflight <;> simp

/-! ### a slow database at shutdown (slow disk, file locked by another connection) -/

/-- `disconnect()` makes the whole backlog durable - the row the consumer holds and everything queued, however long that
    takes: there is no bound on the wait -/
theorem disconnect_writes_whole_backlog (s : Sys) : afterDisconnect s = s.db ++ s.backlog := by
  rw [afterDisconnect_eq]; simp [Writer.all, Sys.backlog]

/-- **a bound on the wait is safe exactly when the backlog fits into it.**  For every history, every schedule (write
    failures, cancellation points) and every budget of rows the consumer may still complete before it is cancelled: the
    table holds the rows of all performed exchanges iff the backlog at `disconnect()` is not longer than the budget.  The
    backlog is not bounded by anything the client controls (`put` never suspends, the consumer may be arbitrarily slow). -/
theorem bounded_sync_complete_iff (b : Nat) (h : List Exchange) (sched : List Choice) :
    afterBoundedDisconnect b (exec (Sys.init h) sched) = specRows .init 0 (exec (Sys.init h) sched).done ↔
      (exec (Sys.init h) sched).backlog.length ≤ b := by
  rw [← (rows_eq_history_under_faults h sched).1, disconnect_writes_whole_backlog]
  unfold afterBoundedDisconnect
  rw [List.append_right_inj, take_self_iff]

/-- **no finite bound is safe**: for every budget there is a history (the consumer did not get to run before
    `disconnect()`: the database was busy) whose rows a bounded sync loses - the unbounded `join()` of the code is what
    the property needs -/
theorem bounded_sync_loses_rows (b : Nat) (e : Exchange) (he : e.implicitOn = true) :
    afterBoundedDisconnect b (runAll (List.replicate (b + 1) e)) ≠ specRows .init 0 (List.replicate (b + 1) e) := by
  intro heq
  have hr := rows_eq_history (List.replicate (b + 1) e)
  have hl := one_row_per_logged_exchange .init 0 (List.replicate (b + 1) e)
  rw [← hr, disconnect_writes_whole_backlog] at hl
  have hd := (prods_keep_db (List.replicate (b + 1) e) (Sys.init (List.replicate (b + 1) e))).1
  have hd2 : (runAll (List.replicate (b + 1) e)).db = [] := by
    unfold runAll; rw [hd]; rfl
  rw [← hr, disconnect_writes_whole_backlog] at heq
  unfold afterBoundedDisconnect at heq
  rw [List.append_right_inj, take_self_iff] at heq
  rw [hd2] at hl
  simp [he] at hl
  omega

/-- after a `cancel` nothing the producer had not yet done leaves a trace -/
theorem nothing_after_cancel (h : List Exchange) (s1 s2 : List Choice) (hr1 : Choice.retry ∉ s1) (hr2 : Choice.retry ∉ s2) :
    afterDisconnect (exec (Sys.init h) (s1 ++ Choice.cancel :: s2)) = afterDisconnect (exec (Sys.init h) s1) := by
  have hr : Choice.retry ∉ s1 ++ Choice.cancel :: s2 := by simp [hr1, hr2]
  rw [(no_loss_on_cancel h _ hr).1, (no_loss_on_cancel h s1 hr1).1]
  congr 1
  -- the producer is stopped after `cancel`: `done` no longer changes
  have stop_done : ∀ (s : Sys) (cs : List Choice), s.stopped = true → (exec s cs).done = s.done := by
    intro s cs
    induction cs generalizing s with
    | nil => intro _; rfl
    | cons c cs ih =>
      intro hs
      have h1 : (step s c).stopped = true ∧ (step s c).done = s.done := by
        cases c <;> simp [step, hs] <;> (repeat' split) <;> simp_all
      simp only [exec, List.foldl_cons]
      have := ih (step s c) h1.1
      simp only [exec] at this
      rw [this, h1.2]
  simp only [exec, List.foldl_append, List.foldl_cons]
  have := stop_done (step (List.foldl step (Sys.init h) s1) Choice.cancel) s2 (by simp [step])
  simp only [exec] at this
  rw [this]
  simp [step]

/-! ### several producers behind the client mutex (scanner task, further scanner coroutines, cyclic tester-present task)

  `mexec (MSys.init progs) sched`: any number of tasks, each with its own program of exchanges; `sched` is *any* list of
  choices - time passing, a task entering `ECU._request`, the mutex holder's exchange ending, a cancellation delivered
  to any task in any phase (idle, waiting for the mutex, on the wire), steps and write failures of the database writer. -/

/-- **rows of several producers, every schedule.**  After `disconnect()` the table holds exactly one row per completed
    logged call, in the order in which the calls completed (= the order in which the mutex was released, see
    `completed_in_transmission_order`), each with the request / reply / exception bytes of its exchange and with the
    client-side state folded over all calls completed before it - whichever task they belonged to. -/
theorem rows_order_multi (progs : List (List Exchange)) (sched : List MChoice) :
    afterDisconnectM (mexec (MSys.init progs) sched) = callRows .init (mexec (MSys.init progs) sched).calls :=
  ((MRows.init progs).exec sched).rows

/-- **completion order = transmission order.**  The sequence of (task, request) in the order the client mutex was granted
    - the order of the exchanges on the wire - is the sequence of the completed calls that had been granted the mutex, in
    completion order, followed by the one exchange that is on the wire now (if any).  So a call never completes (and never
    writes its row) before a call that was transmitted earlier. -/
theorem completed_in_transmission_order (progs : List (List Exchange)) (sched : List MChoice) :
    (mexec (MSys.init progs) sched).wire =
      ((mexec (MSys.init progs) sched).calls.filter (·.granted)).map (fun c => (c.task, c.ex.req)) ++
        (mexec (MSys.init progs) sched).onWire :=
  ((MLock.init progs).exec sched).wire

/-- at most one task is on the wire -/
theorem mutex_exclusive (progs : List (List Exchange)) (sched : List MChoice) (i j : Nat) (ti tj : Task) (a b : Nat)
    (hi : (mexec (MSys.init progs) sched).tasks[i]? = some ti) (hpi : ti.phase = .holding a)
    (hj : (mexec (MSys.init progs) sched).tasks[j]? = some tj) (hpj : tj.phase = .holding b) : i = j := by
  have h := (MLock.init progs).exec sched
  have h1 := h.exclusive i ti a hi hpi
  have h2 := h.exclusive j tj b hj hpj
  rw [h1] at h2
  exact Option.some.inj h2

/-- **rows in transmission order.**  When every completed call was logged and none was cancelled before it got the
    mutex, the request column of the table, read in id order, followed by the request now on the wire, *is* the sequence
    of requests in the order they were transmitted. -/
theorem requests_in_transmission_order (progs : List (List Exchange)) (sched : List MChoice)
    (hall : ∀ c ∈ (mexec (MSys.init progs) sched).calls, c.ex.implicitOn = true ∧ c.granted = true) :
    (afterDisconnectM (mexec (MSys.init progs) sched)).map (·.req) ++ (mexec (MSys.init progs) sched).onWire.map (·.2) =
      (mexec (MSys.init progs) sched).wire.map (·.2) := by
  rw [rows_order_multi, completed_in_transmission_order]
  generalize (mexec (MSys.init progs) sched).calls = cs at hall
  generalize (mexec (MSys.init progs) sched).onWire = ow
  have key : ∀ (st : EcuState) (cs : List Call), (∀ c ∈ cs, c.ex.implicitOn = true ∧ c.granted = true) →
      (callRows st cs).map (·.req) = ((cs.filter (·.granted)).map (fun c => (c.task, c.ex.req))).map (·.2) := by
    intro st cs
    induction cs generalizing st with
    | nil => intro _; rfl
    | cons c cs ih =>
      intro h
      have hc := h c (by simp)
      have := ih (nextState st c.ex) (fun c' h' => h c' (by simp [h']))
      simp [callRows, hc.1, hc.2, this, mkRow]
  simp [key _ cs hall]

/-- the row of a call holds the client's view of the ECU state before that call: `update_state` folded over the replies
    of all calls - of every task - completed before it -/
theorem multi_state_is_pre_state (st : EcuState) (pre post : List Call) (c : Call) (himp : c.ex.implicitOn = true) :
    callRows st (pre ++ c :: post) =
      callRows st pre ++ mkRow (callState st pre) c.sendT c.doneT c.ex ::
        callRows (nextState (callState st pre) c.ex) post := by
  rw [callRows_append]
  simp [callRows, himp]

/-- send time not after receive time in every row, whatever the interleaving (the send time is taken before the task
    queues on the mutex, the receive time when its exchange ends) -/
theorem multi_send_le_recv (progs : List (List Exchange)) (sched : List MChoice) :
    ∀ r ∈ afterDisconnectM (mexec (MSys.init progs) sched), ∀ t, r.recvT = some t → r.sendT ≤ t := by
  rw [rows_order_multi]
  exact callRows_times _ _ ((MTime.init progs).exec sched).calls

/-- **the single-producer system is the one-task instance.**  Every schedule of the single-producer system of the first
    part (`exec`, one scanner task) is a schedule of the several-producer system with one task (`embedSched`: a producer
    step becomes "time passes, the task enters `ECU._request`, time passes, its exchange ends"); writer, client-side state,
    clock and the performed exchanges coincide. -/
theorem single_producer_is_instance (h : List Exchange) (sched : List Choice) :
    (mexec (MSys.init [h]) (embedSched (Sys.init h) sched)).toWriter = (exec (Sys.init h) sched).toWriter ∧
    (mexec (MSys.init [h]) (embedSched (Sys.init h) sched)).ecu = (exec (Sys.init h) sched).ecu ∧
    (mexec (MSys.init [h]) (embedSched (Sys.init h) sched)).clock = (exec (Sys.init h) sched).clock ∧
    (mexec (MSys.init [h]) (embedSched (Sys.init h) sched)).calls.map (·.ex) = (exec (Sys.init h) sched).done := by
  have := (Sim.init h).exec sched
  exact ⟨this.writer, this.ecu, this.clock, this.calls⟩

/-- hence the rows the single producer leaves are those `rows_order_multi` gives for the one-task system: the old
    `rows_eq_history_under_faults` is the single-producer case of the several-producer theorem -/
theorem single_producer_rows_from_multi (h : List Exchange) (sched : List Choice) :
    afterDisconnect (exec (Sys.init h) sched) =
      callRows .init (mexec (MSys.init [h]) (embedSched (Sys.init h) sched)).calls := by
  rw [afterDisconnect_eq, ← (single_producer_is_instance h sched).1]
  exact rows_order_multi [h] _

/-- a task cancelled while it *waits* for the mutex leaves a row without reply and exception (its `finally` runs), although
    its request was never transmitted: the call is in `calls` with `granted = false` and not in `wire` -/
theorem cancelled_waiter_row (s : MSys) (i : Nat) (t : Task) (t0 : Nat) (e : Exchange) (rest : List Exchange)
    (ht : s.tasks[i]? = some t) (hs : t.stopped = false) (hp : t.phase = .waiting t0) (htd : t.todo = e :: rest) :
    (mstep s (.cancelTask i)).calls = s.calls ++ [⟨i, { e with out := .cancelled }, t0, s.clock, false⟩] ∧
    (mstep s (.cancelTask i)).wire = s.wire ∧
    (mstep s (.cancelTask i)).toWriter.all =
      s.toWriter.all ++ (if e.implicitOn then [mkRow s.ecu t0 s.clock { e with out := .cancelled }] else []) := by
  simp only [mstep, ht, hs, hp, htd]
  refine ⟨by simp [logCall_calls], by simp [logCall_wire], ?_⟩
  simp [logCall_all]

/-! ### the other tables of the run: run_meta, address, scan_run, discovery_*, session_transition

  `texec (TSys.init db prog) sched`: `db` is whatever earlier runs left in the file (any database whose keys resolve),
  `prog` *any* sequence of `DBHandler` API calls - in lifecycle order or not, prerequisites missing or not - and `sched` any
  interleaving of the run task's awaited steps, a cancellation delivered at any of them (the statement already handed to the
  connection thread is still executed, the Python-side assignment is not), and the writer task's steps and write failures. -/

/-- **referential integrity, every program, every schedule, every cancellation point.**  After `disconnect()` - and also in
    what is durable at any moment (what another reader of the file sees, and all that is left when `disconnect()` itself is
    interrupted) - every `scan_result.run` exists in `scan_run`, every `scan_run.meta` in `run_meta`, every
    `scan_run.address` in `address`, every `session_transition.run` in `scan_run`, every `discovery_run.meta` in `run_meta`,
    every `discovery_result.run` / `.address` in `discovery_run` / `address`. -/
theorem foreign_keys_resolve (db : Tables) (hdb : db.fkOk) (prog : List Op) (sched : List TChoice) :
    (afterDisconnectT (texec (TSys.init db prog) sched)).fkOk ∧
    (afterInterruptedDisconnectT (texec (TSys.init db prog) sched)).fkOk := by
  have hi := (TInv.init db prog hdb).exec sched
  refine ⟨?_, hi.fkCom⟩
  unfold afterDisconnectT
  apply appendResults_fk _ _ hi.fkTxn
  intro x hx
  unfold TSys.pending at hx
  simp only [List.mem_append] at hx
  rcases hx with hx | hx
  · split at hx
    · next r hr he => simp at hx; subst hx; exact hi.inflight _ hr
    · simp at hx
  · exact hi.queue x hx

/-- the same spelled out for the three references the replay of C12 joins over -/
theorem scan_result_references_resolve (db : Tables) (hdb : db.fkOk) (prog : List Op) (sched : List TChoice) :
    let t := afterDisconnectT (texec (TSys.init db prog) sched)
    (∀ r ∈ t.scanResult, r.2.1 ∈ t.scanRun.map (·.1)) ∧ (∀ r ∈ t.scanRun, r.2.2 ∈ t.runMeta) ∧
    (∀ r ∈ t.sessionTransition, r.1 ∈ t.scanRun.map (·.1)) := by
  have h := (foreign_keys_resolve db hdb prog sched).1
  exact ⟨h.2.2.2.1, fun r hr => (h.1 r hr).1, h.2.2.2.2⟩

/-- the writer task never meets a constraint violation (which it would not survive: "Database worker died", every later
    row lost): the scan run a queued row refers to was inserted before the row was queued and nothing is ever deleted -/
theorem writer_never_dies (db : Tables) (hdb : db.fkOk) (prog : List Op) (sched : List TChoice) :
    (texec (TSys.init db prog) sched).writerDead = false :=
  ((TInv.init db prog hdb).exec sched).alive

/-- ids are unique in every table (and `address.url` is), whatever earlier runs left in the file -/
theorem primary_keys_unique (db : Tables) (hdb : db.keysOk) (prog : List Op) (sched : List TChoice) :
    (afterDisconnectT (texec (TSys.init db prog) sched)).keysOk ∧
    (afterInterruptedDisconnectT (texec (TSys.init db prog) sched)).keysOk := by
  have hi := (KInv.init db prog hdb).exec sched
  exact ⟨appendResults_keys _ _ hi.txn, hi.committed⟩

/-- **the tables after `disconnect()` depend only on what the run task did.**  Two schedules that agree on the run task's
    choices (its awaited steps and where it was cancelled) - however the writer task's steps and write failures are
    interleaved with them in either - leave exactly the same tables: same rows, same ids, same references, in every table.
    (This is what lets the correspondence run compare the real tables with the model under an arbitrary schedule.) -/
theorem tables_independent_of_writer_schedule (db : Tables) (hdb : db.fkOk) (prog : List Op) (s1 s2 : List TChoice)
    (h : s1.filter TChoice.isRunTask = s2.filter TChoice.isRunTask) :
    afterDisconnectT (texec (TSys.init db prog) s1) = afterDisconnectT (texec (TSys.init db prog) s2) := by
  have hi := TInv.init db prog hdb
  have e1 := (TEq.refl (TSys.init db prog)).exec hi s1
  have e2 := (TEq.refl (TSys.init db prog)).exec hi s2
  rw [h] at e1
  exact (e1.trans e2.symm).afterDisconnect

/-- in particular: the scan_result table after `disconnect()` is what it would be had the writer never run before
    (every accepted row appended in call order with consecutive ids), whatever it actually did and however often it failed -/
theorem scan_results_as_if_written_at_disconnect (db : Tables) (hdb : db.fkOk) (prog : List Op) (sched : List TChoice) :
    afterDisconnectT (texec (TSys.init db prog) sched) =
      afterDisconnectT (texec (TSys.init db prog) (sched.filter TChoice.isRunTask)) :=
  tables_independent_of_writer_schedule db hdb prog sched _ (by simp [List.filter_filter])

/-- a new id is larger than every id already in the table (sqlite's rowid rule), so it never collides with a row of an
    earlier run -/
theorem new_id_is_fresh (ids : List Nat) : nextId ids ∉ ids ∧ ∀ x ∈ ids, x < nextId ids :=
  ⟨nextId_not_mem ids, lt_nextId ids⟩

/-! ### the scanner-level switch decides what is recorded

  `nothing_when_implicit_off` above speaks of `ECU.implicit_logging` at the moment of a request.  What the user of a scanner
  switches is `UDSScanner.implicit_logging` - possibly in the constructor, before the database handler and the ECU object
  exist.  These theorems say that, in the lifecycle as coded, the two agree at every request. -/

/-- **the ECU object follows the scanner-level switch.**  Whatever the scanner assigns in its constructor (`pre`) and
    between the opening of the database and `setup()` (`mid`): once `setup()` has created the ECU object and applied the stored
    value, every later request - in any order with further assignments and applications - is recorded exactly when the
    scanner-level switch is on at that moment. -/
theorem scanner_switch_governs_recording (pre mid rest : List LEvent)
    (hpre : ∀ e ∈ pre, ∃ v, e = .set v) (hmid : ∀ e ∈ mid, ∃ v, e = .set v) (hrest : LEvent.createEcu ∉ rest) :
    ∀ p ∈ flagsAt Flag.init (pre ++ [.openDb] ++ mid ++ [.createEcu, .apply] ++ rest), p.1 = p.2 := by
  intro p hp
  rw [flagsAt_append, flagsAt_append, flagsAt_append, flagsAt_append] at hp
  have h1 := sets_only Flag.init pre hpre
  have h2 := sets_only ((Flag.init.run pre).run [.openDb]) mid hmid
  simp only [h1.1, List.nil_append] at hp
  have hdb : (((Flag.init.run pre).run [.openDb]).run mid).db = true :=
    h2.2.1.trans (by simp [Flag.run, Flag.step])
  have hecu0 : (Flag.init.run pre).ecu = none := h1.2.2 rfl
  have hecu : (((Flag.init.run pre).run [.openDb]).run mid).ecu = none :=
    h2.2.2 (by simpa [Flag.run, Flag.step] using hecu0)
  have hsync : ((((Flag.init.run pre).run [.openDb]).run mid).run [.createEcu, .apply]).Synced := by
    show (((((Flag.init.run pre).run [.openDb]).run mid).step .createEcu).step .apply).Synced
    exact ⟨by simpa [Flag.step] using hdb, by simp [Flag.step]⟩
  have hx : Flag.init.run (pre ++ [.openDb] ++ mid ++ [.createEcu, .apply]) =
      (((Flag.init.run pre).run [.openDb]).run mid).run [.createEcu, .apply] := by
    simp [Flag.run, List.foldl_append]
  have hy : Flag.init.run (pre ++ [.openDb] ++ mid) = ((Flag.init.run pre).run [.openDb]).run mid := by
    simp [Flag.run, List.foldl_append]
  have hz : Flag.init.run (pre ++ [.openDb]) = (Flag.init.run pre).run [.openDb] := by
    simp [Flag.run, List.foldl_append]
  rw [hx, hy, hz, h2.1] at hp
  simp only [flagsAt, List.nil_append, List.append_nil] at hp
  exact flagsAt_synced _ hsync rest hrest p hp

/-- **`setup()` of the working tree applies the switch before its first request.**  With the statement order of
    `UDSScanner.setup()` regenerated from the AST: whatever the scanner assigned before (`pre` in its constructor, `mid`
    after the database was opened), every request made by `setup()` itself (ecu_reset, the `wait_for_ecu` pings, the
    tester-present task, the property reads) and every request of `main()` / `teardown()` afterwards (`rest`) is recorded
    exactly when the scanner-level switch is on.  In particular a scanner that switches implicit logging off in its
    constructor records nothing. -/
theorem setup_requests_follow_switch (pre mid rest : List LEvent)
    (hpre : ∀ e ∈ pre, ∃ v, e = .set v) (hmid : ∀ e ∈ mid, ∃ v, e = .set v) (hrest : LEvent.createEcu ∉ rest) :
    ∀ p ∈ flagsAt Flag.init (pre ++ [.openDb] ++ mid ++ tokenEvents Gen.C11Tables.setupEvents ++ rest), p.1 = p.2 := by
  intro p hp
  have hok : appliedBeforeRequest Gen.C11Tables.setupEvents = true := by decide
  rw [flagsAt_append, flagsAt_append, flagsAt_append, flagsAt_append] at hp
  have h1 := sets_only Flag.init pre hpre
  have h2 := sets_only ((Flag.init.run pre).run [.openDb]) mid hmid
  have hdb : (((Flag.init.run pre).run [.openDb]).run mid).db = true :=
    h2.2.1.trans (by simp [Flag.run, Flag.step])
  have hecu0 : (Flag.init.run pre).ecu = none := h1.2.2 rfl
  have hecu : (((Flag.init.run pre).run [.openDb]).run mid).ecu = none :=
    h2.2.2 (by simpa [Flag.run, Flag.step] using hecu0)
  have hy : Flag.init.run (pre ++ [.openDb] ++ mid) = ((Flag.init.run pre).run [.openDb]).run mid := by
    simp [Flag.run, List.foldl_append]
  have hz : Flag.init.run (pre ++ [.openDb]) = (Flag.init.run pre).run [.openDb] := by
    simp [Flag.run, List.foldl_append]
  have hx : Flag.init.run (pre ++ [.openDb] ++ mid ++ tokenEvents Gen.C11Tables.setupEvents) =
      (((Flag.init.run pre).run [.openDb]).run mid).run (tokenEvents Gen.C11Tables.setupEvents) := by
    simp [Flag.run, List.foldl_append]
  have hs := applied_tokens _ hok _ hdb hecu
  rw [hx, hy, hz, h1.1, h2.1] at hp
  simp only [flagsAt, List.nil_append, List.mem_append] at hp
  rcases hp with hp | hp
  · exact hs.1 p hp
  · exact flagsAt_synced _ hs.2 rest hrest p hp

/-- the setter, `_apply_implicit_logging_setting`, the default of the ECU object and the order inside `entry_point()` of the
    working tree are the modelled ones (`Flag.step`) -/
theorem switch_anchors :
    Gen.C11Tables.setterBody =
      ["self._implicit_logging = value", "if self.db_handler is not None:  self._apply_implicit_logging_setting()"] ∧
    Gen.C11Tables.applyBody = ["self.ecu.implicit_logging = self._implicit_logging"] ∧
    Gen.C11Tables.ecuFlagDefault = "True" ∧
    Gen.C11Tables.entryPointOrder = ["self._db_insert_run_meta", "self.run", "self._db_finish_run_meta"] := by decide

/-! ### tables regenerated from the working tree -/

/-- the limits the model's `classify` uses are those of the live response classes -/
theorem tables_agree :
    Gen.C11Tables.dscLimits = (0x50, dscMin, none) ∧
    Gen.C11Tables.resetLimits = (0x51, resetMin, some resetMax) ∧
    Gen.C11Tables.secLimits = (0x67, secMin, none) ∧
    Gen.C11Tables.rdbiLimits = (0x62, rdbiMin, none) ∧
    Gen.C11Tables.sessionDid = sessionDid ∧
    Gen.C11Tables.subFunctionMax = subFunctionMax := by decide

/-- anchors of `ECU._request` / `insert_scan_result` in the working tree: the row is written in the `finally`,
    before `update_state`, guarded by the implicit-logging switch, `ANALYZE` selects `emphasized`; the except ladder
    and the column list are the modelled ones -/
theorem anchors_hold :
    Gen.C11Tables.logInFinally = true ∧ Gen.C11Tables.logBeforeUpdateState = true ∧
    Gen.C11Tables.guardedByImplicitSwitch = true ∧ Gen.C11Tables.analyzeSelectsEmphasized = true ∧
    Gen.C11Tables.exceptLadder = ["ResponseException", "Exception"] ∧
    Gen.C11Tables.logModes = ["implicit", "explicit", "emphasized"] ∧
    Gen.C11Tables.insertColumns = ["run", "state", "request_pdu", "request_time", "request_timezone", "request_data",
      "response_pdu", "response_time", "response_timezone", "response_data", "exception", "log_mode"] := by decide

/-- the write queue of the working tree is unbounded and its `put` is the only await of `insert_scan_result`: the
    `finally` of `ECU._request` has no suspension point before the row is queued (what `Choice.prod` models) -/
theorem queue_unbounded :
    Gen.C11Tables.queueMaxsize = 0 ∧ Gen.C11Tables.insertAwaits = ["self._execute_queue.put"] := by decide

/-- the `finally` of `ECU._request` awaits nothing but `insert_scan_result` (whose only await is the non-suspending `put`, see
    `queue_unbounded`) and `update_state` (which awaits nothing); the `try` body awaits nothing but the inner `_request`, which
    is exactly `async with self.mutex: return await self.request_unsafe(...)` on an `asyncio.Lock`; the send time is taken
    before: "exchange ends, mutex released, row queued, state updated" is one step of the task (`MChoice.finish`) -/
theorem finally_is_atomic :
    Gen.C11Tables.tryAwaits = ["super()._request"] ∧
    Gen.C11Tables.finallyAwaits = ["self.db_handler.insert_scan_result", "self.update_state"] ∧
    Gen.C11Tables.updateStateAwaits = [] ∧ Gen.C11Tables.sendTimeBeforeTry = true ∧
    Gen.C11Tables.requestUnderMutex = true ∧ Gen.C11Tables.mutexIsAsyncioLock = true := by decide

/-- the writer task of the working tree is the modelled one: it awaits `get`, `execute`, `commit` in this order; on
    `OperationalError` it only logs and repeats in place (inside a `while True` left by `break` after the commit, no `put`
    back into the queue); the `execute` is skipped once it has succeeded; `task_done()` sits in the `finally` of the per-row
    `try`; `disconnect()` is `join`, cancel and await the writer, `commit`, `close` -/
theorem writer_retries_in_place :
    Gen.C11Tables.writerAwaits = ["self._execute_queue.get", "self.connection.execute", "self.connection.commit"] ∧
    Gen.C11Tables.writerOnOperationalError = ["logger.warning"] ∧ Gen.C11Tables.writerRetriesInPlace = true ∧
    Gen.C11Tables.writerExecuteGuard = "not executed / execute; executed = True" ∧ Gen.C11Tables.writerTaskDoneInFinally = true ∧
    Gen.C11Tables.disconnectAwaits =
      ["self._execute_queue.join", "self._executor_task", "self.connection.commit", "self.connection.close"] := by decide

/-- the foreign keys of the live `DB_SCHEMA` (read back from sqlite) are the modelled ones (`Tables.fkOk`), plus two of tables
    the handler never writes (`ecu`, `error_log`); `connect()` switches their enforcement on -/
theorem schema_keys_agree :
    Gen.C11Tables.foreignKeys =
      [ ("address", "ecu", "ecu", "id", false),
        ("discovery_result", "address", "address", "id", true), ("discovery_result", "run", "discovery_run", "id", true),
        ("discovery_run", "meta", "run_meta", "id", false),
        ("error_log", "meta", "run_meta", "id", true),
        ("scan_result", "run", "scan_run", "id", true),
        ("scan_run", "address", "address", "id", false), ("scan_run", "meta", "run_meta", "id", false),
        ("session_transition", "run", "scan_run", "id", true) ] ∧
    Gen.C11Tables.uniqueColumns = [("address", "url"), ("version", "schema")] ∧
    "PRAGMA foreign_keys = 1" ∈ Gen.C11Tables.connectPragmas := by decide

/-- the API calls of the working tree are the modelled ones (`Op.micros`, `Micro.stmt`, `Micro.assign`): assertions, awaited
    statements, assignments from `lastrowid` and commits in this order; `insert_session_transition` does not commit;
    the queued row and the session_transition row take their run from `self.scan_run` -/
theorem api_steps_agree :
    Gen.C11Tables.apiSteps =
      [ ("insert_run_meta", ["assert:connection", "execute:INSERT:run_meta", "set:meta=lastrowid", "commit"]),
        ("complete_run_meta", ["assert:connection", "assert:meta", "execute:UPDATE:run_meta", "commit"]),
        ("insert_scan_run", ["assert:connection", "assert:meta", "execute:INSERT-OR-IGNORE:address", "execute:INSERT:scan_run",
                             "set:scan_run=lastrowid", "set:target=target", "commit"]),
        ("insert_scan_run_properties_pre", ["assert:connection", "assert:scan_run", "execute:UPDATE:scan_run", "commit"]),
        ("complete_scan_run", ["assert:connection", "assert:scan_run", "execute:UPDATE:scan_run", "commit"]),
        ("insert_discovery_run", ["assert:connection", "assert:meta", "execute:INSERT:discovery_run",
                                  "set:discovery_run=lastrowid", "commit"]),
        ("insert_discovery_result", ["assert:connection", "assert:discovery_run", "execute:INSERT-OR-IGNORE:address",
                                     "execute:INSERT:discovery_result", "commit"]),
        ("insert_scan_result", ["assert:connection", "assert:_execute_queue", "assert:scan_run", "put"]),
        ("insert_session_transition", ["assert:connection", "execute:INSERT:session_transition"]) ] ∧
    Gen.C11Tables.scanResultRunColumn = "self.scan_run" ∧ Gen.C11Tables.sessionTransitionRunColumn = "self.scan_run" := by
  decide

/-- with the unbounded queue `put` never finds the queue full, in any reachable or unreachable state ... -/
theorem put_never_suspends (s : Sys) : queueFull Gen.C11Tables.queueMaxsize s = false := by
  simp [queueFull, queue_unbounded.1]

/-- ... hence a cancellation requested during an exchange cannot overtake that exchange's row: after the exchange the
    row is queued exactly as by an undisturbed producer step -/
theorem cancel_cannot_overtake_row (s : Sys) (e : Exchange) (rest : List Exchange) (hs : s.stopped = false)
    (ht : s.todo = e :: rest) :
    cancelAtPut Gen.C11Tables.queueMaxsize s = { logStep { s with todo := [] } e with stopped := true } := by
  simp [cancelAtPut, hs, ht, put_never_suspends]

/-- every attribute of every request / response kind maps to JSON (so no row is dropped for its content) -/
theorem attrs_json_total : ∀ e ∈ Gen.C11Tables.attrShapes, e.2.2.attrOk = true := by decide +kernel

/-! ### the hypotheses are satisfiable / the statements are not vacuous -/

private def ex1 : Exchange := ⟨[0x10, 0x03], .ret [0x50, 0x03], false, true, 1, 2⟩
private def ex2 : Exchange := ⟨[0x22, 0xF1, 0x90], .exc [0x4D], true, true, 1, 1⟩
private def ex3 : Exchange := ⟨[0x27, 0x01], .ret [0x67, 0x02], false, false, 0, 1⟩
private def ex4 : Exchange := ⟨[0x3E, 0x00], .respExc [0x7E] [0x4D], false, true, 2, 2⟩

example :
    afterDisconnect (exec (Sys.init [ex1, ex2, ex3, ex4]) [.prod, .get, .prod, .commit, .get, .prod, .cancelIn, .prod]) =
      [ ⟨.implicit, ⟨1, none⟩, [0x10, 0x03], 1, some [0x50, 0x03], some 3, none⟩,
        ⟨.emphasized, ⟨3, none⟩, [0x22, 0xF1, 0x90], 4, none, none, some [0x4D]⟩,
        ⟨.implicit, ⟨3, some 1⟩, [0x3E, 0x00], 8, none, none, none⟩ ] := by decide

/-- a slow database: the consumer committed one row and holds the second when `disconnect()` is called; the unbounded
    sync leaves all three rows, a sync bounded to one more row loses the third, a budget of two suffices -/
example :
    let s := exec (Sys.init [ex1, ex2, ex4]) [.prod, .prod, .get, .commit, .prod, .get]
    s.backlog.length = 2 ∧ afterDisconnect s = specRows .init 0 [ex1, ex2, ex4] ∧
    afterBoundedDisconnect 1 s ≠ specRows .init 0 [ex1, ex2, ex4] ∧
    afterBoundedDisconnect 2 s = specRows .init 0 [ex1, ex2, ex4] := by decide

/-- write failures leave the order alone: the second row's `execute` fails twice, then its `commit` once -/
example :
    afterDisconnect (exec (Sys.init [ex1, ex2, ex4]) [.prod, .prod, .get, .commit, .prod, .get, .retry, .retry, .commitFail]) =
      specRows .init 0 [ex1, ex2, ex4] ∧
    (exec (Sys.init [ex1, ex2, ex4]) [.prod, .prod, .get, .commit, .prod, .get, .retry, .retry, .commitFail]).retries = 3 := by
  decide

/-- why the repair of the writer was needed (`Writer.legacyStep` is the consumer before the `fix:` commits): a failed
    `execute` re-queued the row at the tail, behind the row of a later exchange ... -/
example :
    let w := (((Writer.empty.put 1).put 2).step .get).legacyStep .retry
    w.all = [2, 1] := by decide

/-- ... and a row whose `commit` had failed was executed a second time: it is in the table twice -/
example :
    let w := ((((Writer.empty.put 1).put 2).step .get).legacyStep .commitFail)
    w.all = [1, 2, 1] := by decide

/-- a cancellation that hits `disconnect()` itself while it waits for the queue is *not* covered by
    `no_loss_on_cancel`: the model of that path loses the queued rows (known finding `c11:rows-lost:at=cancel-join`) -/
example : afterInterruptedDisconnect (runAll [ex1, ex2]) ≠ specRows .init 0 [ex1, ex2] := by decide

/-- why `queue_unbounded` is an obligation: with a bounded queue (here capacity 1) a cancellation delivered while
    `put` is suspended loses the row of a completely performed exchange -/
example :
    afterDisconnect (cancelAtPut 1 (exec (Sys.init [ex1, ex4]) [.prod])) ≠ specRows .init 0 [ex1, ex4] ∧
    (cancelAtPut 1 (exec (Sys.init [ex1, ex4]) [.prod])).done = [ex1, ex4] := by decide

/-! #### several producers: witnesses -/

private def mx1 : Exchange := ⟨[0x10, 0x03], .ret [0x50, 0x03], false, true, 0, 0⟩
private def mx2 : Exchange := ⟨[0x3E, 0x00], .ret [0x7E, 0x00], false, true, 0, 0⟩
private def mx3 : Exchange := ⟨[0x22, 0xF1, 0x90], .ret [0x62, 0xF1, 0x90, 0x01], true, true, 0, 0⟩

/-- three tasks: the scanner (task 0) is on the wire, the tester-present task (1) and a second scanner (2) queue behind it;
    the tester-present task is cancelled while it waits; a write fails twice.  Rows in completion order, the state column of
    the last row is the session set by the first exchange. -/
example :
    let s := mexec (MSys.init [[mx1], [mx2], [mx3]])
      [.tick 1, .call 0, .call 1, .call 2, .tick 2, .cancelTask 1, .finish 0, .w .get, .w .retry, .w .commitFail, .tick 1, .finish 2]
    afterDisconnectM s =
      [ ⟨.implicit, ⟨1, none⟩, [0x3E, 0x00], 1, none, none, none⟩,
        ⟨.implicit, ⟨1, none⟩, [0x10, 0x03], 1, some [0x50, 0x03], some 3, none⟩,
        ⟨.emphasized, ⟨3, none⟩, [0x22, 0xF1, 0x90], 1, some [0x62, 0xF1, 0x90, 0x01], some 4, none⟩ ] ∧
    s.wire = [(0, [0x10, 0x03]), (2, [0x22, 0xF1, 0x90])] ∧ s.retries = 2 := by decide

/-- the hypotheses of `requests_in_transmission_order` are satisfiable by a run with contention -/
example :
    let s := mexec (MSys.init [[mx1, mx3], [mx2]]) [.call 0, .call 1, .finish 0, .call 0, .finish 1]
    (∀ c ∈ s.calls, c.ex.implicitOn = true ∧ c.granted = true) ∧ s.calls.length = 2 ∧ s.onWire = [(0, [0x22, 0xF1, 0x90])] := by
  decide

/-- **why nothing may suspend between the release of the mutex and the `put`** (obligation `finally_is_atomic` below): if
    task 0 were suspended there while task 1 - already queued on the mutex - transmits and completes, the rows would be in
    the order 1, 0 although the wire saw 0, 1 -/
example :
    let s := finishWithGap (mexec (MSys.init [[mx1], [mx2]]) [.call 0, .call 1]) 0 [.finish 1]
    s.wire = [(0, [0x10, 0x03]), (1, [0x3E, 0x00])] ∧
    (afterDisconnectM s).map (·.req) = [[0x3E, 0x00], [0x10, 0x03]] := by decide

/-! #### the scanner-level switch: witnesses -/

/-- switched off in the constructor, on again in `main()` after two requests: (used, asked for) per request -/
example :
    flagsAt Flag.init ([.set false] ++ [.openDb] ++ [] ++ [.createEcu, .apply] ++ [.request, .request, .set true, .request]) =
      [(false, false), (false, false), (true, true)] := by decide

/-- why `setup()` has to apply the stored value before its first request: without it the ECU object still has its own
    default when `setup()` sends its requests - they are recorded although the scanner had switched logging off -/
example :
    flagsAt Flag.init ([.set false, .openDb] ++ tokenEvents ["create-ecu", "insert_scan_run", "request", "request", "apply"]) =
      [(true, false), (true, false)] ∧
    appliedBeforeRequest ["create-ecu", "insert_scan_run", "request", "request", "apply"] = false := by decide

/-! #### the other tables: witnesses -/

/-- a lifecycle in order, on a file that already holds an earlier run (ids go on from there, the address row is reused);
    the writer's `execute` fails once, then its `commit`; the run is cancelled before `complete_run_meta`.  `disconnect()`
    writes the two queued rows and commits the session transition; an interrupted `disconnect()` leaves what the last
    commit of the run task had made durable. -/
example :
    let db : Tables := ⟨[1], [(1, 7)], [(1, some 1, 1)], [], [], [(1, 1, 100)], [(1, 2)]⟩
    let s := texec (TSys.init db [.runMeta, .scanRun 7, .scanResult 200, .sessionTransition 3, .scanResult 201, .completeRunMeta])
      [.run, .run, .run, .run, .run, .run, .run, .run, .run, .get, .execFail, .execOk, .commitFail, .run, .run, .run, .run, .cancel]
    db.fkOk ∧ db.keysOk ∧
    afterDisconnectT s = ⟨[1, 2], [(1, 7)], [(1, some 1, 1), (2, some 1, 2)], [], [], [(1, 1, 100), (2, 2, 200), (3, 2, 201)], [(1, 2), (2, 3)]⟩ ∧
    afterInterruptedDisconnectT s = ⟨[1, 2], [(1, 7)], [(1, some 1, 1), (2, some 1, 2)], [], [], [(1, 1, 100)], [(1, 2)]⟩ := by
  refine ⟨?_, ?_, by decide, by decide⟩
  · simp [Tables.fkOk, Tables.addressIds, Tables.scanRunIds, Tables.discoveryRunIds]
  · simp [Tables.keysOk, Tables.addressIds, Tables.scanRunIds, Tables.discoveryRunIds, Tables.discoveryResultIds, Tables.scanResultIds]

/-- API calls whose prerequisite is missing are refused and leave nothing dangling: a session transition and a scan result
    before any scan run, a scan run before the run meta -/
example :
    let s := texec (TSys.init Tables.empty [.sessionTransition 3, .scanResult 1, .scanRun 7, .runMeta, .scanRun 7, .scanResult 2])
      (List.replicate 14 .run)
    afterDisconnectT s = ⟨[1], [(1, 7)], [(1, some 1, 1)], [], [], [(1, 1, 2)], []⟩ ∧ s.refused = 3 := by decide

end Gallia.C11
