import Gallia.Model.Penlog
import Gallia.Gen.C17Levels
/-
  C17 — Log records written by a run are read back exactly, in any navigation mode.
-/
namespace Gallia.C17
open Gallia Gallia.Penlog

/-- (T) the live `PenlogPriority.from_level` agrees with the model on every level value 0..63 -/
theorem from_level_agrees : Gen.C17Levels.fromLevel = (List.range 64).map fromLevel := by decide

end Gallia.C17
