import Gallia.Proofs.Lemmas.PenlogNav
import Gallia.Proofs.Lemmas.PenlogWriter
import Gallia.Proofs.Lemmas.PenlogArgs
import Gallia.Gen.C17Levels
import Gallia.Gen.C17Hr
import Gallia.Model.PenlogGate
/-
  C17 — Log records written by a run are read back exactly, in any navigation mode.
  Property theorems only; helper lemmas are in `Proofs/Lemmas/Penlog{Str,Line,Nav}.lean`.

  `fileOf pfx rs` is the decompressed log file for the logged records `rs` (`pfx`: with / without the `<prio>`
  prefix); `records file mode p` reads it back through the offset table (`seek` + `readline` + parse) in a
  navigation mode with priority threshold `p`.  All theorems hold for every list of records whose text fields
  are `okText` (`Rec.WF`) — any length, any levels, any valid Unicode text (`wf_of_scalar`), and even Python
  strings with lone surrogates as long as no high surrogate is directly followed by a low one.

  Second part (from `### the record schema` on): the schema on either side of `Rec` (`Model/PenlogSchema.lean`:
  `LogRec` -> `QueueHandler.prepare` -> `_JSONFormatter.format` -> line -> `PenlogRecord.parse_json`, with the
  timestamp through `isoformat` / `fromisoformat`), the `hr` command line (`Model/PenlogHr.lean`: `hrPlan`, `hrRun`)
  and the container handling.  zstandard, gzip and `json.loads` are functions of an environment `Env`; what the
  theorems need from them is stated as hypotheses (`Env.LoadsOk`, `Env.Decodes`) and shown satisfiable.
-/
namespace Gallia.C17
open Gallia Gallia.Penlog

/-! ### writer: one record per line -/

/-- a written line is a newline-free body followed by exactly one terminator: text with newlines, control
    characters or forged records inside cannot start a new line -/
theorem line_has_no_inner_newline (pfx : Bool) (r : Rec) :
    ∃ body, writeLine pfx r = body ++ [NL] ∧ NL ∉ body := writeLine_isLine pfx r

/-- ... and it is pure ASCII: every byte before the terminator is printable (0x20..0x7E) -/
theorem line_is_ascii (pfx : Bool) (r : Rec) : ∀ b ∈ writeLine pfx r, b < 128 := by
  obtain ⟨body, hb, hp⟩ := writeLine_body pfx r
  intro b hm
  rw [hb] at hm
  rcases List.mem_append.mp hm with h | h
  · have := hp b h; omega
  · simp [NL] at h; omega

/-- reading the file line by line gives back exactly the written lines, one per record, in order -/
theorem split_write (pfx : Bool) (rs : List Rec) :
    splitLines (rs.flatMap (writeLine pfx)) = rs.map (writeLine pfx) := by
  rw [List.flatMap_def]
  exact splitLines_flatten _ (lines_isLine pfx rs)

/-- the offset table has one entry per record, and seeking to entry `i` reads record `i`'s line -/
theorem offset_table_exact (pfx : Bool) (rs : List Rec) :
    (offsets (fileOf pfx rs)).map (readAt (fileOf pfx rs)) = rs.map (writeLine pfx) := by
  rw [fileOf_eq]
  exact map_readAt_offsets _ (lines_isLine pfx rs)

/-! ### text: the escaper is inverted by the scanner -/

/-- `unescape_escape`: for every valid Unicode text (all scalar values: control characters, quotes, newlines,
    astral code points written as surrogate pairs) the JSON literal written for it, followed by anything,
    scans back to exactly that text and leaves exactly what followed -/
theorem unescape_escape (s : Str) (hs : ∀ c ∈ s, isScalar c = true) (rest : Bs) :
    parseStr (jsonStr s ++ rest) = some (s, rest) := parseStr_jsonStr s (okText_of_scalar s hs) rest

/-- the same for every Python `str` (code points below 0x110000, lone surrogates allowed) in which no high
    surrogate is directly followed by a low surrogate -/
theorem unescape_escape_lone_surrogates (s : Str) (h1 : ∀ c ∈ s, c < 0x110000) (h2 : NoPair s) (rest : Bs) :
    parseStr (jsonStr s ++ rest) = some (s, rest) := parseStr_jsonStr s ⟨h1, h2⟩ rest

/-- ... and that restriction is necessary: the two-character string U+D83D U+DE00 is read back as U+1F600 -/
theorem surrogate_pair_not_preserved : parseStr (jsonStr [0xD83D, 0xDE00]) = some ([0x1F600], []) :=
  pair_not_preserved

/-- hence different texts are written differently -/
theorem escape_injective (s t : Str) (hs : okText s) (ht : okText t) (h : jsonStr s = jsonStr t) : s = t := by
  have h1 := parseStr_jsonStr s hs []
  have h2 := parseStr_jsonStr t ht []
  rw [h, h2] at h1
  simpa using h1.symm

/-- the literal never contains a raw newline, quote-breaking or non-ASCII byte -/
theorem literal_printable (s : Str) : ∀ b ∈ jsonStr s, 0x20 ≤ b ∧ b < 0x7F := jsonStr_printable s

/-! ### one record: same text, level, tags, timestamp -/

/-- records whose text fields are valid Unicode text satisfy the hypothesis of the theorems below -/
theorem wf_of_scalar (r : Rec) (h : r.Scalar) : r.WF := by
  obtain ⟨h1, h2, h3, h4, h5, h6, h7, h8, h9⟩ := h
  exact ⟨okText_of_scalar _ h1, okText_of_scalar _ h2, okText_of_scalar _ h3, okText_of_scalar _ h4,
    fun t ht s hs => okText_of_scalar _ (h5 t ht s hs), okText_of_scalar _ h6,
    fun s hs => okText_of_scalar _ (h7 s hs), okText_of_scalar _ h8, okText_of_scalar _ h9⟩

/-- every written line parses back to the flat record that was written: all eleven members, with or without
    prefix (this was `record_roundtrip` before the schema was modelled; `record_roundtrip` below now starts from
    the `logging.LogRecord` and ends at the `PenlogRecord`) -/
theorem line_roundtrip (pfx : Bool) (r : Rec) (h : r.WF) : parseLine (writeLine pfx r) = some r :=
  parseLine_writeLine pfx r h

/-- the priority the filter looks at (the `<prio>` prefix when present, else the JSON field) is the record's -/
theorem prefix_prio_agrees (pfx : Bool) (r : Rec) (h : r.WF) : linePrio (writeLine pfx r) = some r.prio :=
  linePrio_writeLine pfx r h

/-- the prefix parser returns the written priority and exactly the JSON part, for every priority value -/
theorem prefix_roundtrip (p : Nat) (rest : Bs) : parsePrefix (prefixOf p ++ rest) = some (p, rest) :=
  parsePrefix_prefixOf p rest

/-! ### levels -/

/-- level -> priority -> level and priority -> level -> priority are the identity on the seven levels -/
theorem prio_roundtrip :
    (∀ l ∈ levels, (fromLevel l).bind toLevel = some l) ∧
    (∀ p, 2 ≤ p → p ≤ 8 → (toLevel p).bind fromLevel = some p) := by
  refine ⟨by decide, ?_⟩
  intro p h2 h8
  have : p = 2 ∨ p = 3 ∨ p = 4 ∨ p = 5 ∨ p = 6 ∨ p = 7 ∨ p = 8 := by omega
  rcases this with h | h | h | h | h | h | h <;> subst h <;> decide

/-- a more severe level has a smaller priority number, so `prio ≤ p` selects "at or above the severity of p" -/
theorem severity_order :
    (∀ l ∈ levels, (fromLevel l).isSome) ∧
    (∀ l1 ∈ levels, ∀ l2 ∈ levels, (l1 ≤ l2 ↔ (fromLevel l2).getD 0 ≤ (fromLevel l1).getD 0)) := by
  decide

/-- (T) the live `Loglevel` enum has exactly the seven modelled values -/
theorem loglevels_agree : Gen.C17Levels.loglevels.map (·.2) = levels := by decide

/-- (T) the live `PenlogPriority` enum is 0..8 -/
theorem priorities_agree : Gen.C17Levels.priorities.map (·.2) = List.range 9 := by decide

/-- (T) the live `PenlogPriority.from_level` agrees with the model on every value 0..63 -/
theorem from_level_agrees : Gen.C17Levels.fromLevel = (List.range 64).map fromLevel := by decide

/-- (T) the live `PenlogPriority.to_level` agrees with the model on every value 0..9 -/
theorem to_level_agrees : Gen.C17Levels.toLevel = (List.range 10).map toLevel := by decide

/-- (T) `PenlogPriority.from_str` maps every priority name and every number 0..8 to its value (hr's `-p`) -/
theorem from_str_agrees :
    Gen.C17Levels.fromStrName = (List.range 9).map some ∧
    Gen.C17Levels.fromStrNum = (List.range 9).map some ++ [none] := by decide

/-! ### navigation -/

variable (pfx : Bool) (rs : List Rec) (hw : ∀ r ∈ rs, r.WF) (p : Nat)

/-- `len(reader)` is the number of logged records -/
theorem len_exact : len (fileOf pfx rs) = rs.length := len_fileOf pfx rs

include hw

/-- forward reading yields exactly the records at or above the threshold, in logged order -/
theorem forward_exact :
    records (fileOf pfx rs) .forward p = (rs.filter (fun r => decide (r.prio ≤ p))).map some := by
  simp only [records, select, visit, len_fileOf]
  rw [nav_core pfx rs hw p _ (fun i hi => List.mem_range.mp hi), map_getElem?_range]
  exact filter_any_map_some p rs

/-- reverse reading yields the same records, each once, last to first -/
theorem reverse_exact :
    records (fileOf pfx rs) .reverse p = ((rs.filter (fun r => decide (r.prio ≤ p))).reverse).map some := by
  simp only [records, select, visit, len_fileOf]
  rw [nav_core pfx rs hw p _ (fun i hi => List.mem_range.mp (List.mem_reverse.mp hi)),
    List.map_reverse, map_getElem?_range, List.filter_reverse, filter_any_map_some, List.map_reverse]
  rfl

/-- reading from record `k` yields the records from `k` on (nothing when `k` is past the end) -/
theorem offset_exact (k : Nat) :
    records (fileOf pfx rs) (.offset k) p = ((rs.drop k).filter (fun r => decide (r.prio ≤ p))).map some := by
  simp only [records, select, visit, len_fileOf]
  rw [nav_core pfx rs hw p _ (fun i hi => List.mem_range.mp (List.mem_of_mem_drop hi)),
    List.map_drop, map_getElem?_range, ← List.map_drop, filter_any_map_some]
  rfl

/-- tail `n` yields the last `n` lines (filtered); truncated subtraction: a log shorter than `n` yields everything -/
theorem tail_exact (n : Nat) :
    records (fileOf pfx rs) (.tail n) p =
      ((rs.drop (rs.length - n)).filter (fun r => decide (r.prio ≤ p))).map some := by
  simp only [records, select, visit, len_fileOf]
  rw [nav_core pfx rs hw p _ (fun i hi => List.mem_range.mp (List.mem_of_mem_drop hi)),
    List.map_drop, map_getElem?_range, ← List.map_drop, filter_any_map_some]
  rfl

/-- head `n` yields the first `n` selected records (all of them when fewer are selected) -/
theorem head_exact (n : Nat) :
    records (fileOf pfx rs) (.head n) p =
      ((rs.filter (fun r => decide (r.prio ≤ p))).take n).map some := by
  simp only [records, select, visit, len_fileOf]
  rw [List.map_take, nav_core pfx rs hw p _ (fun i hi => List.mem_range.mp hi), map_getElem?_range,
    filter_any_map_some, ← List.map_take]
  rfl

/-- logs shorter than the requested line count: tail `n` with `n ≥ len` is the whole (filtered) log -/
theorem tail_short (n : Nat) (hn : rs.length ≤ n) :
    records (fileOf pfx rs) (.tail n) p = records (fileOf pfx rs) .forward p := by
  rw [tail_exact pfx rs hw p n, forward_exact pfx rs hw p, Nat.sub_eq_zero_of_le hn, List.drop_zero]

/-- ... and head `n` with `n ≥ len` likewise -/
theorem head_short (n : Nat) (hn : rs.length ≤ n) :
    records (fileOf pfx rs) (.head n) p = records (fileOf pfx rs) .forward p := by
  rw [head_exact pfx rs hw p n, forward_exact pfx rs hw p, List.take_of_length_le]
  exact Nat.le_trans (List.length_filter_le _ _) hn

omit hw in
/-- the empty log yields nothing in every mode -/
theorem empty_log (m : Mode) : records (fileOf pfx []) m p = [] := by
  cases m <;> simp [records, select, visit, fileOf, offsets, splitLines, offsetsFrom]

/-- with the most permissive threshold every record comes back: same records, same order, all fields -/
theorem read_back_all (hp : ∀ r ∈ rs, r.prio ≤ p) : records (fileOf pfx rs) .forward p = rs.map some := by
  rw [forward_exact pfx rs hw p]
  congr 1
  exact List.filter_eq_self.mpr (fun r hr => by simpa using hp r hr)

/-- the prefix makes no difference to what is read -/
theorem prefix_irrelevant (m : Mode) : records (fileOf true rs) m p = records (fileOf false rs) m p := by
  cases m with
  | forward => rw [forward_exact true rs hw p, forward_exact false rs hw p]
  | reverse => rw [reverse_exact true rs hw p, reverse_exact false rs hw p]
  | offset k => rw [offset_exact true rs hw p k, offset_exact false rs hw p k]
  | tail n => rw [tail_exact true rs hw p n, tail_exact false rs hw p n]
  | head n => rw [head_exact true rs hw p n, head_exact false rs hw p n]

omit hw

/-- every selected record is yielded once: the yielded indices never repeat, in any mode, for any file -/
theorem each_once (file : Bs) (m : Mode) : (select file m p).Nodup := by
  have hr : (List.range (offsets file).length).Nodup := List.nodup_range
  cases m with
  | forward => exact List.Nodup.sublist List.filter_sublist hr
  | reverse =>
    have : ((List.range (offsets file).length).reverse).Nodup := by
      simpa [List.Nodup, List.pairwise_reverse, ne_comm] using hr
    exact List.Nodup.sublist List.filter_sublist this
  | offset k => exact List.Nodup.sublist (List.filter_sublist.trans (List.drop_sublist _ _)) hr
  | tail n => exact List.Nodup.sublist (List.filter_sublist.trans (List.drop_sublist _ _)) hr
  | head n => exact List.Nodup.sublist ((List.take_sublist _ _).trans List.filter_sublist) hr

/-! ### the record schema: `logging.LogRecord` -> line -> `PenlogRecord` -/

/-- `record_roundtrip`: a record logged at one of the seven levels (the level table is regenerated, see
    `loglevels_agree`), with any valid Unicode text, tags present / empty / absent, an exception text or none, a
    timestamp with microseconds and any whole-second UTC offset, goes through `QueueHandler.prepare`,
    `_JSONFormatter.format` and `_ZstdFileHandler.emit` to a line that `PenlogRecord.parse_json` reads back as
    exactly `expectRead`: same name, host, message (the exception text and the stack merged in by the queue), aware timestamp,
    priority (which maps back to the level), tags, call site, level number / name, function name; and the priority
    the filter looks at is the record's.  With and without the `<prio>` prefix. -/
theorem record_roundtrip (E : Env) (hE : E.LoadsOk) (pfx : Bool) (host : Str) (lr : LogRec) (h : lr.WF host) :
    ∃ p line, fromLevel lr.levelno = some p ∧ toLevel p = some lr.levelno ∧ emitLine pfx host lr = some line ∧
      lineRecord E line = .ok (expectRead host (queuePrepare lr) p) ∧ linePrioE E line = .ok (p : Int) := by
  obtain ⟨p, r, hp, htl, hf, hrp, ⟨hwf, hp8, hdt⟩, hread⟩ := formatRec_spec host (queuePrepare lr) (queuePrepare_wf host lr h)
  have hlv : (queuePrepare lr).levelno = lr.levelno := rfl
  rw [hlv] at hp htl
  refine ⟨p, writeLine pfx r, hp, htl, by simp [emitLine, hf], ?_, ?_⟩
  · rw [lineRecord_writeLine E hE pfx r hwf, readObj_recObj r (dtOf r) hdt hp8, hread]
  · rw [linePrioE_writeLine E hE pfx r hwf (dtOf r) hdt hp8, hrp]

/-- the timestamp round trip on its own: `fromisoformat(d.isoformat()) == d` for every valid datetime — any date
    1..9999, microseconds zero (no fraction written) or not, aware with any whole-second offset or naive -/
theorem timestamp_roundtrip (d : DT) (hv : d.Valid) : parseIso (isoformat d) = .ok d := parseIso_isoformat d hv

/-- the JSON object written has exactly the twelve members of `_PenlogRecordV2`, in its order ((T), regenerated) -/
theorem written_keys_exact (r : Rec) : (recObj r).map (·.1) = Gen.C17Hr.writerKeys := by
  simp only [recObj, List.map_cons, List.map_nil]
  decide

/-- (T) the members `parse_json` requires / reads when present, and the version it insists on -/
theorem schema_keys_agree :
    Gen.C17Hr.requiredKeys = requiredKeys ∧ Gen.C17Hr.optionalKeys = optionalKeys ∧ Gen.C17Hr.version = 2 := by decide

/-- `unknown_keys_ignored`: members with names `parse_json` does not know make no difference, wherever they stand
    and whatever they hold -/
theorem unknown_keys_ignored (o : JObj) : readObj (o.filter (fun kv => knownKeys.contains kv.1)) = readObj o :=
  readObj_congr _ _ (fun k hk => jget_filter o knownKeys k hk)

/-- `missing_optional_keys_default`: an optional member that is absent reads exactly like the same member given as
    `null` (`record[k] if k in record else None`), for each of the six optional members -/
theorem missing_optional_keys_default (o : JObj) (k : Str) (hk : k ∈ optionalKeys) (hab : jget o k = none) :
    readObj o = readObj (o ++ [(k, .null)]) := by
  apply readObj_congr_opt
  · intro k' hk'
    rw [jget_append_single]
    have hne : (k == k') = false := by
      have : k ≠ k' := by
        intro e; subst e
        revert hk hk'
        simp only [requiredKeys, optionalKeys, List.mem_cons, List.not_mem_nil, or_false]
        rintro (rfl | rfl | rfl | rfl | rfl | rfl) <;> decide
      simpa using this
    simp [hne]
  · intro k' _
    unfold jopt
    rw [jget_append_single]
    by_cases he : (k == k') = true
    · have : k = k' := by simpa using he
      subst this
      simp [hab]
    · simp [he]

/-- a missing required member is never defaulted: the record is refused -/
theorem missing_required_key_refused (o : JObj) (k : Str) (hk : k ∈ requiredKeys) (hab : jget o k = none) :
    ∀ r, readObj o ≠ .ok r :=
  fun r hr => readObj_ok_required o r hr k hk hab

/-! ### the `hr` command line -/

/-- destination codes of the regenerated parser table -/
def destCode : OptId → Nat
  | .help => 0 | .prio => 1 | .tail => 2 | .head => 3 | .reverse => 4 | .lines => 5 | .color => 6

/-- (T) the parser `hr.parse_args()` builds has exactly the modelled option strings, each with the modelled
    destination and arity; one positional `FILE+`; abbreviations allowed; `--tail`, `--head`, `--reverse` mutually
    exclusive; the `--color` choices -/
theorem hr_parser_agrees :
    Gen.C17Hr.options.length = (shortOpts ++ longOpts).length ∧
    (∀ o ∈ Gen.C17Hr.options, (lookupOpt o.1).map (fun q => (destCode q.1, q.1.takesArg)) = some (o.2.1, o.2.2)) ∧
    Gen.C17Hr.mutex = [destCode .tail, destCode .head, destCode .reverse] ∧ Gen.C17Hr.fileNargs = [43] ∧
    Gen.C17Hr.allowAbbrev = true ∧ Gen.C17Hr.prefixChars = [45] ∧ Gen.C17Hr.colorChoices = colorChoices ∧
    Gen.C17Hr.defaultColor = [97, 117, 116, 111] := by decide

/-- `hr_defaults`: a command line of file names only (each not starting with `-`, or `-` itself) reads them in
    order, forward, with the regenerated defaults: 100 lines, priority INFO, colour auto -/
theorem hr_defaults (files : List Str) (hne : files ≠ []) (h : ∀ f ∈ files, FileTok f) :
    hrPlan files = .plan { files := files.map normPath, mode := .forward, n := Gen.C17Hr.defaultLines,
                           prio := Gen.C17Hr.defaultPriority, color := .auto } :=
  hrPlan_files files hne h

/-- `hr_modes_exclusive`: a plan has one mode, and a command line naming two different modes (any of the exact
    spellings `-t --tail --head -r --reverse`, anywhere before a `--`) is refused, whatever else it contains -/
theorem hr_modes_exclusive (argv : List Str) (a b : Str) (ma mb : HrMode) (ha : (a, ma) ∈ modeToks) (hb : (b, mb) ∈ modeToks)
    (hne : ma ≠ mb) (hain : a ∈ argv.takeWhile (fun x => x != ddTok)) (hbin : b ∈ argv.takeWhile (fun x => x != ddTok)) :
    ∀ p, hrPlan argv ≠ .plan p :=
  hrPlan_two_modes argv a b ma mb ha hb hne hain hbin

/-- the same for every argument string argparse resolves to a bare mode option, i.e. also the unique abbreviations
    (`--ta`, `--hea`, `--rev`, ...): two of them naming different modes are refused -/
theorem hr_modes_exclusive_abbrev (argv : List Str) (a b : Str) (ida idb : OptId) (la lb : Bool) (ma mb : HrMode)
    (hca : classify a = some (.opt ida la none)) (hma : modeOf ida = some ma)
    (hcb : classify b = some (.opt idb lb none)) (hmb : modeOf idb = some mb)
    (hne : ma ≠ mb) (hain : a ∈ argv.takeWhile (fun x => x != ddTok)) (hbin : b ∈ argv.takeWhile (fun x => x != ddTok)) :
    ∀ p, hrPlan argv ≠ .plan p :=
  hrPlan_two_modes_gen argv a b ida idb la lb ma mb hca hma hcb hmb hne hain hbin

/-- ... and a mode option that is accepted is the plan's mode -/
theorem hr_mode_taken (argv : List Str) (a : Str) (m : HrMode) (p : Plan) (ha : (a, m) ∈ modeToks)
    (hain : a ∈ argv.takeWhile (fun x => x != ddTok)) (hp : hrPlan argv = .plan p) : p.mode = m := by
  unfold hrPlan at hp
  cases hc : classifyAll argv with
  | none => simp [hc] at hp
  | some cs =>
    simp only [hc] at hp
    obtain ⟨id, l, hca, hma⟩ := modeToks_classify (a, m) ha
    exact (runArgs_modes {} cs p excl_init hp).2 id l m hma (mem_classifyAll argv cs hc a _ hain hca)

/-- `hr_priority_names`: (T) the regenerated names are the modelled ones, with values 0..8; each name and its
    number denote the same threshold; letter case does not matter -/
theorem hr_priority_names :
    Gen.C17Hr.prioNames = prioNames ∧ Gen.C17Hr.prioValues = List.range 9 ∧
    (∀ p, p < 9 → fromStr (prioNames.getD p []) = some p ∧ fromStr (natDec p) = some p) ∧
    (∀ s, fromStr (s.map lowerAscii) = fromStr s) := by
  refine ⟨by decide, by decide, ?_, fromStr_lower⟩
  intro p hp
  rw [natDec_small p (by omega)]
  exact fromStr_names p hp

/-- ... hence `-p NAME` and `-p NUMBER` give the same plan, whatever follows -/
theorem hr_priority_names_plan (p : Nat) (hp : p < 9) (rest : List Str) :
    hrPlan ([45, 112] :: prioNames.getD p [] :: rest) = hrPlan ([45, 112] :: natDec p :: rest) ∧
    hrPlan ([45, 45, 112, 114, 105, 111, 114, 105, 116, 121] :: prioNames.getD p [] :: rest) =
      hrPlan ([45, 45, 112, 114, 105, 111, 114, 105, 116, 121] :: natDec p :: rest) := by
  have hn := (hr_priority_names.2.2.1 p hp)
  have hx : (prioNames.getD p []).head? ≠ some 45 := by
    have : ∀ q, q < 9 → (prioNames.getD q []).head? ≠ some 45 := by decide
    exact this p hp
  have hy : (natDec p).head? ≠ some 45 := by
    rw [natDec_small p (by omega)]; simp; omega
  exact ⟨hrPlan_prio_congr _ _ _ rest (Or.inl (by decide)) (by decide) hx hy (hn.1.trans hn.2.symm),
    hrPlan_prio_congr _ _ _ rest (Or.inr (by decide)) (by decide) hx hy (hn.1.trans hn.2.symm)⟩

/-! ### containers -/

/-- `container_detect_total`: the choice of decompressor is a total function of the path, decided by the last
    component's suffix alone: zstandard exactly for `<non-empty stem>.zst`, gzip exactly for `<non-empty stem>.gz`,
    no decompression for every other name (`.zst` itself, `a.zst.`, `a.ZST`, ...) -/
theorem container_detect_total (path : Str) :
    (detect path = .zst ↔ ∃ stem, stem ≠ [] ∧ pyName path = stem ++ sufZst) ∧
    (detect path = .gz ↔ ∃ stem, stem ≠ [] ∧ pyName path = stem ++ sufGz) ∧
    (detect path = .plain ↔ ¬ (∃ stem, stem ≠ [] ∧ pyName path = stem ++ sufZst) ∧
                              ¬ (∃ stem, stem ≠ [] ∧ pyName path = stem ++ sufGz)) := by
  have hz := detect_zst_iff path
  have hg := detect_gz_iff path
  refine ⟨hz, hg, ?_⟩
  rw [← hz, ← hg]
  cases detect path <;> simp

/-- `container_roundtrip`: a regular file holding `x` stored for the container its name selects (plain as is,
    `.zst` / `.gz` compressed) opens to exactly `x`, given the round-trip contract of zstandard and gzip
    (`Env.Decodes`; the codecs themselves stay trusted).  Standard input is left untouched. -/
theorem container_roundtrip (E : Env) (enc : Kind → Bs → Bs) (hD : E.Decodes enc) (fs : Str → Node) (stdin : Bs) (path : Str)
    (x : Bs) (hp : path ≠ dash) (hf : fs path = .file (enc (detect path) x)) :
    openPath E fs stdin path = .content x stdin :=
  openPath_file E enc hD fs stdin path x hp hf

/-- data the selected decompressor refuses is an error, never a different log -/
theorem container_mismatch_refused (E : Env) (fs : Str → Node) (stdin : Bs) (path : Str) (raw : Bs) (hp : path ≠ dash)
    (hf : fs path = .file raw) :
    (detect path = .zst → E.zstDec raw = none → openPath E fs stdin path = .failed .zstd) ∧
    (detect path = .gz → E.gzDec raw = none → openPath E fs stdin path = .failed .gzip) := by
  constructor <;> intro hk hd <;> simp [openPath, hp, hf, hk, hd]

/-! ### composition: what `hr` emits -/

/-- `hr_output_eq_slice`: for every argument vector that parses to a plan (with a line count ≥ 0) and every set of
    input files that open to written logs (`Opens`: any mix of plain / .zst / .gz files and standard input, each
    with or without `<prio>` prefix), `hr` emits, file by file in command-line order, exactly the slice of each
    written sequence the arguments denote (`slice`: forward = the records at or above the threshold; reverse = the
    same, last to first; head n = the first n of them; tail n = those among the last n lines), each as the
    `PenlogRecord` read back (`shown`: record + printed text), and exits with 0 -/
theorem hr_output_eq_slice (E : Env) (hE : E.LoadsOk) (fs : Str → Node) (stdin : Bs) (argv : List Str) (plan : Plan)
    (hp : hrPlan argv = .plan plan) (hn : 0 ≤ plan.n) (logs : List (Bool × List Rec))
    (ho : Opens E fs stdin plan.files logs) (hr : ∀ l ∈ logs, ∀ r ∈ l.2, r.Readable) :
    hrRun E fs stdin argv =
      (logs.flatMap (fun l => (slice plan.mode plan.n.toNat plan.prio l.2).map shown), .code 0) := by
  unfold hrRun
  simp only [hp]
  exact hrFiles_written E hE fs plan hn stdin plan.files logs ho hr

/-- every record a run logs (well-formed `LogRec`) is `Readable` once written, so `hr_output_eq_slice` applies to
    the logs of the real writer -/
theorem written_readable (host : Str) (lr : LogRec) (h : lr.WF host) (r : Rec)
    (hf : formatRec host (queuePrepare lr) = some r) : r.Readable := by
  obtain ⟨p, r', _, _, hf', _, hread, _⟩ := formatRec_spec host (queuePrepare lr) (queuePrepare_wf host lr h)
  rw [hf] at hf'
  simp only [Option.some.injEq] at hf'
  subst hf'
  exact hread

/-- regular files stored for the container their names select open as `Opens` requires -/
theorem opens_files (E : Env) (enc : Kind → Bs → Bs) (hD : E.Decodes enc) (fs : Str → Node) (stdin : Bs)
    (files : List (Str × Bool × List Rec)) (hf : ∀ f ∈ files, f.1 ≠ dash ∧ fs f.1 = .file (enc (detect f.1) (fileOf f.2.1 f.2.2))) :
    Opens E fs stdin (files.map (·.1)) (files.map (·.2)) := by
  induction files with
  | nil => exact .nil stdin
  | cons f rest ih =>
    obtain ⟨h1, h2⟩ := hf f (by simp)
    exact .cons stdin stdin f.1 _ f.2.1 f.2.2 _ (openPath_file E enc hD fs stdin f.1 _ h1 h2)
      (ih (fun g hg => hf g (by simp [hg])))

/-- with the output closed by its reader after `k` records (`hr ... | head`), under the hypotheses of
    `hr_output_eq_slice`: `hr` has emitted exactly the first `k` records of that output and exits with 0 -/
theorem hr_broken_pipe (E : Env) (hE : E.LoadsOk) (fs : Str → Node) (stdin : Bs) (argv : List Str) (plan : Plan)
    (hp : hrPlan argv = .plan plan) (hn : 0 ≤ plan.n) (logs : List (Bool × List Rec))
    (ho : Opens E fs stdin plan.files logs) (hr : ∀ l ∈ logs, ∀ r ∈ l.2, r.Readable) (k : Nat)
    (hk : k < (logs.flatMap (fun l => (slice plan.mode plan.n.toNat plan.prio l.2).map shown)).length) :
    pipeCut k (hrRun E fs stdin argv) =
      ((logs.flatMap (fun l => (slice plan.mode plan.n.toNat plan.prio l.2).map shown)).take k, .code 0) := by
  rw [hr_output_eq_slice E hE fs stdin argv plan hp hn logs ho hr]
  unfold pipeCut
  rw [if_pos hk]

/-! #### non-vacuity of the second part -/

/-- a TRACE record with tags, an exception text, microseconds and the offset +05:45 -/
def lrSample : LogRec :=
  { name := [103, 46, 120], msg := [104, 105, 10, 0x1F600], levelno := 5, levelname := [84, 82, 65, 67, 69],
    created := { year := 2021, month := 10, day := 31, hour := 2, minute := 30, second := 0, micro := 620310, off := some 20700 },
    pathname := [47, 120, 46, 112, 121], lineno := 42, funcName := [102], tags := some [[97], []],
    excText := some [86, 97, 108, 117, 101, 69, 114, 114, 111, 114], stackInfo := some [83, 116, 97, 99, 107] }

def dtSample2 : DT :=
  { year := 1999, month := 2, day := 28, hour := 0, minute := 0, second := 0, micro := 0, off := some (-34215) }

/-- a CRITICAL record without tags, naive-looking midnight at UTC, no microseconds, offset -09:30:15 -/
def lrSample2 : LogRec :=
  { lrSample with levelno := 50, levelname := [67], tags := none, excText := none, created := dtSample2 }

def hostSample : Str := [104, 111, 115, 116]

theorem lrSample_wf : lrSample.WF hostSample := by
  simp only [LogRec.WF, lrSample, hostSample]
  decide

theorem lrSample2_wf : lrSample2.WF hostSample := by
  simp only [LogRec.WF, lrSample2, lrSample, hostSample, dtSample2]
  decide

/-- an environment satisfying both contracts: `json.loads` by the byte-level parser, identity codecs -/
def envSample : Env := { loads := loadsWriter, zstDec := some, gzDec := some }

theorem envSample_loads : envSample.LoadsOk := loadsWriter_ok _ _

theorem envSample_decodes : envSample.Decodes (fun _ x => x) := ⟨fun _ => rfl, fun _ => rfl, fun _ => rfl⟩

example : ∃ p line, fromLevel lrSample.levelno = some p ∧ toLevel p = some lrSample.levelno ∧
    emitLine true hostSample lrSample = some line ∧
    lineRecord envSample line = .ok (expectRead hostSample (queuePrepare lrSample) p) ∧ linePrioE envSample line = .ok (p : Int) :=
  record_roundtrip envSample envSample_loads true hostSample lrSample lrSample_wf

/-- the flat records of the two samples -/
def recSample : Rec := fmtOf hostSample (queuePrepare lrSample) 8
def recSample2 : Rec := fmtOf hostSample (queuePrepare lrSample2) 2

theorem recSample_readable : recSample.Readable :=
  written_readable hostSample lrSample lrSample_wf recSample (formatRec_eq _ _ 8 (by decide))

theorem recSample2_readable : recSample2.Readable :=
  written_readable hostSample lrSample2 lrSample2_wf recSample2 (formatRec_eq _ _ 2 (by decide))

-- an unknown member in front of a written object changes nothing; the record is still read
example : readObj (([120], JVal.other 7) :: recObj recSample) = .ok (asRead recSample (dtOf recSample)) := by
  have h := unknown_keys_ignored (([120], JVal.other 7) :: recObj recSample)
  have hf : (([120], JVal.other 7) :: recObj recSample).filter (fun kv => knownKeys.contains kv.1) = recObj recSample := rfl
  rw [hf] at h
  rw [← h]
  exact readObj_recObj recSample _ recSample_readable.2.2 recSample_readable.2.1

-- `tags` left out of an object reads like `tags: null`
example : jget ((recObj recSample2).filter (fun kv => kv.1 != kTagsK)) kTagsK = none ∧ kTagsK ∈ optionalKeys := by decide

example : hrPlan [[97, 46, 106, 115, 111, 110], [45]] =
    .plan { files := [[97, 46, 106, 115, 111, 110], [45]], mode := .forward, n := 100, prio := 6, color := .auto } := by
  have h := hr_defaults [[97, 46, 106, 115, 111, 110], [45]] (by simp) (by
    intro f hf
    simp only [List.mem_cons, List.not_mem_nil, or_false] at hf
    rcases hf with rfl | rfl
    · exact Or.inl (by decide)
    · exact Or.inr rfl)
  simpa [normPath, pathComps, splitSlash, joinSlash, Gen.C17Hr.defaultLines, Gen.C17Hr.defaultPriority] using h

-- `hr -t x --head` is refused
example : ∀ p, hrPlan [[45, 116], [120], [45, 45, 104, 101, 97, 100]] ≠ .plan p :=
  hr_modes_exclusive _ [45, 116] [45, 45, 104, 101, 97, 100] .tail .head (by decide) (by decide) (by decide) (by decide) (by decide)

-- `hr --ta x --rev` is refused as well
example : ∀ p, hrPlan [[45, 45, 116, 97], [120], [45, 45, 114, 101, 118]] ≠ .plan p :=
  hr_modes_exclusive_abbrev _ [45, 45, 116, 97] [45, 45, 114, 101, 118] .tail .reverse true true .tail .reverse
    (by decide) rfl (by decide) rfl (by decide) (by decide) (by decide)

example : detect [97, 46, 106, 115, 111, 110, 46, 122, 115, 116] = .zst ∧ detect [46, 122, 115, 116] = .plain ∧
    detect [97, 46, 122, 115, 116, 46] = .plain ∧ detect [100, 46, 122, 115, 116, 47, 120, 46, 103, 122] = .gz := by decide

/-- `hr -t -n 1 -p warning a.zst -` : the last line of the file `a.zst` and the last line of standard input, when
    at or above WARNING -/
def argvSample : List Str :=
  [[45, 116], [45, 110], [49], [45, 112], [119, 97, 114, 110, 105, 110, 103], [97, 46, 122, 115, 116], [45]]

def fsSample : Str → Node := fun p => if p = [97, 46, 122, 115, 116] then .file (fileOf true [recSample, recSample2]) else .missing

example : hrRun envSample fsSample (fileOf false [recSample2, recSample]) argvSample = ([shown recSample2], .code 0) := by
  have hp : hrPlan argvSample = .plan { files := [[97, 46, 122, 115, 116], [45]], mode := .tail, n := 1, prio := 4, color := .auto } := by
    have hc : classifyAll argvSample = some [.opt .tail false none, .opt .lines false none, .arg [49], .opt .prio false none,
        .arg [119, 97, 114, 110, 105, 110, 103], .arg [97, 46, 122, 115, 116], .arg [45]] := by decide
    have h1 : pyInt [49] = some 1 := by decide
    have h2 : fromStr [119, 97, 114, 110, 105, 110, 103] = some 4 := by decide
    have h3 : normPath [97, 46, 122, 115, 116] = [97, 46, 122, 115, 116] := by decide
    have h4 : normPath [45] = [45] := by decide
    unfold hrPlan
    rw [hc]
    simp [runArgs, cluster, applyFlags, setFlag, setValue, OptId.takesArg, ArgSt.close, finish, h1, h2, h3, h4]
  have ho : Opens envSample fsSample (fileOf false [recSample2, recSample]) [[97, 46, 122, 115, 116], [45]]
      [(true, [recSample, recSample2]), (false, [recSample2, recSample])] := by
    refine .cons _ _ _ _ true _ _ ?_ (.cons _ [] _ _ false _ _ (openPath_dash _ _ _) (.nil _))
    exact container_roundtrip envSample (fun _ x => x) envSample_decodes fsSample _ _ _ (by decide) (by simp [fsSample])
  have hr : ∀ l ∈ [(true, [recSample, recSample2]), (false, [recSample2, recSample])], ∀ r ∈ l.2, r.Readable := by
    intro l hl r hr
    simp only [List.mem_cons, List.not_mem_nil, or_false] at hl
    rcases hl with rfl | rfl <;> simp only [List.mem_cons, List.not_mem_nil, or_false] at hr <;>
      rcases hr with rfl | rfl <;> first | exact recSample_readable | exact recSample2_readable
  rw [hr_output_eq_slice envSample envSample_loads fsSample _ argvSample _ hp (by decide) _ ho hr]
  have e1 : recSample.prio = 8 := rfl
  have e2 : recSample2.prio = 2 := rfl
  simp [slice, e1, e2]

/-! ### writer: the level gates between a logging call and the file (`Model/PenlogGate.lean`) -/

/-- below any number of NOTSET loggers the effective level is the one `setup_logging` set: the catch-all 1 -/
theorem effectiveLevel_chainOf (console depth : Nat) : effectiveLevel (chainOf console depth) = 1 := by
  induction depth with
  | zero => simp [chainOf, effectiveLevel, setupLoggerLevel]
  | succ d ih =>
    simp only [chainOf, List.replicate_succ, List.cons_append, effectiveLevel] at ih ⊢
    simpa using ih

/-- whatever the console level of `setup_logging`, whatever the file level (>= 1: every `Loglevel` is), on whatever
    descendant of the configured logger a record is logged: a record reaches the file iff its level is at or above
    the file level -/
theorem reachesFile_iff (console fileLv depth lv : Nat) (hf : 1 ≤ fileLv) :
    reachesFile console fileLv depth lv = decide (fileLv ≤ lv) := by
  simp only [reachesFile, effectiveLevel_chainOf]
  by_cases h : fileLv ≤ lv
  · have h1 : 0 < lv := by omega
    have h2 : 1 ≤ lv := by omega
    simp [h, h1, h2]
  · simp [h]

/-- the file gets exactly the logged records at or above the FILE level, in order, each once - for every console
    level (verbosity), every file level, every sequence of records on any loggers below the configured one -/
theorem file_gets_every_record_at_or_above_file_level (console fileLv : Nat) (hf : 1 ≤ fileLv) (logged : List (Nat × Nat)) :
    fileRecords console fileLv logged = logged.filter (fun r => decide (fileLv ≤ r.2)) := by
  unfold fileRecords
  congr 1
  funext r
  exact reachesFile_iff console fileLv r.1 r.2 hf

/-- the file levels a run can have (`get_file_log_level`) and the console levels (`get_log_level`) are real levels -/
theorem fileLevelOf_pos (t : Option Bool) (v : Option Nat) : 1 ≤ fileLevelOf t v := by
  unfold fileLevelOf
  split <;> (try split) <;> omega

/-- with `--trace-log` every record of the seven levels is in the file, whatever the verbosity of the console -/
theorem trace_log_file_gets_all (verbose : Nat) (v : Option Nat) (logged : List (Nat × Nat)) (h : ∀ r ∈ logged, r.2 ∈ levels) :
    fileRecords (consoleLevelOf verbose) (fileLevelOf (some true) v) logged = logged := by
  rw [file_gets_every_record_at_or_above_file_level _ _ (fileLevelOf_pos _ _)]
  apply List.filter_eq_self.mpr
  intro r hr
  have := h r hr
  simp only [levels, List.mem_cons, List.not_mem_nil, or_false] at this
  simp only [fileLevelOf, if_true, decide_eq_true_eq]
  omega

/-- non-vacuity: console INFO (verbose 0), `--trace-log`: the TRACE and DEBUG records logged on child loggers are in
    the file; without `--trace-log` the TRACE record is not, the others are -/
example : fileRecords (consoleLevelOf 0) (fileLevelOf (some true) (some 0)) [(1, 5), (0, 20), (2, 10), (1, 50)]
      = [(1, 5), (0, 20), (2, 10), (1, 50)] ∧
    fileRecords (consoleLevelOf 0) (fileLevelOf (some false) (some 0)) [(1, 5), (0, 20), (2, 10), (1, 50)]
      = [(0, 20), (2, 10), (1, 50)] ∧
    fileFlags (consoleLevelOf 1) (fileLevelOf none (some 1)) [(1, 5), (0, 20), (2, 10), (1, 50)] = [false, true, true, true] := by decide

/-! ### `records(priority, offset = k, reverse = True)` (probe mode `revoffset` of the harness)

The harness derives its expectation for this call from the model's forward selection: the indices not above `k`, reversed.
The two theorems below say that this derived list *is* "walk backwards from record `k` down to record 0 and keep what passes". -/

theorem range_filter_le (n k : Nat) :
    (List.range n).filter (fun i => decide (i ≤ k)) = List.range (min (k + 1) n) := by
  induction n with
  | zero => simp
  | succ n ih =>
    rw [List.range_succ, List.filter_append, ih]
    by_cases h : n ≤ k
    · have h1 : min (k + 1) (n + 1) = n + 1 := by omega
      have h2 : min (k + 1) n = n := by omega
      simp [h1, h2, h, List.range_succ]
    · have h1 : min (k + 1) (n + 1) = k + 1 := by omega
      have h2 : min (k + 1) n = k + 1 := by omega
      simp [h1, h2, h]

theorem reverse_offset_derived (file : Bs) (k p : Nat) :
    ((select file .forward p).filter (fun i => decide (i ≤ k))).reverse
      = ((List.range (min (k + 1) (len file))).reverse).filter (passes file p) := by
  show (((List.range (offsets file).length).filter (passes file p)).filter (fun i => decide (i ≤ k))).reverse = _
  rw [List.filter_reverse, len, ← range_filter_le, List.filter_filter, List.filter_filter]
  congr 2
  funext i; exact Bool.and_comm _ _

/-- non-vacuity of the index arithmetic: three records, k = 0 keeps only record 0; k = 2 walks 2, 1, 0 -/
example : (List.range (min (0 + 1) 3)).reverse = [0] ∧ (List.range (min (2 + 1) 3)).reverse = [2, 1, 0] := by decide

end Gallia.C17
