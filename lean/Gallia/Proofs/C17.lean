import Gallia.Proofs.Lemmas.PenlogNav
import Gallia.Gen.C17Levels
/-
  C17 — Log records written by a run are read back exactly, in any navigation mode.
  Property theorems only; helper lemmas are in `Proofs/Lemmas/Penlog{Str,Line,Nav}.lean`.

  `fileOf pfx rs` is the decompressed log file for the logged records `rs` (`pfx`: with / without the `<prio>`
  prefix); `records file mode p` reads it back through the offset table (`seek` + `readline` + parse) in a
  navigation mode with priority threshold `p`.  All theorems hold for every list of records whose text fields
  are `okText` (`Rec.WF`) — any length, any levels, any valid Unicode text (`wf_of_scalar`), and even Python
  strings with lone surrogates as long as no high surrogate is directly followed by a low one.
-/
namespace Gallia.C17
open Gallia Gallia.Penlog

/-! ### writer: one record per line -/

/-- a written line is a newline-free body followed by exactly one terminator: text with newlines, control
    characters or forged records inside cannot start a new line -/
theorem line_has_no_inner_newline (pfx : Bool) (r : Rec) :
    ∃ body, writeLine pfx r = body ++ [NL] ∧ NL ∉ body := writeLine_isLine pfx r

/-- ... and it is pure ASCII: every byte before the terminator is printable (0x20..0x7E) -/
theorem line_is_ascii (pfx : Bool) (r : Rec) : ∀ b ∈ writeLine pfx r, b < 128 := by
  obtain ⟨body, hb, hp⟩ := writeLine_body pfx r
  intro b hm
  rw [hb] at hm
  rcases List.mem_append.mp hm with h | h
  · have := hp b h; omega
  · simp [NL] at h; omega

/-- reading the file line by line gives back exactly the written lines, one per record, in order -/
theorem split_write (pfx : Bool) (rs : List Rec) :
    splitLines (rs.flatMap (writeLine pfx)) = rs.map (writeLine pfx) := by
  rw [List.flatMap_def]
  exact splitLines_flatten _ (lines_isLine pfx rs)

/-- the offset table has one entry per record, and seeking to entry `i` reads record `i`'s line -/
theorem offset_table_exact (pfx : Bool) (rs : List Rec) :
    (offsets (fileOf pfx rs)).map (readAt (fileOf pfx rs)) = rs.map (writeLine pfx) := by
  rw [fileOf_eq]
  exact map_readAt_offsets _ (lines_isLine pfx rs)

/-! ### text: the escaper is inverted by the scanner -/

/-- `unescape_escape`: for every valid Unicode text (all scalar values: control characters, quotes, newlines,
    astral code points written as surrogate pairs) the JSON literal written for it, followed by anything,
    scans back to exactly that text and leaves exactly what followed -/
theorem unescape_escape (s : Str) (hs : ∀ c ∈ s, isScalar c = true) (rest : Bs) :
    parseStr (jsonStr s ++ rest) = some (s, rest) := parseStr_jsonStr s (okText_of_scalar s hs) rest

/-- the same for every Python `str` (code points below 0x110000, lone surrogates allowed) in which no high
    surrogate is directly followed by a low surrogate -/
theorem unescape_escape_lone_surrogates (s : Str) (h1 : ∀ c ∈ s, c < 0x110000) (h2 : NoPair s) (rest : Bs) :
    parseStr (jsonStr s ++ rest) = some (s, rest) := parseStr_jsonStr s ⟨h1, h2⟩ rest

/-- ... and that restriction is necessary: the two-character string U+D83D U+DE00 is read back as U+1F600 -/
theorem surrogate_pair_not_preserved : parseStr (jsonStr [0xD83D, 0xDE00]) = some ([0x1F600], []) :=
  pair_not_preserved

/-- hence different texts are written differently -/
theorem escape_injective (s t : Str) (hs : okText s) (ht : okText t) (h : jsonStr s = jsonStr t) : s = t := by
  have h1 := parseStr_jsonStr s hs []
  have h2 := parseStr_jsonStr t ht []
  rw [h, h2] at h1
  simpa using h1.symm

/-- the literal never contains a raw newline, quote-breaking or non-ASCII byte -/
theorem literal_printable (s : Str) : ∀ b ∈ jsonStr s, 0x20 ≤ b ∧ b < 0x7F := jsonStr_printable s

/-! ### one record: same text, level, tags, timestamp -/

/-- records whose text fields are valid Unicode text satisfy the hypothesis of the theorems below -/
theorem wf_of_scalar (r : Rec) (h : r.Scalar) : r.WF := by
  obtain ⟨h1, h2, h3, h4, h5, h6, h7, h8, h9⟩ := h
  exact ⟨okText_of_scalar _ h1, okText_of_scalar _ h2, okText_of_scalar _ h3, okText_of_scalar _ h4,
    fun t ht s hs => okText_of_scalar _ (h5 t ht s hs), okText_of_scalar _ h6,
    fun s hs => okText_of_scalar _ (h7 s hs), okText_of_scalar _ h8, okText_of_scalar _ h9⟩

/-- every written line parses back to the record that was logged: all eleven fields, with or without prefix -/
theorem record_roundtrip (pfx : Bool) (r : Rec) (h : r.WF) : parseLine (writeLine pfx r) = some r :=
  parseLine_writeLine pfx r h

/-- the priority the filter looks at (the `<prio>` prefix when present, else the JSON field) is the record's -/
theorem prefix_prio_agrees (pfx : Bool) (r : Rec) (h : r.WF) : linePrio (writeLine pfx r) = some r.prio :=
  linePrio_writeLine pfx r h

/-- the prefix parser returns the written priority and exactly the JSON part, for every priority value -/
theorem prefix_roundtrip (p : Nat) (rest : Bs) : parsePrefix (prefixOf p ++ rest) = some (p, rest) :=
  parsePrefix_prefixOf p rest

/-! ### levels -/

/-- level -> priority -> level and priority -> level -> priority are the identity on the seven levels -/
theorem prio_roundtrip :
    (∀ l ∈ levels, (fromLevel l).bind toLevel = some l) ∧
    (∀ p, 2 ≤ p → p ≤ 8 → (toLevel p).bind fromLevel = some p) := by
  refine ⟨by decide, ?_⟩
  intro p h2 h8
  have : p = 2 ∨ p = 3 ∨ p = 4 ∨ p = 5 ∨ p = 6 ∨ p = 7 ∨ p = 8 := by omega
  rcases this with h | h | h | h | h | h | h <;> subst h <;> decide

/-- a more severe level has a smaller priority number, so `prio ≤ p` selects "at or above the severity of p" -/
theorem severity_order :
    (∀ l ∈ levels, (fromLevel l).isSome) ∧
    (∀ l1 ∈ levels, ∀ l2 ∈ levels, (l1 ≤ l2 ↔ (fromLevel l2).getD 0 ≤ (fromLevel l1).getD 0)) := by
  decide

/-- (T) the live `Loglevel` enum has exactly the seven modelled values -/
theorem loglevels_agree : Gen.C17Levels.loglevels.map (·.2) = levels := by decide

/-- (T) the live `PenlogPriority` enum is 0..8 -/
theorem priorities_agree : Gen.C17Levels.priorities.map (·.2) = List.range 9 := by decide

/-- (T) the live `PenlogPriority.from_level` agrees with the model on every value 0..63 -/
theorem from_level_agrees : Gen.C17Levels.fromLevel = (List.range 64).map fromLevel := by decide

/-- (T) the live `PenlogPriority.to_level` agrees with the model on every value 0..9 -/
theorem to_level_agrees : Gen.C17Levels.toLevel = (List.range 10).map toLevel := by decide

/-- (T) `PenlogPriority.from_str` maps every priority name and every number 0..8 to its value (hr's `-p`) -/
theorem from_str_agrees :
    Gen.C17Levels.fromStrName = (List.range 9).map some ∧
    Gen.C17Levels.fromStrNum = (List.range 9).map some ++ [none] := by decide

/-! ### navigation -/

variable (pfx : Bool) (rs : List Rec) (hw : ∀ r ∈ rs, r.WF) (p : Nat)

/-- `len(reader)` is the number of logged records -/
theorem len_exact : len (fileOf pfx rs) = rs.length := len_fileOf pfx rs

include hw

/-- forward reading yields exactly the records at or above the threshold, in logged order -/
theorem forward_exact :
    records (fileOf pfx rs) .forward p = (rs.filter (fun r => decide (r.prio ≤ p))).map some := by
  simp only [records, select, visit, len_fileOf]
  rw [nav_core pfx rs hw p _ (fun i hi => List.mem_range.mp hi), map_getElem?_range]
  exact filter_any_map_some p rs

/-- reverse reading yields the same records, each once, last to first -/
theorem reverse_exact :
    records (fileOf pfx rs) .reverse p = ((rs.filter (fun r => decide (r.prio ≤ p))).reverse).map some := by
  simp only [records, select, visit, len_fileOf]
  rw [nav_core pfx rs hw p _ (fun i hi => List.mem_range.mp (List.mem_reverse.mp hi)),
    List.map_reverse, map_getElem?_range, List.filter_reverse, filter_any_map_some, List.map_reverse]
  rfl

/-- reading from record `k` yields the records from `k` on (nothing when `k` is past the end) -/
theorem offset_exact (k : Nat) :
    records (fileOf pfx rs) (.offset k) p = ((rs.drop k).filter (fun r => decide (r.prio ≤ p))).map some := by
  simp only [records, select, visit, len_fileOf]
  rw [nav_core pfx rs hw p _ (fun i hi => List.mem_range.mp (List.mem_of_mem_drop hi)),
    List.map_drop, map_getElem?_range, ← List.map_drop, filter_any_map_some]
  rfl

/-- tail `n` yields the last `n` lines (filtered); truncated subtraction: a log shorter than `n` yields everything -/
theorem tail_exact (n : Nat) :
    records (fileOf pfx rs) (.tail n) p =
      ((rs.drop (rs.length - n)).filter (fun r => decide (r.prio ≤ p))).map some := by
  simp only [records, select, visit, len_fileOf]
  rw [nav_core pfx rs hw p _ (fun i hi => List.mem_range.mp (List.mem_of_mem_drop hi)),
    List.map_drop, map_getElem?_range, ← List.map_drop, filter_any_map_some]
  rfl

/-- head `n` yields the first `n` selected records (all of them when fewer are selected) -/
theorem head_exact (n : Nat) :
    records (fileOf pfx rs) (.head n) p =
      ((rs.filter (fun r => decide (r.prio ≤ p))).take n).map some := by
  simp only [records, select, visit, len_fileOf]
  rw [List.map_take, nav_core pfx rs hw p _ (fun i hi => List.mem_range.mp hi), map_getElem?_range,
    filter_any_map_some, ← List.map_take]
  rfl

/-- logs shorter than the requested line count: tail `n` with `n ≥ len` is the whole (filtered) log -/
theorem tail_short (n : Nat) (hn : rs.length ≤ n) :
    records (fileOf pfx rs) (.tail n) p = records (fileOf pfx rs) .forward p := by
  rw [tail_exact pfx rs hw p n, forward_exact pfx rs hw p, Nat.sub_eq_zero_of_le hn, List.drop_zero]

/-- ... and head `n` with `n ≥ len` likewise -/
theorem head_short (n : Nat) (hn : rs.length ≤ n) :
    records (fileOf pfx rs) (.head n) p = records (fileOf pfx rs) .forward p := by
  rw [head_exact pfx rs hw p n, forward_exact pfx rs hw p, List.take_of_length_le]
  exact Nat.le_trans (List.length_filter_le _ _) hn

omit hw in
/-- the empty log yields nothing in every mode -/
theorem empty_log (m : Mode) : records (fileOf pfx []) m p = [] := by
  cases m <;> simp [records, select, visit, fileOf, offsets, splitLines, offsetsFrom]

/-- with the most permissive threshold every record comes back: same records, same order, all fields -/
theorem read_back_all (hp : ∀ r ∈ rs, r.prio ≤ p) : records (fileOf pfx rs) .forward p = rs.map some := by
  rw [forward_exact pfx rs hw p]
  congr 1
  exact List.filter_eq_self.mpr (fun r hr => by simpa using hp r hr)

/-- the prefix makes no difference to what is read -/
theorem prefix_irrelevant (m : Mode) : records (fileOf true rs) m p = records (fileOf false rs) m p := by
  cases m with
  | forward => rw [forward_exact true rs hw p, forward_exact false rs hw p]
  | reverse => rw [reverse_exact true rs hw p, reverse_exact false rs hw p]
  | offset k => rw [offset_exact true rs hw p k, offset_exact false rs hw p k]
  | tail n => rw [tail_exact true rs hw p n, tail_exact false rs hw p n]
  | head n => rw [head_exact true rs hw p n, head_exact false rs hw p n]

omit hw

/-- every selected record is yielded once: the yielded indices never repeat, in any mode, for any file -/
theorem each_once (file : Bs) (m : Mode) : (select file m p).Nodup := by
  have hr : (List.range (offsets file).length).Nodup := List.nodup_range
  cases m with
  | forward => exact List.Nodup.sublist List.filter_sublist hr
  | reverse =>
    have : ((List.range (offsets file).length).reverse).Nodup := by
      simpa [List.Nodup, List.pairwise_reverse, ne_comm] using hr
    exact List.Nodup.sublist List.filter_sublist this
  | offset k => exact List.Nodup.sublist (List.filter_sublist.trans (List.drop_sublist _ _)) hr
  | tail n => exact List.Nodup.sublist (List.filter_sublist.trans (List.drop_sublist _ _)) hr
  | head n => exact List.Nodup.sublist ((List.take_sublist _ _).trans List.filter_sublist) hr

/-! ### non-vacuity -/

/-- a record with a newline, a quote, a control character and an astral code point in its text, and tags -/
def sample : Rec :=
  { module := [103], host := [104], data := [10, 34, 0, 0x1F600, 92], datetime := [50], prio := 6,
    tags := some [[97, 10], []], line := [47], stacktrace := none, levelNo := 20, levelName := [73], funcName := [102] }

theorem sample_wf : sample.WF := by
  apply wf_of_scalar
  simp only [Rec.Scalar, sample]
  decide

example : records (fileOf true [sample, { sample with prio := 3 }]) .reverse 4 = [some { sample with prio := 3 }] := by
  have hw : ∀ r ∈ [sample, { sample with prio := 3 }], r.WF := by
    intro r hr
    simp only [List.mem_cons, List.not_mem_nil, or_false] at hr
    rcases hr with rfl | rfl
    · exact sample_wf
    · exact sample_wf
  rw [reverse_exact true _ hw 4]
  decide

end Gallia.C17
