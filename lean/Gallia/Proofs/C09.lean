import Gallia.Model.SessionScan
namespace Gallia.C09
open Gallia.SessionScan

theorem sessions_length : sessions.length = 0x7F := by simp [sessions]

end Gallia.C09
