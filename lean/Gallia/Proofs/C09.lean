import Gallia.Proofs.Lemmas.SessionScan
import Gallia.Proofs.Lemmas.SessionScanBfs
import Gallia.Proofs.Lemmas.SessionScanReport
import Gallia.Proofs.Lemmas.SessionScanSorted
import Gallia.Proofs.Lemmas.SessionScanSim
import Gallia.Proofs.Lemmas.SessionScanFam
import Gallia.Proofs.Lemmas.SessionScanSWire
import Gallia.Proofs.Lemmas.SessionScanRefused
import Gallia.Proofs.Lemmas.SessionDb
import Gallia.Gen.C09
/-
  C09 — the session scan reports exactly the sessions reachable within the depth limit.

  `scan c E` is the model of `SessionsScanner.main` (Model/SessionScan.lean); `edge c E` is the ECU's session graph with
  positive / negative / missing answers.  All theorems hold for every graph, every configuration (depth, skip list,
  thorough, reset, with-hooks, max_retry) - no bounds.  `(scan c E).aborted` is the `sys.exit(1)` the scanner takes
  when it cannot walk back along a stack; `scan_never_gives_up` shows that this never happens on an ECU in which
  every session can re-enter the default session (ISO 14229-1: `10 01` is always available).
-/
namespace Gallia.C09
open Gallia.SessionScan

/-- (T) regenerated from the AST of `sessions.py` on every run: `set_session_with_hooks_handling` makes exactly two
    `ECU.set_session` calls, the first with `skip_hooks=True`, the second with `skip_hooks=False`, both with
    `use_db=False`, and the scanner calls `set_session` nowhere else - so a scan never replays session transitions stored
    by an earlier scan of the same target, as the model (which has no database) assumes -/
theorem calls_agree :
    Gallia.Gen.C09.hooksHandlingCalls = setSessionCalls ∧ Gallia.Gen.C09.setSessionCallsInFile = setSessionCalls.length := by
  decide

/-- the graph the theorems are about, spelled out: an edge is positive iff the ECU answers `10 u` positively, or
    `--with-hooks` is given, the plain attempt is refused with conditionsNotCorrect and the hooked attempt succeeds -/
theorem edge_pos_iff (c : Cfg) (E : Ecu) (p u : Sess) :
    edge c E p u = .pos ↔
      E.g p u = .pos ∨ (c.hooks = true ∧ E.g p u = .nrc NRC_CNC ∧ hookedAns c E p u = .pos) := by
  unfold edge
  by_cases hc : c.hooks = true ∧ E.g p u = .nrc NRC_CNC
  · rw [if_pos hc]
    constructor
    · intro h
      right
      refine ⟨hc.1, hc.2, ?_⟩
      cases hv : hookedAns c E p u with
      | pos => rfl
      | silent => rw [hv] at h; cases h
      | nrc n => rw [hv] at h; cases h
      | illegal sw => rw [hv] at h; cases h
    · rintro (h | ⟨_, _, h⟩)
      · rw [hc.2] at h; cases h
      · rw [h]
  · rw [if_neg hc]
    constructor
    · exact Or.inl
    · rintro (h | ⟨h1, h2, _⟩)
      · exact h
      · exact absurd ⟨h1, h2⟩ hc

/-- without `--with-hooks` the effective graph is the ECU's graph -/
theorem edge_base (c : Cfg) (E : Ecu) (h : c.hooks = false) : edge c E = E.g := by
  funext p u
  simp [edge, h]

/-- with the base ECU class (no hook requests) a hooked attempt is answered like the plain one, so `--with-hooks`
    only repeats the request and the effective graph is the ECU's graph -/
theorem edge_base_class (c : Cfg) (E : Ecu) (h : c.preHook = []) : edge c E = E.g := by
  funext p u
  unfold edge hookedAns
  simp only [h, List.isEmpty_nil, if_true]
  split
  · rename_i h'; rw [h'.2]
  · rfl

/-- The loop invariant holds for the final state of every scan that does not give up. -/
theorem final_inv (c : Cfg) (E : Ecu) (hab : (scan c E).aborted = false) :
    (∃ j, j ≤ c.depth ∧ LvlInv c E j (scan c E)) ∧
    ∀ m u, Steps c E m 1 u → m + 1 ≤ c.depth → u ∈ (scan c E).searched := by
  rcases scanLoop_spec c E c.depth 0 initSt rfl (lvlInv_init c E) with h | ⟨⟨j, hj, inv⟩, _, _, r⟩
  · rw [show scanLoop c E c.depth initSt = scan c E from rfl, hab] at h; cases h
  · refine ⟨⟨j, by omega, inv⟩, ?_⟩
    intro m u hs hm
    exact r m 1 u (Or.inr ⟨[1], by simp [initSt], top_singleton 1⟩) hs hm

/-- **Soundness.** Every "found session `s` via stack `σ`" of a completed scan is genuine: the stack starts in
    the default session, every session change along `σ ++ [s]` is answered positively by the ECU, the stack has at
    most `depth` entries (so `s` is entered by at most `depth` changes), and no skipped session is entered. -/
theorem scan_sound (c : Cfg) (E : Ecu) (s : Sess) (σ : List Sess)
    (hab : (scan c E).aborted = false) (h : (s, σ) ∈ (scan c E).pos) :
    σ.head? = some 1 ∧ ValidPath (edge c E) (σ ++ [s]) ∧ σ.length ≤ c.depth ∧ ∀ x ∈ σ.tail ++ [s], x ∉ c.skip := by
  obtain ⟨⟨j, hj, inv⟩, _⟩ := final_inv c E hab
  obtain ⟨hp, hok, hs, hl⟩ := inv.pos_ok _ h
  have hsn := hp.snoc hok hs
  refine ⟨hp.1, hsn.2.1, by simp only at hl; omega, ?_⟩
  intro x hx
  rcases List.mem_append.1 hx with h1 | h1
  · exact (hp.2.2 x h1).1
  · simp only [List.mem_singleton] at h1; rw [h1]; exact hok.1

/-- the rows written to `session_transition` (and the "via stack" lines) are sound -/
theorem transitions_sound (c : Cfg) (E : Ecu) (s : Sess) (σ : List Sess) (h : (s, σ) ∈ transitions (scan c E)) :
    σ.head? = some 1 ∧ ValidPath (edge c E) (σ ++ [s]) ∧ σ.length ≤ c.depth ∧ ∀ x ∈ σ.tail ++ [s], x ∉ c.skip := by
  obtain ⟨hab, hp⟩ := mem_transitions h
  exact scan_sound c E s σ hab hp

/-- every reported session satisfies the specification (whether or not the scan gave up: then nothing is
    reported) -/
theorem result_sound (c : Cfg) (E : Ecu) (s : Sess) (h : s ∈ result (scan c E)) :
    ReachWithin (edge c E) c.skip s c.depth := by
  obtain ⟨hab, σ, hσ⟩ := (mem_result_iff _ _).1 h
  obtain ⟨⟨j, hj, inv⟩, _⟩ := final_inv c E hab
  obtain ⟨hp, hok, hs, hl⟩ := inv.pos_ok _ hσ
  have hr := hp.reachIn
  have hne := hp.ne_nil
  have hlen : 1 ≤ σ.length := by
    cases σ with
    | nil => exact absurd rfl hne
    | cons a l => simp
  simp only at hl
  exact ⟨σ.length - 1 + 1, by omega, by omega, .step hr hok.2 hok.1 hs⟩

/-- **Completeness.** A scan that does not give up reports every session that can be entered from the default
    session by 1..`depth` positive changes through non-skipped sessions - in first-visit mode as well as in
    thorough mode, whatever the cycles in the graph. -/
theorem scan_complete (c : Cfg) (E : Ecu) (s : Sess) (hab : (scan c E).aborted = false)
    (h : ReachWithin (edge c E) c.skip s c.depth) : s ∈ result (scan c E) := by
  obtain ⟨⟨j, _, inv⟩, hsearch⟩ := final_inv c E hab
  obtain ⟨k, h1, h2, hr⟩ := h
  cases hr with
  | zero => omega
  | step hp hg hsk hs =>
    rename_i k' p
    have hps : p ∈ (scan c E).searched := hsearch k' p (steps_of_reachIn hp) (by omega)
    obtain ⟨σ, hσ⟩ := inv.reported p hps s hs ⟨hsk, hg⟩
    exact (mem_result_iff _ _).2 ⟨hab, σ, hσ⟩

/-- On every ECU whose sessions can all re-enter the default session (and that does not answer the ECUReset of
    `--reset` with a reply the client refuses: `ResetLegal`) the scanner never takes `sys.exit(1)` and no exception
    leaves `main`. -/
theorem scan_never_gives_up (c : Cfg) (E : Ecu) (hd : DefaultReentry (edge c E)) (hrl : ResetLegal c E) :
    (scan c E).aborted = false :=
  scanLoop_noabort c E hd hrl c.depth 0 initSt rfl (lvlInv_init c E)

/-- **Exactly the reachable sessions** on the ECU class of the property. -/
theorem scan_exact (c : Cfg) (E : Ecu) (hd : DefaultReentry (edge c E)) (hrl : ResetLegal c E) (s : Sess) :
    s ∈ result (scan c E) ↔ ReachWithin (edge c E) c.skip s c.depth :=
  ⟨result_sound c E s, scan_complete c E s (scan_never_gives_up c E hd hrl)⟩

/-- A scan that gives up reports nothing and exits with status 1. -/
theorem scan_gives_up_reports_nothing (c : Cfg) (E : Ecu) (h : (scan c E).aborted = true) :
    result (scan c E) = [] ∧ transitions (scan c E) = [] ∧ negReported (scan c E) = [] ∧ exitCode (scan c E) = 1 := by
  simp [result, transitions, negReported, exitCode, h]

/-- **Termination / work bound.** `scan` is defined by structural recursion on the remaining depth and folds over
    finite lists, so it terminates on every graph (Lean accepts the definitions without fuel or `partial`).
    Beyond that: in first-visit mode every session is expanded at most once, whatever the cycles and the depth,
    so at most 127 stacks are expanded with 127 probes each. -/
theorem scan_terminates (c : Cfg) (E : Ecu) (hth : c.thorough = false) (hab : (scan c E).aborted = false) :
    (scan c E).searched.Nodup ∧ ∀ x ∈ (scan c E).searched, x ∈ sessions := by
  obtain ⟨⟨j, _, inv⟩, _⟩ := final_inv c E hab
  exact ⟨inv.nodup hth, inv.searched_in⟩

/-- **State tracking.** Whenever a probe `10 s` reaches the ECU, the ECU is in the session on top of the stack the
    scanner believes it is exploring - for every graph, including runs that later give up. -/
theorem scan_state_tracking (c : Cfg) (E : Ecu) (r : Req) (h : r ∈ (scan c E).reqs) (hk : r.kind = .probe) :
    r.cur = r.top :=
  (((scan_wire c E).1 r h).1 hk).2

/-- **Skip list.** No probe ever targets a skipped session, and the only skipped session that can appear in a
    stack recovery is the default session. -/
theorem skip_not_requested (c : Cfg) (E : Ecu) (r : Req) (h : r ∈ (scan c E).reqs)
    (hk : r.kind = .probe ∨ r.kind = .recover) (hs : r.target ∈ c.skip) : r.kind = .recover ∧ r.target = 1 := by
  obtain ⟨h1, h2⟩ := (scan_wire c E).1 r h
  rcases hk with hk | hk
  · exact absurd hs (h1 hk).1
  · rcases h2 hk with h3 | h3
    · exact ⟨hk, h3⟩
    · exact absurd hs h3

/-- the ECU used in the witnesses below: 1 -> 2 -> 3, every session can return to 1 -/
def demoEcu : Ecu :=
  { g := fun p u => if u = 1 ∨ (p = 1 ∧ u = 2) ∨ (p = 2 ∧ u = 3) then .pos else .nrc NRC_SFNS
    rst := fun _ => .pos }

/-- **Witness for `--skip 1`.** With the default session in the skip list, `10 01` is requested nevertheless
    (during stack recovery): the literal reading of "never requested" fails for session 1. -/
theorem skip_default_session_requested :
    ∃ r ∈ (scan { depth := 1, skip := [1] } demoEcu).reqs, r.kind = .recover ∧ r.target = 1 ∧ r.target ∈ [1] := by
  refine ⟨⟨.recover, 1, 1, 1⟩, ?_, rfl, rfl, by simp⟩
  decide +kernel

/-- **Thorough mode** reports the same set of sessions as first-visit mode. -/
theorem thorough_same_set (c : Cfg) (E : Ecu) (hd : DefaultReentry (edge c E)) (hrl : ResetLegal c E) (s : Sess) :
    s ∈ result (scan { c with thorough := true } E) ↔ s ∈ result (scan { c with thorough := false } E) := by
  rw [scan_exact { c with thorough := true } E hd hrl, scan_exact { c with thorough := false } E hd hrl]
  exact Iff.rfl

/-- **`--reset`** (ECUReset + `wait_for_ecu` before every probe, stack recovered afterwards) reports the same set of
    sessions as the scan without it - whatever the ECU answers to the reset (positive, negative, nothing; a reply the
    client refuses ends the scan with an exception) and however long it boots. -/
theorem reset_same_set (c : Cfg) (E : Ecu) (hd : DefaultReentry (edge c E)) (hr : ∀ p, (E.rst p).refused = false)
    (level : Nat) (s : Sess) :
    s ∈ result (scan { c with reset := some level } E) ↔ s ∈ result (scan { c with reset := none } E) := by
  rw [scan_exact { c with reset := some level } E hd (Or.inr hr), scan_exact { c with reset := none } E hd (Or.inl rfl)]
  exact Iff.rfl

theorem reachIn_mono {g g' : Sess → Sess → Ans} (h : ∀ p u, g p u = .pos → g' p u = .pos) {skip : List Sess}
    {k : Nat} {u : Sess} (hr : ReachIn g skip k u) : ReachIn g' skip k u := by
  induction hr with
  | zero => exact .zero
  | step _ hg hs hm ih => exact .step ih (h _ _ hg) hs hm

/-- **`--with-hooks`** only adds: every session reported without it is reported with it (the hooked second attempt
    turns refused edges into positive ones, never the other way round). -/
theorem with_hooks_superset (c : Cfg) (E : Ecu) (hd : DefaultReentry E.g) (hrl : ResetLegal c E) (s : Sess)
    (h : s ∈ result (scan { c with hooks := false } E)) : s ∈ result (scan { c with hooks := true } E) := by
  have hd0 : DefaultReentry (edge { c with hooks := false } E) := by rw [edge_base _ _ rfl]; exact hd
  have hd1 : DefaultReentry (edge { c with hooks := true } E) := fun x => (edge_pos_iff _ E x 1).2 (Or.inl (hd x))
  rw [scan_exact _ E hd0 hrl] at h
  rw [scan_exact _ E hd1 hrl]
  obtain ⟨k, h1, h2, hr⟩ := h
  refine ⟨k, h1, h2, reachIn_mono (fun p u hg => ?_) hr⟩
  rw [edge_base _ _ rfl] at hg
  exact (edge_pos_iff _ E p u).2 (Or.inl hg)

/-- The specification the correspondence harness evaluates on the real scanner's report is the one used above. -/
theorem reachSet_is_spec (g : Sess → Sess → Ans) (skip : List Sess) (d : Nat) (u : Sess) :
    u ∈ reachSet g skip d ↔ ReachWithin g skip u d := mem_reachSet g skip d u

/-- the model's report equals the executable specification, as sets -/
theorem result_eq_reachSet (c : Cfg) (E : Ecu) (hd : DefaultReentry (edge c E)) (hrl : ResetLegal c E) (s : Sess) :
    s ∈ result (scan c E) ↔ s ∈ reachSet (edge c E) c.skip c.depth := by
  rw [scan_exact c E hd hrl, mem_reachSet]

/-- `SessionsScanner.result` is strictly ascending (sorted, every session once) -/
theorem result_ascending (c : Cfg) (E : Ecu) : (result (scan c E)).Pairwise (· < ·) := result_strict _

/-- **The report, as a list, is the specification**: on the property's ECU class `SessionsScanner.result` equals
    the ascending list of the sessions reachable within the depth limit - this is the comparison the
    correspondence harness makes on the real scanner's output. -/
theorem result_is_reachSet (c : Cfg) (E : Ecu) (hd : DefaultReentry (edge c E)) (hrl : ResetLegal c E) :
    result (scan c E) = reachSet (edge c E) c.skip c.depth :=
  eq_of_strict_of_mem_iff _ _ (result_strict _) (reachSet_strict _ _ _) (result_eq_reachSet c E hd hrl)

/-! Non-vacuity: the hypotheses are satisfiable by a non-trivial ECU, and session 3 of `demoEcu` is reachable
    within depth 2 only through the non-default session 2. -/
example : DefaultReentry demoEcu.g := by intro s; simp [demoEcu]
theorem demo_reach : ReachIn demoEcu.g [] 2 3 := by
  have h1 : ReachIn demoEcu.g [] 1 2 :=
    .step (p := 1) (u := 2) .zero (by simp [demoEcu]) (by simp) (by simp [sessions])
  exact .step (p := 2) (u := 3) h1 (by simp [demoEcu]) (by simp) (by simp [sessions])

example : ReachWithin demoEcu.g [] 3 2 := ⟨2, by omega, by omega, demo_reach⟩
example : 3 ∈ result (scan { depth := 2 } demoEcu) :=
  (scan_exact { depth := 2 } demoEcu (by intro s; simp [edge, demoEcu]) (Or.inl rfl) 3).2
    ⟨2, by omega, Nat.le_refl 2, by rw [edge_base _ _ rfl]; exact demo_reach⟩

/-! ### `--with-hooks` with an ECU class whose session hooks do something -/

/-- 1 -> 2 is refused with conditionsNotCorrect unless the request is preceded by the session hook; 2 -> 3 is
    plain; every session can return to 1 -/
def hookEcu : Ecu :=
  { g := fun p u => if u = 1 ∨ (p = 2 ∧ u = 3) then .pos else if p = 1 ∧ u = 2 then .nrc NRC_CNC else .nrc NRC_SFNS
    rst := fun _ => .pos
    gh := fun p u => if u = 1 ∨ (p = 1 ∧ u = 2) ∨ (p = 2 ∧ u = 3) then .pos else .nrc NRC_SFNS }

def hookCfg (hooks : Bool) : Cfg := { depth := 3, hooks := hooks, preHook := [0x8502], postHook := [0x8501] }

/-- without `--with-hooks` sessions 2 and 3 stay out of reach (2 is listed as identified but not entered) ... -/
example : result (scan (hookCfg false) hookEcu) = [1] ∧ (negReported (scan (hookCfg false) hookEcu)).map (·.1) = [2] := by
  decide +kernel

/-- ... with `--with-hooks` the hooked second attempt enters 2, and 3 is found behind it -/
example : result (scan (hookCfg true) hookEcu) = [1, 2, 3] := by decide +kernel

/-- and that is what `scan_exact` says, with the edge 1 -> 2 of the effective graph coming from the hook -/
example : edge (hookCfg true) hookEcu 1 2 = .pos ∧ edge (hookCfg false) hookEcu 1 2 = .nrc NRC_CNC := by decide
example : DefaultReentry (edge (hookCfg true) hookEcu) := by intro s; simp [edge, hookEcu, hookCfg]

/-! ## Stateful ECUs (Model/SessionScanS.lean)

  `scanS c L e`: the same scanner against an arbitrary stateful ECU (`Link σ`: any state, replies may depend on the
  whole history and on the time since the previous request), every transmission a step of the ECU. -/

section stateful
variable {σ : Type}

/-- **Simulation.** On every ECU that has a session graph (`GraphLike`: reply to `10 u` and session afterwards depend
    on the current session only, as the graph `E` says; ECUReset / pings as `E.rst` / `E.boot` say) and starts in the
    default session, the stateful scan IS the graph scan: same request sequence, same found / positive / negative /
    searched lists, same exit. -/
theorem scan_simulates_graph (c : CfgS) (L : Link σ) (E : Ecu) (Inv : σ → Prop) (G : GraphLike L c E Inv) (e : σ)
    (he : Inv e) (h1 : L.sessionOf e = 1) : (scanS c L e).toSt L = scan c.toCfg E :=
  (scanS_sim G e he h1).1

/-- soundness for every GraphLike stateful ECU -/
theorem scan_sound_graphlike (c : CfgS) (L : Link σ) (E : Ecu) (Inv : σ → Prop) (G : GraphLike L c E Inv) (e : σ)
    (he : Inv e) (h1 : L.sessionOf e = 1) (s : Sess) (st : List Sess) (hab : (scanS c L e).aborted = false)
    (h : (s, st) ∈ (scanS c L e).pos) :
    st.head? = some 1 ∧ ValidPath E.g (st ++ [s]) ∧ st.length ≤ c.depth ∧ ∀ x ∈ st.tail ++ [s], x ∉ c.skip := by
  have hsim := scan_simulates_graph c L E Inv G e he h1
  have hab2 : (scan c.toCfg E).aborted = false := by rw [← hsim]; exact hab
  have hp : (s, st) ∈ (scan c.toCfg E).pos := by rw [← hsim]; exact h
  have := scan_sound c.toCfg E s st hab2 hp
  rw [edge_base_class c.toCfg E G.base.1] at this
  exact this

/-- completeness for every GraphLike stateful ECU -/
theorem scan_complete_graphlike (c : CfgS) (L : Link σ) (E : Ecu) (Inv : σ → Prop) (G : GraphLike L c E Inv) (e : σ)
    (he : Inv e) (h1 : L.sessionOf e = 1) (s : Sess) (hab : (scanS c L e).aborted = false)
    (h : ReachWithin E.g c.skip s c.depth) : s ∈ result ((scanS c L e).toSt L) := by
  rw [scan_simulates_graph c L E Inv G e he h1]
  have hab2 : (scan c.toCfg E).aborted = false := by
    rw [← scan_simulates_graph c L E Inv G e he h1]; exact hab
  exact scan_complete c.toCfg E s hab2 (by rw [edge_base_class c.toCfg E G.base.1]; exact h)

/-- **exactly the reachable sessions**, as a list, for every GraphLike stateful ECU in which every session can
    re-enter the default session -/
theorem scan_exact_graphlike (c : CfgS) (L : Link σ) (E : Ecu) (Inv : σ → Prop) (G : GraphLike L c E Inv) (e : σ)
    (he : Inv e) (h1 : L.sessionOf e = 1) (hd : DefaultReentry E.g) (hrl : ResetLegal c.toCfg E) :
    result ((scanS c L e).toSt L) = reachSet E.g c.skip c.depth := by
  rw [scan_simulates_graph c L E Inv G e he h1]
  have := result_is_reachSet c.toCfg E (by rw [edge_base_class c.toCfg E G.base.1]; exact hd) hrl
  rw [edge_base_class c.toCfg E G.base.1] at this
  exact this

/-- the graph ECU of the first part, run as a stateful oracle (one step per transmission, boot phase counted down ping
    by ping), is GraphLike for its own graph - so `scan` is what `scanS` computes on it -/
theorem graph_oracle_is_graphlike (c : CfgS) (E : Ecu) (hb : c.preHook = [] ∧ c.postHook = [])
    (hp : ∀ p, E.boot p + 1 ≤ c.pingBudget) :
    (scanS c (linkOf (graphOracle c.toCfg E)) {}).toSt (linkOf (graphOracle c.toCfg E)) = scan c.toCfg E :=
  scan_simulates_graph c _ E _ (graphOracle_graphLike c E hb hp) {} ⟨rfl, rfl⟩ rfl

/-- **(b) Security access in front of transitions.**  The scan never unlocks the ECU, so it reports exactly the
    sessions reachable within the depth limit WITHOUT the locked transitions (they show up as identified but not
    entered, NRC 0x33). -/
theorem scan_exact_locked_subgraph (c : CfgS) (E : Ecu) (locked : Sess → Sess → Bool)
    (hb : c.preHook = [] ∧ c.postHook = []) (hp : 1 ≤ c.pingBudget)
    (hd : DefaultReentry (lockedGraph E locked).g) (hrl : ResetLegal c.toCfg E) :
    result ((scanS c (linkOf (lockedOracle E locked)) (1, false)).toSt (linkOf (lockedOracle E locked))) =
      reachSet (lockedGraph E locked).g c.skip c.depth :=
  scan_exact_graphlike c _ _ _ (lockedOracle_graphLike c E locked hb hp) (1, false) rfl rfl hd hrl

/-- **(c) ResponsePending is transparent.**  An ECU that announces real answers with ResponsePending frames gets the
    same scan - same requests, same report, same final ECU state - as the ECU that answers at once. -/
theorem scan_pending_transparent (c : CfgS) (O : Oracle σ) (pend : σ → Wire → Nat) (h0 : NoPending O)
    (h : PendingClean O pend) (e : σ) : scanS c (linkOf (withPending O pend)) e = scanS c (linkOf O) e := by
  rw [linkOf_withPending O pend h0 h]

/-- a slow answer below the 20 s of the pending loop is an ordinary pending answer -/
theorem withSlowPending_eq (O : Oracle σ) (pend gap : σ → Wire → Nat) (hg : ∀ s w, gap s w < PENDING_GIVEUP_MS) :
    withSlowPending O pend gap = withPending O pend := by
  unfold withSlowPending withPending
  congr 1
  funext s i w
  have := hg s w
  rw [if_neg (by omega)]

/-- **(c2) Session changes that take their time.**  An ECU that announces its answers with ResponsePending frames and
    sends the positive reply up to (not including) 20 s after the last of them - whatever the delay, per state and per
    request - gets the same scan (same requests, same report, same final state) as the ECU that answers at once.  With
    `scan_exact_graphlike`: the scan of such a graph ECU reports exactly the reachable set. -/
theorem scan_slow_pending_transparent (c : CfgS) (O : Oracle σ) (pend gap : σ → Wire → Nat) (h0 : NoPending O)
    (h : PendingClean O pend) (hg : ∀ s w, gap s w < PENDING_GIVEUP_MS) (e : σ) :
    scanS c (linkOf (withSlowPending O pend gap)) e = scanS c (linkOf O) e := by
  rw [withSlowPending_eq O pend gap hg, linkOf_withPending O pend h0 h]

/-- the bound is sharp: with 20 s of silence after the ResponsePending the client sees an unanswered request -/
theorem slow_pending_lost_at_giveup (O : Oracle σ) (pend gap : σ → Wire → Nat) (s : σ) (i : Nat) (w : Wire)
    (hp : pend s w ≠ 0) (hf : (O.step s i w).2.fin = .pos) (hg : PENDING_GIVEUP_MS ≤ gap s w) :
    ((linkOf (withSlowPending O pend gap)).send s i w).2 = { ans := .silent, retry := true, slow := true } := by
  simp only [linkOf, withSlowPending]
  rw [if_pos ⟨hp, hf, hg⟩]
  simp only [outOf]
  rw [if_neg hp]

/-- non-vacuity: an ECU that enters every session, with one ResponsePending frame and 19.1 s before each positive reply -/
example : ∃ (O : Oracle Nat) (pend gap : Nat → Wire → Nat), NoPending O ∧ PendingClean O pend ∧
    (∀ s w, gap s w < PENDING_GIVEUP_MS) ∧ gap 1 (.dsc 2) = 19100 ∧ pend 1 (.dsc 2) = 1 :=
  ⟨{ step := fun s _ w => match w with
      | .dsc u => (u, { fin := .pos })
      | _ => (s, { fin := .pos }), sessionOf := id },
    fun _ _ => 1, fun _ _ => 19100,
    by intro s i w; cases w <;> rfl,
    by intro s i w _; cases w <;> exact ⟨by simp, by simp⟩,
    by intro s w; show 19100 < PENDING_GIVEUP_MS; decide, rfl, rfl⟩

/-- **(2) Wire alphabet, for ANY ECU.**  Whatever the ECU does, the scan sends nothing but: `10 s` probes to
    non-skipped sessions 1..0x7f; stack-recovery `10 s` to the default session or a non-skipped session; `11 level` and
    pings only with `--reset level`; hook requests only with `--with-hooks`, and only those of the ECU class. -/
theorem requests_only_dsc_reset_ping_hooks (c : CfgS) (L : Link σ) (e : σ) (r : Req) (h : r ∈ (scanS c L e).log) :
    (r.kind = .probe → r.target ∈ sessions ∧ r.target ∉ c.skip) ∧
    (r.kind = .recover → r.target = 1 ∨ (r.target ∈ sessions ∧ r.target ∉ c.skip)) ∧
    (r.kind = .reset → wantsReset c.toCfg = some r.target) ∧
    (r.kind = .ping → (wantsReset c.toCfg).isSome) ∧
    (r.kind = .hook → c.hooks = true ∧ r.target ∈ c.preHook ++ c.postHook) :=
  scanS_wire c L e r h

/-- **Skip list, for ANY ECU**: no `10 s` for a skipped session, except `10 01` during stack recovery -/
theorem skip_not_requested_any (c : CfgS) (L : Link σ) (e : σ) (r : Req) (h : r ∈ (scanS c L e).log)
    (hk : r.kind = .probe ∨ r.kind = .recover) (hs : r.target ∈ c.skip) : r.kind = .recover ∧ r.target = 1 := by
  obtain ⟨h1, h2, _⟩ := scanS_wire c L e r h
  rcases hk with hk | hk
  · exact absurd hs (h1 hk).2
  · rcases h2 hk with h3 | h3
    · exact ⟨hk, h3⟩
    · exact absurd hs h3.2

/-- **Work bound, for ANY ECU** (cycles, lies, timeouts ...): level `j` expands at most `127^(j-1)` stacks of `j`
    sessions, each with 127 probes of at most `perProbe c j` transmissions (reset + pings + recovery of the stack + probe,
    each `set_session` at most `(max_retry+1) * (2 + hook requests)`): `scanBound c depth 1 1 = Σ_{j=1..depth}
    127^(j-1) * 127 * perProbe c j`. -/
theorem requests_bounded (c : CfgS) (L : Link σ) (e : σ) : (scanS c L e).log.length ≤ scanBound c c.depth 1 1 :=
  scanS_log_le c L e

end stateful

/-- **(3) Database side.**  The rows written to `session_transition` are, in this order: one row (session, stack) per
    reported session - the sessions of these rows ARE `SessionsScanner.result`, strictly ascending, each stack one with
    which the session was entered - followed by one row per session that was identified but never entered (some NRC
    other than 0x12 / 0x7e, session not among the reported ones), with the stack it was refused from.  An aborted scan
    writes nothing. -/
theorem rows_match_report (st : St) :
    (transitions st).map (·.1) = result st ∧ (result st).Pairwise (· < ·) ∧
    (∀ row ∈ transitions st, row ∈ st.pos) ∧
    (∀ row ∈ negReported st, row ∈ st.neg ∧ row.1 ∉ result st ∧ row.2.2 ≠ NRC_SFNSIAS) ∧
    (st.aborted = true → transitions st = [] ∧ negReported st = []) := by
  refine ⟨rfl, result_strict st, fun row h => (mem_transitions h).2, ?_, fun h => by simp [transitions, negReported, h]⟩
  intro row h
  unfold negReported at h
  split at h
  · cases h
  · have h2 := firstOfRuns_sub _ _ _ _ h
    rw [List.mem_filter] at h2
    obtain ⟨h3, h4⟩ := h2
    rw [mem_sortBy] at h3
    simp only [Bool.and_eq_true, Bool.not_eq_true', bne_iff_ne, ne_eq] at h4
    refine ⟨h3, ?_, h4.2⟩
    intro hr
    obtain ⟨_, σ', hσ⟩ := (mem_result_iff _ _).1 hr
    have : st.pos.any (fun x => x.1 == row.1) = true := by
      rw [List.any_eq_true]; exact ⟨_, hσ, by simp⟩
    rw [this] at h4
    exact absurd h4.1 (by simp)

/-! ### (a) S3 session timeout: soundness of the stacks and completeness are lost -/

/-- 1 -> 2 -> 3 -> 4, every session can return to 1; the ECU falls back to the default session after 1 request that
    is not TesterPresent -/
def chainEcu : Ecu :=
  { g := fun p u => if u = 1 ∨ (p = 1 ∧ u = 2) ∨ (p = 2 ∧ u = 3) ∨ (p = 1 ∧ u = 5) then .pos else .nrc NRC_SFNS
    rst := fun _ => .pos }

def s3Link : Link (Sess × Nat) := linkOf (s3Oracle chainEcu { maxReqs := 1 })

/-- **Witness: completeness fails under a session timeout.**  Session 3 is reachable within depth 3 (1 -> 2 -> 3), the
    scan does not give up, and does not report it: by the time `10 03` is probed the ECU has fallen back to session 1. -/
theorem timeout_completeness_fails :
    ReachWithin chainEcu.g [] 3 3 ∧ (scanS { depth := 3 } s3Link (1, 0)).aborted = false ∧
      3 ∉ result ((scanS { depth := 3 } s3Link (1, 0)).toSt s3Link) := by
  refine ⟨⟨2, by omega, by omega, ?_⟩, by decide +kernel, by decide +kernel⟩
  have h1 : ReachIn chainEcu.g [] 1 2 :=
    .step (p := 1) (u := 2) .zero (by simp [chainEcu]) (by simp) (by simp [sessions])
  exact .step (p := 2) (u := 3) h1 (by simp [chainEcu]) (by simp) (by simp [sessions])

/-- **Witness: the reported stack can be wrong under a session timeout.**  Session 5 is reported "via stack 1 -> 2"
    although `10 05` is refused in session 2: the ECU was back in session 1 when it accepted it. -/
theorem timeout_stack_unsound :
    (5, [1, 2]) ∈ (scanS { depth := 3 } s3Link (1, 0)).pos ∧ chainEcu.g 2 5 ≠ .pos := by
  refine ⟨by decide +kernel, by decide⟩

/-! ### replies the client refuses (`Ans.illegal`: `parse_pdu` raises `IllegalResponse`) -/

/-- **A refused reply is never a finding.**  A session whose every probe is answered with a reply the client refuses
    (unknown NRC, truncated / foreign / mismatching reply - whether or not the ECU switched session when sending it)
    is neither reported nor listed as identified-but-not-entered, and no database row is written for it. -/
theorem illegal_never_reported (c : Cfg) (E : Ecu) (s : Sess) (h : ∀ p, (edge c E p s).refused = true) :
    s ∉ result (scan c E) ∧ (∀ row ∈ transitions (scan c E), row.1 ≠ s) ∧ ∀ row ∈ negReported (scan c E), row.1 ≠ s := by
  have hres : s ∉ result (scan c E) := by
    intro hs
    obtain ⟨k, _, _, hr⟩ := result_sound c E s hs
    cases hr with
    | zero => omega
    | @step _ p _ _ hg _ _ =>
      have := h p
      rw [hg] at this
      cases this
  refine ⟨hres, ?_, ?_⟩
  · intro row hrow hs
    apply hres
    rw [← hs]
    exact List.mem_map.2 ⟨row, hrow, rfl⟩
  · intro row hrow hs
    have hmem := ((rows_match_report (scan c E)).2.2.2.1 row hrow).1
    obtain ⟨p, hp⟩ := scan_neg c E row hmem
    have := h p
    rw [← hs, hp] at this
    cases this

/-- completeness, stated for the ECUs that answer no probe with a refused reply (the hypothesis `hn` is not needed by
    the proof: `scan_complete` holds with refused replies as well, as long as the scan does not give up - what a
    refused reply can cost is the recovery of a stack, i.e. `aborted`) -/
theorem scan_complete_no_refused (c : Cfg) (E : Ecu) (_hn : ∀ p u, (edge c E p u).refused = false)
    (hd : DefaultReentry (edge c E)) (hrl : ResetLegal c E) (s : Sess)
    (h : ReachWithin (edge c E) c.skip s c.depth) : s ∈ result (scan c E) :=
  scan_complete c E s (scan_never_gives_up c E hd hrl) h

/-- **A refused probe reply forces a stack recovery.**  When the probe `10 s` from the stack `σ` is answered with a
    reply the client refuses, nothing is recorded, the scan goes on, and the preparation of the NEXT probe walks the whole
    stack again (after the optional reset): whichever session the ECU was in after sending the refused reply - it may
    have switched to `s` - the next probe reaches it in the session on top of the stack. -/
theorem illegal_recovers_stack (c : Cfg) (E : Ecu) (σ : List Sess) (acc : St × Bool) (s : Sess)
    (hab : acc.1.aborted = false) (hs : s ∉ c.skip) (hp : (prepare c E σ acc).2 = true) (hne : σ ≠ [])
    (hr : (edge c E (prepare c E σ acc).1.cur s).refused = true) :
    (probeOne c E σ acc s).1.aborted = false ∧ (probeOne c E σ acc s).1.pos = acc.1.pos ∧
    (probeOne c E σ acc s).1.neg = acc.1.neg ∧ (probeOne c E σ acc s).1.found = acc.1.found ∧
    (wantsReset c = none →
      prepare c E σ (probeOne c E σ acc s) = recoverStack c E (top σ) σ (probeOne c E σ acc s).1) ∧
    ((prepare c E σ (probeOne c E σ acc s)).2 = true → (prepare c E σ (probeOne c E σ acc s)).1.cur = top σ) := by
  obtain ⟨hflag, h1, h2, h3, _, h5⟩ := probeOne_refused c E σ acc s hab hs hp hr
  refine ⟨h5.trans hab, h2, h3, h1, fun hw => ?_, fun hok => ?_⟩
  · rw [prepare_none _ _ _ _ hw, if_pos hflag]
  · exact prepare_cur c E σ _ hne (fun hf => by rw [hflag] at hf; cases hf) hok

/-- the ECU of the witnesses for refused replies: 1 -> 2 plain; `10 03` in session 1 is answered with a refused reply
    AFTER the ECU has switched to session 3 (from where `10 04` would be accepted); every session re-enters 1 -/
def liarEcu : Ecu :=
  { g := fun p u => if u = 1 ∨ (p = 1 ∧ u = 2) ∨ (p = 3 ∧ u = 4) then .pos else if p = 1 ∧ u = 3 then .illegal true
                    else .nrc NRC_SFNS
    rst := fun _ => .pos }

/-- non-vacuity of `illegal_never_reported` / `illegal_recovers_stack`: session 3 is not reported although the ECU
    entered it; session 4 (reachable only from the silently entered session 3) does not leak into the report; the
    request after the refused probe is the stack recovery `10 01`, sent while the ECU is in session 3 -/
example : result (scan { depth := 2 } liarEcu) = [1, 2] ∧ negReported (scan { depth := 2 } liarEcu) = [] ∧
    (⟨.recover, 1, 3, 1⟩ : Req) ∈ (scan { depth := 2 } liarEcu).reqs := by decide +kernel
example : DefaultReentry (edge { depth := 2 } liarEcu) := by intro s; simp [edge, liarEcu]
example : (edge { depth := 2 } liarEcu 1 3).refused = true := by decide

/-- witness: a refused reply to the ECUReset of `--reset` ends the scan - the `IllegalResponse` leaves the reset block
    and `main`; nothing is reported -/
example : (scan { depth := 2, reset := some 1 } { liarEcu with rst := fun _ => .illegal false }).crashed = true ∧
    result (scan { depth := 2, reset := some 1 } { liarEcu with rst := fun _ => .illegal false }) = [] := by
  decide +kernel

/-! ### the stored rows: scans with a database -/

/-- **The `session_transition` rows of a scan run are its reported stacks.**  Whatever the database `t` holds from
    earlier scan runs (of the same target or not, of another depth, of an ECU that behaved differently), a scan run into
    it under a fresh run id stores, for that run, exactly the rows of its own report in order (`runRows`: one row per
    reported session with the stack it was entered from, then the identified-but-not-entered ones), leaves the rows of
    every other run as they were, and every session it reports has a row of THIS run whose sequence of session changes
    starts in the default session, really leads there on the ECU (`ValidPath` over `edge`) and is at most `depth` long. -/
theorem stored_transitions_are_reported_stacks (c : Cfg) (E : Ecu) (t : Table) (run : Nat) (hfresh : ∀ r ∈ t, r.run ≠ run) :
    rowsOf (scanIntoDb c E t run) run = runRows (scan c E) ∧
    (∀ run2, run2 ≠ run → rowsOf (scanIntoDb c E t run) run2 = rowsOf t run2) ∧
    (∀ s ∈ result (scan c E), ∃ σ, (s, σ) ∈ rowsOf (scanIntoDb c E t run) run ∧
      σ.head? = some 1 ∧ ValidPath (edge c E) (σ ++ [s]) ∧ σ.length ≤ c.depth) := by
  have h1 : rowsOf (scanIntoDb c E t run) run = runRows (scan c E) := by
    rw [scanIntoDb, storeRows_eq, rowsOf_append, rowsOf_fresh t run hfresh, rowsOf_mk_self, List.nil_append]
  refine ⟨h1, fun run2 h2 => ?_, fun s hs => ?_⟩
  · rw [scanIntoDb, storeRows_eq, rowsOf_append, rowsOf_mk_other run run2 h2, List.append_nil]
  · simp only [result, List.mem_map] at hs
    obtain ⟨e, he, rfl⟩ := hs
    obtain ⟨hab, hpos⟩ := mem_transitions he
    obtain ⟨a, b, d, _⟩ := scan_sound c E e.1 e.2 hab hpos
    exact ⟨e.2, by rw [h1]; exact List.mem_append_left _ he, a, b, d⟩

/-- `insert_scan_run` hands out a fresh run id -/
theorem next_run_is_fresh (t : Table) : ∀ r ∈ t, r.run ≠ nextRun t := by
  intro r hr
  have := (foldl_max_ge t 1).2 r hr
  unfold nextRun
  omega

/-- non-vacuity: a database that already holds a sequence for session 3 from an earlier run (`[1]`, which does not lead there
    on `chainEcu`: 3 is entered from 2 only); the second run stores its own rows, session 3 via `[1, 2]` among them -/
example : nextRun [⟨1, 3, [1]⟩] = 2 ∧
    rowsOf (scanIntoDb { depth := 2 } chainEcu [⟨1, 3, [1]⟩] 2) 2 = runRows (scan { depth := 2 } chainEcu) ∧
    rowsOf (scanIntoDb { depth := 2 } chainEcu [⟨1, 3, [1]⟩] 2) 1 = [(3, [1])] :=
  ⟨by decide, (stored_transitions_are_reported_stacks _ _ _ 2 (by decide)).1,
   (stored_transitions_are_reported_stacks _ _ [⟨1, 3, [1]⟩] 2 (by decide)).2.1 1 (by decide)⟩
example : (3, [1, 2]) ∈ runRows (scan { depth := 2 } chainEcu) := by decide +kernel

end Gallia.C09
