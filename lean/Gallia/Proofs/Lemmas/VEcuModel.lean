import Gallia.Model.VEcu
import Gallia.Proofs.C13
import Gallia.Proofs.C16
/-
  Helper lemmas for C14, part 4: the hypotheses about the ECU model.

    * `ModelOK`            - what the theorems need of an ECU model beyond the active session being offered;
    * `modelOKB_sound` ... - the executable checks the driver evaluates on the concrete models of the tie are sound;
    * `randomize_ok`       - every model C16's `randomizeGen` can produce (all draw streams, choices, set orders)
                             satisfies `ModelOK` after `Server.Model.ofAssoc`.
-/
namespace Gallia.VEcu
open Gallia Gallia.Server Gallia.IsoDefault

/-- an ECU model the virtual ECU can be started with: a dict whose sub-function services carry lists (the `assert`
    of the sub-function rule), closed under session control from the default session (C13's `Closed`), session
    identifiers below 0x80 (they travel as sub-function bytes without the suppress bit and as one data byte) -/
structure ModelOK (m : Model) : Prop where
  wf : m.WF
  listed : ∀ s sm, m.get s = some sm → ∀ sid ∈ subFnServices, sm sid ≠ some none
  closed : C13.Closed m
  small : ∀ s ∈ m.sessions, s < 128

theorem ModelOK.ready {m : Model} (h : ModelOK m) {st : SrvState} (hs : st.session ∈ m.sessions) : Ready m st :=
  ⟨h.wf, hs, h.listed⟩

theorem ModelOK.ready_init {m : Model} (h : ModelOK m) : Ready m SrvState.init := h.ready h.closed.dflt

theorem listedB_sound (a : Assoc) (h : listedB a = true) :
    ∀ s sm, (Model.ofAssoc a).get s = some sm → ∀ sid ∈ subFnServices, sm sid ≠ some none := by
  apply ofAssoc_listed
  intro e he p hp hmem hn
  simp only [listedB, List.all_eq_true] at h
  have := h e he p hp
  simp [hn] at this
  exact this hmem

theorem readyB_sound (a : Assoc) (st : SrvState) (h : readyB a st = true) : Ready (Model.ofAssoc a) st := by
  simp only [readyB, Bool.and_eq_true] at h
  exact ⟨ofAssoc_wf a, by simpa [Model.ofAssoc] using h.1, listedB_sound a h.2⟩

theorem subIn_ofAssoc {a : Assoc} {s sid t : Nat} (h : subIn (Model.ofAssoc a) s sid t = true) :
    ∃ al l, (s, al) ∈ a ∧ (sid, some l) ∈ al ∧ t ∈ l := by
  unfold subIn at h
  simp only [Model.ofAssoc] at h
  cases hl : a.lookup s with
  | none => simp [hl] at h
  | some al =>
    simp only [hl, Option.map_some] at h
    cases hv : al.lookup sid with
    | none => simp [hv] at h
    | some v =>
      cases v with
      | none => simp [hv] at h
      | some l =>
        simp only [hv] at h
        exact ⟨al, l, lookup_mem a s al hl, lookup_mem al sid (some l) hv, by simpa using h⟩

theorem closedB_sound (a : Assoc) (h : closedB a = true) : C13.Closed (Model.ofAssoc a) := by
  simp only [closedB, Bool.and_eq_true, List.all_eq_true] at h
  refine ⟨by simpa [Model.ofAssoc] using h.1, ?_⟩
  intro s _ t ht
  obtain ⟨al, l, h1, h2, h3⟩ := subIn_ofAssoc ht
  have := h.2 (s, al) h1 (sidDSC, some l) h2
  simp at this
  simpa [Model.ofAssoc] using this t h3

theorem modelOKB_sound (a : Assoc) (h : modelOKB a = true) : ModelOK (Model.ofAssoc a) := by
  simp only [modelOKB, Bool.and_eq_true] at h
  obtain ⟨⟨h1, h2⟩, h3⟩ := h
  refine ⟨ofAssoc_wf a, listedB_sound a h1, closedB_sound a h2, ?_⟩
  intro s hs
  simp only [sessionsSmallB, List.all_eq_true, decide_eq_true_eq] at h3
  simp only [Model.ofAssoc, List.mem_map] at hs
  obtain ⟨e, he, rfl⟩ := hs
  exact h3 e he

/-! ### the models `RandomUDSServer.randomize` builds -/

open Gallia.Randomize in
theorem randomize_ok (p : Params) (o : Oracles) (hp : ParamsWF p) :
    ModelOK (Model.ofAssoc (randomizeGen isoTables p o).model) := by
  have hmem : ∀ {s}, Offered (randomizeGen isoTables p o).model s →
      s ∈ (Model.ofAssoc (randomizeGen isoTables p o).model).sessions := by
    rintro s ⟨sm, hm⟩
    simp only [Model.ofAssoc, List.mem_map]
    exact ⟨(s, sm), hm, rfl⟩
  refine ⟨ofAssoc_wf _, ?_, ⟨hmem C16.default_present, ?_⟩, ?_⟩
  · apply ofAssoc_listed
    intro e he pr hpr hsub hn
    have h2 := ((C16.nothing_invented (tb := isoTables) (p := p) (o := o) e.1 e.2 he).2.2 pr.1 pr.2 hpr).2
    rw [hn] at h2
    have hc : isoTables.subFn.contains pr.1 = true := by
      have : isoTables.subFn = subFnServices := rfl
      rw [this]; simpa using hsub
    rw [hc] at h2
    simp at h2
  · intro s _ t ht
    obtain ⟨al, l, h1, h2, h3⟩ := subIn_ofAssoc ht
    exact hmem (C16.dsc_subfns_are_sessions C16.isoTables_wf hp s al l t h1 h2 h3)
  · intro s hs
    simp only [Model.ofAssoc, List.mem_map] at hs
    obtain ⟨e, he, rfl⟩ := hs
    have := (C16.nothing_invented (tb := isoTables) (p := p) (o := o) e.1 e.2 he).2.1
    exact Nat.lt_of_lt_of_le this (by decide)

end Gallia.VEcu
