import Gallia.Proofs.Lemmas.PenlogIso
import Gallia.Proofs.Lemmas.PenlogNav
import Gallia.Model.PenlogHr
/-
  C17 helper lemmas, part 5: the record schema — the object of a written line read by `parse_json`, member lookup,
  `int()` on the written prefix, one written line through `lineRecord` / `linePrioE`.
-/
namespace Gallia.Penlog

/-! ### member lookup -/

theorem find?_filter_of_imp {α} (p q : α → Bool) (l : List α) (h : ∀ x, q x = true → p x = true) :
    (l.filter p).find? q = l.find? q := by
  rw [List.find?_filter]
  congr 1
  funext a
  cases hq : q a with
  | false => simp
  | true => simp [h a hq]

/-- members with other names do not matter to the lookup of `k` -/
theorem jget_filter (o : JObj) (ks : List Str) (k : Str) (hk : k ∈ ks) :
    jget (o.filter (fun kv => ks.contains kv.1)) k = jget o k := by
  unfold jget
  rw [← List.filter_reverse, find?_filter_of_imp]
  intro x hx
  have : x.1 = k := by simpa using hx
  simp [this, hk]

theorem jget_append_single (o : JObj) (k k' : Str) (v : JVal) :
    jget (o ++ [(k, v)]) k' = if k == k' then some v else jget o k' := by
  unfold jget
  simp only [List.reverse_append, List.reverse_cons, List.reverse_nil, List.nil_append, List.singleton_append,
    List.find?_cons]
  by_cases h : (k == k') = true
  · simp [h]
  · simp [h]

/-- `parse_json` looks at an object only through the six required members and, defaulted to `None`, the six
    optional ones -/
theorem readObj_congr_opt (o o' : JObj) (hr : ∀ k ∈ requiredKeys, jget o k = jget o' k)
    (ho : ∀ k ∈ optionalKeys, jopt o k = jopt o' k) : readObj o = readObj o' := by
  have h1 := hr kVersion (by decide)
  have h2 := hr kModuleK (by decide)
  have h3 := hr kHostK (by decide)
  have h4 := hr kDataK (by decide)
  have h5 := hr kDatetimeK (by decide)
  have h6 := hr kPriorityK (by decide)
  have h7 := ho kTagsK (by decide)
  have h8 := ho kLineK (by decide)
  have h9 := ho kStackK (by decide)
  have h10 := ho kLevelNoK (by decide)
  have h11 := ho kLevelNameK (by decide)
  have h12 := ho kFuncNameK (by decide)
  simp only [readObj, jreq, h1, h2, h3, h4, h5, h6, h7, h8, h9, h10, h11, h12]

/-- `parse_json` looks at an object only through the twelve member names it knows -/
theorem readObj_congr (o o' : JObj) (h : ∀ k ∈ knownKeys, jget o k = jget o' k) : readObj o = readObj o' := by
  apply readObj_congr_opt
  · intro k hk
    exact h k (by simp only [knownKeys, List.mem_append]; exact Or.inl hk)
  · intro k hk
    unfold jopt
    rw [h k (by simp only [knownKeys, List.mem_append]; exact Or.inr hk)]

/-- a record is only read when all six required members are there -/
theorem readObj_ok_required (o : JObj) (r : PRec) (h : readObj o = .ok r) :
    ∀ k ∈ requiredKeys, jget o k ≠ none := by
  intro k hk hab
  simp only [requiredKeys, List.mem_cons, List.not_mem_nil, or_false] at hk
  unfold readObj at h
  simp only [jreq, bind, Except.bind, pure, Except.pure] at h
  rcases hk with rfl | rfl | rfl | rfl | rfl | rfl
  all_goals
    repeat' (split at h)
    all_goals (first | (cases h; done) | simp_all)

/-! ### the object of a written line -/

/-- the `PenlogRecord` a flat record is read back as, given its parsed timestamp -/
def asRead (r : Rec) (d : DT) : PRec :=
  { module := .str r.module, host := .str r.host, data := .str r.data, datetime := d, priority := r.prio,
    tags := match r.tags with | none => .null | some l => .strs l,
    line := .str r.line,
    stacktrace := match r.stacktrace with | none => .null | some s => .str s,
    levelNo := .int r.levelNo, levelName := .str r.levelName, funcName := .str r.funcName }

theorem readObj_recObj (r : Rec) (d : DT) (hd : parseIso r.datetime = .ok d) (hp : r.prio ≤ 8) :
    readObj (recObj r) = .ok (asRead r d) := by
  have g1 : jget (recObj r) kVersion = some (.int 2) := rfl
  have g2 : jget (recObj r) kModuleK = some (.str r.module) := rfl
  have g3 : jget (recObj r) kHostK = some (.str r.host) := rfl
  have g4 : jget (recObj r) kDataK = some (.str r.data) := rfl
  have g5 : jget (recObj r) kDatetimeK = some (.str r.datetime) := rfl
  have g6 : jget (recObj r) kPriorityK = some (.int r.prio) := rfl
  have g7 : jget (recObj r) kTagsK = some (match r.tags with | none => .null | some l => .strs l) := rfl
  have g8 : jget (recObj r) kLineK = some (.str r.line) := rfl
  have g9 : jget (recObj r) kStackK = some (match r.stacktrace with | none => .null | some s => .str s) := rfl
  have g10 : jget (recObj r) kLevelNoK = some (.int r.levelNo) := rfl
  have g11 : jget (recObj r) kLevelNameK = some (.str r.levelName) := rfl
  have g12 : jget (recObj r) kFuncNameK = some (.str r.funcName) := rfl
  have hp' : (0 : Int) ≤ (r.prio : Int) ∧ (r.prio : Int) ≤ 8 := by omega
  simp only [readObj, jreq, jopt, g1, g2, g3, g4, g5, g6, g7, g8, g9, g10, g11, g12, JVal.num?, asRead]
  simp [hd, hp', bind, Except.bind, pure, Except.pure]

/-- the text `hr` prints for a read-back written record -/
def fmtText (r : Rec) (d : DT) : Str :=
  stamp d ++ (32 :: (r.module ++ ((match r.tags with
    | none => []
    | some [] => []
    | some l => 32 :: 91 :: (joinComma l ++ [93])) ++ (58 :: 32 :: (r.data ++ (10 :: (match r.stacktrace with
    | none => []
    | some s => 10 :: s)))))))

/-- printing a read-back written record never fails -/
theorem fmtRec_asRead (r : Rec) (d : DT) : fmtRec (asRead r d) = .ok (fmtText r d) := by
  unfold fmtRec asRead fmtText
  cases ht : r.tags with
  | none =>
    cases hs : r.stacktrace with
    | none => simp [strOf, tagsPart, bind, Except.bind, pure, Except.pure]
    | some s => simp [strOf, tagsPart, bind, Except.bind, pure, Except.pure, Except.map]
  | some l =>
    cases l with
    | nil =>
      cases hs : r.stacktrace with
      | none => simp [strOf, tagsPart, bind, Except.bind, pure, Except.pure]
      | some s => simp [strOf, tagsPart, bind, Except.bind, pure, Except.pure, Except.map]
    | cons a b =>
      cases hs : r.stacktrace with
      | none => simp [strOf, tagsPart, bind, Except.bind, pure, Except.pure]
      | some s => simp [strOf, tagsPart, bind, Except.bind, pure, Except.pure, Except.map]

/-! ### `int()` on written digits -/

theorem noDoubleUnderscore_of (l : Str) (h : ∀ d ∈ l, d ≠ 95) : noDoubleUnderscore l = true := by
  induction l with
  | nil => rfl
  | cons a t ih =>
    have ha := h a (by simp)
    have iht := ih (fun d hd => h d (by simp [hd]))
    unfold noDoubleUnderscore
    split
    · rename_i heq
      simp only [List.cons.injEq] at heq
      exact absurd heq.1 ha
    · rename_i heq
      simp only [List.cons.injEq] at heq
      rw [← heq.2]
      exact iht
    · rename_i heq; simp at heq

theorem isDigit_not_ws (d : Nat) (h : isDigit d = true) : isWs d = false := by
  simp [isDigit] at h
  simp [isWs]; omega

theorem stripWs_digits (l : Str) (h : ∀ d ∈ l, isDigit d = true) : stripWs l = l := by
  have key : ∀ m : Str, (∀ d ∈ m, isDigit d = true) → m.dropWhile isWs = m := by
    intro m hm
    cases m with
    | nil => rfl
    | cons x xs => simp [isDigit_not_ws x (hm x (by simp))]
  unfold stripWs
  rw [key l h, key l.reverse (fun d hd => h d (List.mem_reverse.mp hd)), List.reverse_reverse]

/-- `int()` of a non-empty run of decimal digits is its value -/
theorem pyInt_digits (l : Str) (hne : l ≠ []) (h : ∀ d ∈ l, isDigit d = true) : pyInt l = some (digitsVal l : Int) := by
  have hne95 : ∀ d ∈ l, d ≠ 95 := by
    intro d hd h95
    have := h d hd
    subst h95
    simp [isDigit] at this
  unfold pyInt
  rw [stripWs_digits l h]
  cases l with
  | nil => exact absurd rfl hne
  | cons x xs =>
    have hx := h x (by simp)
    have hx45 : x ≠ 45 := by intro e; subst e; simp [isDigit] at hx
    have hx43 : x ≠ 43 := by intro e; subst e; simp [isDigit] at hx
    have hlast : isDigit ((x :: xs).getLast?.getD 0) = true := by
      have := List.getLast?_eq_some_getLast (l := x :: xs) (by simp)
      rw [this]
      exact h _ (List.getLast_mem _)
    have hall : (x :: xs).all (fun c => isDigit c || c == 95) = true := by
      rw [List.all_eq_true]
      intro c hc
      simp [h c hc]
    have hfil : (x :: xs).filter isDigit = x :: xs := List.filter_eq_self.mpr h
    have hbody : intBody (x :: xs) = some (digitsVal (x :: xs)) := by
      unfold intBody
      rw [hlast, hall, noDoubleUnderscore_of _ hne95, hfil]
      simp [hx]
    split
    · rename_i heq; simp at heq
    · rename_i t heq
      simp only [List.cons.injEq] at heq
      exact absurd heq.1 hx45
    · rename_i t heq
      simp only [List.cons.injEq] at heq
      exact absurd heq.1 hx43
    · rw [hbody]
      rfl

theorem pyInt_natDec (n : Nat) : pyInt (natDec n) = some (n : Int) := by
  rw [pyInt_digits (natDec n) (natDec_ne_nil n) (natDec_digits n), digitsVal_natDec]

/-! ### one written line -/

theorem indexOf62_append (a b : Bs) (h : ∀ d ∈ a, d ≠ 62) : indexOf62 (a ++ 62 :: b) = some a.length := by
  induction a with
  | nil => simp [indexOf62]
  | cons x xs ih =>
    have hx := h x (by simp)
    have := ih (fun d hd => h d (by simp [hd]))
    simp [indexOf62, hx, this]

theorem natDec_ne62 (n : Nat) : ∀ d ∈ natDec n, d ≠ 62 := by
  intro d hd h62
  have := natDec_digits n d hd
  subst h62
  simp [isDigit] at this

theorem indexOf62_writeLine (r : Rec) :
    indexOf62 (60 :: (natDec r.prio ++ 62 :: (json r ++ [NL]))) = some ((natDec r.prio).length + 1) := by
  have := indexOf62_append (natDec r.prio) (json r ++ [NL]) (natDec_ne62 r.prio)
  simp [indexOf62, this]

/-- `json.loads` answers the writer's lines with the object of the record (the trusted contract; `loadsWriter`
    satisfies it, see `loadsWriter_ok`) -/
def Env.LoadsOk (E : Env) : Prop :=
  ∀ (r : Rec) (tl : Bs), r.WF → (tl = [] ∨ tl = [NL]) → E.loads (json r ++ tl) = .object (recObj r)

theorem loadsWriter_ok (z g : Bs → Option Bs) : Env.LoadsOk { loads := loadsWriter, zstDec := z, gzDec := g } := by
  intro r tl hw htl
  simp [loadsWriter, parseJson_json r hw tl htl]

theorem lineRecord_writeLine (E : Env) (hE : E.LoadsOk) (pfx : Bool) (r : Rec) (hw : r.WF) :
    lineRecord E (writeLine pfx r) = readObj (recObj r) := by
  cases pfx
  · rw [writeLine_false]
    obtain ⟨t, ht⟩ := json_head r [NL]
    have hl := hE r [NL] hw (Or.inr rfl)
    rw [ht] at hl ⊢
    simp [lineRecord, hl]
  · rw [writeLine_true]
    have hi := indexOf62_writeLine r
    have hl := hE r [NL] hw (Or.inr rfl)
    have hdrop : (60 :: (natDec r.prio ++ 62 :: (json r ++ [NL]))).drop ((natDec r.prio).length + 1 + 1) = json r ++ [NL] := by
      simp [List.drop_append]
    simp only [lineRecord, hi, hdrop, hl]

theorem linePrioE_writeLine (E : Env) (hE : E.LoadsOk) (pfx : Bool) (r : Rec) (hw : r.WF) (d : DT)
    (hd : parseIso r.datetime = .ok d) (hp : r.prio ≤ 8) :
    linePrioE E (writeLine pfx r) = .ok (r.prio : Int) := by
  cases pfx
  · have hr := lineRecord_writeLine E hE false r hw
    rw [readObj_recObj r d hd hp] at hr
    rw [writeLine_false] at hr ⊢
    obtain ⟨t, ht⟩ := json_head r [NL]
    rw [ht] at hr ⊢
    by_cases h60 : (123 : Nat) = 60
    · omega
    · simp [linePrioE, hr, asRead, Except.map]
  · rw [writeLine_true]
    have hi := indexOf62_writeLine r
    have htake : ((60 :: (natDec r.prio ++ 62 :: (json r ++ [NL]))).take ((natDec r.prio).length + 1)).drop 1 = natDec r.prio := by
      simp
    simp only [linePrioE, hi, htake, pyInt_natDec]

end Gallia.Penlog
