import Gallia.Model.PySet
import Gallia.Proofs.Lemmas.PySetProbe
/-
  C16 / PySet — the table invariant (`TableOK`: power-of-two size, 61-bit keys, every stored key is where a lookup of it
  stops) and its preservation under the three entry updates the set operations perform: an unused entry becomes a key,
  the remembered dummy becomes a key, a key becomes a dummy.
-/
namespace Gallia.PySet

def isKey : Slot → Bool
  | .key _ => true
  | _ => false

def nonEmpty : Slot → Bool
  | .empty => false
  | _ => true

/-- `x in s` at the level of the table: some entry holds the key -/
def Mem (t : Array Slot) (x : Nat) : Prop := ∃ j, slotAt t j = .key x

theorem slotAt_lt {t : Array Slot} {j : Nat} {v : Slot} (h : slotAt t j = v) (hv : v ≠ .empty) : j < t.size := by
  apply Nat.lt_of_not_le
  intro hle
  rw [slotAt_of_ge t hle] at h
  exact hv h.symm

theorem slotAt_eq_getElem {t : Array Slot} {j : Nat} (h : j < t.size) : slotAt t j = t[j] := by
  unfold slotAt
  simp [Array.getD_eq_getD_getElem?, h]

theorem slotAt_toList {t : Array Slot} {j : Nat} (h : j < t.toList.length) : t.toList[j] = slotAt t j := by
  rw [Array.getElem_toList, slotAt_eq_getElem]

theorem slotAt_replicate (n j : Nat) : slotAt (Array.replicate n .empty) j = .empty := by
  by_cases h : j < n
  · rw [slotAt_eq_getElem (by simpa using h)]; simp
  · exact slotAt_of_ge _ (by simpa using h)

theorem slotAt_set_same {t : Array Slot} {e : Nat} (v : Slot) (h : e < t.size) :
    slotAt (t.setIfInBounds e v) e = v := by simp [slotAt_set, h]

theorem slotAt_set_ne {t : Array Slot} {e j : Nat} (v : Slot) (h : j ≠ e) :
    slotAt (t.setIfInBounds e v) j = slotAt t j := by
  rw [slotAt_set]; split
  · omega
  · rfl

/-! ### membership and the iteration order -/

theorem mem_keysOf {t : Array Slot} {x : Nat} : x ∈ keysOf t ↔ Mem t x := by
  unfold keysOf Mem
  rw [List.mem_filterMap]
  constructor
  · rintro ⟨a, ha, hx⟩
    obtain ⟨i, hi, rfl⟩ := List.mem_iff_getElem.1 ha
    refine ⟨i, ?_⟩
    rw [slotAt_toList] at hx
    cases h : slotAt t i <;> simp [h] at hx
    subst hx; rfl
  · rintro ⟨j, hj⟩
    have hlt := slotAt_lt hj (by simp)
    refine ⟨.key x, ?_, rfl⟩
    rw [List.mem_iff_getElem]
    exact ⟨j, by simpa using hlt, by rw [slotAt_toList, hj]⟩

theorem length_keysOf (t : Array Slot) : (keysOf t).length = t.toList.countP isKey := by
  unfold keysOf
  rw [List.length_filterMap_eq_countP]
  congr 1
  funext a
  cases a <;> rfl

/-- distinct entries hold distinct keys ⇒ the iteration order has no duplicates -/
theorem keysOf_nodup {t : Array Slot} (h : ∀ i j x, slotAt t i = .key x → slotAt t j = .key x → i = j) :
    (keysOf t).Nodup := by
  unfold keysOf List.Nodup
  rw [List.pairwise_filterMap, List.pairwise_iff_getElem]
  intro i j hi hj hij b hb b' hb' heq
  subst heq
  rw [slotAt_toList] at hb hb'
  have h1 : slotAt t i = .key b := by cases h : slotAt t i <;> simp [h] at hb; subst hb; rfl
  have h2 : slotAt t j = .key b := by cases h : slotAt t j <;> simp [h] at hb'; subst hb'; rfl
  have := h i j b h1 h2
  omega

theorem mem_set_key {t : Array Slot} {e x y : Nat} (he : e < t.size) (hne : isKey (slotAt t e) = false) :
    Mem (t.setIfInBounds e (.key x)) y ↔ y = x ∨ Mem t y := by
  constructor
  · rintro ⟨j, hj⟩
    by_cases hje : j = e
    · subst hje; rw [slotAt_set_same _ he] at hj; cases hj; exact Or.inl rfl
    · rw [slotAt_set_ne _ hje] at hj; exact Or.inr ⟨j, hj⟩
  · rintro (rfl | ⟨j, hj⟩)
    · exact ⟨e, slotAt_set_same _ he⟩
    · refine ⟨j, ?_⟩
      rw [slotAt_set_ne]; exact hj
      rintro rfl; rw [hj] at hne; cases hne

theorem mem_set_dummy {t : Array Slot} {e x y : Nat} (he : slotAt t e = .key x)
    (huniq : ∀ j, slotAt t j = .key x → j = e) :
    Mem (t.setIfInBounds e .dummy) y ↔ y ≠ x ∧ Mem t y := by
  have helt := slotAt_lt he (by simp)
  constructor
  · rintro ⟨j, hj⟩
    by_cases hje : j = e
    · subst hje; rw [slotAt_set_same _ helt] at hj; cases hj
    · rw [slotAt_set_ne _ hje] at hj
      refine ⟨?_, j, hj⟩
      rintro rfl; exact hje (huniq j hj)
  · rintro ⟨hne, j, hj⟩
    refine ⟨j, ?_⟩
    rw [slotAt_set_ne]; exact hj
    rintro rfl; rw [he] at hj; cases hj; exact hne rfl

/-! ### counting entries -/

theorem countP_set (p : Slot → Bool) {t : Array Slot} {e : Nat} (v : Slot) (he : e < t.size) :
    (t.setIfInBounds e v).toList.countP p + (if p (slotAt t e) then 1 else 0) =
      t.toList.countP p + (if p v then 1 else 0) := by
  rw [Array.toList_setIfInBounds, List.countP_set (by simpa using he), slotAt_toList]
  have : (if p (slotAt t e) = true then 1 else 0) ≤ List.countP p t.toList := by
    split
    · apply List.countP_pos_iff.2
      exact ⟨slotAt t e, by rw [← slotAt_toList (by simpa using he)]; exact List.getElem_mem _, ‹_›⟩
    · omega
  omega

theorem exists_empty_of_count {t : Array Slot} (h : t.toList.countP nonEmpty < t.size) :
    ∃ j, j < t.size ∧ slotAt t j = .empty := by
  apply Classical.byContradiction
  intro hno
  have : t.toList.countP nonEmpty = t.toList.length := by
    rw [List.countP_eq_length]
    intro a ha
    obtain ⟨i, hi, rfl⟩ := List.mem_iff_getElem.1 ha
    rw [slotAt_toList]
    cases hs : slotAt t i <;> simp [nonEmpty]
    exact hno ⟨i, by simpa using hi, hs⟩
  rw [Array.length_toList] at this
  omega

theorem all_empty_of_count {t : Array Slot} (h : t.toList.countP nonEmpty = 0) (j : Nat) : slotAt t j = .empty := by
  by_cases hj : j < t.size
  · have := List.countP_eq_zero.1 h (slotAt t j) (by
      rw [← slotAt_toList (by simpa using hj)]; exact List.getElem_mem _)
    cases hs : slotAt t j <;> simp [hs, nonEmpty] at this ⊢
  · exact slotAt_of_ge _ (by omega)

/-- no dummies: every non-empty entry is a key -/
theorem no_dummy_of_counts {t : Array Slot} (h : t.toList.countP nonEmpty = t.toList.countP isKey) (j : Nat) :
    slotAt t j ≠ .dummy := by
  intro hd
  have hj := slotAt_lt hd (by simp)
  -- isKey ≤ nonEmpty pointwise and strictly at j
  have key : ∀ l : List Slot, l.countP isKey ≤ l.countP nonEmpty ∧
      (.dummy ∈ l → l.countP isKey < l.countP nonEmpty) := by
    intro l
    induction l with
    | nil => simp
    | cons a l ih =>
      simp only [List.countP_cons, List.mem_cons]
      cases a with
      | empty => simp [isKey, nonEmpty]; exact ih
      | dummy => simp [isKey, nonEmpty]; omega
      | key n => simp [isKey, nonEmpty]; exact ⟨by omega, fun h => by have := ih.2 h; omega⟩
  have := (key t.toList).2 (by rw [← hd, ← slotAt_toList (by simpa using hj)]; exact List.getElem_mem _)
  omega

/-! ### the invariant -/

structure TableOK (t : Array Slot) : Prop where
  pow : ∃ k, 3 ≤ k ∧ t.size = 2 ^ k
  bound : ∀ j x, slotAt t j = .key x → x < hashModulus
  look : ∀ j x, slotAt t j = .key x → ∃ hit, probe (stopLook x) t x = some hit ∧ hit.idx = j

theorem TableOK.size_pos {t : Array Slot} (h : TableOK t) : 0 < t.size := by
  obtain ⟨k, _, hk⟩ := h.pow; rw [hk]; exact Nat.two_pow_pos _

theorem TableOK.size_ge {t : Array Slot} (h : TableOK t) : 8 ≤ t.size := by
  obtain ⟨k, h3, hk⟩ := h.pow
  rw [hk]
  calc 8 = 2 ^ 3 := rfl
    _ ≤ 2 ^ k := Nat.pow_le_pow_right (by decide) h3

theorem TableOK.uniq {t : Array Slot} (h : TableOK t) {i j x : Nat} (hi : slotAt t i = .key x)
    (hj : slotAt t j = .key x) : i = j := by
  obtain ⟨h1, p1, q1⟩ := h.look i x hi
  obtain ⟨h2, p2, q2⟩ := h.look j x hj
  rw [p1] at p2; cases p2; omega

theorem hashModulus_lt : hashModulus < 2 ^ 65 := by decide

theorem tableOK_replicate {k : Nat} (hk : 3 ≤ k) : TableOK (Array.replicate (2 ^ k) .empty) :=
  ⟨⟨k, hk, by simp⟩, fun j x h => by (rw [slotAt_replicate] at h; cases h),
   fun j x h => by (rw [slotAt_replicate] at h; cases h)⟩

theorem stopLook_eq_true {x : Nat} {s : Slot} : stopLook x s = true ↔ s = .empty ∨ s = .key x := by
  cases s <;> simp [stopLook]

/-- a lookup on a table with an unused entry stops inside the table, at the key or (iff it is absent) at an unused entry -/
theorem look_cases {t : Array Slot} (h : TableOK t) {x : Nat} (hx : x < hashModulus)
    (hempty : ∃ j, j < t.size ∧ slotAt t j = .empty) :
    ∃ hit, probe (stopLook x) t x = some hit ∧ hit.idx < t.size ∧
      ((slotAt t hit.idx = .empty ∧ ¬ Mem t x) ∨ slotAt t hit.idx = .key x) := by
  obtain ⟨k, _, hk⟩ := h.pow
  obtain ⟨j, hj, hje⟩ := hempty
  obtain ⟨hit, hp⟩ := probe_isSome (stop := stopLook x) hk (Nat.lt_trans hx hashModulus_lt) hj (by rw [hje]; rfl)
  obtain ⟨hs, hlt⟩ := probe_spec h.size_pos hp
  refine ⟨hit, hp, hlt, ?_⟩
  rcases stopLook_eq_true.1 hs with he | hkx
  · left
    refine ⟨he, ?_⟩
    rintro ⟨i, hi⟩
    obtain ⟨hit', p', q'⟩ := h.look i x hi
    rw [hp] at p'; cases p'
    rw [q', hi] at he; cases he
  · exact Or.inr hkx

/-- an unused entry found by the lookup of `x` becomes `x` -/
theorem tableOK_set_empty {t : Array Slot} (h : TableOK t) {x : Nat} (hx : x < hashModulus) {hit : Hit}
    (hp : probe (stopLook x) t x = some hit) (he : slotAt t hit.idx = .empty) (hlt : hit.idx < t.size) :
    TableOK (t.setIfInBounds hit.idx (.key x)) := by
  have hnot : ¬ Mem t x := by
    rintro ⟨i, hi⟩
    obtain ⟨hit', p', q'⟩ := h.look i x hi
    rw [hp] at p'; cases p'
    rw [q', hi] at he; cases he
  refine ⟨by simpa using h.pow, ?_, ?_⟩
  · intro j y hj
    by_cases hje : j = hit.idx
    · subst hje; rw [slotAt_set_same _ hlt] at hj; cases hj; exact hx
    · rw [slotAt_set_ne _ hje] at hj; exact h.bound j y hj
  · intro j y hj
    by_cases hje : j = hit.idx
    · subst hje
      rw [slotAt_set_same _ hlt] at hj; cases hj
      refine probe_agree (by simp) hp ?_
      intro m hm
      by_cases hme : m = hit.idx
      · subst hme; rw [slotAt_set_same _ hlt, he]; simp [stopLook]
      · rw [slotAt_set_ne _ hme]
    · rw [slotAt_set_ne _ hje] at hj
      have hyx : y ≠ x := by rintro rfl; exact hnot ⟨j, hj⟩
      obtain ⟨hit', p', q'⟩ := h.look j y hj
      obtain ⟨hit'', p'', q''⟩ := probe_agree (stop' := stopLook y) (t' := t.setIfInBounds hit.idx (.key x))
        (by simp) p' (by
          intro m hm
          by_cases hme : m = hit.idx
          · subst hme
            rcases hm with hm | hm
            · rw [he] at hm; cases hm
            · omega
          · rw [slotAt_set_ne _ hme])
      exact ⟨hit'', p'', by omega⟩

/-- the dummy remembered by the lookup of an absent `x` becomes `x` -/
theorem tableOK_set_free {t : Array Slot} (h : TableOK t) {x : Nat} (hx : x < hashModulus) {hit : Hit}
    (hp : probe (stopLook x) t x = some hit) (he : slotAt t hit.idx = .empty) {f : Nat} (hf : hit.free = some f) :
    TableOK (t.setIfInBounds f (.key x)) := by
  have hnot : ¬ Mem t x := by
    rintro ⟨i, hi⟩
    obtain ⟨hit', p', q'⟩ := h.look i x hi
    rw [hp] at p'; cases p'
    rw [q', hi] at he; cases he
  have hfd := probe_free_dummy hp hf
  have hflt := slotAt_lt hfd (by simp)
  refine ⟨by simpa using h.pow, ?_, ?_⟩
  · intro j y hj
    by_cases hje : j = f
    · subst hje; rw [slotAt_set_same _ hflt] at hj; cases hj; exact hx
    · rw [slotAt_set_ne _ hje] at hj; exact h.bound j y hj
  · intro j y hj
    by_cases hje : j = f
    · subst hje
      rw [slotAt_set_same _ hflt] at hj; cases hj
      exact probe_set_free (by simp) (fun m hm => slotAt_set_ne _ hm)
        (by rw [slotAt_set_same _ hflt]; simp [stopLook]) hp hf
    · rw [slotAt_set_ne _ hje] at hj
      have hyx : y ≠ x := by rintro rfl; exact hnot ⟨j, hj⟩
      obtain ⟨hit', p', q'⟩ := h.look j y hj
      obtain ⟨hit'', p'', q''⟩ := probe_agree (stop' := stopLook y) (t' := t.setIfInBounds f (.key x))
        (by simp) p' (by
          intro m _
          by_cases hme : m = f
          · subst hme; rw [slotAt_set_same _ hflt, hfd]; simp [stopLook]; exact fun h => hyx h.symm
          · rw [slotAt_set_ne _ hme])
      exact ⟨hit'', p'', by omega⟩

/-- a key becomes a dummy -/
theorem tableOK_set_dummy {t : Array Slot} (h : TableOK t) {e x : Nat} (he : slotAt t e = .key x) :
    TableOK (t.setIfInBounds e .dummy) := by
  have helt := slotAt_lt he (by simp)
  refine ⟨by simpa using h.pow, ?_, ?_⟩
  · intro j y hj
    by_cases hje : j = e
    · subst hje; rw [slotAt_set_same _ helt] at hj; cases hj
    · rw [slotAt_set_ne _ hje] at hj; exact h.bound j y hj
  · intro j y hj
    by_cases hje : j = e
    · subst hje; rw [slotAt_set_same _ helt] at hj; cases hj
    · rw [slotAt_set_ne _ hje] at hj
      have hyx : y ≠ x := by rintro rfl; exact hje (h.uniq hj he)
      obtain ⟨hit', p', q'⟩ := h.look j y hj
      obtain ⟨hit'', p'', q''⟩ := probe_agree (stop' := stopLook y) (t' := t.setIfInBounds e .dummy)
        (by simp) p' (by
          intro m _
          by_cases hme : m = e
          · subst hme; rw [slotAt_set_same _ helt, he]; simp [stopLook]; exact fun h => hyx h.symm
          · rw [slotAt_set_ne _ hme])
      exact ⟨hit'', p'', by omega⟩

end Gallia.PySet
