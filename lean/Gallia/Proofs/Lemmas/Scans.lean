import Gallia.Model.Scans
namespace Gallia.Scans
open Gallia

variable {σ : Type}

/-- an answer that makes the service scan record the service -/
def Ans.meaningful : Ans → Bool
  | .pos _ => true
  | .neg c => !(serviceNotSupportedCodes.contains c) && c != IMLOIF
  | _ => false

/-- an answer that ends probing as "not supported" -/
def Ans.notSupported : Ans → Bool
  | .neg c => serviceNotSupportedCodes.contains c
  | _ => false

/-! ### the class of ECUs the static theorems are about -/

/-- a session-determined ECU: the answer to a request depends on the active session and the request only; the
    session changes only through positive DiagnosticSessionControl / ECUReset replies; sub-function 0 of
    both is reserved by ISO 14229-1 and never answered positively -/
structure SessEcu (e : Ecu σ) where
  sess : σ → Nat
  ans : Nat → Bytes → Ans
  step_ans : ∀ s p, (e.step s p).2 = ans (sess s) p
  sess_keep : ∀ s p, p.head? ≠ some 0x10 → p.head? ≠ some 0x11 → sess (e.step s p).1 = sess s
  sess_neg : ∀ s p, (ans (sess s) p).isPos = false → sess (e.step s p).1 = sess s
  dsc_pos : ∀ s x, x < 0x80 → (ans (sess s) (dscPdu x)).isPos = true → sess (e.step s (dscPdu x)).1 = x
  reserved0 : ∀ ss l, (ans ss (probePdu 0x10 l)).isPos = false ∧ (ans ss (probePdu 0x11 l)).isPos = false

/-- the ISO 14229-1 default rule for the service level, relative to a table `supp session sid` -/
structure IsoServiceRule (ans : Nat → Bytes → Ans) (supp : Nat → Nat → Bool) : Prop where
  unsupported : ∀ ss sid p, sid < 256 → supp ss sid = false → p.head? = some (b sid) → (ans ss p).notSupported = true
  supported : ∀ ss sid p, sid < 256 → supp ss sid = true → p.head? = some (b sid) → (ans ss p).notSupported = false

theorem b_inj {x y : Nat} (hx : x < 256) (hy : y < 256) (h : b x = b y) : x = y := by
  have := congrArg UInt8.toNat h
  simp [b] at this
  omega

theorem probePdu_head (sid l : Nat) : (probePdu sid l).head? = some (b sid) := by simp [probePdu]

theorem probe_keeps_session {e : Ecu σ} (E : SessEcu e) (s : σ) (sid l : Nat) (hs : sid < 256) :
    E.sess (e.step s (probePdu sid l)).1 = E.sess s := by
  by_cases h10 : sid = 0x10
  · subst h10; exact E.sess_neg s _ (E.reserved0 _ l).1
  · by_cases h11 : sid = 0x11
    · subst h11; exact E.sess_neg s _ (E.reserved0 _ l).2
    · apply E.sess_keep
      · rw [probePdu_head]; intro h; injection h with h
        exact h10 (b_inj hs (by decide) h)
      · rw [probePdu_head]; intro h; injection h with h
        exact h11 (b_inj hs (by decide) h)

/-! ### the probe loop for one service id -/

theorem probeLens_session {e : Ecu σ} (E : SessEcu e) (sid : Nat) (hs : sid < 256) (ls : List Nat) (s : σ) :
    E.sess (probeLens e sid ls s).2.2 = E.sess s := by
  induction ls generalizing s with
  | nil => simp [probeLens]
  | cons l ls ih =>
    have hk := probe_keeps_session E s sid l hs
    simp only [probeLens]
    cases ha : (e.step s (probePdu sid l)).2 with
    | timeout => simp only []; rw [ih]; exact hk
    | illegal => simp only []; rw [ih]; exact hk
    | pos p => simpa using hk
    | neg c =>
      simp only []
      split
      · exact hk
      · split
        · rw [ih]; exact hk
        · exact hk

/-- whatever the probe loop records is the ECU's answer, in the session the loop started in, to a probe
    of that service id, and it is a meaningful answer -/
theorem probeLens_some {e : Ecu σ} (E : SessEcu e) (sid : Nat) (hs : sid < 256) (ls : List Nat) (s : σ) (a : Ans)
    (h : (probeLens e sid ls s).1 = some a) :
    ∃ l ∈ ls, a = E.ans (E.sess s) (probePdu sid l) ∧ a.meaningful = true := by
  induction ls generalizing s with
  | nil => simp [probeLens] at h
  | cons l ls ih =>
    have hk := probe_keeps_session E s sid l hs
    have hans := E.step_ans s (probePdu sid l)
    simp only [probeLens] at h
    cases ha : (e.step s (probePdu sid l)).2 with
    | timeout =>
      rw [ha] at h; simp only [] at h
      obtain ⟨l', hl', h1, h2⟩ := ih _ h
      exact ⟨l', by simp [hl'], by rw [h1, hk], h2⟩
    | illegal =>
      rw [ha] at h; simp only [] at h
      obtain ⟨l', hl', h1, h2⟩ := ih _ h
      exact ⟨l', by simp [hl'], by rw [h1, hk], h2⟩
    | pos p =>
      rw [ha] at h; simp only [] at h
      injection h with h
      exact ⟨l, by simp, by rw [← h, ← hans, ha], by rw [← h]; rfl⟩
    | neg c =>
      rw [ha] at h; simp only [] at h
      split at h
      · simp at h
      · rename_i hns
        split at h
        · obtain ⟨l', hl', h1, h2⟩ := ih _ h
          exact ⟨l', by simp [hl'], by rw [h1, hk], h2⟩
        · rename_i hne
          injection h with h
          refine ⟨l, by simp, by rw [← h, ← hans, ha], ?_⟩
          have hns' : ¬ c ∈ serviceNotSupportedCodes := by simpa using hns
          rw [← h]; simp [Ans.meaningful, hns', hne]

/-- if no answer of the service says "not supported" and some probe length is answered meaningfully,
    the probe loop records the service -/
theorem probeLens_complete {e : Ecu σ} (E : SessEcu e) (sid : Nat) (hs : sid < 256) (ls : List Nat) (s : σ)
    (hsup : ∀ l ∈ ls, (E.ans (E.sess s) (probePdu sid l)).notSupported = false)
    (hm : ∃ l ∈ ls, (E.ans (E.sess s) (probePdu sid l)).meaningful = true) :
    ((probeLens e sid ls s).1).isSome = true := by
  induction ls generalizing s with
  | nil => simp at hm
  | cons l ls ih =>
    have hk := probe_keeps_session E s sid l hs
    have hans := E.step_ans s (probePdu sid l)
    have hrest : ∀ (hnm : (E.ans (E.sess s) (probePdu sid l)).meaningful = false),
        ((probeLens e sid ls (e.step s (probePdu sid l)).1).1).isSome = true := by
      intro hnm
      apply ih
      · intro l' hl'; rw [hk]; exact hsup l' (by simp [hl'])
      · obtain ⟨l', hl', h⟩ := hm
        simp only [List.mem_cons] at hl'
        rcases hl' with rfl | hl'
        · rw [hnm] at h; cases h
        · exact ⟨l', hl', by rw [hk]; exact h⟩
    simp only [probeLens]
    cases ha : (e.step s (probePdu sid l)).2 with
    | timeout =>
      simp only []; apply hrest; rw [← hans, ha]; rfl
    | illegal =>
      simp only []; apply hrest; rw [← hans, ha]; rfl
    | pos p => simp
    | neg c =>
      simp only []
      have hns := hsup l (by simp)
      rw [← hans, ha] at hns
      simp only [Ans.notSupported] at hns
      split
      · rename_i hc; rw [hc] at hns; cases hns
      · split
        · rename_i hc
          apply hrest; rw [← hans, ha]; simp [Ans.meaningful, hc]
        · simp

end Gallia.Scans

namespace Gallia.Scans
open Gallia
variable {σ : Type}

/-- unfolding of one iteration of `perform_scan` when `--check-session` is off -/
theorem performScanFrom_cons_nocheck (e : Ecu σ) (cfg : SvcCfg) (hc : cfg.checkSession = false)
    (session : Option Nat) (sid : Nat) (rest : List Nat) (s : σ) :
    performScanFrom e cfg session (sid :: rest) s =
      if !sidSelected cfg session sid then performScanFrom e cfg session rest s
      else
        match performScanFrom e cfg session rest (probeLens e sid probeLengths s).2.2 with
        | .raised w => .raised w
        | .ok out =>
          .ok ⟨(match (probeLens e sid probeLengths s).1 with | some a => [(sid, a)] | none => []) ++ out.found,
               (probeLens e sid probeLengths s).2.1 && out.clean, out.state⟩ := by
  simp only [performScanFrom, hc]
  split
  · rfl
  · cases session <;> simp <;> rfl

/-- soundness, completeness and session preservation of `perform_scan` (check-session off) in one invariant -/
theorem performScanFrom_spec {e : Ecu σ} (E : SessEcu e) (supp : Nat → Nat → Bool) (R : IsoServiceRule E.ans supp)
    (cfg : SvcCfg) (hc : cfg.checkSession = false) (session : Option Nat) (sids : List Nat)
    (hs : ∀ sid ∈ sids, sid < 256) (s : σ) :
    ∃ out, performScanFrom e cfg session sids s = .ok out ∧
      E.sess out.state = E.sess s ∧
      (∀ p ∈ out.found, p.1 ∈ sids ∧ sidSelected cfg session p.1 = true ∧ supp (E.sess s) p.1 = true ∧
          p.2.meaningful = true ∧ ∃ l ∈ probeLengths, p.2 = E.ans (E.sess s) (probePdu p.1 l)) ∧
      (∀ sid ∈ sids, sidSelected cfg session sid = true → supp (E.sess s) sid = true →
          (∃ l ∈ probeLengths, (E.ans (E.sess s) (probePdu sid l)).meaningful = true) →
          sid ∈ out.found.map (·.1)) := by
  induction sids generalizing s with
  | nil => exact ⟨⟨[], true, s⟩, by simp [performScanFrom], rfl, by simp, by simp⟩
  | cons sid rest ih =>
    have hsid : sid < 256 := hs sid (by simp)
    have hrest : ∀ x ∈ rest, x < 256 := fun x hx => hs x (by simp [hx])
    rw [performScanFrom_cons_nocheck e cfg hc]
    by_cases hsel : sidSelected cfg session sid = true
    · simp only [hsel, Bool.not_true, Bool.false_eq_true, ite_false]
      have hk := probeLens_session E sid hsid probeLengths s
      obtain ⟨out, hout, hsess, hsound, hcompl⟩ := ih hrest (probeLens e sid probeLengths s).2.2
      rw [hout]
      refine ⟨_, rfl, by simpa [hk] using hsess, ?_, ?_⟩
      · intro p hp
        simp only [List.mem_append] at hp
        rcases hp with hp | hp
        · cases hr : (probeLens e sid probeLengths s).1 with
          | none => rw [hr] at hp; simp at hp
          | some a =>
            rw [hr] at hp; simp at hp; subst hp
            obtain ⟨l, hl, ha, hm⟩ := probeLens_some E sid hsid probeLengths s a hr
            refine ⟨by simp, hsel, ?_, hm, l, hl, ha⟩
            -- a meaningful answer is not a "not supported" answer, so the service is in the table
            cases hsup : supp (E.sess s) sid with
            | true => rfl
            | false =>
              have := R.unsupported _ sid (probePdu sid l) hsid hsup (probePdu_head sid l)
              rw [← ha] at this
              cases a with
              | pos _ => simp [Ans.notSupported] at this
              | neg c =>
                simp only [Ans.notSupported] at this
                simp only [Ans.meaningful, this] at hm
                simp at hm
              | timeout => simp [Ans.notSupported] at this
              | illegal => simp [Ans.notSupported] at this
        · obtain ⟨h1, h2, h3, h4, h5⟩ := hsound p hp
          rw [hk] at h3 h5
          exact ⟨by simp [h1], h2, h3, h4, h5⟩
      · intro sid' hmem hsel' hsup' hm'
        simp only [List.mem_cons] at hmem
        simp only [List.map_append, List.mem_append]
        rcases hmem with rfl | hmem
        · left
          have := probeLens_complete E sid' hsid probeLengths s
            (fun l _ => R.supported _ sid' _ hsid hsup' (probePdu_head sid' l)) hm'
          cases hr : (probeLens e sid' probeLengths s).1 with
          | none => rw [hr] at this; cases this
          | some a => simp
        · right
          exact hcompl sid' hmem hsel' (by rw [hk]; exact hsup') (by rw [hk]; exact hm')
    · have hsel' : sidSelected cfg session sid = false := by simpa using hsel
      simp only [hsel', Bool.not_false, ite_true]
      obtain ⟨out, hout, hsess, hsound, hcompl⟩ := ih hrest s
      refine ⟨out, hout, hsess, ?_, ?_⟩
      · intro p hp
        obtain ⟨h1, h2⟩ := hsound p hp
        exact ⟨by simp [h1], h2⟩
      · intro sid' hmem hs1 hs2 hs3
        simp only [List.mem_cons] at hmem
        rcases hmem with rfl | hmem
        · rw [hsel'] at hs1; cases hs1
        · exact hcompl sid' hmem hs1 hs2 hs3

end Gallia.Scans

namespace Gallia.Scans
open Gallia
variable {σ : Type}

theorem allSids_lt : ∀ sid ∈ allSids, sid < 256 := by
  intro sid h; simpa [allSids] using h

/-- the session loop of the service scan (check-session off): always completes; every reported pair is a
    service the ECU implements in the session it was found in; and every session that was entered is scanned
    completely -/
theorem svcSessions_spec {e : Ecu σ} (E : SessEcu e) (supp : Nat → Nat → Bool) (R : IsoServiceRule E.ans supp)
    (cfg : SvcCfg) (hc : cfg.checkSession = false) (sessions : List Nat) (hlt : ∀ k ∈ sessions, k < 0x80) (s : σ) :
    ∃ r, svcSessions e cfg sessions s = .ok r ∧
      (∀ p ∈ r.result, p.1 ∈ sessions ∧ p.2 < 256 ∧ sidSelected cfg (some p.1) p.2 = true ∧ supp p.1 p.2 = true) ∧
      ((∀ ss t, t ∈ sessions → (E.ans ss (dscPdu t)).isPos = true) →
        ∀ k ∈ sessions, ∀ sid, sid < 256 → sidSelected cfg (some k) sid = true → supp k sid = true →
          (∃ l ∈ probeLengths, (E.ans k (probePdu sid l)).meaningful = true) → (k, sid) ∈ r.result) := by
  induction sessions generalizing s with
  | nil => exact ⟨⟨[], true, s⟩, by simp [svcSessions], by simp, by simp⟩
  | cons k rest ih =>
    have hk : k < 0x80 := hlt k (by simp)
    have hrest : ∀ x ∈ rest, x < 0x80 := fun x hx => hlt x (by simp [hx])
    have hans := E.step_ans s (dscPdu k)
    simp only [svcSessions]
    cases ha : (e.step s (dscPdu k)).2 with
    | pos pdu =>
      simp only []
      have hpos : (E.ans (E.sess s) (dscPdu k)).isPos = true := by rw [← hans, ha]; rfl
      have hsess := E.dsc_pos s k hk hpos
      obtain ⟨out, hout, hso, hsound, hcompl⟩ :=
        performScanFrom_spec E supp R cfg hc (some k) allSids allSids_lt (e.step s (dscPdu k)).1
      simp only [performScan, hout]
      obtain ⟨r, hr, hrs, hrc⟩ := ih hrest out.state
      rw [hr]
      refine ⟨_, rfl, ?_, ?_⟩
      · intro p hp
        simp only [List.mem_append, List.mem_map] at hp
        rcases hp with ⟨q, hq, rfl⟩ | hp
        · obtain ⟨h1, h2, h3, _⟩ := hsound q hq
          rw [hsess] at h3
          exact ⟨by simp, allSids_lt _ h1, h2, h3⟩
        · obtain ⟨h1, h2⟩ := hrs p hp
          exact ⟨by simp [h1], h2⟩
      · intro hall k' hk' sid hsid hsel hsup hm
        simp only [List.mem_append, List.mem_map]
        simp only [List.mem_cons] at hk'
        by_cases hkk : k' = k
        · subst hkk
          left
          have := hcompl sid (by simp [allSids, hsid]) hsel (by rw [hsess]; exact hsup) (by rw [hsess]; exact hm)
          simp only [List.mem_map] at this
          obtain ⟨q, hq, rfl⟩ := this
          exact ⟨q, hq, rfl⟩
        · right
          rcases hk' with rfl | hk'
          · exact absurd rfl hkk
          · exact hrc (fun ss t ht => hall ss t (by simp [ht])) k' hk' sid hsid hsel hsup hm
    | neg c =>
      simp only []
      obtain ⟨r, hr, hrs, hrc⟩ := ih hrest (e.step s (dscPdu k)).1
      rw [hr]
      refine ⟨_, rfl, ?_, ?_⟩
      · intro p hp; obtain ⟨h1, h2⟩ := hrs p hp; exact ⟨by simp [h1], h2⟩
      · intro hall; have := hall (E.sess s) k (by simp); rw [← hans, ha] at this; cases this
    | timeout =>
      simp only []
      obtain ⟨r, hr, hrs, hrc⟩ := ih hrest (e.step s (dscPdu k)).1
      rw [hr]
      refine ⟨_, rfl, ?_, ?_⟩
      · intro p hp; obtain ⟨h1, h2⟩ := hrs p hp; exact ⟨by simp [h1], h2⟩
      · intro hall; have := hall (E.sess s) k (by simp); rw [← hans, ha] at this; cases this
    | illegal =>
      simp only []
      obtain ⟨r, hr, hrs, hrc⟩ := ih hrest (e.step s (dscPdu k)).1
      rw [hr]
      refine ⟨_, rfl, ?_, ?_⟩
      · intro p hp; obtain ⟨h1, h2⟩ := hrs p hp; exact ⟨by simp [h1], h2⟩
      · intro hall; have := hall (E.sess s) k (by simp); rw [← hans, ha] at this; cases this

end Gallia.Scans

namespace Gallia.Scans
open Gallia
variable {σ : Type}

/-! ### which requests go on the wire: a logging wrapper around any ECU -/

/-- the same ECU, remembering every request it was sent (newest first) -/
def logged (e : Ecu σ) : Ecu (σ × List Bytes) where
  step s p := (((e.step s.1 p).1, p :: s.2), (e.step s.1 p).2)

theorem probeLens_log (e : Ecu σ) (sid : Nat) (ls : List Nat) (s : σ × List Bytes) :
    ∃ new, (probeLens (logged e) sid ls s).2.2.2 = new ++ s.2 ∧
      (∀ r ∈ new, ∃ l ∈ ls, r = probePdu sid l) ∧
      (∀ l rest, ls = l :: rest → probePdu sid l ∈ new) := by
  induction ls generalizing s with
  | nil => exact ⟨[], by simp [probeLens], by simp, by simp⟩
  | cons l ls ih =>
    obtain ⟨new, h1, h2, _⟩ := ih ((logged e).step s (probePdu sid l)).1
    have hlog : ((logged e).step s (probePdu sid l)).1.2 = probePdu sid l :: s.2 := rfl
    have hgo : ∃ new', (probeLens (logged e) sid ls ((logged e).step s (probePdu sid l)).1).2.2.2 = new' ++ s.2 ∧
        (∀ r ∈ new', ∃ l' ∈ l :: ls, r = probePdu sid l') ∧ probePdu sid l ∈ new' := by
      refine ⟨new ++ [probePdu sid l], by rw [h1, hlog]; simp, ?_, by simp⟩
      intro r hr
      simp only [List.mem_append, List.mem_singleton] at hr
      rcases hr with hr | rfl
      · obtain ⟨l', hl', e'⟩ := h2 r hr; exact ⟨l', by simp [hl'], e'⟩
      · exact ⟨l, by simp, rfl⟩
    have hstop : ∃ new', ((logged e).step s (probePdu sid l)).1.2 = new' ++ s.2 ∧
        (∀ r ∈ new', ∃ l' ∈ l :: ls, r = probePdu sid l') ∧ probePdu sid l ∈ new' :=
      ⟨[probePdu sid l], by simp [hlog], by intro r hr; simp at hr; exact ⟨l, by simp, hr⟩, by simp⟩
    have wrap : ∀ {x : List Bytes}, (∃ new', x = new' ++ s.2 ∧ (∀ r ∈ new', ∃ l' ∈ l :: ls, r = probePdu sid l') ∧
        probePdu sid l ∈ new') → ∃ new', x = new' ++ s.2 ∧ (∀ r ∈ new', ∃ l' ∈ l :: ls, r = probePdu sid l') ∧
        (∀ l0 rest, l :: ls = l0 :: rest → probePdu sid l0 ∈ new') := by
      rintro x ⟨n, a, b', c⟩
      exact ⟨n, a, b', by intro l0 rest h; injection h with h _; subst h; exact c⟩
    simp only [probeLens]
    cases ha : ((logged e).step s (probePdu sid l)).2 with
    | timeout => exact wrap hgo
    | illegal => exact wrap hgo
    | pos p => exact wrap hstop
    | neg c =>
      simp only []
      split
      · exact wrap hstop
      · split
        · exact wrap hgo
        · exact wrap hstop

/-- requests of `perform_scan` (check-session off): only probes of selected service ids, and the first
    probe of every selected service id -/
theorem performScanFrom_log (e : Ecu σ) (cfg : SvcCfg) (hc : cfg.checkSession = false) (session : Option Nat)
    (sids : List Nat) (s : σ × List Bytes) :
    ∃ out new, performScanFrom (logged e) cfg session sids s = .ok out ∧ out.state.2 = new ++ s.2 ∧
      (∀ r ∈ new, ∃ sid ∈ sids, sidSelected cfg session sid = true ∧ ∃ l ∈ probeLengths, r = probePdu sid l) ∧
      (∀ sid ∈ sids, sidSelected cfg session sid = true → probePdu sid 1 ∈ new) := by
  induction sids generalizing s with
  | nil => exact ⟨⟨[], true, s⟩, [], by simp [performScanFrom], by simp, by simp, by simp⟩
  | cons sid rest ih =>
    rw [performScanFrom_cons_nocheck _ cfg hc]
    by_cases hsel : sidSelected cfg session sid = true
    · simp only [hsel, Bool.not_true, Bool.false_eq_true, ite_false]
      obtain ⟨n1, h1, h2, h3⟩ := probeLens_log e sid probeLengths s
      obtain ⟨out, n2, ho, hl, ha, hb⟩ := ih (probeLens (logged e) sid probeLengths s).2.2
      rw [ho]
      refine ⟨_, n2 ++ n1, rfl, by simp only []; rw [hl, h1]; simp, ?_, ?_⟩
      · intro r hr
        simp only [List.mem_append] at hr
        rcases hr with hr | hr
        · obtain ⟨sid', hs', rest'⟩ := ha r hr; exact ⟨sid', by simp [hs'], rest'⟩
        · obtain ⟨l, hl', e'⟩ := h2 r hr; exact ⟨sid, by simp, hsel, l, hl', e'⟩
      · intro sid' hm hs'
        simp only [List.mem_cons] at hm
        simp only [List.mem_append]
        rcases hm with rfl | hm
        · right; exact h3 1 [2, 3, 5] rfl
        · left; exact hb sid' hm hs'
    · have hsel' : sidSelected cfg session sid = false := by simpa using hsel
      simp only [hsel', Bool.not_false, ite_true]
      obtain ⟨out, n2, ho, hl, ha, hb⟩ := ih s
      refine ⟨out, n2, ho, hl, ?_, ?_⟩
      · intro r hr; obtain ⟨sid', hs', rest'⟩ := ha r hr; exact ⟨sid', by simp [hs'], rest'⟩
      · intro sid' hm hs'
        simp only [List.mem_cons] at hm
        rcases hm with rfl | hm
        · rw [hsel'] at hs'; cases hs'
        · exact hb sid' hm hs'

/-! ### identifier scan -/

theorem mem_idPairs (cfg : IdCfg) (did sf : Nat) :
    (did, sf) ∈ idPairs cfg ↔ cfg.start ≤ did ∧ did ≤ effectiveEnd cfg ∧ sf ∈ subFunctions cfg := by
  simp only [idPairs, List.mem_flatMap, List.mem_map, List.mem_range]
  constructor
  · rintro ⟨d, ⟨k, hk, rfl⟩, sf', hsf, h⟩
    injection h with h1 h2; subst h1 h2
    exact ⟨by omega, by omega, hsf⟩
  · rintro ⟨h1, h2, h3⟩
    exact ⟨did, ⟨did - cfg.start, by omega, by omega⟩, sf, h3, rfl⟩

/-- unfolding of one iteration of the identifier loop when `--check-session` is off -/
theorem idLoop_cons_nocheck (e : Ecu σ) (cfg : IdCfg) (hc : cfg.checkSession = none) (session : Option Nat)
    (did sf : Nat) (rest : List (Nat × Nat)) (c : IdCount) (s : σ) :
    idLoop e cfg session ((did, sf) :: rest) c s =
      if skipped cfg.skip session did then idLoop e cfg session rest c s
      else
        match (e.step s (idPdu cfg did sf)).2 with
        | .timeout => idLoop e cfg session rest c.addTo (e.step s (idPdu cfg did sf)).1
        | .illegal => idLoop e cfg session rest c (e.step s (idPdu cfg did sf)).1
        | .pos _ => idLoop e cfg session rest c.addPos (e.step s (idPdu cfg did sf)).1
        | .neg code =>
          if serviceNotSupportedCodes.contains code then
            if cfg.skipNotSupported then .ok ⟨c, true, (e.step s (idPdu cfg did sf)).1⟩
            else idLoop e cfg session rest c (e.step s (idPdu cfg did sf)).1
          else if code = ROOR ∨ code = SFNS then idLoop e cfg session rest c (e.step s (idPdu cfg did sf)).1
          else idLoop e cfg session rest c.addAbn (e.step s (idPdu cfg did sf)).1 := by
  simp only [idLoop, hc]
  split
  · rfl
  · cases session <;> simp <;> rfl

theorem idPdu_head (cfg : IdCfg) (did sf : Nat) : (idPdu cfg did sf).head? = some (b cfg.service) := by
  unfold idPdu; split
  · simp
  · split <;> simp

/-- the identifier loop on a session-determined ECU (check-session and skip-not-supported off, scanned service
    not 0x10 / 0x11): it completes, stays in the session, sends exactly the requests of the non-skipped
    (identifier, sub-function) pairs in order, and its positive counter grows by exactly the number of those
    pairs the ECU answers positively -/
theorem idLoop_spec {e : Ecu σ} (E : SessEcu e) (cfg : IdCfg) (hc : cfg.checkSession = none)
    (hns : cfg.skipNotSupported = false) (hsvc : cfg.service < 256) (h10 : cfg.service ≠ 0x10) (h11 : cfg.service ≠ 0x11)
    (session : Option Nat) (pairs : List (Nat × Nat)) (c : IdCount) (s : σ × List Bytes) :
    ∃ out, idLoop (logged e) cfg session pairs c s = .ok out ∧ out.completed = true ∧
      E.sess out.state.1 = E.sess s.1 ∧
      out.state.2 = ((pairs.filter fun p => !skipped cfg.skip session p.1).map fun p => idPdu cfg p.1 p.2).reverse ++ s.2 ∧
      out.counts.positive = c.positive +
        (pairs.filter fun p => !skipped cfg.skip session p.1 && (E.ans (E.sess s.1) (idPdu cfg p.1 p.2)).isPos).length := by
  induction pairs generalizing c s with
  | nil => exact ⟨⟨c, true, s⟩, by simp [idLoop], rfl, rfl, by simp, by simp⟩
  | cons p rest ih =>
    obtain ⟨did, sf⟩ := p
    rw [idLoop_cons_nocheck _ cfg hc]
    by_cases hsk : skipped cfg.skip session did = true
    · simp only [hsk, ite_true]
      obtain ⟨out, h1, h2, h3, h4, h5⟩ := ih c s
      exact ⟨out, h1, h2, h3, by simp [hsk, h4], by simp [hsk, h5]⟩
    · have hsk' : skipped cfg.skip session did = false := by simpa using hsk
      simp only [hsk', Bool.false_eq_true, ite_false]
      have hkeep : E.sess ((logged e).step s (idPdu cfg did sf)).1.1 = E.sess s.1 := by
        show E.sess (e.step s.1 (idPdu cfg did sf)).1 = E.sess s.1
        apply E.sess_keep
        · rw [idPdu_head]; intro h; injection h with h; exact h10 (b_inj hsvc (by decide) h)
        · rw [idPdu_head]; intro h; injection h with h; exact h11 (b_inj hsvc (by decide) h)
      have hans : ((logged e).step s (idPdu cfg did sf)).2 = E.ans (E.sess s.1) (idPdu cfg did sf) :=
        E.step_ans s.1 _
      have hlog : ((logged e).step s (idPdu cfg did sf)).1.2 = idPdu cfg did sf :: s.2 := rfl
      have fin : ∀ (c' : IdCount) (isp : Bool), (E.ans (E.sess s.1) (idPdu cfg did sf)).isPos = isp →
          c'.positive = c.positive + (if isp then 1 else 0) →
          ∃ out, idLoop (logged e) cfg session rest c' ((logged e).step s (idPdu cfg did sf)).1 = .ok out ∧
            out.completed = true ∧ E.sess out.state.1 = E.sess s.1 ∧
            out.state.2 = ((((did, sf) :: rest).filter fun p => !skipped cfg.skip session p.1).map
                fun p => idPdu cfg p.1 p.2).reverse ++ s.2 ∧
            out.counts.positive = c.positive + (((did, sf) :: rest).filter fun p =>
                !skipped cfg.skip session p.1 && (E.ans (E.sess s.1) (idPdu cfg p.1 p.2)).isPos).length := by
        intro c' isp hisp hc'
        obtain ⟨out, h1, h2, h3, h4, h5⟩ := ih c' ((logged e).step s (idPdu cfg did sf)).1
        refine ⟨out, h1, h2, by rw [h3, hkeep], ?_, ?_⟩
        · rw [h4, hlog]; simp [List.filter_cons, hsk']
        · rw [h5, hkeep, hc']
          cases isp <;> simp [List.filter_cons, hsk', hisp] <;> omega
      cases ha : ((logged e).step s (idPdu cfg did sf)).2 with
      | timeout => exact fin _ false (by rw [← hans, ha]; rfl) (by simp [IdCount.addTo])
      | illegal => exact fin _ false (by rw [← hans, ha]; rfl) (by simp)
      | pos pdu => exact fin _ true (by rw [← hans, ha]; rfl) (by simp [IdCount.addPos])
      | neg code =>
        simp only [hns, Bool.false_eq_true, ite_false]
        split
        · exact fin _ false (by rw [← hans, ha]; rfl) (by simp)
        · split
          · exact fin _ false (by rw [← hans, ha]; rfl) (by simp)
          · exact fin _ false (by rw [← hans, ha]; rfl) (by simp [IdCount.addAbn])

end Gallia.Scans
